# C20 - separate documents are isolated, sequentially and across threads.
# Proof: Props/Properties_C20.v (Sys/Heap.v model; frame theorem, locality and schedule independence for the code
# as it is (fresh nulls, /repo fix b456e5d1); historical witnesses for the shared-null discipline of the tree before
# that fix (finding D6); disjoint write footprints (Sys/Race.v); every mutable static of the compiled library audited
# (Gen/Globals.v generated from libqpdf.a by harness/translate_globals.py, Sys/GlobalAudit.v)).
# Tie: (seq)  random API histories over 2-3 live documents + fresh-parse probes run in-process by
#             harness/drv_isolation.cc against the extracted model; after EVERY step the dump (unparse + JSON)
#             of every other document, of every handle obtained from another document and of a fresh parse
#             must be unchanged;
#      (alias) histories over storage that several parties CAN reach (Sys/HeapShare.v: template values in several documents,
#             direct values moved between documents, streams whose foreign copies share a Buffer, Buffers handed to the
#             caller and edited in place) against the second extracted model; after EVERY step unparse / stream data / JSON /
#             QPDFWriter bytes of every other document, every retained handle and every other Buffer must be unchanged;
#      (solo) the history restricted to one document must give that document the same dumps;
#      (file) bystander check on real PDF files (processMemoryFile, writeJSON, QPDFWriter, copyForeignObject);
#      (thr)  N threads x independent jobs under ThreadSanitizer, outputs compared with the solo runs.
# Environment knobs (experiments only): VERIF_C20_SKIP_THR=1 skips the ThreadSanitizer part (its first run builds
# /repo a second time with -fsanitize=thread); the model is the one WITHOUT the
# shared cells... now the default; VERIF_C20_MODEL=old compares the library with the HISTORICAL shared-null model
# (a scratch copy of /repo with fix b456e5d1 reverted must then agree with it).
import json, os, re, subprocess
import common, pdfgen

ASSUMPTIONS = [
    "the theorems quantify over all interleavings of the MODEL's steps; the implementation's interleavings are only sampled and ThreadSanitizer only sees executed paths",
    "the first heap model (Sys/Heap.v, disjoint arenas) covers parse / makeIndirectObject / replaceKey / removeKey / appendItem / setArrayItem / eraseItem / replaceObject / ~QPDF on null, bool, integer, name, array (dense and sparse), dictionary, reference; the second (Sys/HeapShare.v, shared storage) adds context-free parse, handles of other parties as values, unfiltered streams of every provenance, newStream / replaceStreamData / copyForeignObject of objects without indirect parts / getRawStreamData / getStreamData / QPDFWriter memory output / in-place edits of handed-out Buffers; strings, reals, filtered streams, page helpers and the writer's bytes are covered by the implementation-side bystander oracles only",
    "hx_frame_other_parties has the premise that no document sees another document's indirect objects (xsep_b); the extracted test runs on every world the histories reach (a failure is reported), its preservation is not proved; model closures have depth <= 41, the generator nests far less",
    "the alias alphabet only edits in place what no other party can reach, never writes into a Buffer after passing it to replaceStreamData(shared_ptr<Buffer>), leaves /Length out of dumps (derived data), and the driver keeps destroyed documents' storage allocated (dangling QPDF* of unattached direct objects is compared by address in checkOwnership)",
    "operations of one document only use handles obtained from that document (the property's premise); the driver enforces it by tagging every held handle",
]

HASH = re.compile(r"j[0-9a-f]{16}")
SIG_SEQ = "C20:shared-static-null"
SIG_RACE = "C20:shared-static-null-race"
SIG_PROVIDER = "C20:copied-provider-stream-needs-source"


# ------------------------------------------------------------------ history generator

KEYS = "ABCDK"


def gen_tree(rng, depth, nulls, refs, sparse=False):
    """returns (token list, shape); shape = ('a', [shapes]) | ('d', {key: shape}) | ('s',) | ('n',)"""
    k = rng.random()
    if depth > 0 and k < 0.45:
        if rng.random() < 0.55:
            n = rng.randint(0, 4)
            toks, kids = ["["], []
            for _ in range(n):
                t, s = gen_tree(rng, depth - 1, nulls, refs)
                toks += t
                kids.append(s)
            if sparse:
                z = rng.choice([101, 101, 102, 120])
                at = rng.randint(0, len(kids))
                toks = ["["] + sum([x for x in [gen_tree(rng, 0, nulls, refs)[0] for _ in range(at)]], []) + ["z%d" % z] + \
                    sum([x for x in [gen_tree(rng, 0, nulls, refs)[0] for _ in range(rng.randint(0, 2))]], [])
                kids = [("s",)] * 140      # only leaves; indices beyond the real size are guarded (skip)
            return toks + ["]"], ("a", kids)
        n = rng.randint(0, 3)
        toks, kids = ["<"], {}
        for _ in range(n):
            key = rng.choice(KEYS)
            t, s = gen_tree(rng, depth - 1, nulls, refs)
            toks += ["N" + key] + t
            kids[key] = s
        return toks + [">"], ("d", kids)
    k = rng.random()
    if nulls and k < 0.3:
        return ["n"], ("n",)
    if refs and k < 0.42:
        return ["r%d" % rng.randint(3, 8)], ("s",)
    if k < 0.7:
        return ["i%d" % rng.randint(-3, 40)], ("s",)
    if k < 0.85:
        return ["N" + rng.choice(KEYS)], ("s",)
    return [rng.choice("tf")], ("s",)


def gen_root(rng, nulls, refs, sparse):
    while True:
        t, s = gen_tree(rng, 3, nulls, refs, sparse)
        if s[0] in ("a", "d"):
            return t, s


def rand_path(rng, shape, want_leaf=False, maxlen=3):
    """a path into shape; returns (steps, shape at the end)"""
    steps = []
    cur = shape
    for _ in range(maxlen):
        if cur[0] == "a" and cur[1] and (want_leaf or rng.random() < 0.7):
            i = rng.randrange(len(cur[1])) if rng.random() < 0.93 else len(cur[1])
            steps.append(("v%d" if rng.random() < 0.3 else "i%d") % i)
            cur = cur[1][i] if i < len(cur[1]) else ("s",)
        elif cur[0] == "d" and (want_leaf or rng.random() < 0.7):
            key = rng.choice(sorted(cur[1])) if cur[1] and rng.random() < 0.85 else rng.choice(KEYS)
            steps.append("k" + key)
            cur = cur[1].get(key, ("n",))
        else:
            break
    return steps, cur


def gen_history(rng, flavour):
    """flavour: 'clean' (no null tokens: the shared cells are never reachable), 'nulls', 'sparse'"""
    nulls = flavour != "clean"
    ndocs = rng.choice([2, 2, 3])
    docs = list(range(1, ndocs + 1))           # documents are numbered from 1
    ops = ["D,%d" % d for d in docs]
    roots = {d: {} for d in docs}              # doc -> root number -> shape
    alive = set(docs)
    nobj = {d: 2 for d in docs}
    nsteps = rng.randint(6, 22)

    def hx(d, want_container=None, leaf=False):
        rs = roots[d]
        if rs and rng.random() < 0.8:
            r = rng.choice(sorted(rs))
            steps, end = rand_path(rng, rs[r], want_leaf=leaf)
            return "/".join(["r%d" % r] + steps), end
        if nobj[d] >= 3 and rng.random() < 0.8:
            return "o%d" % rng.randint(3, nobj[d] + (1 if rng.random() < 0.1 else 0)), ("s",)
        return "r%d" % (10 * d + rng.randint(0, 9)), ("s",)

    def vx(d):
        k = rng.random()
        if k < 0.45:
            return rng.choice(["I%d" % rng.randint(0, 99), "U", "Y" + rng.choice(KEYS), "B", "G"])
        return hx(d, leaf=True)[0]

    for _ in range(nsteps):
        d = rng.choice(sorted(alive)) if alive and rng.random() < 0.95 else rng.choice(docs)
        k = rng.random()
        if k < 0.22 or not roots[d]:
            r = 10 * d + rng.randint(0, 9)
            t, s = gen_root(rng, nulls, rng.random() < 0.6, flavour == "sparse" and rng.random() < 0.5)
            ops.append("P,%d,%d,%s" % (d, r, ".".join(t)))
            roots[d][r] = s
            nobj[d] = max([nobj[d]] + [int(x[1:]) for x in t if x[0] == "r"])
        elif k < 0.40:
            h, end = hx(d, leaf=nulls and rng.random() < 0.6)
            ops.append("M,%d,%s" % (d, h))
            nobj[d] += 1
        elif k < 0.50:
            ops.append("K,%d,%s,%s,%s" % (d, hx(d)[0], rng.choice(KEYS), vx(d)))
        elif k < 0.54:
            ops.append("R,%d,%s,%s" % (d, hx(d)[0], rng.choice(KEYS)))
        elif k < 0.64:
            ops.append("A,%d,%s,%s" % (d, hx(d)[0], vx(d)))
        elif k < 0.71:
            ops.append("S,%d,%s,%d,%s" % (d, hx(d)[0], rng.randint(0, 4), vx(d)))
        elif k < 0.75:
            ops.append("E,%d,%s,%d" % (d, hx(d)[0], rng.randint(0, 4)))
        elif k < 0.84:
            if nobj[d] >= 3:
                ops.append("O,%d,%d,%s" % (d, rng.randint(3, nobj[d]), vx(d) if rng.random() < 0.6 else hx(d)[0]))
        elif k < 0.90:
            ops.append("H,%d,%d,%s" % (d, 10 * d + rng.randint(0, 9), hx(d)[0]))
        elif k < 0.93:
            ops.append("X,%d" % d)
            alive.discard(d)
        elif k < 0.97:
            ops.append("W,%d%s" % (d, rng.choice(["", ",q"])))
        else:
            ops.append("J,%d" % d)
    return ";".join(ops)


CORPUS = [
    # finding D6 (fixed by b456e5d1) as in DESIGN section 6: one parsed null made indirect in document 1; kept as regression corpus
    "D,1;D,2;P,1,11,[.n.i1.];P,2,21,<.NK.[.n.i2.].>;M,1,r11/i0",
    # ... then replaced: every parsed null of every document is the integer 7, and destroyed with document 1
    "D,1;D,2;P,1,11,[.n.i1.];P,2,21,<.NK.[.n.i2.].NA.n.>;M,1,r11/i0;O,1,3,I7;X,1",
    # QPDF_Array.cc null_oh: a hole of a sparse array read through getArrayAsVector
    "D,1;D,2;P,1,11,[.n.i1.r7.];P,2,21,[.z101.i5.];M,2,r21/v0;H,2,22,r21/v1;M,1,r11;W,1;J,2;A,2,r21,U;A,1,r11,I4",
    # ownership check trips in the OTHER document
    "D,1;D,2;P,1,11,[.n.];P,2,21,[.n.i3.];M,1,r11/i0;A,2,r21,r21/i0",
    "D,1;D,2;P,1,11,<.NA.n.NB.i1.>;P,2,21,<.NA.n.>;O,1,3,r11/kA;M,1,r11/kA;K,2,r21,B,r21/kA",
    # the shared null becomes a reference into document 1; document 2 then navigates through it
    "D,1;D,2;P,1,11,[.n.<.NA.i1.>.];P,2,21,[.n.];M,1,r11/i1;O,1,3,r11/i0;K,2,r21/i0,B,I5;H,2,22,r21/i0/kA",
]


# ------------------------------------------------------------------ dump parsing and the frame check

SEG = re.compile(r"(?:^| )(d\d+\{|r\d+@\d+=|F=)")


def parse_steps(line):
    """-> list of (result, {segment key: text}) ; keys 'd<k>', 'r<k>@<d>', 'F' (works with and without the JSON hashes)"""
    out = []
    for st in line.split("#"):
        if "|" not in st:
            return None
        res, dump = st.split("|", 1)
        segs = {}
        starts = [(m.start(1), m.group(1)) for m in SEG.finditer(dump)]
        for n, (pos, head) in enumerate(starts):
            end = starts[n + 1][0] if n + 1 < len(starts) else len(dump)
            segs[head[:-1]] = dump[pos:end].strip()
        out.append((res, segs))
    return out


def seg_doc(key):
    if key == "F":
        return None
    if key[0] == "d":
        return int(key[1:])
    return int(key.split("@")[1])


def frame_violations(hist, steps):
    """[(step index, op, segment key, before, after)]: segments of other documents / fresh parse that changed"""
    ops = [o for o in hist.split(";") if o]
    bad = []
    for i, op in enumerate(ops):
        f = op.split(",")
        a = int(f[1])
        before, after = steps[i][1], steps[i + 1][1]
        for key in sorted(set(before) | set(after)):
            d = seg_doc(key)
            if d == a:
                continue
            if before.get(key) != after.get(key):
                bad.append((i, op, key, before.get(key), after.get(key)))
    return bad


def strip_hash(line):
    return re.sub(r"ok:[0-9a-f]{16}", "ok", HASH.sub("", line))


def project(hist, d):
    return ";".join(o for o in hist.split(";") if o and (o[0] == "D" or int(o.split(",")[1]) == d))


def part_seq(chk, drv, runner):
    rng = chk.rng
    n = 500 if chk.tier == "quick" else 30000
    hists = list(CORPUS)
    flav = {}
    for i in range(n):
        fl = ["clean", "nulls", "nulls", "sparse"][i % 4] if i % 16 != 15 else "sparse"
        if fl == "sparse" and i % 8 != 3:
            fl = "nulls"
        h = gen_history(rng, fl)
        hists.append(h)
        flav[h] = fl
    lines = ["iso " + h for h in hists]
    impl = common.run_lines(drv, lines, shards=4)
    # the model of the code as it is ("iso": fresh nulls).  VERIF_C20_MODEL=old compares with the historical
    # shared-null model instead (scratch copy of /repo with fix b456e5d1 reverted)
    mcmd = "iso_old " if os.environ.get("VERIF_C20_MODEL") == "old" else "iso "
    model = common.run_lines(runner, [mcmd + h for h in hists], shards=4)
    old_cache = {}

    def old_model(h):
        """historical shared-null model on one history (only consulted when the frame fails on the library)"""
        if h not in old_cache:
            old_cache[h] = common.run_lines(runner, ["iso_old " + h])[0]
        return old_cache[h]
    nsteps = 0
    tie = []
    hit_known = 0
    clean = 0
    kinds = {}
    results = {}
    nontriv = set()
    solo_jobs = []
    deferred = []
    for idx, h in enumerate(hists):
        st = parse_steps(impl[idx])
        ops = [o for o in h.split(";") if o]
        if st is None or len(st) != len(ops) + 1:
            chk.violation({"kind": "property-fails-on-implementation", "part": "seq", "why": "the driver did not survive the history",
                           "history": h, "implementation": impl[idx][:600], "replay": "iso " + h})
            continue
        nsteps += len(ops)
        for o, (r, _) in zip(ops, st[1:]):
            kinds[o[0]] = kinds.get(o[0], 0) + 1
            rr = r.split(":")[0]
            results[rr] = results.get(rr, 0) + 1
        bad = frame_violations(h, st)
        same = strip_hash(impl[idx]) == model[idx]
        if mcmd == "iso ":
            fx = parse_steps(model[idx])
            if fx is None or frame_violations(h, fx):
                chk.violation({"kind": "model-violates-frame (frame_other_docs says it cannot)", "history": h, "model": model[idx][:600]}, no_input=True)
        if bad:
            i, op, key, b, a = bad[0]
            # the fixed finding D6 is recognised by the historical model reproducing the library exactly
            is_d6 = strip_hash(impl[idx]) == (model[idx] if mcmd == "iso_old " else old_model(h))
            sig = SIG_SEQ if is_d6 else ""
            if sig:
                hit_known += 1
            rep = {"kind": "property-fails-on-implementation", "part": "seq",
                   "why": "step %d (%s) is an operation of document %s but changed what a caller sees of %s" % (
                       i, op, op.split(",")[1], "a fresh parse" if key == "F" else "document %s (%s)" % (seg_doc(key), key)),
                   "history": h, "step": i, "op": op, "segment": key, "before": b, "after": a,
                   "changed_segments": len(bad), "model_predicts_the_same": same,
                   "historical_shared_null_model_predicts_the_same": is_d6, "replay": "iso " + h}
            # a frame violation on a history WITHOUT null tokens cannot be the known finding: report it first
            if sig or flav.get(h) == "clean":
                chk.violation(rep, signature=sig)
            else:
                deferred.append(rep)
        else:
            clean += 1
            if not same:
                tie.append(idx)
            elif sum(1 for r, _ in st[1:] if r.startswith("ok")) >= 4:
                nontriv.add(h)
                if len(solo_jobs) < (150 if chk.tier == "quick" else 5000):
                    solo_jobs.append(idx)
    if tie:
        idx = tie[0]
        a, b = strip_hash(impl[idx]).split("#"), model[idx].split("#")
        k = next((i for i in range(min(len(a), len(b))) if a[i] != b[i]), min(len(a), len(b)))
        chk.violation({"kind": "correspondence-broken", "correspondence": "corr:C20:heap-model", "differing_cases": len(tie),
                       "history": hists[idx], "first_differing_step": k, "implementation": a[k] if k < len(a) else None,
                       "model": b[k] if k < len(b) else None, "replay": "iso " + hists[idx]}, no_input=True)
    chk.count("seq", nsteps, nontriv, samples=[{"history": hists[i], "implementation": impl[i][-200:]} for i in (0, len(CORPUS) + 1, len(hists) - 1)])
    p = chk.cov["parts"]["seq"]
    p["histories"] = len(hists)
    p["op_distribution"] = kinds
    p["result_distribution"] = results
    p["histories_frame_clean"] = clean
    p["histories_hitting_known_finding"] = hit_known
    p["model_disagreements"] = len(tie)

    # solo: the history restricted to one document gives that document the same dumps ("each produces exactly the
    # result it produces when run alone"); only histories on which the frame held
    sl, meta = [], []
    for idx in solo_jobs:
        h = hists[idx]
        nd = sum(1 for o in h.split(";") if o.startswith("D,"))
        for d in range(1, nd + 1):
            sl.append("iso " + project(h, d))
            meta.append((idx, d))
    sres = common.run_lines(drv, sl, shards=4)
    nsolo = 0
    for (idx, d), line in zip(meta, sres):
        h = hists[idx]
        full = parse_steps(impl[idx])
        solo = parse_steps(line)
        ops = [o for o in h.split(";") if o]
        keep = [i for i, o in enumerate(ops) if o[0] == "D" or int(o.split(",")[1]) == d]
        if solo is None or len(solo) != len(keep) + 1:
            chk.violation({"kind": "property-fails-on-implementation", "part": "solo", "why": "solo run failed", "history": project(h, d)})
            continue
        for j, i in enumerate(keep):
            nsolo += 1
            fr, fs = full[i + 1]
            sr, ss = solo[j + 1]
            mine_f = {k: v for k, v in fs.items() if seg_doc(k) == d}
            mine_s = {k: v for k, v in ss.items() if seg_doc(k) == d}
            if (fr != sr and int(ops[i].split(",")[1]) == d) or mine_f != mine_s:
                chk.violation({"kind": "property-fails-on-implementation", "part": "solo",
                               "why": "document %d sees something else after step %d than when its operations run alone" % (d, i),
                               "history": h, "solo_history": project(h, d), "together": [fr, mine_f], "alone": [sr, mine_s],
                               "replay": "iso " + h})
                break
    for rep in deferred:
        chk.violation(rep)
    chk.count("solo", nsolo, [("solo", hists[i]) for i in solo_jobs][:0])
    chk.cov["parts"]["solo"]["projected_histories"] = len(sl)


# ------------------------------------------------------------------ storage several parties can reach (Sys/HeapShare.v)

XKEYS = "ABCDK"
XSEG = re.compile(r"(?:^| )(d\d+\{|r\d+@\d+=|b\d+=|F=)")
XHASH = re.compile(r"j[0-9a-f]{16}(?:w[0-9a-f]{16})?")


def xgen_tree(rng, depth, nulls=True):
    """(tokens, shape) of a direct value without references; shape as in gen_tree"""
    if depth > 0 and rng.random() < 0.5:
        if rng.random() < 0.55:
            toks, kids = ["["], []
            for _ in range(rng.randint(0, 3)):
                t, sh = xgen_tree(rng, depth - 1, nulls)
                toks += t
                kids.append(sh)
            return toks + ["]"], ("a", kids)
        toks, kids = ["<"], {}
        for key in rng.sample(XKEYS, rng.randint(0, 3)):        # distinct keys: a duplicate key is an error for a context-free parse
            t, sh = xgen_tree(rng, depth - 1, nulls)
            toks += ["N" + key] + t
            kids[key] = sh
        return toks + [">"], ("d", kids)
    k = rng.random()
    if nulls and k < 0.12:
        return ["n"], ("n",)
    if k < 0.7:
        return ["i%d" % rng.randint(-3, 700)], ("s",)
    return ["N" + rng.choice(XKEYS)], ("s",)


def xgen_root(rng, depth=2, nulls=True):
    while True:
        t, sh = xgen_tree(rng, depth, nulls)
        if sh[0] in ("a", "d"):
            return t, sh


def xpath(rng, shape, stop=0.35, want=None):
    """random path into a shape -> (steps, shape at the end)"""
    steps, cur = [], shape
    for _ in range(3):
        if cur[0] == "a" and cur[1] and rng.random() > stop:
            i = rng.randrange(len(cur[1]))
            steps.append("i%d" % i)
            cur = cur[1][i]
        elif cur[0] == "d" and cur[1] and rng.random() > stop:
            key = rng.choice(sorted(cur[1]))
            steps.append("k" + key)
            cur = cur[1][key]
        elif cur[0] == "S" and rng.random() > stop:
            steps.append("d")
            cur = ("d", {})
        else:
            break
    return steps, cur


class XGen:
    """history generator for the isox alphabet; keeps an approximate picture of the world so that most operations are
    performed; what it gets wrong only produces a 'skip'"""

    def __init__(self, rng):
        self.rng = rng
        self.ops = []
        self.ndocs = 0
        self.alive = set()
        self.kind = {}                  # doc -> 'D' | 'F0' | 'F1'
        self.roots = {}                 # variable -> [party, shape]
        self.nobj = {}                  # doc -> object count
        self.held = {}                  # buffer variable -> 'fresh' | 'given' | 'writer'
        self.inserts = 0

    def emit(self, op):
        self.ops.append(op)

    def new_doc(self, kind=None):
        rng = self.rng
        self.ndocs += 1
        d = self.ndocs
        kind = kind or rng.choice(["D", "D", "F0", "F1"])
        self.kind[d] = kind
        self.alive.add(d)
        if kind == "D":
            self.emit("D,%d" % d)
            self.nobj[d] = 2
        else:
            self.emit("F,%d,%s" % (d, kind[1]))
            self.nobj[d] = 5
        return d

    def free_root(self, p):
        used = [r for r in self.roots if r // 10 == p]
        cand = [r for r in range(10 * p + (1 if p == 0 else 0), 10 * p + 10) if r not in used]
        return self.rng.choice(cand) if cand and self.rng.random() < 0.85 else self.rng.randint(10 * p, 10 * p + 9)

    def parse(self, p, depth=2):
        t, sh = xgen_root(self.rng, depth)
        r = self.free_root(p)
        self.emit("P,%d,%d,%s" % (p, r, ".".join(t)))
        self.roots[r] = [p, sh]
        return r

    def own_handle(self, d, kinds="ad", stop=0.35):
        """(expression, shape) of a handle of party d (variable or object, then a path)"""
        rng = self.rng
        rs = [r for r, (p, sh) in self.roots.items() if p == d]
        if rs and rng.random() < 0.8:
            r = rng.choice(rs)
            steps, end = xpath(rng, self.roots[r][1], stop)
            return "/".join(["r%d" % r] + steps), end
        if d in self.nobj and self.nobj[d] >= 3:
            o = rng.randint(3, self.nobj[d])
            if self.kind.get(d, "D") != "D" and o in (3, 4):
                steps, end = xpath(rng, ("S",), stop)
                return "/".join(["o%d" % o] + steps), end
            return "o%d" % o, ("?",)
        return "r%d" % (10 * d + rng.randint(0, 9)), ("?",)

    def value(self, d):
        """value expression for an operation of d: a new scalar / container, an own handle, or a variable of ANOTHER party"""
        rng = self.rng
        k = rng.random()
        others = [r for r, (p, sh) in self.roots.items() if p != d and sh[0] in ("a", "d")]
        if others and k < 0.45:
            r = rng.choice(others)
            steps, end = xpath(rng, self.roots[r][1], 0.6)
            return "/".join(["r%d" % r] + steps), end
        if k < 0.65:
            return rng.choice(["I%d" % rng.randint(0, 99), "U", "Y" + rng.choice(XKEYS), "B", "G"]), ("s",)
        return self.own_handle(d, stop=0.5)

    def step(self, d=None):
        rng = self.rng
        if d is None:
            d = rng.choice(sorted(self.alive)) if self.alive and rng.random() < 0.93 else rng.randint(0, max(1, self.ndocs))
        k = rng.random()
        if k < 0.10:
            self.parse(d if rng.random() < 0.7 else 0)
        elif k < 0.17:
            h, end = self.own_handle(d)
            r = self.free_root(d)
            self.emit("H,%d,%d,%s" % (d, r, h))
            self.roots[r] = [d, end]
        elif k < 0.27:
            h, end = self.own_handle(d, stop=0.5)
            self.emit("M,%d,%s" % (d, h))
            self.nobj[d] = self.nobj.get(d, 2) + 1
        elif k < 0.47:
            h, end = self.own_handle(d)
            v, vs = self.value(d)
            if vs[0] in ("a", "d", "?"):
                self.inserts += 1
                if self.inserts > 8:
                    v = "I7"
            if end[0] == "d" or (end[0] != "a" and rng.random() < 0.4):
                self.emit("K,%d,%s,%s,%s" % (d, h, rng.choice(XKEYS), v))
            elif rng.random() < 0.6:
                self.emit("A,%d,%s,%s" % (d, h, v))
            else:
                self.emit("S,%d,%s,%d,%s" % (d, h, rng.randint(0, 3), v))
        elif k < 0.53:
            h, end = self.own_handle(d)
            if end[0] == "d" or (end[0] != "a" and rng.random() < 0.5):
                self.emit("R,%d,%s,%s" % (d, h, rng.choice(sorted(end[1])) if end[0] == "d" and end[1] else rng.choice(XKEYS)))
            else:
                self.emit("E,%d,%s,%d" % (d, h, rng.randint(0, 3)))
        elif k < 0.58:
            self.emit("X,%d" % d)
            self.alive.discard(d)
        elif k < 0.62:
            self.emit("W,%d" % d)
        elif k < 0.69:
            r = self.free_root(d)
            self.emit("N,%d,%d,%s" % (d, r, "".join("%02x" % rng.randint(97, 122) for _ in range(rng.randint(0, 6)))))
            self.roots[r] = [d, ("S",)]
            self.nobj[d] = self.nobj.get(d, 2) + 1
        elif k < 0.73:
            self.emit("Z,%d,%s,%s" % (d, self.stream_handle(d), "".join("%02x" % rng.randint(65, 90) for _ in range(rng.randint(1, 5)))))
        elif k < 0.83:
            srcs = [s for s in self.alive if s != d]
            if srcs:
                s = rng.choice(srcs)
                h = self.stream_handle(s) if rng.random() < 0.75 else self.own_handle(s, stop=0.9)[0]
                r = self.free_root(d)
                self.emit("C,%d,%d,%s,%d" % (d, s, h, r))
                self.roots[r] = [d, ("S",) if rng.random() < 0.75 else ("?",)]
                self.nobj[d] = self.nobj.get(d, 2) + 1
        elif k < 0.90:
            b = rng.randint(0, 4)
            self.emit("%s,%d,%s,%d" % (rng.choice("Gg"), d, self.stream_handle(d), b))
            self.held[b] = "fresh"
        elif k < 0.93:
            b = rng.randint(0, 4)
            self.emit("V,%d,%d" % (d, b))
            self.held[b] = "writer"
        elif k < 0.97:
            self.mutate()
        else:
            bs = [b for b, st in self.held.items() if st == "fresh"]
            if bs:
                b = rng.choice(bs)
                self.emit("B,%d,%s,%d" % (d, self.stream_handle(d), b))
                self.held[b] = "given"

    def stream_handle(self, d):
        rng = self.rng
        rs = [r for r, (p, sh) in self.roots.items() if p == d and sh[0] == "S"]
        if rs and rng.random() < 0.7:
            return "r%d" % rng.choice(rs)
        if self.kind.get(d, "D") != "D" and rng.random() < 0.8:
            return "o%d" % rng.choice([3, 4])
        return "o%d" % rng.randint(3, max(3, self.nobj.get(d, 3)))

    def mutate(self, b=None):
        rng = self.rng
        if b is None:
            if not self.held:
                return
            b = rng.choice(sorted(self.held))
        self.emit("U,0,%d,%d,%d" % (b, rng.randint(0, 3) if self.held.get(b) != "writer" else rng.randint(0, 60), rng.randint(33, 126)))

    def text(self):
        return ";".join(self.ops)


def xgen_random(rng):
    g = XGen(rng)
    for _ in range(rng.choice([2, 2, 3])):
        g.new_doc()
    for d in sorted(g.alive):
        if rng.random() < 0.8:
            g.parse(d)
    if rng.random() < 0.7:
        g.parse(0)
    for _ in range(rng.randint(6, 20)):
        g.step()
    for d in sorted(g.alive):
        if rng.random() < 0.5:
            g.emit("W,%d" % d)
    return g.text()


def xgen_templates(rng):
    """template values kept by the program and put into several documents; documents die one after the other"""
    g = XGen(rng)
    nd = rng.choice([2, 2, 3])
    ts = [g.parse(0, depth=rng.choice([1, 2, 2])) for _ in range(rng.choice([1, 2, 2]))]
    docs = []
    order = rng.choice(["together", "sequential"])
    for i in range(nd):
        d = g.new_doc(rng.choice(["D", "D", "D", "F0"]))
        docs.append(d)
        c = g.parse(d, depth=1)
        if rng.random() < 0.7:
            g.emit("M,%d,r%d" % (d, c))
            g.nobj[d] += 1
        for t in ts:
            if rng.random() < 0.85:
                steps, end = xpath(rng, g.roots[t][1], 0.75)
                v = "/".join(["r%d" % t] + steps)
                if g.roots[c][1][0] == "d":
                    g.emit("K,%d,r%d,%s,%s" % (d, c, rng.choice(XKEYS), v))
                else:
                    g.emit(rng.choice(["A,%d,r%d,%s" % (d, c, v), "S,%d,r%d,0,%s" % (d, c, v)]))
        if rng.random() < 0.4:
            h, end = g.own_handle(d, stop=0.2)
            r = g.free_root(d)
            g.emit("H,%d,%d,%s" % (d, r, h))
            g.roots[r] = [d, end]
        for _ in range(rng.randint(0, 2)):
            g.step(d)
        if order == "sequential":
            g.emit("W,%d" % d)
            g.emit("X,%d" % d)
            g.alive.discard(d)
    if order == "together":
        rng.shuffle(docs)
        for d in docs[:rng.randint(1, len(docs))]:
            if rng.random() < 0.5:
                g.emit("W,%d" % d)
            g.emit("X,%d" % d)
            g.alive.discard(d)
            for _ in range(rng.randint(0, 2)):
                g.step()
    for d in sorted(g.alive):
        g.emit("W,%d" % d)
    return g.text()


def xgen_takeout(rng):
    """a direct container taken out of document 1 (variable kept, entry erased or not) and put into document 2; then 1 dies"""
    g = XGen(rng)
    a = g.new_doc(rng.choice(["D", "D", "F0"]))
    b = g.new_doc("D")
    ca = g.parse(a, depth=1)
    cb = g.parse(b, depth=1)
    ka, kb = g.roots[ca][1][0], g.roots[cb][1][0]
    key = rng.choice(XKEYS)
    fresh = rng.choice(["B", "G"])
    # an owner-less container created through the API inside document a, filled, held in a variable
    g.emit(("K,%d,r%d,%s,%s" % (a, ca, key, fresh)) if ka == "d" else ("A,%d,r%d,%s" % (a, ca, fresh)))
    sub = ("k" + key) if ka == "d" else "i%d" % len(g.roots[ca][1][1])
    for _ in range(rng.randint(1, 3)):
        v = rng.choice(["I%d" % rng.randint(0, 999), "Y" + rng.choice(XKEYS), "B"])
        g.emit(("K,%d,r%d/%s,%s,%s" % (a, ca, sub, rng.choice(XKEYS), v)) if fresh == "G" else ("A,%d,r%d/%s,%s" % (a, ca, sub, v)))
    r = g.free_root(a)
    g.emit("H,%d,%d,r%d/%s" % (a, r, ca, sub))
    g.roots[r] = [a, ("d", {}) if fresh == "G" else ("a", [])]
    if rng.random() < 0.5:
        g.emit("M,%d,r%d" % (a, ca))
    mode = rng.choice(["keep", "erase", "after-death"])
    if mode == "erase":
        g.emit(("R,%d,r%d,%s" % (a, ca, key)) if ka == "d" else ("E,%d,r%d,%d" % (a, ca, len(g.roots[ca][1][1]))))
    if mode == "after-death":
        # also a value parsed WITH context: it only becomes movable once its document is gone
        h, end = g.own_handle(a, stop=0.1)
        r2 = g.free_root(a)
        g.emit("H,%d,%d,%s" % (a, r2, h))
        g.roots[r2] = [a, end]
        g.emit("X,%d" % a)
        g.alive.discard(a)
    for rr in [x for x, (p, sh) in g.roots.items() if p == a and x != ca]:
        if rng.random() < 0.8:
            g.emit(("K,%d,r%d,%s,r%d" % (b, cb, rng.choice(XKEYS), rr)) if kb == "d" else ("A,%d,r%d,r%d" % (b, cb, rr)))
    if rng.random() < 0.6:
        g.emit("M,%d,r%d" % (b, cb))
    for _ in range(rng.randint(0, 3)):
        g.step()
    if a in g.alive:
        if rng.random() < 0.5:
            g.emit("W,%d" % a)
        g.emit("X,%d" % a)
        g.alive.discard(a)
    for _ in range(rng.randint(0, 2)):
        g.step(b)
    g.emit("W,%d" % b)
    return g.text()


def xgen_buffers(rng):
    """streams of every provenance, copied between documents; buffers handed out by the library are edited in place"""
    g = XGen(rng)
    kinds = [rng.choice(["D", "F0", "F1"]) for _ in range(rng.choice([2, 2, 3]))]
    if all(k == "D" for k in kinds):
        kinds[0] = rng.choice(["F0", "F1"])
    docs = [g.new_doc(k) for k in kinds]
    streams = {d: [] for d in docs}         # doc -> stream handle expressions
    for d in docs:
        if g.kind[d] != "D":
            streams[d] += ["o3", "o4"]
        for _ in range(rng.randint(0, 2)):
            r = g.free_root(d)
            g.emit("N,%d,%d,%s" % (d, r, "".join("%02x" % rng.randint(97, 122) for _ in range(rng.randint(1, 6)))))
            g.roots[r] = [d, ("S",)]
            g.nobj[d] += 1
            streams[d].append("r%d" % r)
        if streams[d] and rng.random() < 0.4:
            g.emit("Z,%d,%s,%s" % (d, rng.choice(streams[d]), "".join("%02x" % rng.randint(65, 90) for _ in range(rng.randint(1, 5)))))
    nb = 0
    for _ in range(rng.randint(5, 14)):
        k = rng.random()
        live = [d for d in docs if d in g.alive]
        if not live:
            break
        d = rng.choice(live)
        if k < 0.30:
            srcs = [s for s in live if s != d and streams[s]]
            if srcs:
                s = rng.choice(srcs)
                r = g.free_root(d)
                g.emit("C,%d,%d,%s,%d" % (d, s, rng.choice(streams[s]), r))
                g.roots[r] = [d, ("S",)]
                g.nobj[d] += 1
                streams[d].append("r%d" % r)
        elif k < 0.62 and streams[d]:
            b = nb % 5
            nb += 1
            g.emit("%s,%d,%s,%d" % (rng.choice("Gg"), d, rng.choice(streams[d]), b))
            g.held[b] = "fresh"
            if rng.random() < 0.85:
                g.mutate(b)
            if rng.random() < 0.3 and streams[d]:
                g.emit("B,%d,%s,%d" % (d, rng.choice(streams[d]), b))
                g.held[b] = "given"
        elif k < 0.70:
            b = nb % 5
            nb += 1
            g.emit("V,%d,%d" % (d, b))
            g.held[b] = "writer"
            g.mutate(b)
        elif k < 0.78:
            g.mutate()
        elif k < 0.86 and streams[d]:
            g.emit("Z,%d,%s,%s" % (d, rng.choice(streams[d]), "".join("%02x" % rng.randint(65, 90) for _ in range(rng.randint(1, 5)))))
        elif k < 0.92 and len(live) > 1:
            g.emit("X,%d" % d)
            g.alive.discard(d)
        else:
            g.step(d)
    for b in sorted(g.held):
        if rng.random() < 0.5:
            g.mutate(b)
    for d in sorted(g.alive):
        g.emit("W,%d" % d)
    return g.text()


def xgen_copyedit(rng):
    """the source document was edited through the API (owner-less scalars and containers) before another document copies
    from it; the destination then works on ITS copy: makes values indirect, edits in place, replaces data, dies"""
    g = XGen(rng)
    a = g.new_doc(rng.choice(["D", "D", "F0", "F1"]))
    b = g.new_doc(rng.choice(["D", "D", "F0"]))
    objs = []                                   # (handle expression in a, is stream)
    if g.kind[a] != "D":
        objs += [("o3", True), ("o4", True), ("o5", False)]
    for _ in range(rng.randint(1, 2)):
        if rng.random() < 0.6:
            r = g.parse(a, depth=rng.choice([1, 2]))
            g.emit("M,%d,r%d" % (a, r))
            g.nobj[a] += 1
            objs.append(("r%d" % r, False))
        else:
            r = g.free_root(a)
            g.emit("N,%d,%d,%s" % (a, r, "".join("%02x" % rng.randint(97, 122) for _ in range(rng.randint(1, 5)))))
            g.roots[r] = [a, ("S",)]
            g.nobj[a] += 1
            objs.append(("r%d" % r, True))
    picked = rng.sample(objs, min(len(objs), rng.randint(1, 2)))
    keys = {}
    for h, is_stream in picked:
        base = h + ("/d" if is_stream else "")
        shape = None if is_stream or h[0] == "o" else g.roots[int(h[1:])][1]
        keys[h] = []
        for _ in range(rng.randint(1, 4)):
            v = rng.choice(["I%d" % rng.randint(0, 999), "Y" + rng.choice(XKEYS), "I%d" % rng.randint(0, 9), "B", "G", "U"])
            if shape is not None and shape[0] == "a":
                g.emit("A,%d,%s,%s" % (a, base, v))
                keys[h].append("i%d" % (len(shape[1]) + len(keys[h])))
            else:
                k = rng.choice(XKEYS)
                g.emit("K,%d,%s,%s,%s" % (a, base, k, v))
                keys[h].append("k" + k)
    copies = []
    for h, is_stream in picked:
        r = g.free_root(b)
        g.emit("C,%d,%d,%s,%d" % (b, a, h, r))
        g.roots[r] = [b, ("S",) if is_stream else ("?",)]
        g.nobj[b] += 1
        copies.append((r, is_stream, keys[h]))
    for _ in range(rng.randint(2, 6)):
        r, is_stream, ks = rng.choice(copies)
        base = "r%d" % r + ("/d" if is_stream else "")
        sub = base + ("/" + rng.choice(ks) if ks and rng.random() < 0.8 else "")
        k = rng.random()
        if k < 0.45:
            g.emit("M,%d,%s" % (b, sub))
        elif k < 0.6:
            g.emit("K,%d,%s,%s,I%d" % (b, sub, rng.choice(XKEYS), rng.randint(0, 99)))
        elif k < 0.7:
            g.emit("A,%d,%s,I%d" % (b, sub, rng.randint(0, 99)))
        elif k < 0.78:
            g.emit("R,%d,%s,%s" % (b, base, rng.choice(ks)[1:] if ks and ks[0][0] == "k" else rng.choice(XKEYS)))
        elif k < 0.86 and is_stream:
            g.emit("Z,%d,r%d,%s" % (b, r, "".join("%02x" % rng.randint(65, 90) for _ in range(rng.randint(1, 4)))))
        elif k < 0.93:
            g.emit("W,%d" % rng.choice([a, b]))
        else:
            g.step(a)
    if rng.random() < 0.6:
        d = rng.choice([a, b])
        g.emit("X,%d" % d)
        g.alive.discard(d)
    for d in sorted(g.alive):
        g.emit("W,%d" % d)
    return g.text()


XCORPUS = [
    # document 1 was edited through the API; document 2 copies the object and makes values of ITS copy indirect
    "D,1;D,2;P,1,11,<.NA.i1.>;M,1,r11;K,1,r11,B,I90;K,1,r11,C,YK;K,1,r11,D,G;C,2,1,r11,21;M,2,r21/kB;M,2,r21/kC;M,2,r21/kD;W,1;X,2;W,1",
    # template /MediaBox and /Resources values used for the pages of two documents; one document dies
    "P,0,1,[.i0.i0.i612.i792.];P,0,2,<.NA.[.NB.NC.].NB.<.NC.<.ND.i5.>.>.>;D,1;D,2;P,1,11,<.NA.NK.>;M,1,r11;K,1,r11,B,r1;K,1,r11,C,r2;"
    "P,2,21,<.NA.NK.>;M,2,r21;K,2,r21,B,r1;K,2,r21,C,r2;W,1;X,1;W,2",
    # the same, the documents are created, written and destroyed one after the other
    "P,0,1,[.i0.i0.i612.i792.];D,1;P,1,11,<.NA.NK.>;M,1,r11;K,1,r11,B,r1;W,1;X,1;D,2;P,2,21,<.NA.NK.>;M,2,r21;K,2,r21,B,r1;W,2;X,2;"
    "D,3;P,3,31,<.NA.NK.>;M,3,r31;K,3,r31,B,r1;W,3",
    # a direct container created inside document 1, taken out and put into document 2, then document 1 dies
    "D,1;D,2;P,1,11,[.i1.];A,1,r11,B;A,1,r11/i1,I5;A,1,r11/i1,G;H,1,12,r11/i1;E,1,r11,1;P,2,21,<.NA.i2.>;M,2,r21;K,2,r21,B,r12;X,1;W,2",
    # a stream replaced through the API is copied; the bytes obtained from the copy are edited in place
    "F,1,0;D,2;Z,1,o3,6162636465;C,2,1,o3,21;G,2,r21,0;U,0,0,0,88;G,1,o3,1;U,0,1,1,89;W,1;W,2",
    # an unmodified stream of a parsed file whose document has setImmediateCopyFrom(true)
    "F,1,1;D,2;C,2,1,o4,21;g,2,r21,0;U,0,0,2,90;G,1,o4,1;U,0,1,0,65;X,1;G,2,r21,2;U,0,2,1,66;W,2",
    # a stream created through the API, copied twice; QPDFWriter's output buffer edited
    "D,1;D,2;D,3;N,1,11,68656c6c6f;C,2,1,r11,21;C,3,2,r21,31;G,3,r31,0;U,0,0,4,33;V,1,1;U,0,1,10,33;V,2,2;U,0,2,20,35;X,2;G,3,r31,3;U,0,3,0,36",
    # the program gives a buffer it obtained from document 1 to a stream of document 2
    "F,1,0;D,2;N,2,21,7a7a;G,1,o3,0;U,0,0,0,74;B,2,r21,0;U,0,0,1,75;G,2,r21,1;U,0,1,0,76;W,1;W,2",
]


def xparse_steps(line):
    out = []
    for st in line.split("#"):
        if "|" not in st:
            return None
        res, dump = st.split("|", 1)
        segs = {}
        starts = [(m.start(1), m.group(1)) for m in XSEG.finditer(dump)]
        for n, (pos, head) in enumerate(starts):
            end = starts[n + 1][0] if n + 1 < len(starts) else len(dump)
            segs[head[:-1]] = dump[pos:end].strip()
        out.append((res, segs))
    return out


def xseg_party(key):
    if key == "F":
        return None
    if key[0] == "d":
        return int(key[1:])
    if key[0] == "b":
        return "b" + key[1:]
    return int(key.split("@")[1])


def xop_buffer(op):
    f = op.replace("!", "").split(",")
    if f[0] in ("G", "g", "B"):
        return "b" + f[3]
    if f[0] in ("V", "U"):
        return "b" + f[2]
    return None


def xframe_violations(hist, steps):
    """segments that changed although they belong to another party than the acting one (buffer variables: although the
    operation does not name them)"""
    ops = [o for o in hist.split(";") if o]
    bad = []
    for i, op in enumerate(ops):
        a = int(op.split(",")[1])
        mine = xop_buffer(op)
        before, after = steps[i][1], steps[i + 1][1]
        for key in sorted(set(before) | set(after)):
            p = xseg_party(key)
            if p == a or (isinstance(p, str) and p == mine):
                continue
            if before.get(key) != after.get(key):
                bad.append((i, op, key, before.get(key), after.get(key)))
    return bad


def xstrip(line):
    """implementation dump -> what the model prints (hashes, fresh-parse probe and trailing blanks removed)"""
    out = []
    for st in line.split("#"):
        st = re.sub(r"^ok:[0-9a-f]{16}", "ok", XHASH.sub("", st)).replace("skip^shared|", "skip|", 1)
        st = re.sub(r" ?F=.*$", "", st)
        out.append(st.rstrip())
    return "#".join(out)


def part_alias(chk, drv, runner):
    """histories over storage that several parties can reach: direct containers shared by documents and program
    variables, stream data buffers shared by a stream and its foreign copies, buffers handed to the caller"""
    rng = chk.rng
    n = 120 if chk.tier == "quick" else 5000
    fams = (("templates", xgen_templates), ("takeout", xgen_takeout), ("buffers", xgen_buffers), ("copyedit", xgen_copyedit), ("random", xgen_random))
    hists, fam = list(XCORPUS), {h: "corpus" for h in XCORPUS}
    for i in range(n):
        for name, fn in fams:
            h = fn(rng)
            hists.append(h)
            fam[h] = name
    impl = common.run_lines(drv, ["isox " + h for h in hists], shards=4)
    model = common.run_lines(runner, ["isox " + h for h in hists], shards=4)
    nsteps, tie, nosep = 0, [], []
    kinds, results, nontriv = {}, {}, set()
    perfam = {}
    for idx, h in enumerate(hists):
        ops = [o for o in h.split(";") if o]
        st = xparse_steps(impl[idx])
        if st is None or len(st) != len(ops) + 1:
            chk.violation({"kind": "property-fails-on-implementation", "part": "alias", "why": "the driver did not survive the history",
                           "history": h, "implementation": impl[idx][:600], "replay": "isox " + h})
            continue
        nsteps += len(ops)
        for o, (r, _) in zip(ops, st[1:]):
            kinds[o[0]] = kinds.get(o[0], 0) + 1
            rr = r.split(":")[0]
            results[rr] = results.get(rr, 0) + 1
        mst = [x.split("|", 1) for x in model[idx].split("#")]
        msteps = xparse_steps("#".join(x[0].replace("^nosep", "") + "|" + x[1].rstrip() for x in mst if len(x) == 2))
        if msteps is None or len(msteps) != len(ops) + 1:
            chk.violation({"kind": "correspondence-broken", "correspondence": "corr:C20:shared-storage-model", "why": "the model did not run the history",
                           "history": h, "model": model[idx][:600], "replay": "isox " + h}, no_input=True)
            continue
        if any("^nosep" in x[0] for x in mst):
            nosep.append(h)
        mclean = "#".join(x[0].replace("^nosep", "") + "|" + x[1].rstrip() for x in mst)
        if xframe_violations(h, msteps):
            chk.violation({"kind": "model-violates-frame (hx_frame_other_parties says it cannot)", "history": h, "model": model[idx][:800]}, no_input=True)
        bad = xframe_violations(h, st)
        same = xstrip(impl[idx]) == mclean
        forced = None
        if not bad and not same:
            # the library lets another party see an object that, by the model, only the acting document can see (the
            # driver then refused the in-place operation): perform that operation - it is an operation of the acting
            # document on its own object - and look at the other parties
            k = next((i for i, ((r, _), (mr, _)) in enumerate(zip(st[1:], msteps[1:])) if r.startswith("skip^shared") and not mr.startswith("skip")), None)
            if k is not None:
                f = ops[k].split(",")
                h2 = ";".join(ops[:k] + [",".join([f[0] + "!"] + f[1:])] + ops[k + 1:])
                out2 = common.run_lines(drv, ["isox " + h2])[0]
                st2 = xparse_steps(out2)
                if st2 is not None and len(st2) == len(ops) + 1:
                    bad = [b for b in xframe_violations(h2, st2) if b[0] >= k]
                    if bad:
                        forced = {"history_with_the_refused_operation_performed": h2, "refused_step": k, "refused_operation": ops[k],
                                  "why_refused": "the driver only edits an object in place when no other party can reach it; the library made this one "
                                                 "reachable from another party although no operation of the history put it there (the model, for which "
                                                 "separation is the premise of hx_frame_other_parties, says only the acting document can see it)"}
                        h = h2
        if bad:
            i, op, key, b, a = bad[0]
            p = xseg_party(key)
            what = ("a fresh parse" if key == "F" else "the Buffer in the program's variable %s, which this operation does not use" % key if isinstance(p, str)
                    else "the program's own handle %s" % key if p == 0 else "document %s (%s)" % (p, key))
            chk.violation({"kind": "property-fails-on-implementation", "part": "alias", "family": fam.get(h, fam.get(hists[idx])),
                           "why": "step %d (%s) is an operation of %s but changed what a caller sees of %s" % (
                               i, op, "the program on a Buffer it was handed" if op[0] == "U" else "document %s" % op.split(",")[1], what),
                           "history": h, "step": i, "op": op, "segment": key, "before": b, "after": a, "changed_segments": len(bad),
                           "model_predicts_the_same": same, "replay": "isox " + h, **(forced or {})})
        elif not same:
            tie.append(idx)
        else:
            done = sum(1 for r, _ in st[1:] if r.startswith("ok"))
            perfam[fam[h]] = perfam.get(fam[h], 0) + 1
            if done >= 5:
                nontriv.add(h)
    if nosep:
        chk.violation({"kind": "model-leaves-theorem-domain", "correspondence": "corr:C20:shared-storage-model",
                       "why": "a world reached by the model violates the separation premise of hx_frame_other_parties (hx_sep_preserved says it cannot)",
                       "history": nosep[0], "cases": len(nosep), "replay": "isox " + nosep[0]}, no_input=True)
    if tie:
        idx = tie[0]
        a, b = xstrip(impl[idx]).split("#"), [x.replace("^nosep", "").rstrip() for x in model[idx].split("#")]
        k = next((i for i in range(min(len(a), len(b))) if a[i] != b[i]), min(len(a), len(b)))
        chk.violation({"kind": "correspondence-broken", "correspondence": "corr:C20:shared-storage-model", "differing_cases": len(tie),
                       "history": hists[idx], "first_differing_step": k, "implementation": a[k] if k < len(a) else None,
                       "model": b[k] if k < len(b) else None, "replay": "isox " + hists[idx]}, no_input=True)
    chk.count("alias", nsteps, nontriv, samples=[{"history": hists[i], "implementation": impl[i][-200:]} for i in (0, len(XCORPUS), len(hists) - 1)])
    p = chk.cov["parts"]["alias"]
    p["histories"] = len(hists)
    p["op_distribution"] = kinds
    p["result_distribution"] = results
    p["frame_clean_and_model_agrees_per_family"] = perfam
    p["model_disagreements"] = len(tie)


# ------------------------------------------------------------------ threads (ThreadSanitizer)

def make_pdfs(wd):
    from pdfgen import Name as N
    files = {"clean": [], "nulls": []}
    for i, (n, nulls) in enumerate([(2, False), (4, False), (5, False), (3, True), (5, True)]):
        if nulls:
            extra = {b"QV": [None, 1, {b"K": None, b"L": [None, 2]}], b"QS": [None] * 120 + [5]}
        else:
            extra = {b"QV": [7, 1, {b"K": N(b"V"), b"L": [True, 2]}]}
        doc = pdfgen.page_doc(n, marker="ABCDE"[i], kids_levels=1 + (i % 2), extra=extra,
                              rotate={1: 90} if i % 2 else None)
        data, _ = pdfgen.write_classic(doc)
        path = os.path.join(wd, "in%d.pdf" % i)
        with open(path, "wb") as f:
            f.write(data)
        files["nulls" if nulls else "clean"].append(path)
    return files


def tsan_reports(prefix):
    """-> list of report texts written by this run (log_path=prefix)"""
    out = []
    d = os.path.dirname(prefix)
    for fn in sorted(os.listdir(d)):
        if fn.startswith(os.path.basename(prefix) + "."):
            txt = open(os.path.join(d, fn), errors="replace").read()
            out += ["WARNING: ThreadSanitizer" + b for b in txt.split("WARNING: ThreadSanitizer")[1:]]
    return out


def classify_report(rep):
    """'known' = the racing location is one of the shared static null objects (finding D6);
       'qpdf' = any other report with a libqpdf frame; 'foreign' = no libqpdf frame at all"""
    loc = rep.split("Location is", 1)[1] if "Location is" in rep else ""
    loc = loc.split("\n\n", 1)[0]
    if "qpdf::impl::Parser::add_null()" in loc or "QPDF_Array.cc" in loc and "newNull" in loc or "null_obj" in loc.split("\n")[0] \
            or "null_oh" in loc.split("\n")[0]:
        return "known"
    if "/libqpdf/" in rep or "/include/qpdf/" in rep or "qpdf::" in rep or "QPDF" in rep:
        return "qpdf"
    return "foreign"


def part_thr(chk):
    if os.environ.get("VERIF_C20_SKIP_THR"):
        chk.cov["parts"]["thr"] = {"skipped": "VERIF_C20_SKIP_THR set"}
        return
    common.build_repo("tsan")
    tsan = common.build_drv("tsan")
    drv = os.path.join(common.DRV, "drv")
    wd = common.workdir("C20")
    files = make_pdfs(wd)
    supp = os.path.join(common.VERIF, "harness", "tsan_c20.supp")
    nthr = 4
    quick = chk.tier == "quick"
    runs = []
    for k in range(3 if quick else 200):
        runs.append(("clean", chk.seed * 1000 + k, 5 if quick else 12))
    for k in range(3 if quick else 60):
        runs.append(("nulls", chk.seed * 1000 + 500 + k, 5 if quick else 12))

    def one(idx):
        cfg, seed, rounds = runs[idx]
        sub = os.path.join(wd, "run%d" % idx)
        os.makedirs(sub, exist_ok=True)
        line = "thr %d %d %d %s %s%s" % (nthr, rounds, seed, sub, ",".join(files[cfg]), " nulls" if cfg == "nulls" else "")
        env = {"TSAN_OPTIONS": "log_path=%s/tsan halt_on_error=0 exitcode=0 suppressions=%s print_suppressions=1 history_size=4" % (sub, supp)}
        out = common.run_lines(tsan, [line], env=env, timeout=900)[0]
        reps = tsan_reports(os.path.join(sub, "tsan"))
        # the same jobs without the sanitizer, more threads (outputs only)
        out2 = common.run_lines(drv, [line.replace("thr %d " % nthr, "thr 8 ", 1)], timeout=900)[0]
        return line, out, reps, out2

    res = common.par_map(one, range(len(runs)), workers=4)
    njobs = 0
    counts = {"known": 0, "qpdf": 0, "foreign": 0, "suppressed_libstdcxx": 0}
    kinds = {}
    nontriv = set()
    for (cfg, seed, rounds), (line, out, reps, out2) in zip(runs, res):
        for o, how in ((out, "tsan build, %d threads" % nthr), (out2, "plain build, 8 threads")):
            m = re.match(r"jobs=(\d+) diff=(\d+) kinds=(\S*)", o)
            if not m:
                chk.violation({"kind": "property-fails-on-implementation", "part": "thr", "why": "the threads driver did not finish (%s)" % how,
                               "output": o[:800], "replay": line})
                continue
            njobs += int(m.group(1))
            for kv in m.group(3).split(","):
                if kv:
                    kinds[kv.split("=")[0]] = kinds.get(kv.split("=")[0], 0) + int(kv.split("=")[1])
            if int(m.group(2)):
                chk.violation({"kind": "property-fails-on-implementation", "part": "thr",
                               "why": "a thread's output differs from the output of the same job run alone (%s)" % how,
                               "differences": o[:1500], "replay": line})
            nontriv.add((cfg, seed, how))
        for r in reps:
            if "Matched" in r and "suppressions" in r:
                continue
            c = classify_report(r)
            counts[c] += 1
            if c == "known":
                chk.violation({"kind": "data-race", "part": "thr", "report": r[:3000], "replay": line}, signature=SIG_RACE)
            elif c == "qpdf":
                chk.violation({"kind": "data-race", "part": "thr", "why": "ThreadSanitizer report with a libqpdf frame on a location that is not one of the known shared statics; "
                               "the model predicts no conflict between threads that use distinct documents",
                               "config": cfg, "report": r[:4000], "replay": line})
        sub = os.path.dirname(line.split(" ")[4]) if False else None
    for idx in range(len(runs)):
        d = os.path.join(wd, "run%d" % idx)
        for fn in os.listdir(d):
            if fn.startswith("tsan."):
                for m in re.finditer(r"^(\d+) race:", open(os.path.join(d, fn), errors="replace").read(), re.M):
                    counts["suppressed_libstdcxx"] += int(m.group(1))
    chk.count("thr", njobs, nontriv, samples=[{"run": res[0][0], "output": res[0][1][:200]}])
    p = chk.cov["parts"]["thr"]
    p["schedules"] = 2 * len(runs)
    p["job_kind_distribution"] = kinds
    p["tsan_reports"] = counts
    p["model_predicted_conflicts"] = {"clean": "none (threads_disjoint_footprints)", "nulls": "none (threads_disjoint_footprints; the shared null cell is gone since b456e5d1)"}


# ------------------------------------------------------------------ bystander oracle on real files

def part_file(chk, drv):
    """3 live documents opened from generated PDF files (pages, streams, strings, nulls, sparse arrays); random
    mutations of ONE document per step through the public API, including copyForeignObject / addPage FROM another
    live document, QPDFWriter in every mode, JSON export and update, destroy + reopen.  After every step the
    library itself is asked for the complete JSON of every document and of a freshly opened file: everything that
    does not belong to the acting document must hash the same as before the step.  No model on this part."""
    wd = os.path.join(common.BUILD, "work", "C20-file")
    os.makedirs(wd, exist_ok=True)
    files = make_pdfs(wd)
    allf = files["clean"] + files["nulls"]
    nruns = 30 if chk.tier == "quick" else 1500
    nsteps = 20 if chk.tier == "quick" else 40
    lines = []
    for k in range(nruns):
        fs = [chk.rng.choice(allf) for _ in range(3)]
        lines.append("isofile %d %d %s" % (chk.seed * 100000 + k, nsteps, ",".join(fs)))
    outs = common.run_lines(drv, lines, shards=4)
    nev = 0
    kinds = {}
    nontriv = set()
    for line, out in zip(lines, outs):
        steps = out.split("#")
        if not steps or not steps[0].startswith("init|"):
            chk.violation({"kind": "property-fails-on-implementation", "part": "file", "why": "the driver did not survive the history",
                           "output": out[:600], "replay": line})
            continue
        prev = steps[0].split("|")[1].split(",")
        d6 = False      # a parsed null has been made indirect in this process: everything after may show finding D6
        copied = set()  # (destination, source) pairs of copyForeignObject / addPage
        for n, st in enumerate(steps[1:]):
            f = st.split("|")
            if len(f) != 3:
                chk.violation({"kind": "property-fails-on-implementation", "part": "file", "why": "malformed step output", "output": st[:300], "replay": line})
                break
            op, acting, hashes = f[0], f[1], f[2].split(",")
            acting = {acting}
            if op.startswith("addpage-from:"):
                # documented: QPDF::addPage of a foreign page first pushes inherited attributes down in the SOURCE
                # document (an equivalent document, but not the same objects): the source takes part in this call
                acting.add(op.split(":")[1])
            nev += 1
            d6 = d6 or op.startswith("makeind-item:null")
            if op.startswith(("addpage-from:", "copyforeign-from:")) and not op.endswith(("!L", "!R")):
                dst, src = int(f[1]), op.split(":")[1]         # (destination, source) - kept transitively closed:
                copied.add((dst, src))                         # a copy of a copy still pulls its data through the chain
                for (d2, s2) in list(copied):
                    if str(d2) == src:
                        copied.add((dst, s2))
                    if s2 == str(dst):
                        copied.add((d2, src))
            kinds[op.split(":")[0]] = kinds.get(op.split(":")[0], 0) + 1
            for j, (b, a) in enumerate(zip(prev, hashes)):
                name = "a freshly opened file" if j == len(hashes) - 1 else "document %d" % j
                if str(j) not in acting and b != a:
                    chk.violation({"kind": "property-fails-on-implementation", "part": "file",
                                   "why": "step %d (%s) is an operation of document %s but the complete JSON of %s changed" % (n, op, "+".join(sorted(acting)), name),
                                   "step": n, "op": op, "before": b, "after": a, "replay": line,
                                   "after_a_parsed_null_was_made_indirect": d6},
                                  # the provider finding is identified by its own evidence first; only otherwise the history's
                                  # earlier makeIndirectObject on a parsed null (finding repaired by b456e5d1) names the signature
                                  signature=SIG_PROVIDER if (op == "reopen" and a == "!stream-source-destroyed"
                                                             and (j, next(iter(acting))) in copied) else (SIG_SEQ if d6 else ""))
                    break
            prev = hashes
        nontriv.add(line)
    chk.count("file", nev, nontriv, samples=[{"run": lines[0], "output": outs[0][:200]}])
    chk.cov["parts"]["file"]["op_distribution"] = kinds


# ------------------------------------------------------------------ process-wide logger; identity by address reuse

def gen_log_history(rng):
    docs, alive, redirected = [], set(), set()
    ops = []
    nxt = 1
    for _ in range(rng.randint(8, 22)):
        k = rng.random()
        if k < 0.18 or not alive:
            d = nxt
            nxt += 1
            ops.append("c%d" % d)
            alive.add(d)
        elif k < 0.34:
            d = rng.choice(sorted(alive))
            ops.append("r%d%s" % (d, rng.choice("sssl")))
            redirected.add(d)
        elif k < 0.42 and len(alive) > 1:
            d = rng.choice(sorted(alive))
            ops.append("x%d" % d)
            alive.discard(d)
        else:
            d = rng.choice(sorted(alive)) if rng.random() < 0.93 else rng.randint(1, nxt)
            ops.append("e%d%s" % (d, rng.choice("wwoie")))
    # always end by letting every survivor speak once more
    for d in sorted(alive):
        ops.append("e%dw" % d)
    return ";".join(ops)


LOG_CORPUS = [
    # B before A, C after A's redirection, D after A is gone
    "c1;e1w;c2;r2s;c3;e1w;e3w;e2w;e1i;e3o;x2;e1w;e3w;c4;e4w;e1e",
    "c1;c2;r2l;e1w;e2w;r2s;e1o;e2i;x2;e1w",
    "c1;r1s;c2;e2w;e1w;x1;e2w;c3;e3i",
]


def part_log(chk, drv, runner):
    """specification: a document's output goes to std::cerr / std::cout (the default logger's sinks) unless THAT
    document redirected it (then to its own stream), whatever other documents did or whether they still exist"""
    hists = list(LOG_CORPUS) + [gen_log_history(chk.rng) for _ in range(150 if chk.tier == "quick" else 6000)]
    lines = ["isolog " + h for h in hists]
    impl = common.run_lines(drv, lines, shards=4)
    model = common.run_lines(runner, lines, shards=4)
    n = 0
    tie = []
    nontriv = set()
    for h, i_out, m_out in zip(hists, impl, model):
        alive, red = set(), set()
        bad = None
        steps = i_out.split("#")
        ops = h.split(";")
        if len(steps) != len(ops):
            chk.violation({"kind": "property-fails-on-implementation", "part": "log", "why": "the driver did not survive the history",
                           "output": i_out[:400], "replay": "isolog " + h})
            continue
        others_redirected = False
        for op, st in zip(ops, steps):
            n += 1
            k, d, sub = op[0], int(re.match(r"\d+", op[1:]).group(0)), op[-1]
            got = st.split("=", 1)[1]
            if k == "c":
                alive.add(d); red.discard(d); want = "ok"
            elif d not in alive:
                want = "skip"
            elif k == "x":
                alive.discard(d); want = "ok"
            elif k == "r":
                red.add(d); want = "ok"
            else:
                want = ("o%d" % d) if d in red else ("cout" if sub == "i" else "cerr")
                if red - {d}:
                    others_redirected = True
            if got != want and bad is None:
                bad = (op, got, want)
        if bad:
            chk.violation({"kind": "property-fails-on-implementation", "part": "log",
                           "why": "the output of step %s arrived in [%s]; this document's output belongs in [%s] (only its own redirection may change that)" % bad,
                           "history": h, "implementation": i_out, "model": m_out, "replay": "isolog " + h})
        elif i_out != m_out:
            tie.append((h, i_out, m_out))
        elif others_redirected:
            nontriv.add(h)
    if tie:
        h, i_out, m_out = tie[0]
        chk.violation({"kind": "correspondence-broken", "correspondence": "corr:C20:logger-model", "differing_cases": len(tie),
                       "history": h, "implementation": i_out, "model": m_out, "replay": "isolog " + h}, no_input=True)
    chk.count("log", n, nontriv, samples=[{"history": hists[0], "implementation": impl[0]}])


def part_copy(chk, drv):
    """one destination, sources created / used / destroyed in a loop at the same address, same object ids copied each
    round: every round's copies must equal the copies made when that source is the only one"""
    wd = os.path.join(common.BUILD, "work", "C20-file")
    os.makedirs(wd, exist_ok=True)
    files = make_pdfs(wd)
    allf = files["clean"] + files["nulls"]
    lines = []
    for k in range(24 if chk.tier == "quick" else 600):
        fs = chk.rng.sample(allf, 3) + ([chk.rng.choice(allf)] if k % 2 else [])
        lines.append("isocopy %d %d %s%s" % (chk.seed * 1000 + k, chk.rng.randint(3, 6), ",".join(fs), " heap" if k % 4 == 3 else ""))
    outs = common.run_lines(drv, lines, shards=4)
    n = 0
    reused = 0
    nontriv = set()
    for line, out in zip(lines, outs):
        if not out.startswith("addr="):
            chk.violation({"kind": "property-fails-on-implementation", "part": "copy", "why": "the driver did not survive the history",
                           "output": out[:400], "replay": line})
            continue
        rounds = out.split(" ")[1:]
        n += len(rounds)
        reused += out.startswith("addr=reused")
        bad = [r for r in rounds if not r.endswith(":same")]
        if bad:
            chk.violation({"kind": "property-fails-on-implementation", "part": "copy",
                           "why": "after earlier sources were destroyed, the copies the destination made from a new source (%s) differ from the copies a fresh "
                                  "destination makes from that source alone" % bad[0],
                           "output": out[:600], "replay": line})
        else:
            nontriv.add(line)
    chk.count("copy", n, nontriv, samples=[{"run": lines[0], "output": outs[0][:200]}])
    chk.cov["parts"]["copy"]["runs_with_source_address_reused"] = reused


def run(chk):
    drv = os.path.join(common.DRV, "drv")
    runner = os.path.join(common.EXTRACT, "model_runner")
    chk.cov["rule"] = ("seq: random histories (6-22 API calls after creating 2-3 documents; parse with/without null tokens, indirect references "
                       "and sparse arrays; makeIndirectObject, replaceKey, removeKey, appendItem, setArrayItem, eraseItem, replaceObject, "
                       "~QPDF, write, JSON export) run by the real library and by the extracted heap model; after every call the dumps of all "
                       "other documents, of handles obtained from them and of two fresh parses must be unchanged; non-trivial = history with "
                       ">= 4 performed calls on which the frame held and the model agrees, distinct by history text")
    chk.cov["rule"] += ("; alias: histories over 2-3 documents and the program's own handles (families: template values put into several documents that die; a direct "
                        "container taken out of one document and put into another; streams of every provenance copied both ways with the Buffers from "
                        "getRawStreamData / getStreamData / QPDFWriter edited in place and passed back; a source edited through the API, copied, the destination working on "
                        "its copy; random) against the extracted shared-storage model; after every step every other document (unparse, stream dictionary + raw data, JSON, "
                        "QPDFWriter bytes), every retained handle and every other Buffer variable must be unchanged; non-trivial = >= 5 performed calls, frame held, model agrees")
    import time
    for name, fn in (("seq", lambda: part_seq(chk, drv, runner)), ("alias", lambda: part_alias(chk, drv, runner)), ("file", lambda: part_file(chk, drv)), ("log", lambda: part_log(chk, drv, runner)),
                     ("copy", lambda: part_copy(chk, drv)), ("thr", lambda: part_thr(chk))):
        t0 = time.time()
        fn()
        if name in chk.cov["parts"]:
            chk.cov["parts"][name]["wall_s"] = round(time.time() - t0, 1)
    chk.cov["rule"] += ("; file: 3 live documents opened from generated files, random public-API mutations of one of them per step (catalog keys, new indirect objects, "
                        "replaceObject, page rotate/remove, addPage and copyForeignObject FROM another live document, QPDFWriter in 6 modes, JSON export, updateFromJSON, "
                        "destroy+reopen), complete JSON of every other document and of a freshly opened file hashed after every step; thr: %s" % "4 (TSan) and 8 (plain) threads x 6-12 jobs each (object-API build, open+JSON, open+write in 7 modes, JSON round trip, "
                        "page mutation + copy from a second own document, QPDFJob argv, inspect, QPDFJob JSON) on null-free and on null-containing inputs; "
                        "every output compared with the same job run alone; every TSan report attributed (known shared-null / other libqpdf / foreign)")


def replay(chk, rep):
    drv = os.path.join(common.DRV, "drv")
    runner = os.path.join(common.EXTRACT, "model_runner")
    line = rep.get("replay")
    print(json.dumps({k: v for k, v in rep.items() if k not in ("implementation", "model", "report")}, indent=1)[:3000])
    if line and line.startswith("iso "):
        i = common.run_lines(drv, [line])[0]
        m = common.run_lines(runner, [line])[0]
        st = parse_steps(i)
        bad = frame_violations(line[4:], st) if st else None
        print("implementation:", i[:2000])
        print("model         :", m[:2000])
        print("frame violations:", bad[:3] if bad else bad)
        return 1 if (bad or strip_hash(i) != m) else 0
    if line and line.startswith("isox "):
        i = common.run_lines(drv, [line])[0]
        m = common.run_lines(runner, [line.replace("!", "")])[0]
        st = xparse_steps(i)
        bad = xframe_violations(line[5:], st) if st else None
        print("implementation:", i[:3000])
        print("model         :", m[:3000])
        print("frame violations:", bad[:3] if bad else bad)
        mclean = "#".join(x.split("|", 1)[0].replace("^nosep", "") + "|" + x.split("|", 1)[1].rstrip() for x in m.split("#") if "|" in x)
        return 1 if (bad or xstrip(i) != mclean) else 0
    if line and line.startswith("isolog "):
        print("implementation:", common.run_lines(drv, [line])[0])
        print("model         :", common.run_lines(runner, [line])[0])
        return 0
    if line and (line.startswith("isofile ") or line.startswith("isocopy ")):
        out = common.run_lines(drv, [line])[0]
        print("\n".join(out.split("#")))
        return 0
    if line and line.startswith("thr "):
        common.build_repo("tsan")
        tsan = common.build_drv("tsan")
        f = line.split(" ")
        os.makedirs(f[4], exist_ok=True)
        make_pdfs(os.path.dirname(f[4]))
        env = {"TSAN_OPTIONS": "halt_on_error=0 exitcode=0 suppressions=%s" % os.path.join(common.VERIF, "harness", "tsan_c20.supp")}
        p = subprocess.run(["bash", "-c", "exec " + tsan], input=(line + "\n").encode(), stdout=subprocess.PIPE, stderr=subprocess.PIPE,
                           env=dict(os.environ, **env))
        print(p.stdout.decode("latin-1")[:2000])
        print(p.stderr.decode("latin-1")[:6000])
        return 1 if (b" diff=0 " not in p.stdout or b"WARNING: ThreadSanitizer" in p.stderr) else 0
    return 0
