#!/bin/bash
# usage: tools/eval_fixes.sh <patch> ...   evaluates candidate repairs one by one in the scratch worktree /tmp/scratch-fix:
# applies, builds, runs qpdf's own suite, compares the result with the unmodified tree's, reverts. Output: /tmp/scratch-fix-eval.log
S=/tmp/scratch-fix
if [ ! -d $S ]; then git -C /repo worktree add --detach $S HEAD >/dev/null 2>&1 || exit 2; fi
cd $S && git checkout -q -- . && git checkout -q --detach $(git -C /repo rev-parse HEAD)
[ -d build ] || cmake -S . -B build -G Ninja -DCMAKE_BUILD_TYPE=RelWithDebInfo -DCMAKE_CXX_FLAGS=-Wno-error >/dev/null 2>&1
cmake --build build -j8 >/dev/null 2>&1
if [ ! -f /tmp/scratch-fix-baseline.txt ]; then
  ctest --test-dir build -j8 --timeout 900 >/dev/null 2>&1
  grep -a -h "FAILED$\|^Failures:\|^Passes:\|^Total tests:" build/*/qtest.log | sort > /tmp/scratch-fix-baseline.txt
fi
for p in "$@"; do
  git checkout -q -- .
  if ! git apply "$p" 2>/dev/null; then echo "$(basename $p): does not apply" >> /tmp/scratch-fix-eval.log; continue; fi
  if ! cmake --build build -j8 >/tmp/scratch-fix-build.log 2>&1; then echo "$(basename $p): does not compile" >> /tmp/scratch-fix-eval.log; git checkout -q -- .; continue; fi
  ctest --test-dir build -j8 --timeout 900 >/dev/null 2>&1
  grep -a -h "FAILED$\|^Failures:\|^Passes:\|^Total tests:" build/*/qtest.log | sort > /tmp/scratch-fix-$(basename $p).txt
  new=$(comm -13 <(grep FAILED /tmp/scratch-fix-baseline.txt) <(grep FAILED /tmp/scratch-fix-$(basename $p).txt) | tr '\n' ';')
  if [ -z "$new" ]; then echo "$(basename $p): suite result as baseline" >> /tmp/scratch-fix-eval.log; else echo "$(basename $p): NEW FAILURES: $new" >> /tmp/scratch-fix-eval.log; fi
  git checkout -q -- .
done
cmake --build build -j8 >/dev/null 2>&1
echo "done" >> /tmp/scratch-fix-eval.log
