(* C14 - proofs, part F: the text of strings. The specification's decoders invert the encoders; a string is
   exported in text form only if it is well-formed in the encoding its byte-order mark announces (D7/D8 repaired),
   and then QUtil::utf16_to_utf8 produces exactly the UTF-8 encoding of its text. *)
From QV Require Import Base.Bytes Gen.PdfDoc Json.JsonSpec Json.JsonEmit Json.C14ProofsA Json.C14ProofsB Json.C14ProofsC Json.C14ProofsD Json.C14ProofsE.
Local Open Scope N_scope.

Ltac Zify.zify_post_hook ::= Z.to_euclidean_division_equations.

(* ------------------------------------------------------------------ utf8_decode inverts utf8_encode *)

Lemma utf8_decode_enc c r : scalar_value c -> utf8_decode (utf8_enc c ++ r) = option_map (cons c) (utf8_decode r).
Proof.
  intros Hs. unfold scalar_value in Hs. unfold utf8_enc.
  destruct (N.ltb_spec c 128).
  - cbn [app utf8_decode]. replace (c <=? 127) with true by (symmetry; apply N.leb_le; lia). reflexivity.
  - destruct (N.ltb_spec c 2048).
    + cbn [app utf8_decode]. unfold js_in_rng, js_u_tail, js_in_rng. decide_tests. cbn [andb].
      replace ((192 + c / 64 - 192) * 64 + (128 + c mod 64 - 128)) with c by lia. reflexivity.
    + destruct (N.ltb_spec c 65536).
      * cbn [app utf8_decode]. unfold js_in_rng, js_u_tail, js_in_rng, scalar_valueb.
        replace ((224 + c / 4096 - 224) * 4096 + (128 + (c / 64) mod 64 - 128) * 64 + (128 + c mod 64 - 128)) with c by lia.
        decide_tests. cbn [andb orb].
        destruct Hs as [Hs|Hs]; decide_tests; reflexivity.
      * cbn [app utf8_decode]. unfold js_in_rng, js_u_tail, js_in_rng.
        replace ((240 + c / 262144 - 240) * 262144 + (128 + (c / 4096) mod 64 - 128) * 4096 + (128 + (c / 64) mod 64 - 128) * 64 + (128 + c mod 64 - 128)) with c by lia.
        decide_tests. cbn [andb]. reflexivity.
Qed.

Lemma utf8_decode_encode_lemma : forall cs, Forall scalar_value cs -> utf8_decode (utf8_encode cs) = Some cs.
Proof.
  induction 1 as [|c cs Hc Hcs IH]; [reflexivity|].
  change (utf8_encode (c :: cs)) with (utf8_enc c ++ utf8_encode cs). rewrite utf8_decode_enc by assumption. rewrite IH. reflexivity.
Qed.

Lemma utf8_valid_decodes l : utf8_valid l = true -> exists cs, Forall scalar_value cs /\ l = utf8_encode cs /\ utf8_decode l = Some cs.
Proof.
  intros H. apply utf8_valid_iff_lemma in H. destruct H as (cs & Hcs & ->).
  exists cs. repeat split; [assumption|apply utf8_decode_encode_lemma; assumption].
Qed.

(* ------------------------------------------------------------------ UTF-16 *)

Definition u16_unit (be : bool) (a b : N) : N := if be then a * 256 + b else b * 256 + a.

Lemma utf16_decode_odd be x : utf16_decode be [x] = None.
Proof. reflexivity. Qed.

Lemma utf16_decode_plain be a b t : let u := u16_unit be a b in
  js_in_rng 55296 56319 u = false -> js_in_rng 56320 57343 u = false ->
  utf16_decode be (a :: b :: t) = option_map (cons u) (utf16_decode be t).
Proof.
  intros u H1 H2. unfold utf16_decode. cbn [units_of_bytes]. fold (u16_unit be a b). fold u.
  destruct (units_of_bytes be t) as [us|]; [|reflexivity]. cbn [option_map utf16_units_decode]. rewrite H1, H2. reflexivity.
Qed.

Lemma utf16_decode_low be a b t : js_in_rng 55296 56319 (u16_unit be a b) = false -> js_in_rng 56320 57343 (u16_unit be a b) = true ->
  utf16_decode be (a :: b :: t) = None.
Proof.
  intros H1 H2. unfold utf16_decode. cbn [units_of_bytes]. fold (u16_unit be a b).
  destruct (units_of_bytes be t) as [us|]; [|reflexivity]. cbn [option_map utf16_units_decode]. rewrite H1, H2. reflexivity.
Qed.

Lemma utf16_decode_high be a b t : let u := u16_unit be a b in js_in_rng 55296 56319 u = true ->
  utf16_decode be (a :: b :: t) =
  match t with
  | a2 :: b2 :: t' => let v := u16_unit be a2 b2 in
                      if js_in_rng 56320 57343 v
                      then option_map (cons (65536 + (u - 55296) * 1024 + (v - 56320))) (utf16_decode be t')
                      else None
  | _ => None
  end.
Proof.
  intros u H1. unfold utf16_decode. cbn [units_of_bytes]. fold (u16_unit be a b). fold u.
  destruct t as [|a2 [|b2 t']].
  - cbn. rewrite H1. reflexivity.
  - reflexivity.
  - cbn [units_of_bytes]. fold (u16_unit be a2 b2).
    destruct (units_of_bytes be t') as [us|]; cbn [option_map utf16_units_decode].
    + rewrite H1. reflexivity.
    + destruct (js_in_rng 56320 57343 (u16_unit be a2 b2)); reflexivity.
Qed.

Lemma msb_facts m : m < 256 ->
  (N.land m 252 =? 216) = js_in_rng 216 219 m /\ (N.land m 252 =? 220) = js_in_rng 220 223 m.
Proof.
  intros Hm.
  assert (E : forallb (fun m => Bool.eqb (N.land m 252 =? 216) (js_in_rng 216 219 m) && Bool.eqb (N.land m 252 =? 220) (js_in_rng 220 223 m)) all_bytes = true)
    by (vm_compute; reflexivity).
  pose proof (byte_sweep _ E m Hm) as Hs. cbv beta in Hs. apply andb_true_iff in Hs. destruct Hs as [H1 H2].
  apply Bool.eqb_prop in H1, H2. split; assumption.
Qed.

Lemma unit_ranges m l : m < 256 -> l < 256 ->
  js_in_rng 216 219 m = js_in_rng 55296 56319 (m * 256 + l) /\ js_in_rng 220 223 m = js_in_rng 56320 57343 (m * 256 + l).
Proof.
  intros Hm Hl. unfold js_in_rng. split.
  - destruct (N.leb_spec 216 m), (N.leb_spec m 219); try lia; decide_tests; reflexivity.
  - destruct (N.leb_spec 220 m), (N.leb_spec m 223); try lia; decide_tests; reflexivity.
Qed.

(* the scanner of D7D8_json_strings.diff decides RFC 2781 well-formedness, and on well-formed input
   QUtil::utf16_to_utf8 writes the UTF-8 encoding of the decoded text *)
Lemma u16_wf_spec le : forall n l, (length l <= n)%nat -> bytes_lt l ->
  if jm_wf_utf16_go le l false
  then exists cps, utf16_decode (negb le) l = Some cps /\ Forall scalar_value cps /\
                   forall acc, jm_u16_loop le l 0 acc = rev' (rev (utf8_encode cps) ++ acc)
  else utf16_decode (negb le) l = None.
Proof.
  induction n as [|n IH]; intros l Hn Hl.
  - destruct l; [|simpl in Hn; lia]. simpl. exists []. split; [reflexivity|]. split; [constructor|]. intros; reflexivity.
  - destruct l as [|a [|b t]].
    + simpl. exists []. split; [reflexivity|]. split; [constructor|]. intros; reflexivity.
    + reflexivity.
    + inversion Hl as [|? ? Ha Hl1]; subst. inversion Hl1 as [|? ? Hb Ht]; subst.
      cbn [jm_wf_utf16_go jm_u16_loop].
      set (msb := if le then b else a). set (lsb := if le then a else b).
      assert (Hmsb : msb < 256) by (unfold msb; destruct le; assumption).
      assert (Hlsb : lsb < 256) by (unfold lsb; destruct le; assumption).
      assert (Hu : (if le then b * 256 + a else a * 256 + b) = msb * 256 + lsb) by (unfold msb, lsb; destruct le; reflexivity).
      assert (Hu' : u16_unit (negb le) a b = msb * 256 + lsb) by (unfold u16_unit, msb, lsb; destruct le; reflexivity).
      rewrite Hu. set (u := msb * 256 + lsb) in *.
      assert (Hu16 : u < 65536) by (unfold u; lia).
      destruct (msb_facts msb Hmsb) as (M1 & M2). destruct (unit_ranges msb lsb Hmsb Hlsb) as (R1 & R2). fold u in R1, R2.
      destruct (u16_land_facts u Hu16) as (F1 & F2 & F3).
      rewrite M1, M2, R1, R2, F1, F2.
      destruct (js_in_rng 55296 56319 u) eqn:E1.
      * (* high surrogate: a low one must follow *)
        rewrite (utf16_decode_high (negb le) a b t) by (rewrite Hu'; exact E1). rewrite Hu'. fold u.
        destruct t as [|a2 [|b2 t']]; try reflexivity.
        inversion Ht as [|? ? Ha2 Ht1]; subst. inversion Ht1 as [|? ? Hb2 Ht2]; subst.
        cbn [jm_wf_utf16_go jm_u16_loop].
        set (msb2 := if le then b2 else a2). set (lsb2 := if le then a2 else b2).
        assert (Hmsb2 : msb2 < 256) by (unfold msb2; destruct le; assumption).
        assert (Hlsb2 : lsb2 < 256) by (unfold lsb2; destruct le; assumption).
        assert (Hv : (if le then b2 * 256 + a2 else a2 * 256 + b2) = msb2 * 256 + lsb2) by (unfold msb2, lsb2; destruct le; reflexivity).
        assert (Hv' : u16_unit (negb le) a2 b2 = msb2 * 256 + lsb2) by (unfold u16_unit, msb2, lsb2; destruct le; reflexivity).
        rewrite Hv, Hv'. set (v := msb2 * 256 + lsb2) in *.
        assert (Hv16 : v < 65536) by (unfold v; lia).
        destruct (msb_facts msb2 Hmsb2) as (M3 & M4). destruct (unit_ranges msb2 lsb2 Hmsb2 Hlsb2) as (R3 & R4). fold v in R3, R4.
        destruct (u16_land_facts v Hv16) as (G1 & G2 & G3).
        rewrite M3, M4, R3, R4, G1, G2.
        destruct (js_in_rng 55296 56319 v) eqn:E3.
        { (* high after high *) apply in_rng_true in E3.
          replace (js_in_rng 56320 57343 v) with false by (symmetry; apply in_rng_false; lia). reflexivity. }
        destruct (js_in_rng 56320 57343 v) eqn:E4; [|reflexivity].
        specialize (IH t' ltac:(simpl in Hn; lia) Ht2).
        destruct (jm_wf_utf16_go le t' false).
        -- destruct IH as (cps & D & S & L).
           apply in_rng_true in E1, E4.
           exists ((65536 + (u - 55296) * 1024 + (v - 56320)) :: cps). rewrite D. repeat split.
           ++ constructor; [right; lia|assumption].
           ++ intros acc. rewrite F3, G3.
              replace (65536 + u mod 1024 * 1024 + v mod 1024) with (65536 + (u - 55296) * 1024 + (v - 56320)) by lia.
              rewrite L. change (utf8_encode (?c :: cps)) with (utf8_enc c ++ utf8_encode cps).
              rewrite to_utf8_is_utf8_enc_lemma by lia.
              rewrite rev_append_rev, rev_app_distr, <- app_assoc. reflexivity.
        -- rewrite IH. reflexivity.
      * destruct (js_in_rng 56320 57343 u) eqn:E2.
        -- (* unpaired low surrogate *)
           apply utf16_decode_low; rewrite Hu'; assumption.
        -- rewrite (utf16_decode_plain (negb le) a b t) by (rewrite Hu'; assumption). rewrite Hu'. fold u.
           specialize (IH t ltac:(simpl in Hn; lia) Ht).
           destruct (jm_wf_utf16_go le t false).
           ++ destruct IH as (cps & D & S & L). apply in_rng_false in E1, E2.
              exists (u :: cps). rewrite D. repeat split.
              ** constructor; [unfold scalar_value; lia|assumption].
              ** intros acc. rewrite L. change (utf8_encode (u :: cps)) with (utf8_enc u ++ utf8_encode cps).
                 rewrite to_utf8_is_utf8_enc_lemma by lia.
                 rewrite rev_append_rev, rev_app_distr, <- app_assoc. reflexivity.
           ++ rewrite IH. reflexivity.
Qed.

Lemma announced_utf16 s : jm_is_utf16 s = true ->
  exists a b t, s = a :: b :: t /\ ((a = 254 /\ b = 255 /\ announced_encoding s = (AnnUtf16BE, t)) \/
                                   (a = 255 /\ b = 254 /\ announced_encoding s = (AnnUtf16LE, t))).
Proof.
  intros H. destruct s as [|a [|b t]]; try discriminate. exists a, b, t. split; [reflexivity|].
  cbn [jm_is_utf16] in H. apply orb_true_iff in H. rewrite !andb_true_iff, !N.eqb_eq in H.
  destruct H as [[-> ->]|[-> ->]]; [left|right]; repeat split; reflexivity.
Qed.

(* the UTF-16 scanner of D7D8_json_strings.diff is the specification's well-formedness *)
Lemma wf_utf16_is_spec_lemma : forall s, bytes_lt s -> jm_is_utf16 s = true ->
  jm_wf_utf16 s = well_formed_for_its_bom s.
Proof.
  intros s Hs H. destruct (announced_utf16 s H) as (a & b & t & -> & [(-> & -> & An)|(-> & -> & An)]);
    unfold well_formed_for_its_bom, text_of; rewrite An; unfold jm_wf_utf16; cbn [tl].
  - change (254 =? 255) with false.
    pose proof (u16_wf_spec false (length t) t ltac:(lia) (skipn_bytes (n:=2) _ Hs)) as W. cbn [negb] in W.
    destruct (jm_wf_utf16_go false t false); [destruct W as (cps & -> & _); reflexivity|rewrite W; reflexivity].
  - change (255 =? 255) with true.
    pose proof (u16_wf_spec true (length t) t ltac:(lia) (skipn_bytes (n:=2) _ Hs)) as W. cbn [negb] in W.
    destruct (jm_wf_utf16_go true t false); [destruct W as (cps & -> & _); reflexivity|rewrite W; reflexivity].
Qed.

Lemma announced_utf8 s : jm_is_explicit_utf8 s = true -> jm_is_utf16 s = false /\ announced_encoding s = (AnnUtf8, skipn 3 s).
Proof.
  intros H. destruct s as [|a [|b [|c t]]]; try discriminate.
  cbn [jm_is_explicit_utf8] in H. rewrite !andb_true_iff, !N.eqb_eq in H. destruct H as [[-> ->] ->]. split; reflexivity.
Qed.

Lemma announced_none s : jm_is_utf16 s = false -> jm_is_explicit_utf8 s = false -> announced_encoding s = (AnnNone, s).
Proof.
  intros H1 H2. destruct s as [|a [|b t]]; try reflexivity.
  cbn [jm_is_utf16] in H1. apply orb_false_iff in H1. destruct H1 as [H1 H1'].
  cbn [announced_encoding]. rewrite H1, H1'. destruct t as [|c t']; [reflexivity|].
  cbn [jm_is_explicit_utf8] in H2. rewrite H2. reflexivity.
Qed.

(* ------------------------------------------------------------------ what an exported string denotes *)

Lemma pdf_doc_to_utf8_is_text s : bytes_lt s -> jm_pdf_doc_to_utf8 s = utf8_encode (pdfdoc_decode s).
Proof.
  induction 1 as [|b t Hb Ht IH]; [reflexivity|].
  unfold jm_pdf_doc_to_utf8, pdfdoc_decode in *. cbn [flat_map map].
  change (utf8_encode (?c :: ?r)) with (utf8_enc c ++ utf8_encode r). rewrite IH. f_equal.
  rewrite <- pdfdoc_tables_match_annex_d_lemma by assumption.
  apply to_utf8_is_utf8_enc_lemma. pose proof (pdfdoc_unicode_scalar b Hb) as S. unfold scalar_value in S. lia.
Qed.

Lemma pdfdoc_decode_scalar s : bytes_lt s -> Forall scalar_value (pdfdoc_decode s).
Proof.
  induction 1 as [|b t Hb Ht IH]; [constructor|]. unfold pdfdoc_decode in *. cbn [map]. constructor; [|exact IH].
  rewrite <- pdfdoc_tables_match_annex_d_lemma by assumption. apply pdfdoc_unicode_scalar. assumption.
Qed.

Lemma utf16_case s : bytes_lt s -> jm_is_utf16 s = true ->
  (jm_wf_utf16 s = true /\ exists cps, text_of s = Some cps /\ Forall scalar_value cps /\ well_formed_for_its_bom s = true /\
                                      jm_utf16_to_utf8 s = utf8_encode cps)
  \/ (jm_wf_utf16 s = false /\ jm_is_explicit_utf8 s = false).
Proof.
  intros Hs H16. destruct (announced_utf16 s H16) as (a & b & t & -> & An).
  assert (Ht : bytes_lt t) by (apply (skipn_bytes (n:=2) _ Hs)).
  assert (H8 : jm_is_explicit_utf8 (a :: b :: t) = false).
  { destruct An as [(-> & -> & _)|(-> & -> & _)]; destruct t as [|c t']; reflexivity. }
  unfold jm_wf_utf16, jm_utf16_to_utf8, well_formed_for_its_bom, text_of. rewrite H16. cbn [tl].
  destruct An as [(-> & -> & An)|(-> & -> & An)]; rewrite An.
  - change (254 =? 255) with false.
    pose proof (u16_wf_spec false (length t) t ltac:(lia) Ht) as W. cbn [negb] in W.
    destruct (jm_wf_utf16_go false t false).
    + left. split; [reflexivity|]. destruct W as (cps & D & S & L). exists cps. rewrite D. repeat split; try assumption.
      rewrite L, app_nil_r, rev'_rev, rev_involutive. reflexivity.
    + right. split; [reflexivity|exact H8].
  - change (255 =? 255) with true.
    pose proof (u16_wf_spec true (length t) t ltac:(lia) Ht) as W. cbn [negb] in W.
    destruct (jm_wf_utf16_go true t false).
    + left. split; [reflexivity|]. destruct W as (cps & D & S & L). exists cps. rewrite D. repeat split; try assumption.
      rewrite L, app_nil_r, rev'_rev, rev_involutive. reflexivity.
    + right. split; [reflexivity|exact H8].
Qed.

(* Every string is exported either in binary form, carrying exactly its bytes, or in text form, carrying exactly
   the Unicode text it denotes; the text form is used only for strings that are well-formed in the encoding
   their byte-order mark announces. *)
Lemma string_export_denotes_lemma : forall s, bytes_lt s ->
  json_string_value (jm_string_json 2 s) = Some ([98; 58] ++ jm_hex_encode s) \/
  exists cps, text_of s = Some cps /\ Forall scalar_value cps /\ well_formed_for_its_bom s = true /\
              json_string_value (jm_string_json 2 s) = Some ([117; 58] ++ utf8_encode cps).
Proof.
  intros s Hs. unfold jm_string_json. change (2 =? 1) with false. cbv iota.
  assert (Hbin : json_string_value (jm_q ([98; 58] ++ jm_hex_encode s)) = Some ([98; 58] ++ jm_hex_encode s)).
  { pose proof (hex_encode_ascii s Hs) as Hh.
    replace ([98; 58] ++ jm_hex_encode s) with (([98; 58] ++ jm_hex_encode s) ++ jm_encode_string []) at 1 by (simpl; rewrite app_nil_r; reflexivity).
    destruct (json_valid_prefixed ([98; 58] ++ jm_hex_encode s) [] ltac:(apply Forall_app; split; [exact prefix_b_plain|exact Hh]) eq_refl) as [_ V].
    rewrite V, app_nil_r. reflexivity. }
  assert (Htxt : forall cps, Forall scalar_value cps ->
             json_string_value (jm_q ([117; 58] ++ jm_encode_string (utf8_encode cps))) = Some ([117; 58] ++ utf8_encode cps)).
  { intros cps Hc. apply json_valid_prefixed; [exact prefix_u_plain|apply utf8_encode_valid; assumption]. }
  destruct (jm_is_utf16 s) eqn:H16.
  - (* UTF-16 *)
    destruct (utf16_case s Hs H16) as [(W & cps & T & S & WF & E)|(W & H8)]; rewrite W; cbn [andb].
    + right. exists cps. repeat split; try assumption. rewrite E. apply Htxt. assumption.
    + rewrite H8. cbn [andb negb]. rewrite !andb_false_r. left. exact Hbin.
  - cbn [andb]. destruct (jm_is_explicit_utf8 s) eqn:H8.
    + (* UTF-8 behind EF BB BF *)
      destruct (announced_utf8 s H8) as (_ & An).
      rewrite wf_utf8_is_utf8_valid_lemma. cbn [andb negb].
      destruct (utf8_valid (skipn 3 s)) eqn:Ev.
      * destruct (utf8_valid_decodes _ Ev) as (cps & S & E & D). right. exists cps.
        unfold well_formed_for_its_bom, text_of. rewrite An, D. repeat split; try assumption.
        rewrite E. apply Htxt. assumption.
      * rewrite !andb_false_r. left. exact Hbin.
    + (* no byte-order mark: PDFDocEncoding *)
      cbn [andb negb].
      match goal with |- context [if ?c then _ else _] => destruct c end; [|left; exact Hbin].
      right. exists (pdfdoc_decode s). unfold well_formed_for_its_bom, text_of. rewrite (announced_none s H16 H8).
      repeat split; [apply pdfdoc_decode_scalar; assumption|].
      rewrite pdf_doc_to_utf8_is_text by assumption. apply Htxt. apply pdfdoc_decode_scalar. assumption.
Qed.

(* D7: on the pinned tree FE FF DC 01 00 41 (an unpaired low surrogate) is exported in text form *)
Lemma string_export_denotes_refuted_lemma :
  exists s, bytes_lt s /\ well_formed_for_its_bom s = false /\ text_of s = None /\
    json_string_value (jm_string_json_pinned 2 s) = Some [117; 58; 1; 65].
Proof. exists [254; 255; 220; 1; 0; 65]. split; [repeat constructor|]. vm_compute. repeat split. Qed.
