(* C03: the printers QPDF_String::unparse and Name::normalize (Obj/Unparse.v) produce spellings that the
   ISO specification lexer (Lex/LexSpec.v) reads back as the same value, and so does the tokenizer model. *)
From QV Require Import Base.Bytes Lex.TokModel Lex.LexSpec Lex.TokInterp Lex.LexRun Lex.LexProofs Obj.Unparse.
Local Open Scope N_scope.

Lemma span_while_app p : forall a b, forallb p a = true -> match b with [] => True | x :: _ => p x = false end ->
  span_while p (a ++ b) = (a, b).
Proof.
  induction a as [|x a IH]; intros b Ha Hb.
  - destruct b as [|y b]; [reflexivity|]. cbn [app span_while]. rewrite Hb. reflexivity.
  - cbn [forallb] in Ha. apply andb_true_iff in Ha. destruct Ha as [Hx Ha].
    cbn [app span_while]. rewrite Hx, (IH b Ha Hb). reflexivity.
Qed.

Definition nib16 : list N := map N.of_nat (seq 0 16).
Lemma nib16_complete n : n < 16 -> In n nib16.
Proof. intros H. apply in_map_iff. exists (N.to_nat n). split; [apply N2Nat.id|apply in_seq; lia]. Qed.
Lemma nib_sweep (P : N -> bool) : forallb P nib16 = true -> forall n, n < 16 -> P n = true.
Proof. intros H n Hn. rewrite forallb_forall in H. apply H, nib16_complete, Hn. Qed.

(* ---------------- hexadecimal form ---------------- *)
Definition hexenc (v : list N) : list N :=
  flat_map (fun c => [hexchar_lc (N.shiftr c 4); hexchar_lc (N.land c 15)]) v.
Definition nibbles (v : list N) : list N := flat_map (fun c => [N.shiftr c 4; N.land c 15]) v.

Lemma unparse_hex_rev_eq : forall v acc, unparse_hex_rev v acc = rev (hexenc v) ++ acc.
Proof.
  induction v as [|c v IH]; intros acc; [reflexivity|].
  cbn [unparse_hex_rev hexenc flat_map]. rewrite IH. fold (hexenc v).
  cbn [app rev]. rewrite <- !app_assoc. reflexivity.
Qed.

Lemma hexchar_props n : n < 16 ->
  hex_value (hexchar_lc n) = Some n /\ iso_white (hexchar_lc n) = false /\ (hexchar_lc n =? 62) = false /\
  (hexchar_lc n =? 60) = false /\ iso_regular (hexchar_lc n) = true /\ hexchar_lc n < 256 /\ hexchar_lc n <> 11.
Proof.
  intros Hn.
  pose proof (nib_sweep (fun n => match hex_value (hexchar_lc n) with Some m => m =? n | None => false end &&
                                  negb (iso_white (hexchar_lc n)) && negb (hexchar_lc n =? 62) && negb (hexchar_lc n =? 60) &&
                                  iso_regular (hexchar_lc n) && (hexchar_lc n <? 256) && negb (hexchar_lc n =? 11))
                ltac:(vm_compute; reflexivity) n Hn) as H.
  cbv beta in H. repeat (apply andb_true_iff in H; destruct H as [H ?]).
  destruct (hex_value (hexchar_lc n)) as [m|]; [|discriminate]. apply N.eqb_eq in H. subst m.
  repeat match goal with X : negb _ = true |- _ => apply negb_true_iff in X end.
  repeat split; auto. apply N.ltb_lt; assumption. apply N.eqb_neq; assumption.
Qed.

Lemma byte_nibbles c : c < 256 -> N.shiftr c 4 < 16 /\ N.land c 15 < 16 /\ 16 * N.shiftr c 4 + N.land c 15 = c.
Proof.
  intros Hc.
  pose proof (byte_sweep (fun c => (N.shiftr c 4 <? 16) && (N.land c 15 <? 16) && (16 * N.shiftr c 4 + N.land c 15 =? c))
                ltac:(vm_compute; reflexivity) c Hc) as H.
  cbv beta in H. repeat (apply andb_true_iff in H; destruct H as [H ?]).
  apply N.ltb_lt in H. apply N.ltb_lt in H1. apply N.eqb_eq in H0. auto.
Qed.

Lemma hexenc_digits v : bytes_ok v -> hex_digits (hexenc v) = Some (nibbles v).
Proof.
  induction 1 as [|c v Hc Hv IH]; [reflexivity|].
  destruct (byte_nibbles c Hc) as (A & B & _).
  destruct (hexchar_props _ A) as (V1 & W1 & _). destruct (hexchar_props _ B) as (V2 & W2 & _).
  cbn [hexenc flat_map app hex_digits]. fold (hexenc v). rewrite W1, V1, W2, V2, IH. reflexivity.
Qed.

Lemma nibbles_pairs v : bytes_ok v -> hex_pairs (nibbles v) = v.
Proof.
  induction 1 as [|c v Hc Hv IH]; [reflexivity|].
  destruct (byte_nibbles c Hc) as (_ & _ & E).
  cbn [nibbles flat_map app hex_pairs]. fold (nibbles v). rewrite IH, E. reflexivity.
Qed.

Lemma hexenc_no_gt v : bytes_ok v -> forallb (fun b => negb (b =? 62)) (hexenc v) = true.
Proof.
  induction 1 as [|c v Hc Hv IH]; [reflexivity|].
  destruct (byte_nibbles c Hc) as (A & B & _).
  destruct (hexchar_props _ A) as (_ & _ & G1 & _). destruct (hexchar_props _ B) as (_ & _ & G2 & _).
  cbn [hexenc flat_map app forallb]. fold (hexenc v). rewrite G1, G2, IH. reflexivity.
Qed.

Lemma hex_roundtrip v rest : bytes_ok v ->
  spec_token_at (60 :: hexenc v ++ 62 :: rest) = LexTok (PStr v) rest.
Proof.
  intros Hv. cbn [spec_token_at]. change (60 =? 40) with false. change (60 =? 60) with true. cbn iota.
  assert (Hh : hex_string (hexenc v ++ 62 :: rest) = Some (v, rest)).
  { unfold hex_string. rewrite (span_while_app _ (hexenc v) (62 :: rest) (hexenc_no_gt v Hv) eq_refl).
    change (62 =? 62) with true. cbn iota. rewrite (hexenc_digits v Hv), (nibbles_pairs v Hv). reflexivity. }
  destruct (hexenc v ++ 62 :: rest) as [|c r1] eqn:E.
  - destruct (hexenc v); discriminate.
  - assert (Hc : (c =? 60) = false).
    { destruct v as [|c0 v0].
      - cbn in E. injection E as <- _. reflexivity.
      - inversion Hv; subst. destruct (byte_nibbles c0 ltac:(assumption)) as (A & _ & _).
        destruct (hexchar_props _ A) as (_ & _ & _ & L & _). cbn in E. injection E as <- _. exact L. }
    rewrite Hc, Hh. reflexivity.
Qed.

(* ---------------- literal form ---------------- *)
Definition esc (ch : N) : list N :=
  if ch =? 10 then [92; 110] else if ch =? 13 then [92; 114] else if ch =? 9 then [92; 116]
  else if ch =? 8 then [92; 98] else if ch =? 12 then [92; 102] else if ch =? 40 then [92; 40]
  else if ch =? 41 then [92; 41] else if ch =? 92 then [92; 92]
  else if is_iso_latin1_printable ch then [ch]
  else [92; 48 + ch / 64; 48 + (ch / 8) mod 8; 48 + ch mod 8].
Definition litenc (v : list N) : list N := flat_map esc v.

Lemma unparse_lit_rev_eq : forall v acc, unparse_lit_rev v acc = rev (litenc v) ++ acc.
Proof.
  induction v as [|c v IH]; intros acc; [reflexivity|].
  cbn [unparse_lit_rev litenc flat_map]. rewrite IH. fold (litenc v). rewrite rev_app_distr, <- app_assoc. f_equal.
  unfold esc, octal3_rev.
  repeat match goal with |- context [if ?c then _ else _] => destruct c end; reflexivity.
Qed.

Lemma octal_props ch : ch < 256 ->
  let d1 := 48 + ch / 64 in let d2 := 48 + (ch / 8) mod 8 in let d3 := 48 + ch mod 8 in
  (d1 =? 110) = false /\ (d1 =? 114) = false /\ (d1 =? 116) = false /\ (d1 =? 98) = false /\ (d1 =? 102) = false /\
  (d1 =? 10) = false /\ (d1 =? 13) = false /\ oct_digit d1 = true /\ oct_digit d2 = true /\ oct_digit d3 = true /\
  ((d1 - 48) * 64 + (d2 - 48) * 8 + (d3 - 48)) mod 256 = ch.
Proof.
  intros Hc.
  pose proof (byte_sweep (fun ch => let d1 := 48 + ch / 64 in let d2 := 48 + (ch / 8) mod 8 in let d3 := 48 + ch mod 8 in
      negb (d1 =? 110) && negb (d1 =? 114) && negb (d1 =? 116) && negb (d1 =? 98) && negb (d1 =? 102) && negb (d1 =? 10) &&
      negb (d1 =? 13) && oct_digit d1 && oct_digit d2 && oct_digit d3 &&
      (((d1 - 48) * 64 + (d2 - 48) * 8 + (d3 - 48)) mod 256 =? ch)) ltac:(vm_compute; reflexivity) ch Hc) as H.
  cbv beta zeta in H. cbv zeta.
  repeat (apply andb_true_iff in H; destruct H as [H ?]).
  repeat match goal with X : negb _ = true |- _ => apply negb_true_iff in X end.
  apply N.eqb_eq in H0. repeat split; assumption.
Qed.

Lemma printable_not_cr ch : is_iso_latin1_printable ch = true -> (ch =? 13) = false.
Proof.
  intros H. destruct (ch =? 13) eqn:E; [|reflexivity]. apply N.eqb_eq in E. subst. vm_compute in H. discriminate.
Qed.

Lemma esc_lit ch d tail : ch < 256 -> lit_string d (esc ch ++ tail) = consb ch (lit_string d tail).
Proof.
  intros Hc. unfold esc.
  destruct (ch =? 10) eqn:E10; [apply N.eqb_eq in E10; subst; reflexivity|].
  destruct (ch =? 13) eqn:E13; [apply N.eqb_eq in E13; subst; reflexivity|].
  destruct (ch =? 9) eqn:E9; [apply N.eqb_eq in E9; subst; reflexivity|].
  destruct (ch =? 8) eqn:E8; [apply N.eqb_eq in E8; subst; reflexivity|].
  destruct (ch =? 12) eqn:E12; [apply N.eqb_eq in E12; subst; reflexivity|].
  destruct (ch =? 40) eqn:E40; [apply N.eqb_eq in E40; subst; reflexivity|].
  destruct (ch =? 41) eqn:E41; [apply N.eqb_eq in E41; subst; reflexivity|].
  destruct (ch =? 92) eqn:E92; [apply N.eqb_eq in E92; subst; reflexivity|].
  destruct (is_iso_latin1_printable ch) eqn:Ep.
  - cbn [app lit_string]. rewrite E41, E40, E13, E92. reflexivity.
  - destruct (octal_props ch Hc) as (A1 & A2 & A3 & A4 & A5 & A6 & A7 & O1 & O2 & O3 & V). cbv zeta in *.
    cbn [app lit_string]. change (92 =? 41) with false. change (92 =? 40) with false. change (92 =? 13) with false.
    change (92 =? 92) with true. cbn iota.
    rewrite A1, A2, A3, A4, A5, A6, A7, O1, O2, O3, V. reflexivity.
Qed.

Lemma litenc_lit v rest : bytes_ok v -> lit_string 0 (litenc v ++ 41 :: rest) = Some (v, rest).
Proof.
  induction 1 as [|c v Hc Hv IH]; [reflexivity|].
  cbn [litenc flat_map]. fold (litenc v). rewrite <- app_assoc, (esc_lit c 0 _ Hc), IH. reflexivity.
Qed.

Lemma lit_roundtrip v rest : bytes_ok v -> spec_token_at (40 :: litenc v ++ 41 :: rest) = LexTok (PStr v) rest.
Proof. intros Hv. cbn [spec_token_at]. change (40 =? 40) with true. cbn iota. rewrite (litenc_lit v rest Hv). reflexivity. Qed.

Lemma string_unparse_form fb v :
  string_unparse fb v = if fb || use_hex_string v then 60 :: hexenc v ++ [62] else 40 :: litenc v ++ [41].
Proof.
  unfold string_unparse. destruct (fb || use_hex_string v); rewrite rev'_rev; cbn [rev].
  - rewrite unparse_hex_rev_eq, rev_app_distr, rev_involutive. reflexivity.
  - rewrite unparse_lit_rev_eq, rev_app_distr, rev_involutive. reflexivity.
Qed.

(* string_roundtrip: whatever QPDF_String::unparse prints (either form, any byte string) is a spelling of
   the same string for the ISO lexer, whatever follows *)
Lemma string_roundtrip_lemma : forall fb v rest, bytes_ok v ->
  spec_next (string_unparse fb v ++ rest) = LexTok (PStr v) rest.
Proof.
  intros fb v rest Hv. rewrite string_unparse_form. unfold spec_next.
  destruct (fb || use_hex_string v); cbn [app skip_ignorable]; rewrite <- app_assoc; cbn [app].
  - change (iso_white 60) with false. change (60 =? 37) with false. cbn iota. apply hex_roundtrip, Hv.
  - change (iso_white 40) with false. change (40 =? 37) with false. cbn iota. apply lit_roundtrip, Hv.
Qed.

(* ---------------- names ---------------- *)
Definition nesc (ch : N) : list N :=
  if ch =? 0 then [35]
  else if name_needs_escape ch then [35; hexchar_lc (N.shiftr ch 4); hexchar_lc (N.land ch 15)] else [ch].
Definition nameenc (n : list N) : list N := flat_map nesc n.

Lemma name_norm_rev_eq : forall n acc, name_norm_rev n acc = rev (nameenc n) ++ acc.
Proof.
  induction n as [|c n IH]; intros acc; [reflexivity|].
  cbn [name_norm_rev nameenc flat_map]. rewrite IH. fold (nameenc n). rewrite rev_app_distr, <- app_assoc. f_equal.
  unfold nesc. destruct (c =? 0); [reflexivity|]. destruct (name_needs_escape c); reflexivity.
Qed.

Lemma name_normalize_form n : name_normalize (47 :: n) = 47 :: nameenc n.
Proof. unfold name_normalize. rewrite rev'_rev, name_norm_rev_eq, rev_app_distr, rev_involutive. reflexivity. Qed.

Lemma raw_name_char ch : ch < 256 -> name_needs_escape ch = false ->
  iso_regular ch = true /\ (ch =? 35) = false /\ ch <> 11.
Proof.
  intros Hc He.
  pose proof (byte_sweep (fun ch => name_needs_escape ch || (iso_regular ch && negb (ch =? 35) && negb (ch =? 11)))
                ltac:(vm_compute; reflexivity) ch Hc) as H.
  cbv beta in H. rewrite He in H. cbn [orb] in H. repeat (apply andb_true_iff in H; destruct H as [H ?]).
  repeat match goal with X : negb _ = true |- _ => apply negb_true_iff in X end.
  repeat split; try assumption.
  - unfold iso_regular. rewrite H, H2. reflexivity.
  - apply N.eqb_neq. assumption.
Qed.

Lemma nameenc_props n : bytes_ok n -> ~ In 0 n ->
  forallb iso_regular (nameenc n) = true /\ name_decode (nameenc n) = Some n /\ ~ In 11 (nameenc n) /\ bytes_ok (nameenc n).
Proof.
  induction 1 as [|c n Hc Hn IH]; intros H0.
  - repeat split; try reflexivity. intros []. constructor.
  - assert (Hc0 : (c =? 0) = false) by (apply N.eqb_neq; intros ->; apply H0; left; reflexivity).
    destruct (IH ltac:(intros X; apply H0; right; exact X)) as (R & D & V & B).
    cbn [nameenc flat_map]. fold (nameenc n). unfold nesc. rewrite Hc0.
    destruct (name_needs_escape c) eqn:Ee.
    + destruct (byte_nibbles c Hc) as (A1 & A2 & E).
      destruct (hexchar_props _ A1) as (V1 & _ & _ & _ & R1 & B1 & N1).
      destruct (hexchar_props _ A2) as (V2 & _ & _ & _ & R2 & B2 & N2).
      cbn [app forallb name_decode]. change (iso_regular 35) with true. change (35 =? 35) with true. cbn iota.
      rewrite R1, R2, R, V1, V2, D, E, Hc0. repeat split; try reflexivity.
      * intros [X|[X|[X|X]]]; [discriminate|apply N1; exact X|apply N2; exact X|exact (V X)].
      * repeat constructor; assumption.
    + destruct (raw_name_char c Hc Ee) as (Rc & E35 & N11).
      cbn [app forallb name_decode]. rewrite Rc, R, E35, D. repeat split; try reflexivity.
      * intros [X|X]; [apply N11; exact X|exact (V X)].
      * constructor; assumption.
Qed.

Definition ends_cleanly (rest : list N) : Prop :=
  match rest with [] => True | x :: _ => iso_regular x = false end.

(* name_roundtrip: Name::normalize prints a spelling of the same name (any bytes except NUL, which a
   PDF name cannot contain), when followed by the end of input, white space or a delimiter *)
Lemma name_roundtrip_lemma : forall n rest, bytes_ok n -> ~ In 0 n -> ends_cleanly rest ->
  spec_next (name_normalize (47 :: n) ++ rest) = LexTok (PName n) rest.
Proof.
  intros n rest Hn H0 He. rewrite name_normalize_form. unfold spec_next. cbn [app skip_ignorable].
  change (iso_white 47) with false. change (47 =? 37) with false. cbn iota.
  destruct (nameenc_props n Hn H0) as (R & D & _ & _).
  cbn [spec_token_at]. change (47 =? 40) with false. change (47 =? 60) with false. change (47 =? 62) with false.
  change (47 =? 91) with false. change (47 =? 93) with false. change (47 =? 123) with false. change (47 =? 125) with false.
  change (47 =? 47) with true. cbn iota.
  rewrite (span_while_app iso_regular (nameenc n) rest R).
  - rewrite D. reflexivity.
  - destruct rest; [exact I|exact He].
Qed.

(* ---------------- the tokenizer reads back what the printers print ---------------- *)
Lemma hexenc_bytes v : bytes_ok v -> bytes_ok (hexenc v).
Proof.
  induction 1 as [|c v Hc Hv IH]; [constructor|].
  destruct (byte_nibbles c Hc) as (A & B & _).
  destruct (hexchar_props _ A) as (_ & _ & _ & _ & _ & B1 & _). destruct (hexchar_props _ B) as (_ & _ & _ & _ & _ & B2 & _).
  cbn [hexenc flat_map app]. repeat constructor; assumption.
Qed.

Lemma esc_bytes ch : ch < 256 -> bytes_ok (esc ch).
Proof.
  intros Hc. unfold esc.
  repeat match goal with |- context [if ?c then _ else _] => destruct c end; try (repeat constructor; lia).
  destruct (octal_props ch Hc) as (_ & _ & _ & _ & _ & _ & _ & O1 & O2 & O3 & _). cbv zeta in *.
  unfold oct_digit in *. apply andb_true_iff in O1, O2, O3. destruct O1 as [_ O1]. destruct O2 as [_ O2]. destruct O3 as [_ O3].
  apply N.leb_le in O1, O2, O3. repeat constructor; lia.
Qed.

Lemma litenc_bytes v : bytes_ok v -> bytes_ok (litenc v).
Proof.
  induction 1 as [|c v Hc Hv IH]; [constructor|].
  cbn [litenc flat_map]. apply Forall_app. split; [apply esc_bytes, Hc|exact IH].
Qed.

Lemma string_unparse_bytes fb v : bytes_ok v -> bytes_ok (string_unparse fb v).
Proof.
  intros Hv. rewrite string_unparse_form. destruct (fb || use_hex_string v).
  - constructor; [lia|]. apply Forall_app. split; [apply hexenc_bytes, Hv|repeat constructor; lia].
  - constructor; [lia|]. apply Forall_app. split; [apply litenc_bytes, Hv|repeat constructor; lia].
Qed.

Lemma string_print_read_lemma : forall fb v rest t pos,
  bytes_ok v -> bytes_ok rest -> t_incl_ign t = false -> t_state t <> TS_inline_image ->
  exists t1 newpos last,
    next_token 0 t (string_unparse fb v ++ rest) pos = (t1, rest, newpos, last) /\
    tok_interp (tk_token t1) = Some (PStr v).
Proof.
  intros fb v rest t pos Hv Hr Hii Hst.
  apply next_token_complete_lemma; try assumption.
  - apply Forall_app. split; [apply string_unparse_bytes, Hv|exact Hr].
  - apply string_roundtrip_lemma, Hv.
  - rewrite string_unparse_form. unfold head_run.
    destruct (fb || use_hex_string v); cbn; intros [].
Qed.

Lemma name_print_read_lemma : forall n rest t pos,
  bytes_ok n -> ~ In 0 n -> bytes_ok rest -> ends_cleanly rest -> t_incl_ign t = false -> t_state t <> TS_inline_image ->
  exists t1 newpos last,
    next_token 0 t (name_normalize (47 :: n) ++ rest) pos = (t1, rest, newpos, last) /\
    tok_interp (tk_token t1) = Some (PName n).
Proof.
  intros n rest t pos Hn H0 Hr He Hii Hst.
  destruct (nameenc_props n Hn H0) as (R & D & V & B).
  apply next_token_complete_lemma; try assumption.
  - rewrite name_normalize_form. constructor; [lia|]. apply Forall_app. split; assumption.
  - apply name_roundtrip_lemma; assumption.
  - rewrite name_normalize_form. unfold head_run. cbn [app skip_ignorable].
    change (iso_white 47) with false. change (47 =? 37) with false. cbn iota. change (47 =? 47) with true. cbn iota.
    rewrite (span_while_app iso_regular (nameenc n) rest R); [exact V|]. destruct rest; [exact I|exact He].
Qed.
