(* handlers: Json/ model (JsonEmit.v) and specification (JsonSpec.v). I/O only. *)
open Qvmodel
open Runner

let read_file_bytes (path : string) : string =
  let ic = open_in_bin path in
  let n = in_channel_length ic in
  let s = really_input_string ic n in
  close_in ic; s

let both (p : n list) (f : n list) : string = hexbytes p ^ " " ^ hexbytes f

(* tree encoding: see harness/drv_json.cc *)
let parse_tree (s : string) : jobj =
  let toks = Array.of_list (String.split_on_char ',' s) in
  let pos = ref 0 in
  let rec go () : jobj =
    let t = toks.(!pos) in
    incr pos;
    let rest = String.sub t 1 (String.length t - 1) in
    match t.[0] with
    | 'n' -> JNull
    | 't' -> JBool true
    | 'f' -> JBool false
    | 'i' -> JInt (z_of_int (int_of_string rest))
    | 'r' -> JReal (unhexbytes rest)
    | 's' -> JStr (unhexbytes rest)
    | 'N' -> JName (unhexbytes rest)
    | 'R' -> (match String.split_on_char '.' rest with
              | [a; b] -> JRef (n_of_int (int_of_string a), n_of_int (int_of_string b))
              | _ -> failwith "ref")
    | '[' ->
      let items = ref [] in
      while toks.(!pos) <> "]" do items := go () :: !items done;
      incr pos;
      JArr (List.rev !items)
    | '{' ->
      let items = ref [] in
      while toks.(!pos) <> "}" do
        let k = toks.(!pos) in
        incr pos;
        let key = unhexbytes (String.sub k 1 (String.length k - 1)) in
        let v = go () in
        items := (key, v) :: !items
      done;
      incr pos;
      JDict (List.rev !items)
    | _ -> failwith "tree"
  in
  go ()

let bb (b : bool) : string = if b then "1" else "0"

let () =
  register "jreal" (fun args -> match args with
    | [h] -> let v = unhexbytes h in both (jm_real_pinned v) (jm_real v)
    | _ -> "?args");
  register "jstr" (fun args -> match args with
    | [v; h] -> let ver = n_of_int (int_of_string v) in let s = unhexbytes h in
      both (jm_string_json_pinned ver s) (jm_string_json ver s)
    | _ -> "?args");
  register "jname" (fun args -> match args with
    | [v; h] -> let ver = n_of_int (int_of_string v) in let s = unhexbytes h in
      both (jm_name_json_pinned ver s) (jm_name_json ver s)
    | _ -> "?args");
  register "jobj" (fun args -> match args with
    | [v; d; t] ->
      let ver = n_of_int (int_of_string v) in
      let indent = nat_of_int (2 * int_of_string d) in
      let o = parse_tree t in
      both (jm_emit false ver indent o) (jm_emit true ver indent o)
    | _ -> "?args");
  register "janalyze" (fun args -> match args with
    | [h] -> let s = unhexbytes h in
      let (a, b) = jm_analyze_pinned s in let (c, d) = jm_analyze s in
      bb a ^ bb b ^ " " ^ bb c ^ bb d
    | _ -> "?args");
  register "jimp" (fun args -> match args with
    | [h] ->
      let show r = (match r with
              | ImpRef (a, b) -> Printf.sprintf "ref,%d,%d" (int_of_n a) (int_of_n b)
              | ImpString s -> "str," ^ hexbytes s
              | ImpName s -> "name," ^ hexbytes s
              | ImpError -> "err") in
      let t = unhexbytes h in
      show (jm_import_token true t) ^ " " ^ show (jm_import_token false t)
    | _ -> "?args");
  register "jutil" (fun args -> match args with
    | ["toutf8"; a] -> hexbytes (jm_to_utf8 (n_of_int (int_of_string a)))
    | ["toutf16"; a] -> hexbytes (jm_to_utf16 (n_of_int (int_of_string a)))
    | [f; h] ->
      let s = unhexbytes h in
      (match f with
       | "u16to8" -> hexbytes (jm_utf16_to_utf8 s)
       | "pd2u8" -> hexbytes (jm_pdf_doc_to_utf8 s)
       | "u8topd" -> let (ok, r) = jm_utf8_to_pdf_doc s in bb ok ^ " " ^ hexbytes r
       | "u8to16" -> hexbytes (jm_utf8_to_utf16 s)
       | "newu" -> hexbytes (jm_new_unicode_string s)
       | "nextcp" ->
         let ((cp, err), rest) = jm_next_codepoint s in
         Printf.sprintf "%d %s %d" (int_of_n cp) (bb err) (List.length s - List.length rest)
       | "encstr" -> hexbytes (jm_encode_string s)
       | "norm" -> hexbytes (jm_normalize s)
       | "hexenc" -> hexbytes (jm_hex_encode s)
       | "hexdec" -> hexbytes (jm_hex_decode s)
       | "jparse" -> (match jm_parse_string_token s with Some v -> "1 " ^ hexbytes v | None -> "0 -")
       | "usehex" -> bb (jm_use_hex_string s)
       | _ -> "?unknown-function")
    | _ -> "?args")

(* specification oracles *)
let cps (l : n list) : string = if l = [] then "-" else String.concat "," (List.map (fun x -> string_of_int (int_of_n x)) l)

let () =
  register "jvalid" (fun args -> match args with
    | [h] -> string_of_int (int_of_n (json_verdict (unhexbytes h)))
    | _ -> "?args");
  register "jvalidf" (fun args -> match args with
    | [path] -> string_of_int (int_of_n (json_verdict (bytes_of_string (read_file_bytes path))))
    | _ -> "?args");
  register "u8valid" (fun args -> match args with
    | [h] -> bb (utf8_valid (unhexbytes h))
    | _ -> "?args");
  register "jnumber" (fun args -> match args with
    | [h] -> bb (json_number (unhexbytes h))
    | _ -> "?args");
  register "jnumval" (fun args -> match args with
    | [h] -> (match json_number_value (unhexbytes h) with
              | Some ((neg, m), f) -> Printf.sprintf "%s %s %d" (bb neg) (cps [m]) (int_of_n f)
              | None -> "none")
    | _ -> "?args");
  register "jstrval" (fun args -> match args with
    | [h] -> (match json_string_value (unhexbytes h) with Some v -> "1 " ^ hexbytes v | None -> "0 -")
    | _ -> "?args");
  register "jtext" (fun args -> match args with
    | [h] -> (match text_of (unhexbytes h) with Some t -> "1 " ^ cps t | None -> "0 -")
    | _ -> "?args");
  register "jwfbom" (fun args -> match args with
    | [h] -> bb (well_formed_for_its_bom (unhexbytes h))
    | _ -> "?args")
