// C05 driver: the real crypto primitives, key derivation and writer set-up of libqpdf.a.
// Crypto provider: environment variable QPDF_CRYPTO_PROVIDER (native / openssl / gnutls), read by
// the library when the first primitive is created.
#include "drv.hh"
#include <qpdf/QPDF_private.hh>

#include <qpdf/MD5.hh>
#include <qpdf/Pipeline.hh>
#include <qpdf/Pl_AES_PDF.hh>
#include <qpdf/Pl_RC4.hh>
#include <qpdf/Pl_SHA2.hh>
#include <qpdf/QPDF.hh>
#include <qpdf/QPDFWriter.hh>
#include <qpdf/QUtil.hh>
#include <qpdf/RandomDataProvider.hh>
#include <cstdint>
#include <memory>
#include <stdexcept>

namespace {
    class CSink: public Pipeline
    {
      public:
        CSink() : Pipeline("sink", nullptr) {}
        void write(unsigned char const* d, size_t n) override { out.append(reinterpret_cast<char const*>(d), n); }
        void finish() override {}
        std::string out;
    };

    std::vector<std::string> cchunks(std::string const& s) {
        std::vector<std::string> r;
        if (s == "_") return r;
        std::stringstream ss(s); std::string item;
        while (std::getline(ss, item, ',')) r.push_back(unhex(item));
        return r;
    }

    // hands out exactly the bytes it was given, then zeros
    class FixedRandom: public RandomDataProvider
    {
      public:
        explicit FixedRandom(std::string b) : bytes(std::move(b)) { QUtil::setRandomDataProvider(this); }
        ~FixedRandom() override { QUtil::setRandomDataProvider(nullptr); }
        void provideRandomData(unsigned char* data, size_t len) override {
            for (size_t i = 0; i < len; ++i) { data[i] = pos < bytes.size() ? static_cast<unsigned char>(bytes[pos++]) : 0; }
            asked += len;
        }
        std::string bytes;
        size_t pos{0};
        size_t asked{0};
    };

    int as_int(std::string const& s) { return static_cast<int>(static_cast<uint32_t>(std::stoull(s))); }
    using Enc = QPDF::Doc::Encryption;
}

// md5 <chunks>
static Reg r_md5("md5", [](std::vector<std::string> const& a) -> std::string {
    MD5 m;
    for (auto const& c: cchunks(a.at(0))) m.encodeDataIncrementally(c.data(), c.size());
    return hex(m.digest());
});

// sha2 <bits> <chunks>
static Reg r_sha2("sha2", [](std::vector<std::string> const& a) -> std::string {
    Pl_SHA2 p(std::stoi(a.at(0)));
    for (auto const& c: cchunks(a.at(1))) p.write(reinterpret_cast<unsigned char const*>(c.data()), c.size());
    p.finish();
    return hex(p.getRawDigest());
});

// aespl <e|d> <key> <cbc> <iv: z | g:<hex> | r:<hex>> <pad> <chunks>
static Reg r_aespl("aespl", [](std::vector<std::string> const& a) -> std::string {
    bool enc = a.at(0) == "e";
    std::string key = unhex(a.at(1));
    bool cbc = a.at(2) == "1";
    std::string ivs = a.at(3);
    bool pad = a.at(4) == "1";
    auto chunks = cchunks(a.at(5));
    CSink sink;
    std::unique_ptr<FixedRandom> fr;
    try {
        Pl_AES_PDF p("aes", &sink, enc, key);
        if (ivs == "z") p.useZeroIV();
        else if (ivs[0] == 'g') { std::string iv = unhex(ivs.substr(2)); p.setIV(reinterpret_cast<unsigned char const*>(iv.data()), iv.size()); }
        else fr = std::make_unique<FixedRandom>(unhex(ivs.substr(2)));
        if (!cbc) p.disableCBC();
        if (!pad) p.disablePadding();
        for (auto const& c: chunks) p.write(reinterpret_cast<unsigned char const*>(c.data()), c.size());
        p.finish();
    } catch (std::logic_error const& e) {
        return "!logic";
    } catch (std::exception const& e) {
        return "!exception";
    }
    return hex(sink.out);
});

// rc4pl <key> <chunks> : Pl_RC4 fed with exactly these write() calls
static Reg r_rc4pl("rc4pl", [](std::vector<std::string> const& a) -> std::string {
    std::string key = unhex(a.at(0));
    CSink sink;
    Pl_RC4 p("rc4", &sink, key);
    for (auto const& c: cchunks(a.at(1))) p.write(reinterpret_cast<unsigned char const*>(c.data()), c.size());
    p.finish();
    return hex(sink.out);
});

// datakey <key> <objid> <gen> <aes> <V> <R>
static Reg r_datakey("datakey", [](std::vector<std::string> const& a) -> std::string {
    return hex(QPDF::compute_data_key(unhex(a.at(0)), std::stoi(a.at(1)), std::stoi(a.at(2)), a.at(3) == "1",
                                      std::stoi(a.at(4)), std::stoi(a.at(5))));
});

#pragma GCC diagnostic push
#pragma GCC diagnostic ignored "-Wdeprecated-declarations"
// ou <V> <R> <keylen> <P> <encmeta> <id1> <user> <owner>  ->  O U key
static Reg r_ou("ou", [](std::vector<std::string> const& a) -> std::string {
    int V = std::stoi(a.at(0)), R = std::stoi(a.at(1)), kl = std::stoi(a.at(2)), P = as_int(a.at(3));
    bool em = a.at(4) == "1";
    std::string id1 = unhex(a.at(5)), u = unhex(a.at(6)), o = unhex(a.at(7)), O, U;
    QPDF::compute_encryption_O_U(u.c_str(), o.c_str(), V, R, kl, P, em, id1, O, U);
    QPDF::EncryptionData ed(V, R, kl, P, O, U, "", "", "", id1, em);
    return hex(O) + " " + hex(U) + " " + hex(QPDF::compute_encryption_key(u, ed));
});

// v5 <R> <P> <encmeta> <id1> <user> <owner> <rnd>  ->  key O U OE UE Perms randombytes-asked
static Reg r_v5("v5", [](std::vector<std::string> const& a) -> std::string {
    int R = std::stoi(a.at(0)), P = as_int(a.at(1));
    bool em = a.at(2) == "1";
    std::string id1 = unhex(a.at(3)), u = unhex(a.at(4)), o = unhex(a.at(5));
    FixedRandom fr(unhex(a.at(6)));
    std::string key, O, U, OE, UE, Perms;
    QPDF::compute_encryption_parameters_V5(u.c_str(), o.c_str(), 5, R, 32, P, em, id1, key, O, U, OE, UE, Perms);
    return hex(key) + " " + hex(O) + " " + hex(U) + " " + hex(OE) + " " + hex(UE) + " " + hex(Perms) + " " + std::to_string(fr.asked);
});
#pragma GCC diagnostic pop

// chk <V> <R> <keylen> <P> <encmeta> <id1> <O> <U> <OE> <UE> <Perms> <pw>
//   -> user-ok owner-ok recovered-user key(pw) [perms-valid]
static Reg r_chk("chk", [](std::vector<std::string> const& a) -> std::string {
    int V = std::stoi(a.at(0)), R = std::stoi(a.at(1)), kl = std::stoi(a.at(2)), P = as_int(a.at(3));
    bool em = a.at(4) == "1";
    Enc e(V, R, kl, P, unhex(a.at(6)), unhex(a.at(7)), unhex(a.at(8)), unhex(a.at(9)), unhex(a.at(10)), unhex(a.at(5)), em);
    std::string pw = unhex(a.at(11));
    bool cu = e.check_user_password(pw);
    std::string rec;
    bool co = e.check_owner_password(rec, pw);
    std::string out = std::string(cu ? "1" : "0") + " " + (co ? "1" : "0") + " " + hex(co ? rec : std::string());
    if (V >= 5) {
        bool pv = false;
        std::string k = e.recover_encryption_key_with_password(pw, pv);
        out += " " + hex(k) + " " + (pv ? "1" : "0");
    } else {
        out += " " + hex(e.compute_encryption_key(pw));
    }
    return out;
});

// wp <R> <print 0..2 | r2: print> <flags...> : the five QPDFWriter::setR*EncryptionParameters* on an empty
// document written to memory; returns "/P /V /R /Length header-version(first 8 bytes after %PDF-) CFM"
//   R=2: wp 2 <print> <modify> <extract> <annotate>
//   R>=3: wp R <accessibility> <extract> <assemble> <annotate_and_form> <form_filling> <modify_other> <print 0 full,1 low,2 none> <encmeta> <aes>
static Reg r_wp("wp", [](std::vector<std::string> const& a) -> std::string {
    int R = std::stoi(a.at(0));
    auto b = [&](size_t i) { return a.at(i) == "1"; };
    QPDF pdf;
    pdf.emptyPDF();
    QPDFWriter w(pdf);
    w.setOutputMemory();
    w.setStaticID(true);
    FixedRandom fr(std::string(100, 'r'));
    if (R == 2) {
        w.setR2EncryptionParametersInsecure("u", "o", b(1), b(2), b(3), b(4));
    } else {
        qpdf_r3_print_e pr = a.at(7) == "0" ? qpdf_r3p_full : (a.at(7) == "1" ? qpdf_r3p_low : qpdf_r3p_none);
        if (R == 3) w.setR3EncryptionParametersInsecure("u", "o", b(1), b(2), b(3), b(4), b(5), b(6), pr);
        else if (R == 4) w.setR4EncryptionParametersInsecure("u", "o", b(1), b(2), b(3), b(4), b(5), b(6), pr, b(8), b(9));
        else if (R == 5) w.setR5EncryptionParameters("u", "o", b(1), b(2), b(3), b(4), b(5), b(6), pr, b(8));
        else w.setR6EncryptionParameters("u", "o", b(1), b(2), b(3), b(4), b(5), b(6), pr, b(8));
    }
    w.write();
    auto buf = w.getBufferSharedPointer();
    std::string out(reinterpret_cast<char const*>(buf->getBuffer()), buf->getSize());
    return hex(out);
});
