(* handlers: model of qpdf's object-level reader (File/RdModel.v).  I/O only. *)
open Qvmodel
open Runner

let hx (l : n list) : string = let h = hexbytes l in if h = "-" then "" else h

let rec ser_mobj (b : Buffer.t) (o : mobj) : unit =
  match o with
  | MoNull -> Buffer.add_string b "n"
  | MoBool true -> Buffer.add_string b "t"
  | MoBool false -> Buffer.add_string b "f"
  | MoInt z -> Buffer.add_string b ("i" ^ string_of_int (int_of_z z))
  | MoReal t -> Buffer.add_string b ("r" ^ hx t)
  | MoStr s -> Buffer.add_string b ("s" ^ hx s)
  | MoName s -> Buffer.add_string b ("N" ^ hx s)
  | MoOp s -> Buffer.add_string b ("o" ^ hx s)
  | MoRef (i, g) -> Buffer.add_string b (Printf.sprintf "R%d.%d" (int_of_z i) (int_of_z g))
  | MoArr l ->
    Buffer.add_char b '[';
    List.iteri (fun i x -> if i > 0 then Buffer.add_char b ','; ser_mobj b x) l;
    Buffer.add_char b ']'
  | MoDict d ->
    Buffer.add_char b '<';
    let first = ref true in
    List.iter (fun (k, v) ->
        match v with
        | MoNull -> ()
        | _ -> if not !first then Buffer.add_char b ',';
          first := false;
          Buffer.add_string b (hx k); Buffer.add_char b ':'; ser_mobj b v) d;
    Buffer.add_char b '>'

let warn_name (w : rd_w) : string =
  match w with
  | RdW_parse _ -> "parse"
  | RdW_endobj -> "endobj"
  | RdW_cr_only -> "cr_only"
  | RdW_no_eol -> "no_eol"
  | RdW_extra_ws -> "extra_ws"
  | RdW_len c -> "len" ^ string_of_int (int_of_n c)
  | RdW_conv -> "conv"
  | RdW_offset0 -> "offset0"
  | RdW_exc c -> "exc" ^ string_of_int (int_of_n c)
  | RdW_recon c -> "recon" ^ string_of_int (int_of_n c)
  | RdW_loop -> "loop"
  | RdW_objstm c -> "objstm" ^ string_of_int (int_of_n c)
  | RdW_xref c -> "xref" ^ string_of_int (int_of_n c)
  | RdW_header -> "header"
  | RdW_catalog_type -> "catalog_type"

let warns (l : rd_w list) : string =
  let s = List.sort_uniq compare (List.map warn_name l) in
  if s = [] then "-" else String.concat "," s

let rd_result (data : string) : string =
  match rd_view (bytes_of_string data) with
  | RdOutside (c, w) -> Printf.sprintf "outside %d %s" (int_of_n c) (warns w)
  | RdFatal (c, w) -> Printf.sprintf "fatal %d %s" (int_of_n c) (warns w)
  | RdDoc d ->
    let b = Buffer.create 65536 in
    Buffer.add_string b (Printf.sprintf "doc v=%s shift=%d w=%s T=" (hx d.rdd_version) (int_of_n d.rdd_shift) (warns d.rdd_warn));
    ser_mobj b d.rdd_trailer;
    List.iter (fun it ->
        Buffer.add_string b (Printf.sprintf " %d.%d=" (int_of_n it.rdi_obj) (int_of_n it.rdi_gen));
        if it.rdi_unmod then Buffer.add_string b "?" else begin
          ser_mobj b it.rdi_val;
          (match it.rdi_data with
           | Some data -> Buffer.add_string b ("|" ^ hx data)
           | None -> ())
        end) d.rdd_items;
    Buffer.contents b

let () =
  register "rd_view" (fun args -> match args with
    | [h] -> rd_result (unhex h)
    | _ -> "?args");
  register "rd_viewf" (fun args -> match args with
    | [path] -> rd_result (H_file.read_file path)
    | _ -> "?args");
  register "rd_eol" (fun args -> match args with
    | [h] -> let ((rest, pos), w) = rd_stream_eol (unhexbytes h) N0 [] in
      Printf.sprintf "%d %s" (int_of_n pos) (warns w)
    | _ -> "?args")
