// C08 driver: qpdf's tokenizer (with max_len) and qpdf's reader / xref reconstruction, observed through the
// public API: the cross-reference table the library ends up with, whether it warned, whether it reconstructed.
#include "drv.hh"
#include <qpdf/QPDF.hh>
#include <qpdf/QPDFTokenizer.hh>
#include <qpdf/BufferInputSource.hh>
#include <qpdf/QPDFXRefEntry.hh>
#include <qpdf/QPDFExc.hh>
#include <fstream>
#include <iterator>

// rc_tok <hex> <maxlen> : "type:rawhex:endoffset;..." (at most 300 tokens), same text as the model prints
static Reg r_rc_tok("rc_tok", [](std::vector<std::string> const& a) -> std::string {
    std::string data = unhex(a.at(0));
    size_t maxlen = static_cast<size_t>(std::stoul(a.at(1)));
    BufferInputSource is("buf", data);
    QPDFTokenizer tk;
    tk.allowEOF();
    std::string out;
    for (int k = 0; k < 300; ++k) {
        auto t = tk.readToken(is, "", true, maxlen);
        if (k > 0) out += ";";
        out += std::to_string(static_cast<int>(t.getType())) + ":" + hex(t.getRawValue()) + ":" + std::to_string(is.tell());
        if (t.getType() == QPDFTokenizer::tt_eof) break;
    }
    return out;
});

// rc_view <path> <recover 0|1>
static Reg r_rc_view("rc_view", [](std::vector<std::string> const& a) -> std::string {
    std::ifstream f(a.at(0), std::ios::binary);
    std::string data((std::istreambuf_iterator<char>(f)), std::istreambuf_iterator<char>());
    bool recover = a.at(1) == "1";
    QPDF pdf;
    pdf.setSuppressWarnings(true);
    pdf.setAttemptRecovery(recover);
    std::string root = "none";
    std::string table;
    try {
        pdf.processMemoryFile("mem", data.data(), data.size());
        pdf.getAllObjects();
        auto r = pdf.getTrailer().getKey("/Root");
        if (r.isIndirect()) root = std::to_string(r.getObjectID()) + "," + std::to_string(r.getGeneration());
        bool first = true;
        for (auto const& [og, e]: pdf.getXRefTable()) {
            if (e.getType() != 1) continue;
            if (!first) table += ";";
            first = false;
            table += std::to_string(og.getObj()) + "," + std::to_string(og.getGen()) + "," + std::to_string(e.getOffset());
        }
    } catch (std::logic_error const&) {
        throw;
    } catch (std::exception const& e) {
        return "fatal";
    }
    bool recon = false;
    auto ws = pdf.getWarnings();
    for (auto const& w: ws) {
        if (w.getMessageDetail().find("Attempting to reconstruct") != std::string::npos) recon = true;
    }
    bool warn = !ws.empty();
    return std::string("ok warn=") + (warn ? "1" : "0") + " recon=" + (recon ? "1" : "0") + " root=" + root +
        " table=" + table + " exit=" + (warn ? "3" : "0");
});
