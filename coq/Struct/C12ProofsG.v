(* C12 (extension) - proofs, part G: page labels travel with their pages.  For every family of label trees (number trees:
   keys strictly ascending) and every selection, the /Nums array that handlePageSpecs builds with getLabelsForPageRange gives
   output page j the label (style, prefix, numeric value - ISO 32000-1 12.4.2) its source page has in its own document; a
   source page that no range covers gets a label without style and prefix. *)
From QV Require Import Base.Bytes Struct.PageLabels Struct.PageLabelsSpec.
From Coq Require Import List ZArith NArith Bool Lia.
Import ListNotations.
Local Open Scope Z_scope.

Lemma plb_opt_eqb_eq : forall a b, plb_opt_eqb a b = true -> a = b.
Proof. intros [x|] [y|] H; cbn in H; try discriminate; [apply N.eqb_eq in H; congruence | reflexivity]. Qed.

(* findObjectAtOrBelow on the sorted entries = the declarative "greatest key <= idx" *)
Lemma plb_find_spec : forall t idx best,
  plbs_sorted t ->
  (forall k l, In (k, l) t -> match best with Some (kb, _) => kb < k | None => True end) ->
  match plb_find t idx best with
  | Some (k, l) => (Some (k, l) = best \/ (In (k, l) t /\ k <= idx)) /\ (forall k' l', In (k', l') t -> k' <= idx -> k' <= k)
  | None => best = None /\ forall k l, In (k, l) t -> idx < k
  end.
Proof.
  induction t as [|[k l] t IH]; intros idx best Hs Hb; cbn [plb_find].
  - destruct best as [[kb lb]|]; [split; [left; reflexivity | intros k' l' []] | split; [reflexivity | intros k l []]].
  - cbn [plbs_sorted] in Hs. destruct Hs as [Hhd Hs].
    assert (Hall : forall k' l', In (k', l') t -> k < k').
    { clear - Hhd Hs. revert k Hhd. induction t as [|[k1 l1] t IHt]; intros k Hhd k' l' Hin; [destruct Hin|].
      cbn [plbs_sorted] in Hs. destruct Hs as [Hhd1 Hs1]. destruct Hin as [E|Hin]; [injection E as <- <-; exact Hhd|].
      specialize (IHt Hs1 k1 Hhd1 k' l' Hin). lia. }
    destruct (Z.leb_spec k idx) as [Hle|Hgt].
    + specialize (IH idx (Some (k, l)) Hs). cbn in IH. specialize (IH (fun k' l' Hin => Hall k' l' Hin)).
      destruct (plb_find t idx (Some (k, l))) as [[kf lf]|].
      * destruct IH as [[E|[Hin Hk]] Hmax].
        -- injection E as -> ->. split; [right; split; [left; reflexivity | exact Hle]|].
           intros k' l' [E|Hin] Hk'; [injection E as <- <-; lia | eapply Hmax; eauto].
        -- split; [right; split; [right; exact Hin | exact Hk]|].
           intros k' l' [E|Hin'] Hk'; [injection E as <- <-; specialize (Hall _ _ Hin); lia | eapply Hmax; eauto].
      * destruct IH as [E _]. discriminate.
    + destruct best as [[kb lb]|].
      * split; [left; reflexivity|]. intros k' l' [E|Hin] Hk'; [injection E as <- <-; lia | specialize (Hall _ _ Hin); lia].
      * split; [reflexivity|]. intros k' l' [E|Hin]; [injection E as <- <-; lia | specialize (Hall _ _ Hin); lia].
Qed.

(* the label a source page has per the specification, or the label qpdf makes up for an uncovered page *)
Definition plb_src_label (trees : list (option plb_tree)) (f : nat) (p : Z) (j : Z) (lab : plbs_label) : Prop :=
  match nth f trees None with
  | Some tr => plbs_labelled tr p lab \/ (plbs_unlabelled tr p /\ lab = (None, None, 1 + j))
  | None => lab = (None, None, 1 + j)
  end.

(* what one call of getLabelsForPageRange(p, p, j) starts from *)
Definition plb_first_label (t : option plb_tree) (p j : Z) : plb_lab :=
  match plb_label_for_page t p with Some l => l | None => PlbLab None None (PlbStInt (1 + j)) end.
Definition plb_triple (l : plb_lab) : plbs_label := (plb_S l, plb_P l, plb_start l).

Lemma plb_first_label_src : forall trees f p j,
  Forall (fun t => match t with Some tr => plbs_sorted tr | None => True end) trees ->
  plb_src_label trees f p j (plb_triple (plb_first_label (nth f trees None) p j)).
Proof.
  intros trees f p j Hs. unfold plb_src_label, plb_first_label, plb_label_for_page.
  assert (Ht : match nth f trees None with Some tr => plbs_sorted tr | None => True end).
  { destruct (nth_in_or_default f trees None) as [Hin|E]; [|rewrite E; exact I]. rewrite Forall_forall in Hs. apply (Hs _ Hin). }
  destruct (nth f trees None) as [tr|]; [|reflexivity].
  pose proof (plb_find_spec tr p None Ht (fun _ _ _ => I)) as Hf.
  destruct (plb_find tr p None) as [[k l]|].
  - destruct Hf as [[E|[Hin Hk]] Hmax]; [discriminate|]. left. exists k, l. repeat split; assumption.
  - destruct Hf as [_ Hun]. right. split; [exact Hun | reflexivity].
Qed.

Lemma plb_first_label_int : forall t p j, exists n, plb_St (plb_first_label t p j) = PlbStInt n.
Proof.
  intros. unfold plb_first_label, plb_label_for_page. destruct t as [tr|]; [|eexists; reflexivity].
  destruct (plb_find tr p None) as [[k l]|]; eexists; reflexivity.
Qed.

Lemma plb_range_one : forall t p j acc,
  plb_labels_for_range t p p j acc =
  let label := plb_first_label t p j in
  let skip := match acc with
              | (last_idx, last) :: _ =>
                  plb_opt_eqb (plb_S label) (plb_S last) && plb_opt_eqb (plb_P label) (plb_P last) &&
                  match plb_St label, plb_St last with PlbStInt a, PlbStInt b => (a - b =? j - last_idx) | _, _ => false end
              | [] => false
              end in
  if skip then acc else (j, label) :: acc.
Proof.
  intros. unfold plb_labels_for_range. fold (plb_first_label t p j). rewrite Z.sub_diag. cbn [Z.to_nat plb_range_loop].
  destruct t; reflexivity.
Qed.

(* invariant of the vector new_labels (newest first) after the first n selected pages *)
Definition plb_inv (trees : list (option plb_tree)) (done : list (nat * Z)) (acc : list (Z * plb_lab)) : Prop :=
  (forall k l, In (k, l) acc -> 0 <= k < Z.of_nat (length done)) /\
  match acc with (li, _) :: _ => forall k l, In (k, l) acc -> k <= li | [] => done = [] end /\
  (forall i f p, nth_error done i = Some (f, p) ->
     plbs_labelled acc (Z.of_nat i) (plb_triple (plb_first_label (nth f trees None) p (Z.of_nat i)))).

Lemma plb_inv_step : forall trees done acc f p,
  plb_inv trees done acc ->
  plb_inv trees (done ++ [(f, p)]) (plb_labels_for_range (nth f trees None) p p (Z.of_nat (length done)) acc).
Proof.
  intros trees done acc f p (Hrange & Hmax & Hlab). rewrite plb_range_one. cbn zeta.
  set (j := Z.of_nat (length done)). set (L := plb_first_label (nth f trees None) p j).
  assert (Hlen : Z.of_nat (length (done ++ [(f, p)])) = j + 1) by (rewrite app_length; cbn; lia).
  (* earlier positions keep their witnesses in any extension whose new keys are >= j *)
  assert (Hold : forall acc', (forall k l, In (k, l) acc' -> In (k, l) acc \/ k = j) -> (forall k l, In (k, l) acc -> In (k, l) acc') ->
            forall i f0 p0, nth_error (done ++ [(f, p)]) i = Some (f0, p0) -> (i < length done)%nat ->
            plbs_labelled acc' (Z.of_nat i) (plb_triple (plb_first_label (nth f0 trees None) p0 (Z.of_nat i)))).
  { intros acc' Hsub Hsup i f0 p0 Hn Hi. rewrite nth_error_app1 in Hn by exact Hi.
    destruct (Hlab i f0 p0 Hn) as (k & l & Hin & Hk & Hgr & E). exists k, l. split; [apply Hsup; exact Hin|]. split; [exact Hk|]. split; [|exact E].
    intros k' l' Hin' Hk'. destruct (Hsub k' l' Hin') as [H0|H0]; [eapply Hgr; eauto | subst j; lia]. }
  assert (Hnew : forall i f0 p0, nth_error (done ++ [(f, p)]) i = Some (f0, p0) -> ~ (i < length done)%nat -> i = length done /\ f0 = f /\ p0 = p).
  { intros i f0 p0 Hn Hi. assert (i = length done).
    { assert (i < length (done ++ [(f, p)]))%nat by (apply nth_error_Some; congruence). rewrite app_length in H. cbn in H. lia. }
    subst i. rewrite nth_error_app2, Nat.sub_diag in Hn by lia. cbn in Hn. injection Hn as <- <-. auto. }
  destruct acc as [|[li last] acc0].
  - (* first page: always pushed *)
    subst done. cbn [length app] in *. split; [|split].
    + intros k l [E|[]]. injection E as <- <-. subst j. cbn. lia.
    + intros k l [E|[]]. injection E as <- <-. lia.
    + intros i f0 p0 Hn. destruct i as [|i]; [|destruct i; discriminate]. cbn in Hn. injection Hn as <- <-.
      exists 0, L. split; [left; reflexivity|]. split; [lia|]. split; [intros k' l' [E|[]] _; injection E as <- <-; lia|].
      subst L j. cbn [length Z.of_nat]. unfold plb_triple. f_equal. lia.
  - set (skip := plb_opt_eqb (plb_S L) (plb_S last) && plb_opt_eqb (plb_P L) (plb_P last) &&
                 match plb_St L, plb_St last with PlbStInt a, PlbStInt b => (a - b =? j - li) | _, _ => false end).
    destruct skip eqn:Eskip.
    + (* redundant with the previous entry: nothing pushed *)
      apply andb_true_iff in Eskip as [Esp Est]. apply andb_true_iff in Esp as [Es Ep].
      apply plb_opt_eqb_eq in Es. apply plb_opt_eqb_eq in Ep.
      destruct (plb_St L) as [|a|] eqn:EL; try discriminate. destruct (plb_St last) as [|b|] eqn:Elast; try discriminate.
      apply Z.eqb_eq in Est.
      split; [|split].
      * intros k l Hin. specialize (Hrange k l Hin). lia.
      * exact Hmax.
      * intros i f0 p0 Hn. destruct (lt_dec i (length done)) as [Hi|Hi].
        -- apply (Hold _ (fun k l H => or_introl H) (fun k l H => H) i f0 p0 Hn Hi).
        -- destruct (Hnew i f0 p0 Hn Hi) as (-> & -> & ->). fold j. fold L.
           exists li, last. split; [left; reflexivity|]. specialize (Hrange li last (or_introl eq_refl)).
           split; [lia|]. split; [intros k' l' Hin' _; eapply Hmax; eauto|].
           unfold plb_triple, plb_start. rewrite EL, Elast, Es, Ep. f_equal. lia.
    + split; [|split].
      * intros k l [E|Hin]; [injection E as <- <-; lia | specialize (Hrange k l Hin); lia].
      * intros k l [E|Hin]; [injection E as <- <-; lia | specialize (Hrange k l Hin); lia].
      * intros i f0 p0 Hn. destruct (lt_dec i (length done)) as [Hi|Hi].
        -- apply (Hold ((j, L) :: (li, last) :: acc0)); [| |exact Hn|exact Hi].
           ++ intros k l [E|Hin]; [injection E as <- <-; right; reflexivity | left; exact Hin].
           ++ intros k l Hin. right. exact Hin.
        -- destruct (Hnew i f0 p0 Hn Hi) as (-> & -> & ->). fold j. fold L.
           exists j, L. split; [left; reflexivity|]. split; [lia|].
           split; [intros k' l' [E|Hin'] _; [injection E as <- <-; lia | specialize (Hrange k' l' Hin'); lia]|].
           unfold plb_triple. f_equal. lia.
Qed.

Lemma plb_handle_loop_inv : forall trees rest done acc,
  plb_inv trees done acc ->
  plb_inv trees (done ++ rest) (plb_handle_loop trees rest (Z.of_nat (length done)) acc).
Proof.
  intros trees rest. induction rest as [|[f p] rest IH]; intros done acc Hinv; cbn [plb_handle_loop].
  - rewrite app_nil_r. exact Hinv.
  - pose proof (plb_inv_step trees done acc f p Hinv) as Hstep.
    specialize (IH (done ++ [(f, p)]) _ Hstep).
    rewrite <- app_assoc in IH. cbn [app] in IH.
    replace (Z.of_nat (length (done ++ [(f, p)]))) with (Z.of_nat (length done) + 1) in IH by (rewrite app_length; cbn; lia).
    exact IH.
Qed.

(* effective page labels travel with their pages: output page j of handlePageSpecs carries, in the rebuilt /PageLabels, the
   label its source page (input f, page p) has in input f - for all label trees, all selections (any order, repetitions,
   several inputs, inputs without labels) *)
Lemma plb_labels_travel_lemma : forall trees sel j f p,
  Forall (fun t => match t with Some tr => plbs_sorted tr | None => True end) trees ->
  nth_error sel j = Some (f, p) ->
  exists lab, plbs_labelled (plb_handle trees sel) (Z.of_nat j) lab /\ plb_src_label trees f p (Z.of_nat j) lab.
Proof.
  intros trees sel j f p Hs Hn.
  assert (Hinv0 : plb_inv trees [] []).
  { split; [intros k l []|]. split; [reflexivity|]. intros i f0 p0 H. destruct i; discriminate. }
  pose proof (plb_handle_loop_inv trees sel [] [] Hinv0) as (_ & _ & Hlab). cbn [app length Z.of_nat] in Hlab.
  exists (plb_triple (plb_first_label (nth f trees None) p (Z.of_nat j))). split.
  - destruct (Hlab j f p Hn) as (k & l & Hin & Hk & Hgr & E). unfold plb_handle. exists k, l.
    split; [rewrite rev'_rev; apply in_rev in Hin; exact Hin|]. split; [exact Hk|]. split; [|exact E].
    intros k' l' Hin' Hk'. rewrite rev'_rev in Hin'. apply in_rev in Hin'. eapply Hgr; eauto.
  - apply plb_first_label_src. exact Hs.
Qed.
