# C01 - correspondence of the container-stream model (coq/Obj/C01Container.v: Stream::getStreamData / filterable / the decode
# level the object-stream and xref-stream readers ask for) with the real library, in process (harness/drv_c01cont.cc).
#   part A (c1c_get):  getStreamData(level) of one stream, all four levels x aimed case splits of Stream::filterable,
#                      SF_FlateLzwDecode::setDecodeParms, the pipeline constructors and the decoders (valid and broken data);
#   part B (c1c_read): a complete small FILE whose object stream / cross-reference stream uses the chain: what qpdf sees for a
#                      member of the object stream, resp. for the catalog, against c1c_run_objstm / c1c_run_xref.
# In part B the specification is known too (ISO 7.4: a chain of lossless standard filters decodes to the payload; theorem
# c1c_container_roundtrip for the AHx/A85/Flate/RL chains): if qpdf does not see the member although the reference decoders
# do, the file itself is the failing input and is reported as such.
import os, zlib
import common, pdfgen, dociso
import c01cont
from c01cont import Stage, FL, LZW, AHX, A85, RL
from pdfgen import Name, Ref, Str, Real, Stream, D, N


def menc(v):
    """Python object -> the text form ocaml/h_c01cont.ml parses (names with their solidus, as QPDF_Name stores them)"""
    if v is None:
        return "n"
    if v is True:
        return "t"
    if v is False:
        return "f"
    if isinstance(v, int):
        return "i%d" % v
    if isinstance(v, Name):
        return "N" + (b"/" + v.b).hex()
    if isinstance(v, Str):
        return "s" + v.b.hex()
    if isinstance(v, Real):
        return "r" + v.s.encode().hex()
    if isinstance(v, list):
        return "[" + ",".join(menc(x) for x in v) + "]"
    if isinstance(v, dict):
        return "<" + ",".join((b"/" + k).hex() + ":" + menc(x) for k, x in v.items()) + ">"
    raise TypeError(type(v))


def hx(b):
    return b.hex() if b else "-"


def stream_file(fobj, pobj, raw):
    """one-section classic file: catalog 1, pages 2, the stream under test 3"""
    d = pdfgen.Doc()
    d.add(D(Type=N("Catalog"), Pages=Ref(2)))
    d.add(D(Type=N("Pages"), Count=0, Kids=[]))
    sd = {}
    if fobj is not None:
        sd[b"Filter"] = fobj
    if pobj is not None:
        sd[b"DecodeParms"] = pobj
    d.add(Stream(sd, raw))
    d.trailer = {b"Root": Ref(1)}
    return pdfgen.write_classic(d)[0]


def be(v, w):
    return v.to_bytes(w, "big")


def objstm_file(fd, enc, first, member_num, xref_fd=None, xref_wrap=None):
    """catalog 1, pages 2 (classic objects), object stream 3 = (fd, enc) holding object 4, xref stream 5"""
    out = bytearray(b"%PDF-1.5\n%\xe2\xe3\xcf\xd3\n")
    offs = {}
    for n, v in ((1, D(Type=N("Catalog"), Pages=Ref(2), Member=Ref(member_num))), (2, D(Type=N("Pages"), Count=0, Kids=[]))):
        offs[n] = len(out)
        out += pdfgen.ser_indirect(n, v)
    sd = {b"Type": N("ObjStm"), b"N": 1, b"First": first}
    sd.update(fd)
    offs[3] = len(out)
    out += pdfgen.ser_indirect(3, Stream(sd, enc))
    xoff = len(out)
    rows = [(0, 0, 65535), (1, offs[1], 0), (1, offs[2], 0), (1, offs[3], 0), (2, 3, 0), (1, xoff, 0)]
    payload = b"".join(be(t, 1) + be(a, 3) + be(b, 2) for t, a, b in rows)
    xd = {b"Type": N("XRef"), b"Size": 6, b"W": [1, 3, 2], b"Root": Ref(1)}
    out += pdfgen.ser_indirect(5, Stream(xd, payload))
    out += b"startxref\n%d\n%%%%EOF\n" % xoff
    return bytes(out)


def xref_file(chain, rng, form=None, broken=None):
    """catalog 1, pages 2, cross-reference stream 3 stored through the chain; returns (file, fd, enc, payload)"""
    out = bytearray(b"%PDF-1.5\n%\xe2\xe3\xcf\xd3\n")
    offs = {}
    for n, v in ((1, D(Type=N("Catalog"), Pages=Ref(2))), (2, D(Type=N("Pages"), Count=0, Kids=[]))):
        offs[n] = len(out)
        out += pdfgen.ser_indirect(n, v)
    xoff = len(out)
    rows = [(0, 0, 65535), (1, offs[1], 0), (1, offs[2], 0), (1, xoff, 0)]
    payload = b"".join(be(t, 1) + be(a, 3) + be(b, 2) for t, a, b in rows)
    last = chain[-1] if chain else None
    if last is not None and last.pred not in (None, 1) and len(payload) % last.row():
        last.colors, last.bpc, last.cols = 1, 8, 6
    fd, enc = c01cont.apply_chain(chain, payload, rng, form)
    if broken:
        enc = broken(enc)
    xd = {b"Type": N("XRef"), b"Size": 4, b"W": [1, 3, 2], b"Root": Ref(1)}
    xd.update(fd)
    out += pdfgen.ser_indirect(3, Stream(xd, enc))
    out += b"startxref\n%d\n%%%%EOF\n" % xoff
    return bytes(out), fd, enc, payload


def filterable_cases(rng):
    """(label, fobj, pobj, raw): the case splits of Stream::filterable / setDecodeParms / the pipeline constructors"""
    z = zlib.compress
    data = bytes(rng.choice(b"abc \n\x00\xff") for _ in range(24))
    pred = c01cont.png_encode(data, 1, 8, 4, rng)
    cs = []
    add = lambda l, f, p, r: cs.append((l, f, p, r))
    add("no-filter", None, None, data)
    add("filter-int", 5, None, data)
    add("filter-string", Str(b"FlateDecode"), None, z(data))
    add("filter-dict", {b"A": 1}, None, data)
    add("filter-array-nonname", [N(FL), 7], None, z(data))
    add("filter-array-empty", [], None, data)
    add("filter-array-empty-parms", [], [{}], data)
    add("unknown-filter", N("JPXDecode"), None, data)
    add("unknown-in-chain", [N(FL), N("Foo")], None, z(data))
    add("ccf-abbrev-unknown", N("CCF"), None, data)
    for ab, full, enc in (("Fl", FL, z(data)), ("AHx", AHX, data.hex().encode() + b">"), ("A85", A85, c01cont.enc_a85(data, rng)),
                          ("LZW", LZW, c01cont.enc_lzw(data, 1)), ("RL", RL, c01cont.enc_rl(data, rng))):
        add("abbrev-" + ab, N(ab), None, enc)
        add("abbrev-array-" + ab, [N(ab)], [None], enc)
    add("dct", N("DCTDecode"), None, data)
    add("dct-abbrev", [N("DCT")], None, data)
    add("dct-after-flate", [N(FL), N("DCTDecode")], None, z(data))
    add("crypt-identity", N("Crypt"), None, data)
    add("crypt-parms", N("Crypt"), {b"Type": N("CryptFilterDecodeParms"), b"Name": N("Identity")}, data)
    add("crypt-bad-type", N("Crypt"), {b"Type": N("Other")}, data)
    add("crypt-extra-key", N("Crypt"), {b"Name": N("Identity"), b"X": 1}, data)
    add("crypt-extra-null", N("Crypt"), {b"Name": N("Identity"), b"X": None}, data)
    add("crypt-parms-int", N("Crypt"), 3, data)
    add("crypt-then-flate", [N("Crypt"), N(FL)], None, z(data))
    # ONE parameter dictionary with a chain of several filters: every filter gets it
    add("one-parms-two-flate", [N(FL), N(FL)], {b"Predictor": 1}, z(z(data)))
    add("one-parms-ahx-flate", [N(AHX), N(FL)], {b"Predictor": 12, b"Columns": 4}, z(pred).hex().encode() + b">")
    add("parms-array-short", [N(AHX), N(FL)], [None], z(data).hex().encode() + b">")
    add("parms-array-long", [N(FL)], [None, None], z(data))
    add("parms-array-empty", [N(AHX), N(FL)], [], z(data).hex().encode() + b">")
    add("parms-array-dict-for-ahx", [N(AHX), N(FL)], [{}, None], z(data).hex().encode() + b">")
    add("parms-array-pred-second", [N(AHX), N(FL)], [None, {b"Predictor": 12, b"Columns": 4}], z(pred).hex().encode() + b">")
    add("parms-empty-dict-ahx", N(AHX), {}, data.hex().encode() + b">")
    add("parms-empty-dict-rl", N(RL), {}, c01cont.enc_rl(data, rng))
    add("parms-int-flate", N(FL), 5, z(data))
    add("parms-name-lzw", N(LZW), N("X"), c01cont.enc_lzw(data, 1))
    add("parms-array-int-flate", [N(FL)], [5], z(data))
    for p in (0, 1, 2, 3, 9, 10, 12, 15, 16, -1, 2 ** 31, 2 ** 40, -2 ** 40):
        add("predictor-%d" % p, N(FL), {b"Predictor": p, b"Columns": 4}, z(pred if 10 <= p <= 15 else data))
    add("predictor-real", N(FL), {b"Predictor": Real("12.0"), b"Columns": 4}, z(pred))
    add("predictor-null", N(FL), {b"Predictor": None, b"Columns": 4}, z(data))
    add("predictor-name", N(LZW), {b"Predictor": N("X")}, c01cont.enc_lzw(data, 1))
    for key in (b"Columns", b"Colors", b"BitsPerComponent"):
        for v in (0, -1, 1, 2, 3, 4, 8, 16, 17, 64, 65, 3000):
            pd = {b"Predictor": rng.choice([2, 12]), b"Columns": 4}
            pd[key] = v
            add("%s-%d-p%d" % (key.decode(), v, pd[b"Predictor"]), N(FL), pd, z(pred if pd[b"Predictor"] == 12 else data))
        add("%s-string" % key.decode(), N(FL), {b"Predictor": 12, key: Str(b"4")}, z(pred))
        add("%s-ignored-without-predictor" % key.decode(), N(FL), {key: 0}, z(data))
    for e in (0, 1, 2, -1, 2 ** 33):
        add("early-%d-lzw" % e, N(LZW), {b"EarlyChange": e}, c01cont.enc_lzw(data * 30, 0 if e == 0 else 1))
        add("early-%d-flate" % e, N(FL), {b"EarlyChange": e}, z(data))
    add("early-name-lzw", N(LZW), {b"EarlyChange": N("X")}, c01cont.enc_lzw(data, 1))
    add("early-name-flate", N(FL), {b"EarlyChange": N("X")}, z(data))
    add("unknown-parm-key", N(FL), {b"Foo": Str(b"x"), b"K": -1}, z(data))
    # broken data for the decoders that are modelled in full (never in front of a Flate stage)
    add("ahx-bad-char", N(AHX), None, b"41 4g 42>")
    add("ahx-no-eod", N(AHX), None, b"41424")
    add("ahx-after-eod", N(AHX), None, b"4142>zz")
    add("a85-bad-char", N(A85), None, b"87cUR\x7fD]i~>")
    add("a85-no-eod", N(A85), None, b"87cURD]i")
    add("a85-z-inside", N(A85), None, b"87zcURD~>")
    add("a85-tilde-alone", N(A85), None, b"87cUR~x")
    add("rl-truncated", N(RL), None, b"\x05ab")
    add("rl-no-eod", N(RL), None, b"\x01ab\xfec")
    add("rl-after-eod", N(RL), None, b"\x01ab\x80\x01cd")
    add("lzw-random", N(LZW), None, bytes(rng.randrange(256) for _ in range(40)))
    add("lzw-truncated", N(LZW), None, c01cont.enc_lzw(data * 4, 1)[:-3])
    add("lzw-bad-then-ahx", [N(AHX), N(LZW)], None, bytes(rng.randrange(256) for _ in range(20)).hex().encode() + b">")
    add("ahx-empty-then-flate", [N(AHX), N(FL)], None, b">")
    add("ahx-empty-then-lzw-pred", [N(AHX), N(LZW)], [None, {b"Predictor": 12, b"Columns": 3}], b" >")
    for f in (FL, LZW, AHX, A85, RL, "DCTDecode", "Crypt", "Foo"):
        add("empty-" + f, N(f), None, b"")
    add("empty-flate-pred", N(FL), {b"Predictor": 12, b"Columns": 4}, b"")
    add("empty-flate-bad-pred", N(FL), {b"Predictor": 3}, b"")
    add("empty-flate-bpc3", N(FL), {b"Predictor": 12, b"BitsPerComponent": 3}, b"")
    return cs


def run_part(chk, rng, quick, runner, wd):
    drv = os.path.join(common.DRV, "drv")
    # ------------------------------------------------------------ part A: getStreamData(level)
    cases = filterable_cases(rng)
    chains = c01cont.aimed_chains(rng) + [c01cont.random_chain(rng) for _ in range(10 if quick else 300)]
    for ch in chains:
        payload = bytes(rng.choice(b"abc \n\x00\xff0123") for _ in range(rng.choice([1, 7, 40, 150])))
        payload += b" " * (-len(payload) % c01cont.chain_row(ch))
        fd, enc = c01cont.apply_chain(ch, payload, rng)
        cases.append(("chain-" + c01cont.chain_label(ch), fd.get(b"Filter"), fd.get(b"DecodeParms"), enc, payload))
    mlines, ilines, meta = [], [], []
    for c in cases:
        label, fobj, pobj, raw = c[:4]
        f = stream_file(fobj, pobj, raw)
        for lv in (0, 1, 2, 3):
            mlines.append("c1c_get %d %s %s %s" % (lv, menc(fobj), menc(pobj), hx(raw)))
            ilines.append("c1c_get %d %s 3" % (lv, hx(f)))
            meta.append((label, lv, c[4] if len(c) > 4 else None))
    mo = common.run_lines(runner, mlines, shards=4)
    io = common.run_lines(drv, ilines, shards=4)
    diffs, outside, classes = [], 0, set()
    for (label, lv, payload), m, i, ml in zip(meta, mo, io, mlines):
        if m == "outside":
            outside += 1
            continue
        classes.add((label.split("-")[0], lv, m.split(" ")[0]))
        if m != i:
            diffs.append({"case": label, "decode_level": lv, "model": m[:120], "implementation": i[:120], "model_line": ml[:300]})
        elif payload is not None and lv >= 2 and m != "data " + hx(payload):
            # both agree but not on the payload the reference encoders started from: generator/decoder disagreement
            diffs.append({"case": label, "decode_level": lv, "model_and_implementation": m[:120], "expected_payload": hx(payload)[:120]})
    chk.count("container-model-getStreamData", len(mlines), classes, samples=[{"case": mlines[0][:200], "model": mo[0][:60], "implementation": io[0][:60]}])
    chk.cov["parts"]["container-model-getStreamData"]["dct_at_level_all_outside_model"] = outside
    if diffs:
        chk.violation({"kind": "correspondence-broken", "correspondence": "corr:C01:container-getStreamData", "differing_cases": len(diffs),
                       "first_cases": diffs[:4], "note": "Stream::getStreamData(level) of the real library differs from the extracted model "
                       "c1c_get_stream_data (coq/Obj/C01Container.v) on these (filter, parameters, data, level) cases"}, no_input=True)

    # ------------------------------------------------------------ part B: the two readers on complete files
    jobs = []          # (kind, label, file bytes, model line, payload, expect value or None, lossless?)
    chains = c01cont.aimed_chains(rng) + [c01cont.random_chain(rng) for _ in range(8 if quick else 300)]
    forms = [None]
    for ch in chains:
        member = rng.choice([b"777", b"(a string)", b"<< /K [ 1 2 3 ] /S (x) >>", b"[ /A /B 1.5 ]", b"/Name"])
        header = b"4 0 "
        payload = header + member + b" "
        payload += b" " * (-len(payload) % c01cont.chain_row(ch))
        fd, enc = c01cont.apply_chain(ch, payload, rng)
        f = objstm_file(fd, enc, len(header), 4)
        jobs.append(("objstm", c01cont.chain_label(ch), f, "c1c_objstm %s %s %s" % (menc(fd.get(b"Filter")), menc(fd.get(b"DecodeParms")), hx(enc)),
                     payload, member, True))
    # chains the readers must refuse or that fail while decoding: the member is then null with a warning
    bad = [("dct", {b"Filter": N("DCTDecode")}, b"4 0 777 "), ("unknown", {b"Filter": N("JBIG2Decode")}, b"4 0 777 "),
           ("ahx-bad", {b"Filter": N(AHX)}, b"3g>"), ("parms-for-rl", {b"Filter": N(RL), b"DecodeParms": {}}, c01cont.enc_rl(b"4 0 777 ", rng)),
           ("bad-predictor", {b"Filter": N(FL), b"DecodeParms": {b"Predictor": 3}}, zlib.compress(b"4 0 777 ")),
           ("one-parms-for-two", {b"Filter": [N(AHX), N(FL)], b"DecodeParms": {b"Predictor": 1}}, zlib.compress(b"4 0 777 ").hex().encode() + b">")]
    for label, fd, enc in bad:
        f = objstm_file(fd, enc, 4, 4)
        jobs.append(("objstm", label, f, "c1c_objstm %s %s %s" % (menc(fd.get(b"Filter")), menc(fd.get(b"DecodeParms")), hx(enc)), None, b"777", False))
    for ch in c01cont.aimed_chains(rng) + [c01cont.random_chain(rng) for _ in range(4 if quick else 100)]:
        f, fd, enc, payload = xref_file(ch, rng)
        jobs.append(("xref", c01cont.chain_label(ch), f, "c1c_xref %s %s %s" % (menc(fd.get(b"Filter")), menc(fd.get(b"DecodeParms")), hx(enc)),
                     payload, b"<< /Pages 2 0 R /Type /Catalog >>", True))
    for label, fd_over, brk in (("xref-dct", {b"Filter": N("DCTDecode")}, None), ("xref-ahx-bad", None, lambda e: b"zz" + e)):
        f, fd, enc, payload = xref_file([Stage(AHX)], rng, form=0, broken=brk)
        if fd_over:
            f = f.replace(b"/ASCIIHexDecode", b"/DCTDecode     ")
            fd = fd_over
        jobs.append(("xref", label, f, "c1c_xref %s %s %s" % (menc(fd.get(b"Filter")), menc(fd.get(b"DecodeParms")), hx(enc)), None, b"", False))
    mo = common.run_lines(runner, [j[3] for j in jobs], shards=4)
    io = common.run_lines(drv, ["c1c_read %s %d" % (hx(j[2]), 4 if j[0] == "objstm" else 1) for j in jobs], shards=4)
    diffs, classes = [], set()
    for k, ((kind, label, f, ml, payload, expect, lossless), m, i) in enumerate(zip(jobs, mo, io)):
        classes.add((kind, label, m.split(" ")[0]))
        if m.startswith("data "):
            want = "val %s w=0" % hx(expect)
            if payload is not None and m != "data " + hx(payload):
                diffs.append({"reader": kind, "filters": label, "model": m[:160], "payload": hx(payload)[:160]})
                continue
        elif kind == "objstm":
            want_prefix = "val %s w=" % hx(b"null")       # the member reads as null and a warning says so
            want = i if (i.startswith(want_prefix) and not i.startswith(want_prefix + "0")) else want_prefix + "<n>=1>"
        else:
            want = i if i.startswith("refused") else "refused"
        if i != want:
            if lossless and m.startswith("data "):
                # the model (and theorem c1c_container_accepts_lossless / c1c_container_roundtrip) say the reader obtains the payload;
                # the real reader does not: this small file is a valid input that qpdf does not read
                p = os.path.join(wd, "cont_%s_%d.pdf" % (kind, k))
                open(p, "wb").write(f)
                chk.violation({"kind": "property-fails-on-implementation",
                               "why": "a valid file whose %s is stored through %s: qpdf does not obtain the %s (expected %s, observed %s)" % (
                                   "object stream" if kind == "objstm" else "cross-reference stream", label,
                                   "member object 4 0" if kind == "objstm" else "catalog", want, i[:100]),
                               "input": p, "argv": ["qpdf", "--static-id", p, "out.pdf"], "model": m[:100]}, signature="container:%s:%s" % (kind, label))
            else:
                diffs.append({"reader": kind, "filters": label, "model": m[:100], "implementation": i[:100], "expected_from_model": want})
    chk.count("container-model-readers", len(jobs), classes, samples=[{"filters": jobs[0][1], "model": mo[0][:60], "implementation": io[0][:60]}])
    if diffs:
        chk.violation({"kind": "correspondence-broken", "correspondence": "corr:C01:container-readers", "differing_cases": len(diffs),
                       "first_cases": diffs[:4], "note": "what the real object-stream / cross-reference-stream reader obtains differs from the "
                       "extracted model (c1c_objstm_data / c1c_xref_data: getStreamData at decode level specialized)"}, no_input=True)
