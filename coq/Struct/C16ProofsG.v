(* C16: the names InlineImageTracker allocates are fresh. *)
From QV Require Import Base.Bytes Struct.IINames.
Local Open Scope N_scope.

Lemma name_mem_in x names : c16_name_mem x names = true <-> In x names.
Proof.
  unfold c16_name_mem. rewrite existsb_exists. split.
  - intros (y & Hy & He). apply list_eqb_N_eq in He. subst. exact Hy.
  - intros H. exists x. split; [exact H|]. apply list_eqb_N_eq. reflexivity.
Qed.

Lemma name_loop_fresh : forall fuel names prefix k nm k',
  c16_name_loop fuel names prefix k = Some (nm, k') ->
  ~ In nm names /\ nm = prefix ++ dec_of_N k' /\ k <= k' /\
  (forall j, k <= j < k' -> In (prefix ++ dec_of_N j) names).
Proof.
  induction fuel as [|f IH]; intros names prefix k nm k' H; [discriminate|]. cbn [c16_name_loop] in H.
  destruct (c16_name_mem (prefix ++ dec_of_N k) names) eqn:E.
  - destruct (IH _ _ _ _ _ H) as (A & B & C & D). split; [exact A|]. split; [exact B|]. split; [lia|].
    intros j Hj. destruct (N.eq_dec j k) as [->|Hn]; [apply name_mem_in, E|apply D; lia].
  - injection H as <- <-. split; [intros X; apply name_mem_in in X; congruence|]. split; [reflexivity|]. split; [lia|].
    intros j Hj. lia.
Qed.

(* unique_name_fresh: the name chosen for an externalised image is not a key of any resource dictionary of the page /
   form XObject (so no existing XObject, in particular no image externalised by an earlier run, is replaced), it is
   "/IIm" followed by the decimal suffix returned, and that suffix is the least one from min_suffix on that is free. *)
Lemma unique_name_fresh_lemma : forall names prefix min_suffix nm k,
  c16_unique_name names prefix min_suffix = Some (nm, k) ->
  ~ In nm names /\ nm = prefix ++ dec_of_N k /\ min_suffix <= k /\
  (forall j, min_suffix <= j < k -> In (prefix ++ dec_of_N j) names).
Proof. intros names prefix m nm k H. exact (name_loop_fresh _ _ _ _ _ _ H). Qed.

(* alloc_names_fresh: the images converted during one run get pairwise different names, none of which existed before *)
Lemma alloc_names_fresh_lemma : forall n names min_suffix l,
  c16_alloc_names n names min_suffix = Some l ->
  length l = n /\ NoDup l /\ (forall x, In x l -> ~ In x names).
Proof.
  induction n as [|n IH]; intros names m l H; cbn [c16_alloc_names] in H.
  - injection H as <-. split; [reflexivity|]. split; [constructor|intros x []].
  - destruct (c16_unique_name names c16_iim_prefix m) as [[nm k]|] eqn:E; [|discriminate].
    destruct (c16_alloc_names n (nm :: names) k) as [l'|] eqn:E2; [|discriminate]. injection H as <-.
    destruct (unique_name_fresh_lemma _ _ _ _ _ E) as (F & _).
    destruct (IH _ _ _ E2) as (L & ND & FR).
    split; [cbn; rewrite L; reflexivity|]. split.
    + constructor; [|exact ND]. intros X. apply (FR nm X). left. reflexivity.
    + intros x [<-|X]; [exact F|]. intros Y. apply (FR x X). right. exact Y.
Qed.
