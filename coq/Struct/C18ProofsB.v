(* C18 proofs, part 3: machine-checked witnesses of the two defects of the unchanged tree
   (refuted full statements), and the bounded exhaustive version of the history theorems
   (finite domain: every history up to a length bound over a fixed call alphabet). *)
From Coq Require Import Sorting.Sorted.
From QV Require Import Base.Bytes Struct.NNTreeModel Struct.NNTreeSpec.
Local Open Scope Z_scope.

Notation ZT := (nnode Z).
Definition zleaf (ks : list Z) : ZT := NLeaf None (map (fun k => (k, 10 * k)) ks).
Definition zwf := wf_tree Z nn_zcmp.
Definition zfinal (t : Z) (root : ZT) (ops : list (nnop Z)) : nnst Z :=
  nn_final Z nn_zcmp t ops (nn_init Z root).

(* ------------------------------------------------------------------ the two repaired defects
   F1 (fixed in /repo by 091ae163): split() used to reset the limits of both halves before the second
   half was attached; ascending inserts 1..18 with threshold 3 left /Limits [9 16] on a node holding 17
   and 18.  On the repaired code every tree met while loading 1..80 in ascending order is valid, for
   thresholds 3, 4, 5 (this is the former refutation witness of nn_wf_preserved, and far beyond). *)
Definition ins_asc (n : nat) : list (nnop Z) :=
  map (fun k => OpInsert (Z.of_nat k) (Z.of_nat k)) (seq 1 n).
Definition all_valid (t : Z) (ops : list (nnop Z)) : bool :=
  forallb (fun x => wf_code Z nn_zcmp t (snd x) =? 0) (nn_run Z nn_zcmp t (zleaf []) ops).

Lemma nn_ascending_load_valid_lemma :
  forallb (fun t => all_valid t (ins_asc 80)) [3; 4; 5] = true /\
  nn_abs Z (st_root Z (zfinal 3 (zleaf []) (ins_asc 18))) = map (fun k => (Z.of_nat k, Z.of_nat k)) (seq 1 18).
Proof. vm_compute. auto. Qed.

(* F2 (fixed in /repo by 0aa534ea): find(4) in {1,3,5,7} stored on two leaves returns an iterator equal
   to end() that still carries the descent path; ++ on it used to warn and stay at end().  Now it is the
   first item, -- the last, and insertAfter lands on the inserted item, without warnings. *)
Definition two_leaves : ZT :=
  seal_root Z (NInner None [NLeaf None [(1, 10); (3, 30)]; NLeaf None [(5, 50); (7, 70)]]).

Lemma nn_end_from_failed_find_lemma :
  map fst (nn_run Z nn_zcmp 3 two_leaves [OpFind 4; OpNext; OpFind 4; OpPrev; OpFind 4; OpInsAfter 0 5]) =
  [(RIter None, 0); (RIter (Some (1, 10)), 0); (RIter None, 0); (RIter (Some (7, 70)), 0);
   (RIter None, 0); (RIter (Some (0, 5)), 0)].
Proof. vm_compute. reflexivity. Qed.

(* ------------------------------------------------------------------ bounded histories *)
Definition res_eqb (a b : nnres Z) : bool :=
  match a, b with
  | RIter None, RIter None => true
  | RIter (Some (k, v)), RIter (Some (k', v')) => (k =? k') && (v =? v')
  | RRemoved None, RRemoved None => true
  | RRemoved (Some v), RRemoved (Some v') => v =? v'
  | RErr, RErr => true
  | _, _ => false
  end.
Definition kv_eqb (a b : Z * Z) : bool := (fst a =? fst b) && (snd a =? snd b).

(* one call agrees: same result as the sorted map, same content, stored tree valid (wf_code 0:
   no /Limits on the root, keys ascending, /Limits exact, no empty non-root node, node sizes within
   the split bound), no warning *)
Definition step_ok (t : Z) (r1 : nnres Z) (s' : nnst Z) (w0 : Z) (r2 : nnres Z) (m' : smst Z) : bool :=
  res_eqb r1 r2 && list_eqb kv_eqb (nn_abs Z (st_root Z s')) (sm_map Z m')
  && (wf_code Z nn_zcmp t (st_root Z s') =? 0) && (st_warn Z s' =? w0).

(* a history agrees up to the first call outside the specified domain (insertAfter at a position
   where the key does not belong) *)
Fixpoint agree (t : Z) (ops : list (nnop Z)) (s : nnst Z) (m : smst Z) : bool :=
  match ops with
  | [] => true
  | op :: ops' =>
      let '(r1, s') := nn_step Z nn_zcmp t op s in
      let '(r2, m') := sm_step Z nn_zcmp op m in
      if sm_unspec Z m' then true
      else step_ok t r1 s' (st_warn Z s) r2 m' && agree t ops' s' m'
  end.

Fixpoint sweep (alphabet : list (nnop Z)) (depth : nat) (t : Z) (s : nnst Z) (m : smst Z) : bool :=
  match depth with
  | O => true
  | S d =>
      forallb (fun op =>
          let '(r1, s') := nn_step Z nn_zcmp t op s in
        let '(r2, m') := sm_step Z nn_zcmp op m in
        if sm_unspec Z m' then true
        else step_ok t r1 s' (st_warn Z s) r2 m' && sweep alphabet d t s' m') alphabet
  end.

Lemma sweep_sound : forall alphabet d t s m, sweep alphabet d t s m = true ->
  forall ops, (length ops <= d)%nat -> Forall (fun op => In op alphabet) ops -> agree t ops s m = true.
Proof.
  induction d as [|d IH]; intros t s m Hs ops Hlen Hin.
  - destruct ops; [reflexivity|simpl in Hlen; lia].
  - destruct ops as [|op ops]; [reflexivity|].
    inversion Hin as [|? ? Hop Hrest]; subst.
    simpl in Hs. rewrite forallb_forall in Hs. specialize (Hs op Hop).
    simpl.
    destruct (nn_step Z nn_zcmp t op s) as [r1 s'].
    destruct (sm_step Z nn_zcmp op m) as [r2 m'].
    destruct (sm_unspec Z m'); [reflexivity|].
    apply andb_true_iff in Hs. destruct Hs as [H1 H2]. rewrite H1. simpl.
    apply IH; [assumption|simpl in Hlen; lia|assumption].
Qed.

Definition keys5 : list Z := [1; 2; 3; 4; 5].
Definition alphabet5 : list (nnop Z) :=
  flat_map (fun k => [OpInsert k (100 + k); OpRemove k; OpFind k; OpFindLE k; OpInsAfter k (200 + k)]) keys5
  ++ [OpBegin; OpLast; OpEnd; OpNext; OpPrev; OpIterRemove].

Definition mk (n : ZT) : ZT := seal_root Z n.
Definition L (ks : list Z) : ZT := NLeaf None (map (fun k => (k, 10 * k)) ks).
Definition I (ks : list ZT) : ZT := NInner None ks.
(* the starting trees of the harness's exhaustive part *)
Definition starts (t : Z) : list ZT :=
  if t =? 3 then [mk (L []); mk (L [2; 4]); mk (L [1; 3; 5]); mk (I [L [1; 2; 3]; L [4; 5]]);
                  mk (I [I [L [1]; L [2; 3]]; I [L [5]]]);
                  (* four levels, full last leaf: inserting 3 splits it below two non-root ancestors
                     (the situation of the former defect F1) *)
                  mk (I [I [I [L [-3; -2]]]; I [I [L [0]; L [2; 4; 5]]]])]
  else if t =? 4 then [mk (L []); mk (L [1; 2; 3; 4]); mk (I [L [1; 2; 3; 4]; L [5]])]
  else [mk (L []); mk (L [1; 2; 3; 4; 5]); mk (I [L [2]; L [3]; L [4]; L [5; 6]])].

Definition init_sm (s0 : ZT) : smst Z := SmSt Z (nn_abs Z s0) None false.
Definition sweep_from (d : nat) (t : Z) (s0 : ZT) : bool :=
  sweep alphabet5 d t (nn_init Z s0) (init_sm s0).

Lemma starts_valid : forallb (fun t => forallb zwf (starts t)) [3; 4; 5] = true.
Proof. vm_compute. reflexivity. Qed.
Lemma starts_ok : forallb (fun t => forallb (fun s0 => wf_code Z nn_zcmp t s0 =? 0) (starts t)) [3; 4; 5] = true.
Proof. vm_compute. reflexivity. Qed.

Lemma sweep3_all : forallb (fun t => forallb (sweep_from 3 t) (starts t)) [3; 4; 5] = true.
Proof. vm_compute. reflexivity. Qed.

Lemma sweep4_empty : forallb (fun t => sweep_from 4 t (mk (L []))) [3; 4; 5] = true.
Proof. vm_compute. reflexivity. Qed.

(* Bounded version of nn_refines_map, which also carries nn_wf_preserved, nn_size_bound, iter_after_insert
   and iter_after_remove (DESIGN C18).  Full statement:
     forall t ops s0, 3 <= t -> wf_tree s0 = true -> agree t ops (nn_init s0) (init_sm s0) = true.
   The full statement is now PROVED by induction for histories of any length (Struct/C18ProofsH.v:
   nn_refines_map_lemma, nn_wf_preserved_lemma, over the zipper invariant of Struct/C18Inv*.v); the bounded
   exhaustive version below is kept as a regression theorem (it is checked by computation, independently
   of the inductive argument).
   Here: for every split threshold 3, 4, 5, every starting tree of `starts` (up to four levels), and EVERY
   history of at most three helper calls over the 31-call alphabet on keys 1..5: each result (including where
   the iterator stands after insert / insertAfter / remove, and ++/-- on any end() iterator) equals the sorted
   map's, the content equals the sorted map, the stored tree is valid with node sizes within the split
   bound, and no warning is issued. *)
Lemma nn_refines_map_partial_lemma : forall t s0 ops,
  In t [3; 4; 5] -> In s0 (starts t) -> (length ops <= 3)%nat ->
  Forall (fun op => In op alphabet5) ops ->
  agree t ops (nn_init Z s0) (init_sm s0) = true.
Proof.
  intros t s0 ops Ht Hs Hlen Hops.
  pose proof sweep3_all as H. rewrite forallb_forall in H. specialize (H t Ht).
  rewrite forallb_forall in H. specialize (H s0 Hs).
  unfold sweep_from in H. exact (sweep_sound alphabet5 3 t _ _ H ops Hlen Hops).
Qed.

(* the same from the empty tree for every history of at most four calls (four inserts overflow a
   leaf of threshold 3: the first root split is inside the domain) *)
Lemma nn_refines_map_from_empty_partial_lemma : forall t ops,
  In t [3; 4; 5] -> (length ops <= 4)%nat -> Forall (fun op => In op alphabet5) ops ->
  agree t ops (nn_init Z (mk (L []))) (init_sm (mk (L []))) = true.
Proof.
  intros t ops Ht Hlen Hops.
  pose proof sweep4_empty as H. rewrite forallb_forall in H. specialize (H t Ht).
  unfold sweep_from in H. exact (sweep_sound alphabet5 4 t _ _ H ops Hlen Hops).
Qed.

(* ---- nn_wf_preserved in the same bounded form, stated on the final tree *)
Fixpoint sm_final (ops : list (nnop Z)) (m : smst Z) : smst Z :=
  match ops with
  | [] => m
  | op :: ops' => sm_final ops' (snd (sm_step Z nn_zcmp op m))
  end.

Lemma unspec_step : forall op m, sm_unspec Z m = true -> sm_unspec Z (snd (sm_step Z nn_zcmp op m)) = true.
Proof.
  intros op m H. destruct op; simpl; try exact H.
  - destruct (sm_cur Z m); exact H.
  - destruct (sm_cur Z m); exact H.
  - match goal with |- context [if ?b then _ else _] => destruct b end; [exact H|reflexivity].
  - destruct (sm_cur Z m); exact H.
Qed.
Lemma unspec_final : forall ops m, sm_unspec Z m = true -> sm_unspec Z (sm_final ops m) = true.
Proof. induction ops as [|op ops IH]; intros m H; simpl; [exact H|]. apply IH, unspec_step, H. Qed.

Lemma agree_wf_final : forall t ops s m,
  agree t ops s m = true -> sm_unspec Z (sm_final ops m) = false ->
  wf_code Z nn_zcmp t (st_root Z s) = 0 ->
  wf_code Z nn_zcmp t (st_root Z (nn_final Z nn_zcmp t ops s)) = 0.
Proof.
  induction ops as [|op ops IH]; intros s m Ha Hu Hw; simpl in *; [exact Hw|].
  destruct (nn_step Z nn_zcmp t op s) as [r1 s'] eqn:E1.
  destruct (sm_step Z nn_zcmp op m) as [r2 m'] eqn:E2. simpl in *.
  destruct (sm_unspec Z m') eqn:Eu.
  - rewrite (unspec_final ops m' Eu) in Hu. discriminate.
  - apply andb_true_iff in Ha. destruct Ha as [Hok Hrest].
    apply (IH s' m' Hrest Hu).
    unfold step_ok in Hok. repeat (apply andb_true_iff in Hok; destruct Hok as [Hok ?]).
    apply Z.eqb_eq. assumption.
Qed.

(* Full statement (DESIGN nn_wf_preserved): forall t ops s0, 3 <= t -> wf_tree s0 = true ->
   wf_tree (root (final t ops s0)) = true -- for histories that use insertAfter only where the key belongs.
   Bounded form: *)
Lemma nn_wf_preserved_partial_lemma : forall t s0 ops,
  In t [3; 4; 5] -> In s0 (starts t) -> (length ops <= 3)%nat ->
  Forall (fun op => In op alphabet5) ops ->
  sm_unspec Z (sm_final ops (init_sm s0)) = false ->
  wf_code Z nn_zcmp t (st_root Z (nn_final Z nn_zcmp t ops (nn_init Z s0))) = 0.
Proof.
  intros t s0 ops Ht Hs Hlen Hops Hu.
  apply (agree_wf_final t ops (nn_init Z s0) (init_sm s0)); [|exact Hu|].
  - apply nn_refines_map_partial_lemma; assumption.
  - pose proof starts_ok as H. rewrite forallb_forall in H. specialize (H t Ht).
    rewrite forallb_forall in H. specialize (H s0 Hs). apply Z.eqb_eq. exact H.
Qed.
