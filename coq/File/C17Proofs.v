(* Proofs for C17 about the model of fix-qdf (File/FixQdf.v), against the strict reader's decoders
   (File/ReadStrict.v) and the writer arithmetic lemmas of File/C02Proofs.v. *)
From QV Require Import Base.Bytes File.StrictSyntax File.ReadStrict File.WriterArith File.C02Proofs File.FixQdf File.QdfLayout File.C17Witness File.C17Examples.
From Coq Require Import Lia ZifyBool ZifyNat ZifyN.
Local Open Scope Z_scope.

(* ---------- the regenerated classic table is read back by the strict reader ---------- *)
Fixpoint fq_numbered (num : N) (offs : list N) : list (N * xentry) :=
  match offs with
  | [] => []
  | o :: t => (num, XInUse o 0%N) :: fq_numbered (num + 1)%N t
  end.

(* the in-use lines fix-qdf prints for offsets below 10^10 are exactly what ReadStrict.xref_entries reads as
   in-use entries, generation 0, at those offsets, numbered consecutively *)
Lemma fixqdf_xref_lines_read_lemma : forall offs num rest acc,
  Forall (fun o => (o < 10 ^ 10)%N) offs ->
  xref_entries (length offs) num (concat (map xref_line offs) ++ rest) acc
  = Some (rev (fq_numbered num offs) ++ acc, rest).
Proof.
  induction offs as [|o t IH]; intros num rest acc H.
  - reflexivity.
  - inversion H as [|? ? Ho Ht]; subst.
    cbn [length map concat xref_entries fq_numbered rev].
    rewrite <- app_assoc.
    destruct (xref_line_read_lemma o (concat (map xref_line t) ++ rest) Ho) as [_ Hr].
    rewrite Hr. rewrite IH by assumption.
    rewrite <- app_assoc. reflexivity.
Qed.

(* ====================================================================================================
   The offset invariant of the line machine, for files without object streams and without an xref stream
   (no line contains "/Type /ObjStm" or "/Type /XRef"): at every line boundary `offset` is the number of
   bytes written so far, and every recorded cross-reference entry is a type-1 entry whose offset is the
   position IN THE OUTPUT of the line "<k> 0 obj" of the object it numbers.
   ==================================================================================================== *)

Definition fq_out (s : fqs) : list N := fq_flatten (q_out s).

Lemma fq_flatten_cons : forall c l, fq_flatten (c :: l) = fq_flatten l ++ c.
Proof.
  intros c l. unfold fq_flatten. rewrite !rev'_rev. cbn [rev].
  rewrite concat_app. cbn [concat]. rewrite app_nil_r. reflexivity.
Qed.

Lemma fq_out_emit : forall s c, fq_out (fq_emit s c) = fq_out s ++ c.
Proof. intros s c. unfold fq_out, fq_emit. destruct s. cbn. apply fq_flatten_cons. Qed.

Lemma fq_len_app : forall a b, fq_len (a ++ b) = fq_len a + fq_len b.
Proof. intros a b. unfold fq_len. rewrite app_length. lia. Qed.

Lemma fq_len_nonneg : forall a, 0 <= fq_len a.
Proof. intros a. unfold fq_len. lia. Qed.

Lemma fq_eqb_eq : forall a b, fq_eqb a b = true -> a = b.
Proof. intros a b H. apply list_eqb_N_eq. exact H. Qed.

(* the line "<digits> 0 obj\n" of object number k starts at byte `off` of `out` *)
Definition fq_header_at (out : list N) (off k : Z) : Prop :=
  0 <= off /\ exists d rest, skipn (Z.to_nat off) out = d ++ fqk_obj_tail ++ rest
                            /\ d <> [] /\ forallb is_digit d = true /\ Z.of_N (dec_value d) = k.

Lemma fq_header_at_app : forall out more off k, fq_header_at out off k -> fq_header_at (out ++ more) off k.
Proof.
  intros out more off k [H0 [d [rest [Hs [Hd [Hdig Hv]]]]]].
  split; [exact H0|]. exists d, (rest ++ more). repeat split; try assumption.
  assert (Hle : (Z.to_nat off <= length out)%nat).
  { destruct (Nat.le_gt_cases (Z.to_nat off) (length out)) as [Hl|Hl]; [exact Hl|].
    rewrite skipn_all2 in Hs by lia. destruct d; [contradiction | discriminate]. }
  rewrite skipn_app. rewrite Hs.
  replace (Z.to_nat off - length out)%nat with 0%nat by lia. cbn [skipn].
  rewrite <- !app_assoc. reflexivity.
Qed.

Lemma fq_header_at_here : forall out d rest k,
  d <> [] -> forallb is_digit d = true -> Z.of_N (dec_value d) = k ->
  fq_header_at (out ++ d ++ fqk_obj_tail ++ rest) (fq_len out) k.
Proof.
  intros out d rest k Hd Hdig Hv. split; [apply fq_len_nonneg|].
  exists d, rest. repeat split; try assumption.
  unfold fq_len. rewrite Nat2Z.id. rewrite skipn_app, skipn_all, Nat.sub_diag. reflexivity.
Qed.

Lemma fq_digits_spec : forall s d r, fq_digits s = (d, r) -> s = d ++ r /\ forallb is_digit d = true.
Proof.
  induction s as [|c t IH]; intros d r H; cbn [fq_digits] in H.
  - inversion H. split; reflexivity.
  - destruct (is_digit c) eqn:Ec.
    + destruct (fq_digits t) as [d' r'] eqn:Et. inversion H; subst.
      destruct (IH d' r eq_refl) as [H1 H2]. split.
      * cbn. rewrite <- H1. reflexivity.
      * cbn. rewrite Ec, H2. reflexivity.
    + inversion H; subst. split; reflexivity.
Qed.

Lemma fq_match_n_0_obj_spec : forall line d, fq_match_n_0_obj line = Some d ->
  line = d ++ fqk_obj_tail /\ d <> [] /\ forallb is_digit d = true.
Proof.
  intros line d H. unfold fq_match_n_0_obj in H.
  destruct (fq_digits line) as [d' r] eqn:E. destruct (fq_digits_spec _ _ _ E) as [H1 H2].
  destruct d' as [|x d'']; [discriminate|].
  destruct (fq_eqb r fqk_obj_tail) eqn:Er; [|discriminate].
  inversion H; subst. apply fq_eqb_eq in Er. subst r. repeat split; [|exact H2]. discriminate.
Qed.

(* the recorded entries (newest first; the newest numbers object `length xs`) *)
Fixpoint fq_entries_ok (out : list N) (xs : list fq_xent) : Prop :=
  match xs with
  | [] => True
  | FqX1 off :: t => fq_header_at out off (Z.of_nat (length xs)) /\ fq_entries_ok out t
  | FqX2 _ _ :: _ => False
  end.

Lemma fq_entries_ok_app : forall xs out more, fq_entries_ok out xs -> fq_entries_ok (out ++ more) xs.
Proof.
  induction xs as [|e t IH]; intros out more H; [exact I|].
  destruct e as [off|a b]; [|contradiction].
  cbn [fq_entries_ok] in *. destruct H as [H1 H2]. split; [apply fq_header_at_app; exact H1 | apply IH; exact H2].
Qed.

(* offsets of the entries, oldest first *)
Fixpoint fq_offs (xs : list fq_xent) : list N :=
  match xs with
  | [] => []
  | FqX1 off :: t => Z.to_N off :: fq_offs t
  | FqX2 _ _ :: t => fq_offs t
  end.

Definition fq_simple (st : fq_state) : bool :=
  match st with Fq_top | Fq_in_obj | Fq_in_stream | Fq_after_stream | Fq_in_length => true | _ => false end.
Definition fq_tail (st : fq_state) : bool :=
  match st with Fq_at_xref | Fq_before_trailer | Fq_in_trailer | Fq_done => true | _ => false end.
Definition fq_table_written (st : fq_state) : bool :=
  match st with Fq_before_trailer | Fq_in_trailer | Fq_done => true | _ => false end.

(* the regenerated section: "xref\n" "0 <n+1>\n" "0000000000 65535 f \n" and one line per recorded offset *)
Definition fq_table_text (xs : list fq_xent) : list N :=
  fqk_xref_nl ++ (fqk_zero_sp ++ fq_dec (1 + Z.of_nat (length xs)) ++ fqk_nl ++ fqk_xref_free)
  ++ concat (map xref_line (fq_offs (rev xs))).

(* recorded offsets are non-negative, increase with the object number and never exceed `bound` *)
Fixpoint fq_desc (bound : Z) (xs : list fq_xent) : Prop :=
  match xs with
  | [] => True
  | FqX1 o :: t => 0 <= o <= bound /\ fq_desc o t
  | FqX2 _ _ :: _ => False
  end.

Lemma fq_desc_mono : forall xs b b', fq_desc b xs -> b <= b' -> fq_desc b' xs.
Proof. destruct xs as [|[o|a c] t]; intros b b' H Hb; cbn in *; [exact I| |contradiction]. destruct H as [[H1 H2] H3]. repeat split; try lia. exact H3. Qed.

Record fq_inv (s : fqs) : Prop := {
  inv_states : fq_simple (q_st s) || fq_tail (q_st s) = true;
  inv_entries : fq_entries_ok (fq_out s) (q_xref s);
  inv_last_obj : q_last_obj s = Z.of_nat (length (q_xref s));
  inv_sorted : fq_desc (fq_len (fq_out s)) (q_xref s);
  inv_offset : fq_simple (q_st s) = true -> q_offset s = fq_len (fq_out s);
  inv_xref_kw : q_st s = Fq_at_xref ->
      0 <= q_xref_offset s /\ exists pre, fq_out s = pre ++ fqk_xref_nl /\ fq_len pre = q_xref_offset s;
  inv_table : fq_table_written (q_st s) = true ->
      0 <= q_xref_offset s /\ exists pre rest, fq_out s = pre ++ fq_table_text (q_xref s) ++ rest /\ fq_len pre = q_xref_offset s;
  inv_done : q_st s = Fq_done ->
      exists pre mid, fq_out s = pre ++ fq_table_text (q_xref s) ++ mid ++ fqk_startxref_nl ++ fq_dec (q_xref_offset s) ++ fqk_eof
                      /\ fq_len pre = q_xref_offset s
}.

Lemma fq_inv_init : fq_inv fq_init.
Proof. constructor; cbn; try reflexivity; try discriminate; auto. Qed.

Lemma fq_xref_table_all1 : forall xs acc,
  (forall e, In e xs -> exists o, e = FqX1 o) ->
  fq_xref_table xs acc = (rev (map xref_line (fq_offs xs)) ++ acc, true).
Proof.
  induction xs as [|e t IH]; intros acc Hall; [reflexivity|].
  destruct (Hall e (or_introl eq_refl)) as [o ->].
  cbn [fq_xref_table fq_offs map rev]. rewrite IH; [|intros e' He'; apply Hall; right; exact He'].
  rewrite <- app_assoc. reflexivity.
Qed.

Lemma fq_entries_ok_all1 : forall out xs, fq_entries_ok out xs -> forall e, In e xs -> exists o, e = FqX1 o.
Proof.
  induction xs as [|x t IH]; intros H e He; [contradiction|].
  destruct x as [off|a b]; [|contradiction]. destruct H as [_ H2].
  destruct He as [<-|He]; [exists off; reflexivity | apply IH; assumption].
Qed.

Lemma fq_flatten_app : forall a b, fq_flatten (a ++ b) = fq_flatten b ++ fq_flatten a.
Proof.
  intros a b. unfold fq_flatten. rewrite !rev'_rev, rev_app_distr, concat_app. reflexivity.
Qed.

Lemma fq_flatten_rev_lines : forall ls, fq_flatten (rev ls) = concat ls.
Proof. intros ls. unfold fq_flatten. rewrite rev'_rev, rev_involutive. reflexivity. Qed.

Ltac fqsimp := unfold fq_out in *; cbn [q_st q_lineno q_offset q_last_offset q_last_obj q_xref q_stream_start q_stream_length q_xref_offset
  q_f1 q_f2 q_xref_size q_ostream q_ooffs q_odisc q_oidx q_oid q_oext q_okept q_out fq_set_st fq_set_pos fq_set_offset fq_set_obj
  fq_set_stream fq_set_xr fq_set_os fq_set_okept fq_set_out fq_emit fq_simple fq_tail fq_table_written orb] in *.

(* a transition that appends `c` to the output, keeps the entries and stays among the simple states *)
Lemma fq_inv_simple_append : forall st' out xref last_obj offset c (s' : fqs),
  fq_entries_ok (fq_flatten out) xref -> last_obj = Z.of_nat (length xref) ->
  fq_desc (fq_len (fq_flatten out)) xref ->
  offset = fq_len (fq_flatten out) ->
  fq_simple st' = true ->
  q_st s' = st' -> q_out s' = c :: out -> q_xref s' = xref -> q_last_obj s' = last_obj ->
  q_offset s' = offset + fq_len c ->
  fq_inv s'.
Proof.
  intros st' out xref last_obj offset c s' He Hl Hsd Ho Hs E1 E2 E3 E4 E5.
  assert (Hout : fq_out s' = fq_flatten out ++ c) by (unfold fq_out; rewrite E2; apply fq_flatten_cons).
  constructor.
  - rewrite E1, Hs. reflexivity.
  - rewrite Hout, E3. apply fq_entries_ok_app. exact He.
  - rewrite E4, E3. exact Hl.
  - rewrite Hout, E3. eapply fq_desc_mono; [exact Hsd|]. rewrite fq_len_app. pose proof (fq_len_nonneg c). lia.
  - intros _. rewrite E5, Hout, Ho, !fq_len_app. lia.
  - intros H. rewrite E1 in H. rewrite H in Hs. simpl in Hs. discriminate Hs.
  - intros H. rewrite E1 in H. destruct st'; simpl in Hs, H; discriminate Hs || discriminate H.
  - intros H. rewrite E1 in H. rewrite H in Hs. simpl in Hs. discriminate Hs.
Qed.

Lemma fq_check_obj_id_ok : forall s d s1, fq_check_obj_id s d = inl s1 ->
  s1 = fq_set_obj s (q_last_obj s + 1) (FqX1 (q_last_offset s) :: q_xref s) /\ Z.of_N (dec_value d) = q_last_obj s + 1.
Proof.
  intros s d s1 H. unfold fq_check_obj_id in H.
  destruct (2147483647 <? Z.of_N (dec_value d)); [discriminate|].
  destruct (Z.of_N (dec_value d) =? q_last_obj s + 1) eqn:E; [|discriminate].
  apply Z.eqb_eq in E. inversion H. split; [reflexivity | exact E].
Qed.

(* a transition that records a new object: line = d ++ " 0 obj\n" is appended and entry (last_offset) pushed *)
Lemma fq_inv_new_object : forall st' out xref last_obj offset d (s' : fqs),
  fq_entries_ok (fq_flatten out) xref -> last_obj = Z.of_nat (length xref) ->
  fq_desc (fq_len (fq_flatten out)) xref ->
  offset = fq_len (fq_flatten out) ->
  fq_simple st' = true ->
  d <> [] -> forallb is_digit d = true -> Z.of_N (dec_value d) = last_obj + 1 ->
  q_st s' = st' -> q_out s' = (d ++ fqk_obj_tail) :: out -> q_xref s' = FqX1 offset :: xref -> q_last_obj s' = last_obj + 1 ->
  q_offset s' = offset + fq_len (d ++ fqk_obj_tail) ->
  fq_inv s'.
Proof.
  intros st' out xref last_obj offset d s' He Hl Hsd Ho Hs Hd Hdig Hv E1 E2 E3 E4 E5.
  assert (Hout : fq_out s' = fq_flatten out ++ (d ++ fqk_obj_tail)) by (unfold fq_out; rewrite E2; apply fq_flatten_cons).
  constructor.
  - rewrite E1, Hs. reflexivity.
  - rewrite Hout, E3. cbn [fq_entries_ok]. split.
    + rewrite Ho. replace (d ++ fqk_obj_tail) with (d ++ fqk_obj_tail ++ []) by (rewrite app_nil_r; reflexivity).
      apply fq_header_at_here; try assumption. rewrite Hv, Hl. cbn [length]. lia.
    + apply fq_entries_ok_app. exact He.
  - rewrite E4, E3, Hl. cbn [length]. lia.
  - rewrite Hout, E3. cbn [fq_desc]. rewrite Ho. split; [|exact Hsd].
    rewrite fq_len_app. pose proof (fq_len_nonneg (fq_flatten out)). pose proof (fq_len_nonneg (d ++ fqk_obj_tail)). lia.
  - intros _. rewrite E5, Hout, Ho, !fq_len_app. lia.
  - intros H. rewrite E1 in H. rewrite H in Hs. simpl in Hs. discriminate Hs.
  - intros H. rewrite E1 in H. destruct st'; simpl in Hs, H; discriminate Hs || discriminate H.
  - intros H. rewrite E1 in H. rewrite H in Hs. simpl in Hs. discriminate Hs.
Qed.

(* a transition in the tail states: output grows (or not), entries and xref_offset stay *)
Lemma fq_inv_tail_append : forall s st' c (s' : fqs),
  fq_inv s -> fq_table_written (q_st s) = true -> fq_table_written st' = true ->
  q_st s' = st' -> fq_out s' = fq_out s ++ c -> q_xref s' = q_xref s -> q_last_obj s' = q_last_obj s ->
  q_xref_offset s' = q_xref_offset s ->
  (st' = Fq_done -> exists pre mid, fq_out s ++ c = pre ++ fq_table_text (q_xref s) ++ mid ++ fqk_startxref_nl ++ fq_dec (q_xref_offset s) ++ fqk_eof
                                   /\ fq_len pre = q_xref_offset s) ->
  fq_inv s'.
Proof.
  intros s st' c s' [Hst Hent Hlo Hsd Hoff Hkw Htab Hdn] Hw Hw' E1 E2 E3 E4 E5 Hd'.
  constructor.
  - rewrite E1. destruct st'; try discriminate; reflexivity.
  - rewrite E2, E3. apply fq_entries_ok_app. exact Hent.
  - rewrite E4, E3. exact Hlo.
  - rewrite E2, E3. eapply fq_desc_mono; [exact Hsd|]. rewrite fq_len_app. pose proof (fq_len_nonneg c). lia.
  - intros H. rewrite E1 in H. destruct st'; simpl in Hw', H; discriminate Hw' || discriminate H.
  - intros H. rewrite E1 in H. rewrite H in Hw'. simpl in Hw'. discriminate Hw'.
  - intros _. rewrite E5, E3, E2. destruct (Htab Hw) as [H0 [pre [rest [H1 H2]]]].
    split; [exact H0|]. exists pre, (rest ++ c). split; [|exact H2].
    rewrite H1. rewrite <- !app_assoc. reflexivity.
  - intros H. rewrite E1 in H. rewrite E5, E3, E2. apply Hd'. exact H.
Qed.

Ltac fq_app_simple st0 out0 xref0 :=
  eapply (fq_inv_simple_append st0 out0 xref0); fqsimp; try reflexivity; try eassumption; try lia.

Lemma fq_step_inv : forall s line s',
  fq_inv s -> fq_is_type_line line fqk_type_objstm = false -> fq_is_type_line line fqk_type_xref = false ->
  fq_step s line = inl s' -> fq_inv s'.
Proof.
  intros s line s' Hinv Hn1 Hn2 Hstep.
  pose proof Hinv as [Hst Hent Hlo Hsd Hoff Hkw Htab Hdn].
  destruct s as [st lineno offset last_offset last_obj xref sstart slen xoff f1 f2 xsize ostream ooffs odisc oidx oid oext okept out].
  unfold fq_step in Hstep. fqsimp.
  destruct st; simpl in Hst; try discriminate Hst; fqsimp.
  - (* top *)
    specialize (Hoff eq_refl).
    destruct (fq_match_n_0_obj line) as [d|] eqn:Em.
    + match type of Hstep with match ?c with _ => _ end = _ => destruct c as [s1|e] eqn:Ec; [|discriminate] end.
      apply fq_check_obj_id_ok in Ec. destruct Ec as [-> Hv]. fqsimp.
      inversion Hstep; subst s'. clear Hstep.
      destruct (fq_match_n_0_obj_spec _ _ Em) as [-> [Hd Hdig]].
      eapply (fq_inv_new_object Fq_in_obj out xref last_obj offset d); fqsimp; try reflexivity; try eassumption.
    + destruct (fq_eqb line fqk_xref_nl) eqn:Ex.
      * apply fq_eqb_eq in Ex. subst line. inversion Hstep; subst s'. clear Hstep.
        constructor; fqsimp; try reflexivity; try discriminate.
        -- rewrite fq_flatten_cons. apply fq_entries_ok_app. exact Hent.
        -- exact Hlo.
        -- rewrite fq_flatten_cons. eapply fq_desc_mono; [exact Hsd|]. rewrite fq_len_app. pose proof (fq_len_nonneg fqk_xref_nl). lia.
        -- intros _. split; [rewrite Hoff; apply fq_len_nonneg|].
           exists (fq_flatten out). split; [apply fq_flatten_cons | symmetry; exact Hoff].
      * inversion Hstep; subst s'. fq_app_simple Fq_top out xref.
  - (* in_obj *)
    specialize (Hoff eq_refl).
    destruct (fq_eqb line fqk_stream_nl).
    { inversion Hstep; subst s'. fq_app_simple Fq_in_stream out xref. }
    destruct (fq_eqb line fqk_endobj_nl).
    { inversion Hstep; subst s'. fq_app_simple Fq_top out xref. }
    rewrite Hn1, Hn2 in Hstep.
    inversion Hstep; subst s'. fq_app_simple Fq_in_obj out xref.
  - (* in_stream *)
    specialize (Hoff eq_refl).
    destruct (fq_eqb line fqk_endstream_nl); inversion Hstep; subst s'.
    + fq_app_simple Fq_after_stream out xref.
    + fq_app_simple Fq_in_stream out xref.
  - (* after_stream *)
    specialize (Hoff eq_refl).
    destruct (fq_eqb line fqk_ignore_newline).
    { destruct (0 <? slen); inversion Hstep; subst s'; fq_app_simple Fq_after_stream out xref. }
    destruct (fq_match_n_0_obj line) as [d|] eqn:Em.
    + match type of Hstep with match ?c with _ => _ end = _ => destruct c as [s1|e] eqn:Ec; [|discriminate] end.
      apply fq_check_obj_id_ok in Ec. destruct Ec as [-> Hv]. fqsimp.
      inversion Hstep; subst s'. clear Hstep.
      destruct (fq_match_n_0_obj_spec _ _ Em) as [-> [Hd Hdig]].
      eapply (fq_inv_new_object Fq_in_length out xref last_obj offset d); fqsimp; try reflexivity; try eassumption.
    + inversion Hstep; subst s'. fq_app_simple Fq_after_stream out xref.
  - (* in_length *)
    specialize (Hoff eq_refl).
    destruct (fq_match_num line); [|discriminate].
    inversion Hstep; subst s'. fq_app_simple Fq_top out xref.
  - (* at_xref *)
    destruct (Hkw eq_refl) as [Hx0 [pre [Hpre Hlen]]].
    pose proof (fq_entries_ok_all1 _ _ Hent) as Hall.
    rewrite fq_xref_table_all1 in Hstep.
    2:{ intros e He. apply Hall. rewrite rev'_rev in He. apply in_rev. exact He. }
    injection Hstep as <-.
    constructor; fqsimp; try reflexivity; try discriminate.
    + rewrite fq_flatten_app, fq_flatten_cons, <- app_assoc. apply fq_entries_ok_app. exact Hent.
    + exact Hlo.
    + rewrite fq_flatten_app, fq_flatten_cons, <- app_assoc. eapply fq_desc_mono; [exact Hsd|]. rewrite fq_len_app.
      match goal with |- _ <= _ + fq_len ?x => pose proof (fq_len_nonneg x) end. lia.
    + intros _. split; [exact Hx0|]. exists pre, []. split; [|exact Hlen].
      rewrite fq_flatten_app, fq_flatten_cons, fq_flatten_rev_lines. rewrite Hpre.
      unfold fq_table_text, fqk_zero_sp, fqk_nl. rewrite rev'_rev, app_nil_r. repeat (first [rewrite <- app_assoc | progress (cbn [app])]). reflexivity.
  - (* before_trailer *)
    destruct (fq_eqb line fqk_trailer_open); inversion Hstep; subst s'.
    + eapply (fq_inv_tail_append _ Fq_in_trailer line _ Hinv); fqsimp; try reflexivity; try (intros Hq; discriminate Hq). apply fq_flatten_cons.
    + eapply (fq_inv_tail_append _ Fq_before_trailer [] _ Hinv); fqsimp; try reflexivity; try (intros Hq; discriminate Hq). rewrite app_nil_r. reflexivity.
  - (* in_trailer *)
    destruct (Htab eq_refl) as [Hx0 [pre [rest [Hpre Hlen]]]].
    destruct (fq_match_size_n line); destruct (fq_eqb line fqk_dict_end); injection Hstep as <-.
    + eapply (fq_inv_tail_append _ Fq_done ((fqk_size_sp ++ fq_dec (1 + Z.of_nat (length xref)) ++ fqk_nl) ++ (fqk_startxref_nl ++ fq_dec xoff ++ fqk_eof)) _ Hinv);
        fqsimp; try reflexivity.
      * rewrite !fq_flatten_cons, <- app_assoc. reflexivity.
      * intros _. exists pre, (rest ++ (fqk_size_sp ++ fq_dec (1 + Z.of_nat (length xref)) ++ fqk_nl)). split; [|exact Hlen].
        rewrite Hpre. rewrite <- !app_assoc. reflexivity.
    + eapply (fq_inv_tail_append _ Fq_in_trailer _ _ Hinv); fqsimp; try reflexivity; try (intros Hq; discriminate Hq). apply fq_flatten_cons.
    + eapply (fq_inv_tail_append _ Fq_done (line ++ (fqk_startxref_nl ++ fq_dec xoff ++ fqk_eof)) _ Hinv); fqsimp; try reflexivity.
      * rewrite !fq_flatten_cons, <- app_assoc. reflexivity.
      * intros _. exists pre, (rest ++ line). split; [|exact Hlen]. rewrite Hpre. rewrite <- !app_assoc. reflexivity.
    + eapply (fq_inv_tail_append _ Fq_in_trailer _ _ Hinv); fqsimp; try reflexivity; try (intros Hq; discriminate Hq). apply fq_flatten_cons.
  - (* done *)
    inversion Hstep; subst s'.
    eapply (fq_inv_tail_append _ Fq_done [] _ Hinv); fqsimp; try reflexivity.
    + rewrite app_nil_r. reflexivity.
    + intros _. rewrite app_nil_r. apply Hdn. reflexivity.
Qed.

Definition fq_plain (l : list N) : Prop :=
  fq_is_type_line l fqk_type_objstm = false /\ fq_is_type_line l fqk_type_xref = false.

Lemma fq_run_inv : forall lines s s', fq_inv s -> Forall fq_plain lines -> fq_run s lines = inl s' -> fq_inv s'.
Proof.
  induction lines as [|l t IH]; intros s s' Hinv Hall Hrun; cbn [fq_run] in Hrun.
  - inversion Hrun; subst. exact Hinv.
  - destruct (fq_step s l) as [s1|e] eqn:E; [|discriminate].
    inversion Hall as [|? ? [H1 H2] Ht]; subst.
    eapply IH; [|exact Ht|exact Hrun]. eapply fq_step_inv; eassumption.
Qed.

Lemma fq_offs_app : forall a b, fq_offs (a ++ b) = fq_offs a ++ fq_offs b.
Proof.
  induction a as [|e t IH]; intros b; [reflexivity|].
  destruct e; cbn [app fq_offs]; rewrite IH; reflexivity.
Qed.

Lemma fq_offs_length : forall xs, (forall e, In e xs -> exists o, e = FqX1 o) -> length (fq_offs xs) = length xs.
Proof.
  induction xs as [|e t IH]; intros Hall; [reflexivity|].
  destruct (Hall e (or_introl eq_refl)) as [o ->]. cbn [fq_offs length]. rewrite IH; [reflexivity|].
  intros e' He'. apply Hall. right. exact He'.
Qed.

Lemma fq_entries_nth : forall out xs, fq_entries_ok out xs ->
  forall k o, nth_error (fq_offs (rev xs)) k = Some o -> fq_header_at out (Z.of_N o) (Z.of_nat (S k)).
Proof.
  induction xs as [|e t IH]; intros Hok k o Hn.
  - destruct k; discriminate.
  - destruct e as [off|a b]; [|contradiction]. destruct Hok as [Hh Ht].
    cbn [rev] in Hn. rewrite fq_offs_app in Hn. cbn [fq_offs] in Hn.
    assert (Hlen : length (fq_offs (rev t)) = length t).
    { rewrite fq_offs_length; [apply rev_length|]. intros e He. apply in_rev in He. eapply fq_entries_ok_all1; eassumption. }
    destruct (Nat.lt_ge_cases k (length (fq_offs (rev t)))) as [Hlt|Hge].
    + rewrite nth_error_app1 in Hn by exact Hlt. apply IH; assumption.
    + rewrite nth_error_app2 in Hn by exact Hge.
      destruct (k - length (fq_offs (rev t)))%nat as [|j] eqn:Ej; [|destruct j; discriminate].
      cbn in Hn. inversion Hn; subst o.
      assert (k = length t) by lia. subst k.
      destruct Hh as [H0 Hrest]. rewrite Z2N.id by exact H0. cbn [length] in *. split; [exact H0 | exact Hrest].
Qed.

(* THE OFFSET INVARIANT.  For every input without object streams and without an xref stream, after any prefix of
   the lines that fix-qdf survives:  `offset` is the number of bytes written (whenever the machine is in a state
   where the C++ uses it), `last_obj` is the number of recorded entries, every entry is a type-1 entry, and the
   k-th recorded offset is the position, in the output, of a line "<digits> 0 obj" whose digits denote k. *)
Lemma fixqdf_offset_invariant_lemma : forall lines s,
  Forall fq_plain lines -> fq_run fq_init lines = inl s ->
  (fq_simple (q_st s) = true -> q_offset s = fq_len (fq_flatten (q_out s))) /\
  q_last_obj s = Z.of_nat (length (q_xref s)) /\
  (forall e, In e (q_xref s) -> exists off, e = FqX1 off) /\
  (forall k o, nth_error (fq_offs (rev (q_xref s))) k = Some o ->
               fq_header_at (fq_flatten (q_out s)) (Z.of_N o) (Z.of_nat (S k))).
Proof.
  intros lines s Hall Hrun.
  destruct (fq_run_inv lines fq_init s fq_inv_init Hall Hrun) as [Hst Hent Hlo Hsd Hoff Hkw Htab Hdn].
  unfold fq_out in *. split; [|split; [|split]].
  - exact Hoff.
  - exact Hlo.
  - apply (fq_entries_ok_all1 _ _ Hent).
  - apply fq_entries_nth. exact Hent.
Qed.

(* THE REGENERATED CLASSIC TABLE IS RIGHT.  When such a run reaches the end of the trailer, the output is
     pre ++ "xref\n" "0 <n+1>\n" "0000000000 65535 f \n" ++ <one 20-byte line per object> ++ ... ++ "startxref\n" <|pre|> "\n%%EOF\n"
   i.e. startxref is the position of the xref keyword, the k-th line carries the position of the header line of
   object k in this very output, and (offsets below 10^10) the strict reader reads those lines back as in-use
   entries 1..n, generation 0, at exactly these positions. *)
Lemma fixqdf_classic_table_lemma : forall lines s,
  Forall fq_plain lines -> fq_run fq_init lines = inl s -> q_st s = Fq_done ->
  let out := fq_flatten (q_out s) in
  let offs := fq_offs (rev (q_xref s)) in
  exists pre mid,
    out = pre ++ fqk_xref_nl ++ (fqk_zero_sp ++ fq_dec (1 + Z.of_nat (length offs)) ++ fqk_nl ++ fqk_xref_free)
              ++ concat (map xref_line offs) ++ mid ++ fqk_startxref_nl ++ fq_dec (fq_len pre) ++ fqk_eof
    /\ (forall k o, nth_error offs k = Some o -> fq_header_at out (Z.of_N o) (Z.of_nat (S k)))
    /\ (Forall (fun o => (o < 10 ^ 10)%N) offs -> forall rest acc,
          xref_entries (length offs) 1 (concat (map xref_line offs) ++ rest) acc
          = Some (rev (fq_numbered 1 offs) ++ acc, rest)).
Proof.
  intros lines s Hall Hrun Hdone out offs.
  destruct (fq_run_inv lines fq_init s fq_inv_init Hall Hrun) as [Hst Hent Hlo Hsd Hoff Hkw Htab Hdn].
  destruct (Hdn Hdone) as [pre [mid [Hout Hlen]]].
  assert (Hl : length offs = length (q_xref s)).
  { unfold offs. rewrite fq_offs_length; [apply rev_length|].
    intros e He. apply in_rev in He. eapply fq_entries_ok_all1; eassumption. }
  exists pre, mid. split; [|split].
  - unfold out. unfold fq_out in Hout. rewrite Hout. unfold fq_table_text. fold offs. rewrite Hl, Hlen.
    rewrite <- !app_assoc. reflexivity.
  - apply fq_entries_nth. exact Hent.
  - intros Hsmall rest acc. apply fixqdf_xref_lines_read_lemma. exact Hsmall.
Qed.

(* ====================================================================================================
   /W widths.  fix-qdf sizes field 1 by the offset of the xref stream object itself (the newest entry) and
   field 2 by the largest object-stream index (at least one byte); writeBinary silently truncates, so
   adequacy is a theorem, not a run-time check.
   ==================================================================================================== *)
Lemma fq_fits : forall v m, (v <= m)%N -> (m < 2 ^ 63)%N ->
  be_value (write_binary v (N.to_nat (bytes_needed m))) = v.
Proof.
  intros v m Hv Hm. apply write_binary_read_lemma. rewrite N2Nat.id.
  destruct (bytes_needed_spec_lemma m Hm) as [H _]. lia.
Qed.

Lemma fq_max_index_fold : forall xs m,
  let r := fold_left (fun m e => match e with FqX2 _ idx => if m <? idx then idx else m | FqX1 _ => m end) xs m in
  m <= r /\ forall stm idx, In (FqX2 stm idx) xs -> idx <= r.
Proof.
  induction xs as [|e t IH]; intros m; cbn [fold_left].
  - split; [lia | intros ? ? []].
  - destruct e as [o|stm idx].
    + destruct (IH m) as [H1 H2]. split; [exact H1|]. intros stm' idx' [Hc|Hin]; [discriminate | eapply H2; exact Hin].
    + destruct (m <? idx) eqn:E.
      * apply Z.ltb_lt in E. destruct (IH idx) as [H1 H2]. split; [lia|].
        intros stm' idx' [Hc|Hin]; [inversion Hc; subst; exact H1 | eapply H2; exact Hin].
      * apply Z.ltb_ge in E. destruct (IH m) as [H1 H2]. split; [lia|].
        intros stm' idx' [Hc|Hin]; [inversion Hc; subst; lia | eapply H2; exact Hin].
Qed.

(* every value fix-qdf writes into the binary entries is read back unchanged by the strict reader's big-endian
   decoder when: type-1 offsets and object-stream numbers do not exceed the offset that sized field 1, and
   indices are non-negative.  Field 2 is never zero bytes wide. *)
Lemma fixqdf_w_adequate_lemma : forall xs xoff,
  0 <= xoff < 2 ^ 63 -> fq_max_index xs < 2 ^ 63 ->
  let f1 := N.to_nat (bytes_needed (Z.to_N xoff)) in
  let f2 := N.to_nat (bytes_needed (Z.to_N (fq_max_index xs))) in
  (1 <= f2)%nat /\
  (forall off, In (FqX1 off) xs -> 0 <= off <= xoff -> be_value (write_binary (Z.to_N off) f1) = Z.to_N off) /\
  (forall stm idx, In (FqX2 stm idx) xs -> 0 <= stm <= xoff -> be_value (write_binary (Z.to_N stm) f1) = Z.to_N stm) /\
  (forall stm idx, In (FqX2 stm idx) xs -> 0 <= idx -> be_value (write_binary (Z.to_N idx) f2) = Z.to_N idx).
Proof.
  intros xs xoff Hx Hm f1 f2.
  destruct (fq_max_index_fold xs 1) as [H1 H2]. fold (fq_max_index xs) in H1, H2.
  assert (Hxn : (Z.to_N xoff < 2 ^ 63)%N).
  { change (2 ^ 63)%N with (Z.to_N (2 ^ 63)). apply Z2N.inj_lt; lia. }
  assert (Hmn : (Z.to_N (fq_max_index xs) < 2 ^ 63)%N).
  { change (2 ^ 63)%N with (Z.to_N (2 ^ 63)). apply Z2N.inj_lt; lia. }
  split; [|split; [|split]].
  - unfold f2. destruct (bytes_needed_spec_lemma _ Hmn) as [_ Hlow].
    assert (Hpos : (0 < Z.to_N (fq_max_index xs))%N) by lia.
    destruct (N.eq_dec (bytes_needed (Z.to_N (fq_max_index xs))) 0) as [E|E]; [|lia].
    exfalso. destruct (bytes_needed_spec_lemma _ Hmn) as [Hup _]. rewrite E in Hup. change (256 ^ 0)%N with 1%N in Hup. lia.
  - intros off _ Ho. apply fq_fits; [|exact Hxn]. apply Z2N.inj_le; lia.
  - intros stm idx _ Hs. apply fq_fits; [|exact Hxn]. apply Z2N.inj_le; lia.
  - intros stm idx Hin Hi. apply fq_fits; [|exact Hmn]. apply Z2N.inj_le; try lia. eapply H2. exact Hin.
Qed.

Lemma fq_desc_in : forall xs b off, fq_desc b xs -> In (FqX1 off) xs -> 0 <= off <= b.
Proof.
  induction xs as [|e t IH]; intros b off H Hin; [contradiction|].
  destruct e as [o|a c]; [|contradiction]. destruct H as [[H1 H2] H3].
  destruct Hin as [Hc|Hin]; [inversion Hc; subst; lia|].
  specialize (IH o off H3 Hin). lia.
Qed.

(* the step that meets the "/Type /XRef" line in a file without object streams: xref_offset becomes the recorded
   offset of the current (newest) object, whose header line is there in the output; field 1 is sized by it and
   every recorded offset fits; field 2 gets one byte; /Length is (n+1) * (1 + f1 + f2) *)
Lemma fixqdf_xref_stream_widths_lemma : forall lines s line s',
  Forall fq_plain lines -> fq_run fq_init lines = inl s -> q_st s = Fq_in_obj ->
  fq_is_type_line line fqk_type_objstm = false -> fq_is_type_line line fqk_type_xref = true ->
  fq_eqb line fqk_stream_nl = false -> fq_eqb line fqk_endobj_nl = false ->
  fq_step s line = inl s' -> q_offset s < 2 ^ 63 ->
  q_st s' = Fq_in_xref_stream_dict /\ q_xref s' = q_xref s /\
  fq_header_at (fq_flatten (q_out s')) (q_xref_offset s') (Z.of_nat (length (q_xref s))) /\
  q_f2 s' = 1%N /\
  (forall off, In (FqX1 off) (q_xref s') ->
     be_value (write_binary (Z.to_N off) (N.to_nat (q_f1 s'))) = Z.to_N off /\
     be_value (write_binary 0 (N.to_nat (q_f2 s'))) = 0%N).
Proof.
  intros lines s line s' Hall Hrun Hst Hn1 Hx Hns Hne Hstep Hbig.
  destruct (fq_run_inv lines fq_init s fq_inv_init Hall Hrun) as [_ Hent Hlo Hsd Hoff _ _ _].
  assert (Hf2 : q_f2 s = 0%N /\ True).
  { split; [|exact I].
    (* xref_f2_nbytes is only assigned in the branch this lemma is about, which a plain prefix never takes *)
    clear -Hall Hrun.
    assert (G : forall ls s0 s1, Forall fq_plain ls -> q_f2 s0 = 0%N -> fq_inv s0 -> fq_run s0 ls = inl s1 -> q_f2 s1 = 0%N).
    { induction ls as [|l t IH]; intros s0 s1 Ha H0 Hi Hr; cbn [fq_run] in Hr.
      - inversion Hr; subst; exact H0.
      - destruct (fq_step s0 l) as [s2|e] eqn:E; [|discriminate].
        inversion Ha as [|? ? [Hp1 Hp2] Ht]; subst.
        apply (IH s2 s1 Ht); [|eapply fq_step_inv; eassumption|exact Hr].
        pose proof Hi as [Hst0 _ _ _ _ _ _ _].
        destruct s0 as [st lineno offset last_offset last_obj xref sstart slen xoff f1 f2 xsize ostream ooffs odisc oidx oid oext okept out].
        unfold fq_step in E. fqsimp. subst f2.
        destruct st; simpl in Hst0; try discriminate Hst0; fqsimp;
          repeat match type of E with
                 | context [match ?c with _ => _ end] =>
                     match c with
                     | fq_is_type_line l fqk_type_objstm => rewrite Hp1 in E
                     | fq_is_type_line l fqk_type_xref => rewrite Hp2 in E
                     | fq_check_obj_id _ _ => let Ec := fresh "Ec" in destruct c eqn:Ec; [apply fq_check_obj_id_ok in Ec; destruct Ec as [-> _]|]
                     | _ => destruct c
                     end
                 end; try discriminate; try (injection E as <-; reflexivity). }
    eapply (G lines fq_init s Hall eq_refl fq_inv_init Hrun). }
  destruct Hf2 as [Hf2 _].
  specialize (Hoff ltac:(rewrite Hst; reflexivity)).
  destruct s as [st lineno offset last_offset last_obj xref sstart slen xoff f1 f2 xsize ostream ooffs odisc oidx oid oext okept out].
  unfold fq_step in Hstep. fqsimp. subst st f2. fqsimp.
  rewrite Hns, Hne, Hn1, Hx in Hstep.
  destruct xref as [|[hoff|a b] xt]; [discriminate | | discriminate].
  injection Hstep as <-. fqsimp.
  destruct Hent as [Hhead Hrest]. destruct Hsd as [[Hh0 Hh1] Hsd'].
  assert (Hmax : fq_max_index (FqX1 hoff :: xt) = 1).
  { assert (G : forall ys m, (forall e, In e ys -> exists o, e = FqX1 o) ->
                 fold_left (fun m e => match e with FqX2 _ idx => if m <? idx then idx else m | FqX1 _ => m end) ys m = m).
    { induction ys as [|y yt IH]; intros m Hy; [reflexivity|]. destruct (Hy y (or_introl eq_refl)) as [o ->].
      cbn [fold_left]. apply IH. intros e He. apply Hy. right. exact He. }
    unfold fq_max_index. apply G. intros e [<-|He]; [exists hoff; reflexivity | eapply fq_entries_ok_all1; eassumption]. }
  split; [reflexivity|]. split; [reflexivity|].
  split.
  { rewrite !fq_flatten_cons, <- app_assoc. apply fq_header_at_app. exact Hhead. }
  rewrite Hmax. split; [vm_compute; reflexivity|].
  intros off Hin. split; [|vm_compute; reflexivity].
  assert (Hb : 0 <= off <= hoff).
  { destruct Hin as [Hc|Hin]; [inversion Hc; subst; lia|]. pose proof (fq_desc_in _ _ _ Hsd' Hin). lia. }
  apply fq_fits; [apply Z2N.inj_le; lia|].
  change (2 ^ 63)%N with (Z.to_N (2 ^ 63)). apply Z2N.inj_lt; try lia.
Qed.

(* ====================================================================================================
   Stream lengths.  From any state inside an object, for ANY stream data that has no line "endstream":
   the lines   stream / data... / endstream / filler... / <k> 0 obj / <digits>   are copied through unchanged
   except that the digits line becomes the exact number of data bytes (minus one per "%QDF: ignore_newline"
   line, not below zero), and `offset` stays the number of bytes written.
   ==================================================================================================== *)
Ltac fqnorm := repeat (progress (unfold fq_emit, fq_set_st, fq_set_pos, fq_set_offset, fq_set_obj, fq_set_stream, fq_set_xr, fq_set_os, fq_set_okept, fq_set_out;
  cbn [q_st q_lineno q_offset q_last_offset q_last_obj q_xref q_stream_start q_stream_length q_xref_offset
       q_f1 q_f2 q_xref_size q_ostream q_ooffs q_odisc q_oidx q_oid q_oext q_okept q_out])).

Definition fq_dec_len (len : Z) (mid : list (list N)) : Z :=
  fold_left (fun a l => if fq_eqb l fqk_ignore_newline then (if 0 <? a then a - 1 else a) else a) mid len.

Lemma fq_in_stream_loop : forall data lineno offset last_offset last_obj xref sstart slen xoff f1 f2 xsize ostream ooffs odisc oidx oid oext okept out,
  Forall (fun l => fq_eqb l fqk_endstream_nl = false) data ->
  exists ln lo,
    fq_run (mkfq Fq_in_stream lineno offset last_offset last_obj xref sstart slen xoff f1 f2 xsize ostream ooffs odisc oidx oid oext okept out) data
    = inl (mkfq Fq_in_stream ln (offset + fq_len (concat data)) lo last_obj xref sstart slen xoff f1 f2 xsize ostream ooffs odisc oidx oid oext okept (rev data ++ out))
    /\ (data = [] -> lo = last_offset) /\ (data <> [] -> offset <= lo).
Proof.
  induction data as [|l t IH]; intros lineno offset last_offset last_obj xref sstart slen xoff f1 f2 xsize ostream ooffs odisc oidx oid oext okept out Hall.
  - exists lineno, last_offset. cbn [fq_run concat rev app]. unfold fq_len at 1. cbn [length]. rewrite Z.add_0_r.
    split; [reflexivity|]. split; [reflexivity | intros H; contradiction].
  - inversion Hall as [|? ? Hl Ht]; subst.
    cbn [fq_run]. unfold fq_step. fqsimp. rewrite Hl. fqnorm.
    destruct (IH (lineno + 1) (offset + fq_len l) offset last_obj xref sstart slen xoff f1 f2 xsize ostream ooffs odisc oidx oid oext okept (l :: out) Ht)
      as [ln [lo [Hrun [He Hne]]]].
    exists ln, lo. rewrite Hrun. split.
    + cbn [concat rev]. rewrite fq_len_app, <- app_assoc, Z.add_assoc. reflexivity.
    + split; [intros H; discriminate|]. intros _. pose proof (fq_len_nonneg l).
      destruct t as [|x t']; [rewrite (He eq_refl); lia | specialize (Hne ltac:(discriminate)); lia].
Qed.

Lemma fq_after_stream_loop : forall mid lineno offset last_offset last_obj xref sstart slen xoff f1 f2 xsize ostream ooffs odisc oidx oid oext okept out,
  Forall (fun l => fq_match_n_0_obj l = None) mid ->
  exists ln lo,
    fq_run (mkfq Fq_after_stream lineno offset last_offset last_obj xref sstart slen xoff f1 f2 xsize ostream ooffs odisc oidx oid oext okept out) mid
    = inl (mkfq Fq_after_stream ln (offset + fq_len (concat mid)) lo last_obj xref sstart (fq_dec_len slen mid) xoff f1 f2 xsize ostream ooffs odisc oidx oid oext okept (rev mid ++ out)).
Proof.
  induction mid as [|l t IH]; intros lineno offset last_offset last_obj xref sstart slen xoff f1 f2 xsize ostream ooffs odisc oidx oid oext okept out Hall.
  - exists lineno, last_offset. cbn [fq_run concat rev app fq_dec_len fold_left]. unfold fq_len at 1. cbn [length]. rewrite Z.add_0_r. reflexivity.
  - inversion Hall as [|? ? Hl Ht]; subst.
    cbn [fq_run]. unfold fq_step. fqsimp. unfold fq_dec_len. cbn [fold_left]. fold (fq_dec_len (if fq_eqb l fqk_ignore_newline then if 0 <? slen then slen - 1 else slen else slen) t).
    destruct (fq_eqb l fqk_ignore_newline).
    + destruct (0 <? slen); fqnorm.
      * destruct (IH (lineno + 1) (offset + fq_len l) offset last_obj xref sstart (slen - 1) xoff f1 f2 xsize ostream ooffs odisc oidx oid oext okept (l :: out) Ht) as [ln [lo Hrun]].
        exists ln, lo. rewrite Hrun. cbn [concat rev]. rewrite fq_len_app, <- app_assoc, Z.add_assoc. reflexivity.
      * destruct (IH (lineno + 1) (offset + fq_len l) offset last_obj xref sstart slen xoff f1 f2 xsize ostream ooffs odisc oidx oid oext okept (l :: out) Ht) as [ln [lo Hrun]].
        exists ln, lo. rewrite Hrun. cbn [concat rev]. rewrite fq_len_app, <- app_assoc, Z.add_assoc. reflexivity.
    + rewrite Hl. fqnorm.
      destruct (IH (lineno + 1) (offset + fq_len l) offset last_obj xref sstart slen xoff f1 f2 xsize ostream ooffs odisc oidx oid oext okept (l :: out) Ht) as [ln [lo Hrun]].
      exists ln, lo. rewrite Hrun. cbn [concat rev]. rewrite fq_len_app, <- app_assoc, Z.add_assoc. reflexivity.
Qed.

Lemma fq_run_app : forall a b s, fq_run s (a ++ b) = match fq_run s a with inl s1 => fq_run s1 b | inr e => inr e end.
Proof.
  induction a as [|l t IH]; intros b s; [reflexivity|].
  cbn [app fq_run]. destruct (fq_step s l); [apply IH | reflexivity].
Qed.

Lemma fq_step_stream_kw : forall lineno offset last_offset last_obj xref sstart slen xoff f1 f2 xsize ostream ooffs odisc oidx oid oext okept out,
  fq_step (mkfq Fq_in_obj lineno offset last_offset last_obj xref sstart slen xoff f1 f2 xsize ostream ooffs odisc oidx oid oext okept out) fqk_stream_nl
  = inl (mkfq Fq_in_stream (lineno + 1) (offset + fq_len fqk_stream_nl) offset last_obj xref (offset + fq_len fqk_stream_nl) slen xoff f1 f2 xsize
              ostream ooffs odisc oidx oid oext okept (fqk_stream_nl :: out)).
Proof. intros. unfold fq_step. fqsimp. change (fq_eqb fqk_stream_nl fqk_stream_nl) with true. cbv iota. reflexivity. Qed.

Lemma fq_step_endstream_kw : forall lineno offset last_offset last_obj xref sstart slen xoff f1 f2 xsize ostream ooffs odisc oidx oid oext okept out,
  fq_step (mkfq Fq_in_stream lineno offset last_offset last_obj xref sstart slen xoff f1 f2 xsize ostream ooffs odisc oidx oid oext okept out) fqk_endstream_nl
  = inl (mkfq Fq_after_stream (lineno + 1) (offset + fq_len fqk_endstream_nl) offset last_obj xref sstart (offset - sstart) xoff f1 f2 xsize
              ostream ooffs odisc oidx oid oext okept (fqk_endstream_nl :: out)).
Proof. intros. unfold fq_step. fqsimp. change (fq_eqb fqk_endstream_nl fqk_endstream_nl) with true. cbv iota. reflexivity. Qed.

Lemma fq_step_length_header : forall hdr d lineno offset last_offset last_obj xref sstart slen xoff f1 f2 xsize ostream ooffs odisc oidx oid oext okept out,
  fq_match_n_0_obj hdr = Some d -> Z.of_N (dec_value d) = last_obj + 1 -> last_obj + 1 <= 2147483647 ->
  fq_step (mkfq Fq_after_stream lineno offset last_offset last_obj xref sstart slen xoff f1 f2 xsize ostream ooffs odisc oidx oid oext okept out) hdr
  = inl (mkfq Fq_in_length (lineno + 1) (offset + fq_len hdr) offset (last_obj + 1) (FqX1 offset :: xref) sstart slen xoff f1 f2 xsize
              ostream ooffs odisc oidx oid oext okept (hdr :: out)).
Proof.
  intros hdr d lineno offset last_offset last_obj xref sstart slen xoff f1 f2 xsize ostream ooffs odisc oidx oid oext okept out Hh Hv Hmax.
  unfold fq_step. fqsimp.
  assert (Hni : fq_eqb hdr fqk_ignore_newline = false).
  { destruct (fq_eqb hdr fqk_ignore_newline) eqn:E; [|reflexivity]. apply fq_eqb_eq in E. subst hdr. vm_compute in Hh. discriminate. }
  rewrite Hni, Hh. unfold fq_check_obj_id. fqsimp. rewrite Hv.
  destruct (2147483647 <? last_obj + 1) eqn:E1; [apply Z.ltb_lt in E1; lia|].
  rewrite Z.eqb_refl. reflexivity.
Qed.

Lemma fq_step_length_number : forall numline lineno offset last_offset last_obj xref sstart slen xoff f1 f2 xsize ostream ooffs odisc oidx oid oext okept out,
  fq_match_num numline = true ->
  fq_step (mkfq Fq_in_length lineno offset last_offset last_obj xref sstart slen xoff f1 f2 xsize ostream ooffs odisc oidx oid oext okept out) numline
  = inl (mkfq Fq_top (lineno + 1) (offset + fq_len numline - fq_len numline + fq_len (fq_dec slen ++ fqk_nl)) offset last_obj xref sstart slen xoff f1 f2 xsize
              ostream ooffs odisc oidx oid oext okept ((fq_dec slen ++ fqk_nl) :: out)).
Proof. intros. unfold fq_step. fqsimp. rewrite H. reflexivity. Qed.

(* stream / data / endstream / filler / "<k> 0 obj" / digits : copied through, the digits line becomes the exact
   number of data bytes (minus one per "%QDF: ignore_newline" line), offset bookkeeping stays exact, and the
   length object is recorded at its position *)
Lemma fixqdf_stream_length_lemma : forall s data mid hdr d numline,
  q_st s = Fq_in_obj ->
  Forall (fun l => fq_eqb l fqk_endstream_nl = false) data ->
  Forall (fun l => fq_match_n_0_obj l = None) mid ->
  fq_match_n_0_obj hdr = Some d -> Z.of_N (dec_value d) = q_last_obj s + 1 -> q_last_obj s + 1 <= 2147483647 ->
  fq_match_num numline = true ->
  exists s',
    fq_run s ([fqk_stream_nl] ++ data ++ [fqk_endstream_nl] ++ mid ++ [hdr; numline]) = inl s' /\
    q_st s' = Fq_top /\
    fq_flatten (q_out s') = fq_flatten (q_out s) ++ fqk_stream_nl ++ concat data ++ fqk_endstream_nl ++ concat mid ++ hdr
                             ++ fq_dec (fq_dec_len (fq_len (concat data)) mid) ++ fqk_nl /\
    q_offset s' - q_offset s = fq_len (fq_flatten (q_out s')) - fq_len (fq_flatten (q_out s)) /\
    q_xref s' = FqX1 (q_offset s + fq_len (fqk_stream_nl ++ concat data ++ fqk_endstream_nl ++ concat mid)) :: q_xref s.
Proof.
  intros s data mid hdr d numline Hst Hdata Hmid Hhdr Hv Hmax Hnum.
  destruct s as [st lineno offset last_offset last_obj xref sstart slen xoff f1 f2 xsize ostream ooffs odisc oidx oid oext okept out].
  cbn [q_st q_last_obj q_out q_offset q_xref] in *. subst st.
  cbn [app]. cbn [fq_run]. rewrite fq_step_stream_kw.
  rewrite fq_run_app.
  destruct (fq_in_stream_loop data (lineno + 1) (offset + fq_len fqk_stream_nl) offset last_obj xref (offset + fq_len fqk_stream_nl) slen
              xoff f1 f2 xsize ostream ooffs odisc oidx oid oext okept (fqk_stream_nl :: out) Hdata) as [ln [lo [Hrun _]]].
  rewrite Hrun. cbn [app]. cbn [fq_run]. rewrite fq_step_endstream_kw.
  rewrite fq_run_app.
  match goal with |- context [fq_run (mkfq Fq_after_stream ?a ?b ?c ?d ?e ?f ?g ?h ?i ?j ?k ?l ?m ?n ?o ?p ?q ?r ?r2) mid] =>
    destruct (fq_after_stream_loop mid a b c d e f g h i j k l m n o p q r r2 Hmid) as [ln2 [lo2 Hrun2]] end.
  rewrite Hrun2. cbn [fq_run].
  rewrite (fq_step_length_header hdr d) by assumption.
  rewrite fq_step_length_number by assumption.
  eexists. split; [reflexivity|]. cbn [q_st q_last_obj q_out q_offset q_xref].
  replace (offset + fq_len fqk_stream_nl + fq_len (concat data) - (offset + fq_len fqk_stream_nl)) with (fq_len (concat data)) by lia.
  split; [reflexivity|]. split.
  - repeat (rewrite fq_flatten_cons || rewrite fq_flatten_app || rewrite fq_flatten_rev_lines). rewrite <- !app_assoc. reflexivity.
  - split.
    + repeat (rewrite fq_flatten_cons || rewrite fq_flatten_app || rewrite fq_flatten_rev_lines). rewrite !fq_len_app. lia.
    + rewrite !fq_len_app. f_equal. f_equal. lia.
Qed.

(* ====================================================================================================
   Object streams.  From any state inside an object whose saved object-stream fields are clear (they are
   cleared by every writeOstream and initially), for ANY old dictionary text, ANY old pair lines and ANY
   member text:  the header is rebuilt with /Length = bytes between "stream" and "endstream", /N = number
   of members, /First = size of the new pair lines + size of the first member's comment line, one pair per
   member giving its number and the position of its text relative to the first member's text; the members
   are copied through; every member gets a type-2 entry (this stream, its index); `offset` stays exact.
   ==================================================================================================== *)
Record fq_member := { m_hdr : list N; m_digits : list N; m_first : list N; m_rest : list (list N) }.
Definition m_lines (m : fq_member) : list (list N) := m_hdr m :: m_first m :: m_rest m.

Fixpoint fq_members_ok (num : Z) (ms : list fq_member) : Prop :=
  match ms with
  | [] => True
  | m :: t => fq_match_ostream_obj (m_hdr m) = Some (m_digits m) /\ Z.of_N (dec_value (m_digits m)) = num /\
              Forall (fun l => fq_match_ostream_obj l = None /\ fq_eqb l fqk_endstream_nl = false) (m_rest m) /\
              fq_members_ok (num + 1) t
  end.

(* position of each member's text (after its comment line) relative to `rel`, the position of its comment line *)
Fixpoint m_positions (rel : Z) (ms : list fq_member) : list Z :=
  match ms with
  | [] => []
  | m :: t => (rel + fq_len (m_hdr m)) :: m_positions (rel + fq_len (concat (m_lines m))) t
  end.

Fixpoint fq_x2_entries (oid idx : Z) (n : nat) : list fq_xent :=      (* newest first *)
  match n with
  | O => []
  | S k => FqX2 oid (idx + Z.of_nat k) :: fq_x2_entries oid idx k
  end.

Section OStreamSteps.
Variables (sstart slen xoff : Z) (f1 f2 : N) (xsize : Z) (odisc : list (list N)) (oid : Z) (oext : list N) (okept : list (list N)) (out : list (list N)).

Lemma mkfq_cong6 : forall st ln off off' lo lobj lobj' xref xref' ostream ostream' ooffs ooffs' oidx oidx',
  off = off' -> lobj = lobj' -> xref = xref' -> ostream = ostream' -> ooffs = ooffs' -> oidx = oidx' ->
  mkfq st ln off lo lobj xref sstart slen xoff f1 f2 xsize ostream ooffs odisc oidx oid oext okept out
  = mkfq st ln off' lo lobj' xref' sstart slen xoff f1 f2 xsize ostream' ooffs' odisc oidx' oid oext okept out.
Proof. intros; subst; reflexivity. Qed.

Lemma fq_step_member_header_obj : forall hdr d lineno offset last_offset last_obj xref ostream ooffs oidx,
  fq_match_ostream_obj hdr = Some d -> Z.of_N (dec_value d) = last_obj + 1 -> last_obj + 1 <= 2147483647 ->
  fq_step (mkfq Fq_in_ostream_obj lineno offset last_offset last_obj xref sstart slen xoff f1 f2 xsize ostream ooffs odisc oidx oid oext okept out) hdr
  = inl (mkfq Fq_in_ostream_outer (lineno + 1) (offset + fq_len hdr) offset (last_obj + 1) (FqX1 offset :: xref) sstart slen xoff f1 f2 xsize
              (hdr :: ostream) ooffs odisc oidx oid oext okept out).
Proof.
  intros hdr d lineno offset last_offset last_obj xref ostream ooffs oidx Hh Hv Hmax.
  unfold fq_step. fqsimp. rewrite Hh. unfold fq_check_obj_id. fqsimp. rewrite Hv.
  destruct (2147483647 <? last_obj + 1) eqn:E1; [apply Z.ltb_lt in E1; lia|].
  rewrite Z.eqb_refl. reflexivity.
Qed.

Lemma fq_step_member_first : forall line lineno offset last_offset last_obj e xref ostream ooffs oidx,
  fq_step (mkfq Fq_in_ostream_outer lineno offset last_offset last_obj (e :: xref) sstart slen xoff f1 f2 xsize ostream ooffs odisc oidx oid oext okept out) line
  = inl (mkfq Fq_in_ostream_obj (lineno + 1) (offset + fq_len line) offset last_obj (FqX2 oid oidx :: xref) sstart slen xoff f1 f2 xsize
              (line :: ostream) ((offset - sstart) :: ooffs) odisc (oidx + 1) oid oext okept out).
Proof. intros. unfold fq_step. fqsimp. unfold fq_adjust_ostream_xref. fqsimp. reflexivity. Qed.

Lemma fq_member_rest_loop : forall rest lineno offset last_offset last_obj xref ostream ooffs oidx,
  Forall (fun l => fq_match_ostream_obj l = None /\ fq_eqb l fqk_endstream_nl = false) rest ->
  exists ln lo,
    fq_run (mkfq Fq_in_ostream_obj lineno offset last_offset last_obj xref sstart slen xoff f1 f2 xsize ostream ooffs odisc oidx oid oext okept out) rest
    = inl (mkfq Fq_in_ostream_obj ln (offset + fq_len (concat rest)) lo last_obj xref sstart slen xoff f1 f2 xsize
                (rev rest ++ ostream) ooffs odisc oidx oid oext okept out).
Proof.
  induction rest as [|l t IH]; intros lineno offset last_offset last_obj xref ostream ooffs oidx Hall.
  - exists lineno, last_offset. cbn [fq_run concat rev app]. unfold fq_len at 1. cbn [length]. rewrite Z.add_0_r. reflexivity.
  - inversion Hall as [|? ? [Hl1 Hl2] Ht]; subst.
    cbn [fq_run]. unfold fq_step. fqsimp. rewrite Hl1, Hl2. fqnorm.
    destruct (IH (lineno + 1) (offset + fq_len l) offset last_obj xref (l :: ostream) ooffs oidx Ht) as [ln [lo Hrun]].
    exists ln, lo. rewrite Hrun. cbn [concat rev]. rewrite fq_len_app, <- app_assoc, Z.add_assoc. reflexivity.
Qed.

(* all members after the first comment line has been seen: from the state after a member's text *)
Lemma fq_members_loop : forall ms lineno offset last_offset last_obj xref ostream ooffs oidx,
  fq_members_ok (last_obj + 1) ms -> last_obj + Z.of_nat (length ms) <= 2147483647 ->
  exists ln lo,
    fq_run (mkfq Fq_in_ostream_obj lineno offset last_offset last_obj xref sstart slen xoff f1 f2 xsize ostream ooffs odisc oidx oid oext okept out)
           (concat (map m_lines ms))
    = inl (mkfq Fq_in_ostream_obj ln (offset + fq_len (concat (concat (map m_lines ms)))) lo (last_obj + Z.of_nat (length ms))
                (fq_x2_entries oid oidx (length ms) ++ xref) sstart slen xoff f1 f2 xsize
                (rev (concat (map m_lines ms)) ++ ostream) (rev (m_positions (offset - sstart) ms) ++ ooffs) odisc
                (oidx + Z.of_nat (length ms)) oid oext okept out).
Proof.
  induction ms as [|m t IH]; intros lineno offset last_offset last_obj xref ostream ooffs oidx Hok Hmax.
  - exists lineno, last_offset. cbn [map concat fq_run rev app length fq_x2_entries m_positions]. unfold fq_len at 1. cbn [length].
    rewrite !Z.add_0_r. reflexivity.
  - destruct Hok as [Hh [Hv [Hrest Ht]]]. cbn [length] in Hmax.
    cbn [map concat]. unfold m_lines at 1. cbn [app]. cbn [fq_run].
    rewrite (fq_step_member_header_obj (m_hdr m) (m_digits m)) by (try assumption; lia).
    cbn [fq_run]. rewrite fq_step_member_first.
    rewrite fq_run_app.
    destruct (fq_member_rest_loop (m_rest m) (lineno + 1 + 1) (offset + fq_len (m_hdr m) + fq_len (m_first m)) (offset + fq_len (m_hdr m)) (last_obj + 1)
                (FqX2 oid oidx :: xref) (m_first m :: m_hdr m :: ostream) ((offset + fq_len (m_hdr m) - sstart) :: ooffs) (oidx + 1) Hrest)
      as [ln1 [lo1 Hrun1]].
    rewrite Hrun1.
    destruct (IH ln1 (offset + fq_len (m_hdr m) + fq_len (m_first m) + fq_len (concat (m_rest m))) lo1 (last_obj + 1)
                 (FqX2 oid oidx :: xref) (rev (m_rest m) ++ m_first m :: m_hdr m :: ostream) ((offset + fq_len (m_hdr m) - sstart) :: ooffs) (oidx + 1))
      as [ln [lo Hrun]]; [exact Ht | lia |].
    exists ln, lo. rewrite Hrun. apply f_equal.
    assert (Hlen : fq_len (concat (m_lines m)) = fq_len (m_hdr m) + fq_len (m_first m) + fq_len (concat (m_rest m))).
    { unfold m_lines. cbn [concat]. rewrite !fq_len_app. lia. }
    apply mkfq_cong6.
    + rewrite concat_app, fq_len_app. fold (m_lines m). rewrite Hlen. lia.
    + cbn [length]. lia.
    + cbn [length].
      assert (G : forall n i, fq_x2_entries oid (i + 1) n ++ [FqX2 oid i] = fq_x2_entries oid i (S n)).
      { induction n as [|n IHn]; intros i; [cbn; f_equal; f_equal; lia|].
        cbn [fq_x2_entries app]. rewrite IHn. cbn [fq_x2_entries]. f_equal. f_equal. lia. }
      change (FqX2 oid oidx :: xref) with ([FqX2 oid oidx] ++ xref). rewrite app_assoc, G. reflexivity.
    + rewrite rev_app_distr. unfold m_lines. cbn [rev]. rewrite <- !app_assoc. cbn [app]. reflexivity.
    + cbn [m_positions rev]. rewrite <- app_assoc. cbn [app]. rewrite Hlen.
      replace (offset - sstart + (fq_len (m_hdr m) + fq_len (m_first m) + fq_len (concat (m_rest m))))
        with (offset + fq_len (m_hdr m) + fq_len (m_first m) + fq_len (concat (m_rest m)) - sstart) by lia.
      replace (offset - sstart + fq_len (m_hdr m)) with (offset + fq_len (m_hdr m) - sstart) by lia. reflexivity.
    + cbn [length]. lia.
Qed.
End OStreamSteps.

Lemma fq_sum_len_concat : forall ls, fq_sum_len ls = fq_len (concat ls).
Proof.
  intros ls. unfold fq_sum_len.
  assert (G : forall l a, fold_left (fun a l => a + fq_len l) l a = a + fq_len (concat l)).
  { induction l as [|x t IH]; intros a; cbn [fold_left concat]; [unfold fq_len; cbn; lia|]. rewrite IH, fq_len_app. lia. }
  rewrite G. lia.
Qed.

Lemma fq_len_concat_rev : forall ls, fq_len (concat (rev ls)) = fq_len (concat ls).
Proof.
  induction ls as [|x t IH]; [reflexivity|]. cbn [rev concat]. rewrite concat_app, !fq_len_app, IH. cbn [concat]. rewrite app_nil_r. lia.
Qed.

Lemma fq_x2_entries_snoc : forall oid n i, fq_x2_entries oid (i + 1) n ++ [FqX2 oid i] = fq_x2_entries oid i (S n).
Proof.
  induction n as [|n IHn]; intros i; [cbn; f_equal; f_equal; lia|].
  cbn [fq_x2_entries app]. rewrite IHn. cbn [fq_x2_entries]. f_equal. f_equal. lia.
Qed.

Lemma m_lines_concat : forall m, concat (m_lines m) = m_hdr m ++ m_first m ++ concat (m_rest m).
Proof. reflexivity. Qed.

Definition fq_ext_of (dict : list (list N)) (e0 : list N) : list N :=
  fold_left (fun e l => match fq_match_extends l with Some m => m | None => e end) dict e0.

(* the lines of the old dictionary text that come back verbatim (fix C17-F5): neither an /Extends line (re_extends)
   nor one of the lines writeOstream() writes itself (/Length, /N, /First, ">>") *)
Definition fq_keeps (l : list N) : bool :=
  match fq_match_extends l with Some _ => false | None => negb (fq_is_regenerated l) end.
Definition fq_kept_of (dict : list (list N)) : list (list N) := filter fq_keeps dict.

Lemma fq_ostream_dict_loop : forall dict lineno offset last_offset last_obj xref sstart slen xoff f1 f2 xsize ostream ooffs odisc oidx oid oext okept out,
  Forall (fun l => fq_eqb l fqk_stream_nl = false) dict ->
  exists ln lo,
    fq_run (mkfq Fq_in_ostream_dict lineno offset last_offset last_obj xref sstart slen xoff f1 f2 xsize ostream ooffs odisc oidx oid oext okept out) dict
    = inl (mkfq Fq_in_ostream_dict ln (offset + fq_len (concat dict)) lo last_obj xref sstart slen xoff f1 f2 xsize ostream ooffs
                (rev dict ++ odisc) oidx oid (fq_ext_of dict oext) (rev (fq_kept_of dict) ++ okept) out).
Proof.
  induction dict as [|l t IH]; intros lineno offset last_offset last_obj xref sstart slen xoff f1 f2 xsize ostream ooffs odisc oidx oid oext okept out Hall.
  - exists lineno, last_offset. cbn [fq_run concat rev app fq_ext_of fold_left fq_kept_of filter]. unfold fq_len at 1. cbn [length]. rewrite Z.add_0_r. reflexivity.
  - inversion Hall as [|? ? Hl Ht]; subst.
    cbn [fq_run]. unfold fq_step. fqsimp. rewrite Hl.
    unfold fq_kept_of. cbn [filter]. unfold fq_keeps at 1. fold (fq_kept_of t).
    destruct (fq_match_extends l) as [mm|] eqn:Em.
    + fqnorm.
      destruct (IH (lineno + 1) (offset + fq_len l) offset last_obj xref sstart slen xoff f1 f2 xsize ostream ooffs (l :: odisc) oidx oid
                   mm okept out Ht) as [ln [lo Hrun]].
      exists ln, lo. rewrite Hrun. cbn [concat rev fq_ext_of fold_left]. rewrite Em. rewrite fq_len_app, <- app_assoc, Z.add_assoc. reflexivity.
    + destruct (fq_is_regenerated l) eqn:Er; cbn [negb]; fqnorm.
      * destruct (IH (lineno + 1) (offset + fq_len l) offset last_obj xref sstart slen xoff f1 f2 xsize ostream ooffs (l :: odisc) oidx oid
                     oext okept out Ht) as [ln [lo Hrun]].
        exists ln, lo. rewrite Hrun. cbn [concat rev fq_ext_of fold_left]. rewrite Em. rewrite fq_len_app, <- app_assoc, Z.add_assoc. reflexivity.
      * destruct (IH (lineno + 1) (offset + fq_len l) offset last_obj xref sstart slen xoff f1 f2 xsize ostream ooffs (l :: odisc) oidx oid
                     oext (l :: okept) out Ht) as [ln [lo Hrun]].
        exists ln, lo. rewrite Hrun. cbn [concat rev fq_ext_of fold_left]. rewrite Em. rewrite fq_len_app, <- !app_assoc, Z.add_assoc. reflexivity.
Qed.

Lemma fq_ostream_junk_loop : forall junk lineno offset last_offset last_obj xref sstart slen xoff f1 f2 xsize ostream ooffs odisc oidx oid oext okept out,
  Forall (fun l => fq_match_ostream_obj l = None) junk ->
  exists ln lo,
    fq_run (mkfq Fq_in_ostream_offsets lineno offset last_offset last_obj xref sstart slen xoff f1 f2 xsize ostream ooffs odisc oidx oid oext okept out) junk
    = inl (mkfq Fq_in_ostream_offsets ln (offset + fq_len (concat junk)) lo last_obj xref sstart slen xoff f1 f2 xsize ostream ooffs
                (rev junk ++ odisc) oidx oid oext okept out).
Proof.
  induction junk as [|l t IH]; intros lineno offset last_offset last_obj xref sstart slen xoff f1 f2 xsize ostream ooffs odisc oidx oid oext okept out Hall.
  - exists lineno, last_offset. cbn [fq_run concat rev app]. unfold fq_len at 1. cbn [length]. rewrite Z.add_0_r. reflexivity.
  - inversion Hall as [|? ? Hl Ht]; subst.
    cbn [fq_run]. unfold fq_step. fqsimp. rewrite Hl. fqnorm.
    destruct (IH (lineno + 1) (offset + fq_len l) offset last_obj xref sstart slen xoff f1 f2 xsize ostream ooffs (l :: odisc) oidx oid oext okept out Ht) as [ln [lo Hrun]].
    exists ln, lo. rewrite Hrun. cbn [concat rev]. rewrite fq_len_app, <- app_assoc, Z.add_assoc. reflexivity.
Qed.

Lemma fq_step_objstm_type_line : forall tyline lineno offset last_offset last_obj xref sstart slen xoff f1 f2 xsize ostream ooffs odisc oidx oid oext okept out,
  fq_eqb tyline fqk_stream_nl = false -> fq_eqb tyline fqk_endobj_nl = false -> fq_is_type_line tyline fqk_type_objstm = true ->
  fq_step (mkfq Fq_in_obj lineno offset last_offset last_obj xref sstart slen xoff f1 f2 xsize ostream ooffs odisc oidx oid oext okept out) tyline
  = inl (mkfq Fq_in_ostream_dict (lineno + 1) (offset + fq_len tyline) offset last_obj xref sstart slen xoff f1 f2 xsize ostream ooffs odisc oidx
              last_obj oext okept (tyline :: out)).
Proof. intros. unfold fq_step. fqsimp. rewrite H, H0, H1. reflexivity. Qed.

Lemma fq_step_ostream_stream_kw : forall lineno offset last_offset last_obj xref sstart slen xoff f1 f2 xsize ostream ooffs odisc oidx oid oext okept out,
  fq_step (mkfq Fq_in_ostream_dict lineno offset last_offset last_obj xref sstart slen xoff f1 f2 xsize ostream ooffs odisc oidx oid oext okept out) fqk_stream_nl
  = inl (mkfq Fq_in_ostream_offsets (lineno + 1) (offset + fq_len fqk_stream_nl) offset last_obj xref sstart slen xoff f1 f2 xsize ostream ooffs odisc oidx oid oext okept out).
Proof. intros. unfold fq_step. fqsimp. change (fq_eqb fqk_stream_nl fqk_stream_nl) with true. cbv iota. reflexivity. Qed.

Lemma fq_step_first_member_header : forall hdr d lineno offset last_offset last_obj xref sstart slen xoff f1 f2 xsize ostream ooffs odisc oidx oid oext okept out,
  fq_match_ostream_obj hdr = Some d -> Z.of_N (dec_value d) = last_obj + 1 -> last_obj + 1 <= 2147483647 ->
  fq_step (mkfq Fq_in_ostream_offsets lineno offset last_offset last_obj xref sstart slen xoff f1 f2 xsize ostream ooffs odisc oidx oid oext okept out) hdr
  = inl (mkfq Fq_in_ostream_outer (lineno + 1) (offset + fq_len hdr) offset (last_obj + 1) (FqX1 offset :: xref) offset slen xoff f1 f2 xsize
              (hdr :: ostream) ooffs odisc oidx oid oext okept out).
Proof.
  intros hdr d lineno offset last_offset last_obj xref sstart slen xoff f1 f2 xsize ostream ooffs odisc oidx oid oext okept out Hh Hv Hmax.
  unfold fq_step. fqsimp. rewrite Hh. unfold fq_check_obj_id. fqsimp. rewrite Hv.
  destruct (2147483647 <? last_obj + 1) eqn:E1; [apply Z.ltb_lt in E1; lia|].
  rewrite Z.eqb_refl. reflexivity.
Qed.

Lemma fq_step_ostream_endstream : forall lineno offset last_offset last_obj xref sstart slen xoff f1 f2 xsize ostream ooffs odisc oidx oid oext okept out,
  fq_step (mkfq Fq_in_ostream_obj lineno offset last_offset last_obj xref sstart slen xoff f1 f2 xsize ostream ooffs odisc oidx oid oext okept out) fqk_endstream_nl
  = match fq_write_ostream (mkfq Fq_in_ostream_obj (lineno + 1) (offset + fq_len fqk_endstream_nl) offset last_obj xref sstart (offset - sstart) xoff f1 f2 xsize
                                 (fqk_endstream_nl :: ostream) ooffs odisc oidx oid oext okept out) with
    | inl s2 => inl (fq_set_st s2 Fq_in_obj)
    | inr e => inr e
    end.
Proof.
  intros. unfold fq_step. fqsimp.
  change (fq_match_ostream_obj fqk_endstream_nl) with (@None (list N)). cbv iota.
  change (fq_eqb fqk_endstream_nl fqk_endstream_nl) with true. cbv iota. reflexivity.
Qed.

(* THE OBJECT-STREAM THEOREM: /Type /ObjStm line, old dictionary text, "stream", old pair lines, members (comment
   line, first line, further lines), "endstream" |-> rebuilt dictionary (/Length = pairs + members, /N, /First = pairs +
   first comment, /Extends kept, then every other line of the old dictionary text that is not /Length /N /First or ">>"), "stream", one pair per member (number, position relative to the first member's text),
   the members verbatim, "endstream"; offsets stay exact; members get type-2 entries (this stream, 0..n-1) *)
Lemma fixqdf_object_stream_lemma : forall s tyline dict junk m ms,
  q_st s = Fq_in_obj -> q_ostream s = [] -> q_ooffs s = [] -> q_odisc s = [] -> q_oidx s = 0 -> q_oext s = [] -> q_okept s = [] ->
  fq_eqb tyline fqk_stream_nl = false -> fq_eqb tyline fqk_endobj_nl = false -> fq_is_type_line tyline fqk_type_objstm = true ->
  Forall (fun l => fq_eqb l fqk_stream_nl = false) dict ->
  Forall (fun l => fq_match_ostream_obj l = None) junk ->
  fq_members_ok (q_last_obj s + 1) (m :: ms) ->
  q_last_obj s + Z.of_nat (length (m :: ms)) <= 2147483647 ->
  let members := concat (map m_lines (m :: ms)) in
  let body := concat members in
  let pos := m_positions 0 (m :: ms) in
  let pairs := concat (fq_offsets_lines pos (fq_len (m_hdr m)) (q_last_obj s)) in
  let ext := fq_ext_of dict [] in
  let new_dict :=
      fqk_length_sp ++ fq_dec (fq_len body + fq_len pairs) ++ fqk_nl ++
      fqk_N_sp ++ fq_dec (Z.of_nat (length (m :: ms))) ++ fqk_nl ++
      fqk_first_sp ++ fq_dec (fq_len (m_hdr m) + fq_len pairs) ++ fqk_nl ++
      (match ext with [] => [] | e => fqk_extends_key ++ e ++ fqk_nl end) ++ concat (fq_kept_of dict) ++ fqk_dict_end in
  exists s',
    fq_run s ([tyline] ++ dict ++ [fqk_stream_nl] ++ junk ++ members ++ [fqk_endstream_nl]) = inl s' /\
    q_st s' = Fq_in_obj /\
    fq_flatten (q_out s') = fq_flatten (q_out s) ++ tyline ++ new_dict ++ fqk_stream_nl ++ pairs ++ body ++ fqk_endstream_nl /\
    q_offset s' - q_offset s = fq_len (fq_flatten (q_out s')) - fq_len (fq_flatten (q_out s)) /\
    q_xref s' = fq_x2_entries (q_last_obj s) 0 (length (m :: ms)) ++ q_xref s /\
    q_last_obj s' = q_last_obj s + Z.of_nat (length (m :: ms)) /\
    q_ostream s' = [] /\ q_ooffs s' = [] /\ q_odisc s' = [] /\ q_oidx s' = 0 /\ q_oext s' = [] /\ q_okept s' = [].
Proof.
  intros s tyline dict junk m ms Hst Ho1 Ho2 Ho3 Ho4 Ho5 Ho6 Ht1 Ht2 Ht3 Hdict Hjunk Hok Hmax members body pos pairs ext new_dict.
  destruct s as [st lineno offset last_offset last_obj xref sstart slen xoff f1 f2 xsize ostream ooffs odisc oidx oid oext okept out].
  cbn [q_st q_last_obj q_out q_offset q_xref q_ostream q_ooffs q_odisc q_oidx q_oext q_okept] in *. subst st ostream ooffs odisc oidx oext okept.
  cbn [app]. cbn [fq_run]. rewrite fq_step_objstm_type_line by assumption.
  rewrite fq_run_app.
  match goal with |- context [fq_run (mkfq Fq_in_ostream_dict ?a ?b ?c ?d ?e ?f ?g ?h ?i ?j ?k ?l ?m0 ?n ?o ?p ?q ?r ?r2) dict] =>
    destruct (fq_ostream_dict_loop dict a b c d e f g h i j k l m0 n o p q r r2 Hdict) as [ln1 [lo1 Hrun1]] end.
  rewrite Hrun1. cbn [app]. cbn [fq_run]. rewrite fq_step_ostream_stream_kw.
  rewrite fq_run_app.
  match goal with |- context [fq_run (mkfq Fq_in_ostream_offsets ?a ?b ?c ?d ?e ?f ?g ?h ?i ?j ?k ?l ?m0 ?n ?o ?p ?q ?r ?r2) junk] =>
    destruct (fq_ostream_junk_loop junk a b c d e f g h i j k l m0 n o p q r r2 Hjunk) as [ln2 [lo2 Hrun2]] end.
  rewrite Hrun2.
  rewrite fq_run_app.
  destruct Hok as [Hh [Hv [Hrest Hoks]]]. cbn [length] in Hmax.
  unfold members at 1. cbn [map concat]. unfold m_lines at 1. cbn [app]. cbn [fq_run].
  rewrite (fq_step_first_member_header (m_hdr m) (m_digits m)) by (try assumption; lia).
  cbn [fq_run]. rewrite fq_step_member_first.
  rewrite fq_run_app.
  match goal with |- context [fq_run (mkfq Fq_in_ostream_obj ?a ?b ?c ?d ?e ?f ?g ?h ?i ?j ?k ?l ?m0 ?n ?o ?p ?q ?r ?r2) (m_rest m)] =>
    destruct (fq_member_rest_loop f g h i j k n p q r r2 (m_rest m) a b c d e l m0 o Hrest) as [ln3 [lo3 Hrun3]] end.
  rewrite Hrun3.
  assert (Hmax2 : last_obj + 1 + Z.of_nat (length ms) <= 2147483647) by lia.
  match goal with |- context [fq_run (mkfq Fq_in_ostream_obj ?a ?b ?c ?d ?e ?f ?g ?h ?i ?j ?k ?l ?m0 ?n ?o ?p ?q ?r ?r2) (concat (map m_lines ms))] =>
    destruct (fq_members_loop f g h i j k n p q r r2 ms a b c d e l m0 o Hoks Hmax2) as [ln4 [lo4 Hrun4]] end.
  rewrite Hrun4.
  cbn [fq_run]. rewrite fq_step_ostream_endstream.
  set (O1 := offset + fq_len tyline + fq_len (concat dict) + fq_len fqk_stream_nl + fq_len (concat junk)) in *.
  unfold fq_write_ostream. fqsimp.
  rewrite (app_nil_r (rev (fq_kept_of dict))), (rev'_rev (rev (fq_kept_of dict))), (rev_involutive (fq_kept_of dict)).
  rewrite rev'_rev.
  rewrite !rev_app_distr, rev_involutive. cbn [rev app].
  replace (O1 + fq_len (m_hdr m) - O1) with (fq_len (m_hdr m)) by lia.
  assert (Hpos : fq_len (m_hdr m) :: m_positions (O1 + fq_len (m_hdr m) + fq_len (m_first m) + fq_len (concat (m_rest m)) - O1) ms = pos).
  { unfold pos. cbn [m_positions]. f_equal. f_equal. unfold m_lines. cbn [concat]. rewrite !fq_len_app. lia. }
  rewrite Hpos. unfold pos at 1. cbn [m_positions]. rewrite Z.add_0_l. fold pos.
  eexists. split; [reflexivity|]. fqsimp.
  assert (Hbody : fq_len body = fq_len (m_hdr m) + fq_len (m_first m) + fq_len (concat (m_rest m)) + fq_len (concat (concat (map m_lines ms)))).
  { unfold body, members. cbn [map concat]. unfold m_lines at 1. cbn [concat]. rewrite concat_app. rewrite !fq_len_app. cbn [concat]. rewrite !fq_len_app. lia. }
  assert (Hnpos : Z.of_nat (length pos) = Z.of_nat (length (m :: ms))).
  { f_equal. unfold pos. generalize 0. generalize (m :: ms). induction l as [|x l IHl]; intros z; [reflexivity|]. cbn [m_positions length]. rewrite IHl. reflexivity. }
  fold pairs.
  replace (O1 + fq_len (m_hdr m) + fq_len (m_first m) + fq_len (concat (m_rest m)) + fq_len (concat (concat (map m_lines ms))) - O1 + fq_len pairs)
    with (fq_len body + fq_len pairs) by lia.
  rewrite Hnpos. fold ext. fold new_dict.
  split; [reflexivity|].
  match goal with |- ?A /\ _ => assert (Hout : A) end.
  { repeat (rewrite fq_flatten_cons || rewrite fq_flatten_app || rewrite fq_flatten_rev_lines).
    assert (Hb : (((fq_flatten [] ++ m_hdr m) ++ m_first m) ++ concat (m_rest m)) ++ concat (concat (map m_lines ms)) = body).
    { change (fq_flatten []) with (@nil N). cbn [app]. unfold body, members. cbn [map concat]. rewrite concat_app, m_lines_concat.
      rewrite <- !app_assoc. reflexivity. }
    rewrite Hb. unfold new_dict. rewrite <- !app_assoc. destruct ext; reflexivity. }
  split; [exact Hout|].
  split.
  { rewrite Hout. rewrite fq_sum_len_concat. rewrite !concat_app, !fq_len_app, !fq_len_concat_rev. cbn [concat].
    change (fq_len []) with 0. unfold O1, new_dict. rewrite Hbody.
    destruct ext; rewrite ?app_comm_cons, !fq_len_app; ring. }
  split.
  { cbn [length]. change (FqX2 last_obj 0 :: xref) with ([FqX2 last_obj 0] ++ xref). rewrite app_assoc.
    pose proof (fq_x2_entries_snoc last_obj (length ms) 0) as G. change (0 + 1) with 1 in G. rewrite G. reflexivity. }
  split; [cbn [length]; lia|].
  repeat split; reflexivity.
Qed.


(* ====================================================================================================
   Findings, machine-checked on real `qpdf --qdf` output (File/C17Witness.v; the harness re-creates these files
   with the qpdf under test on every run and compares the bytes).

   DESIGN's full statements

     Theorem fixqdf_identity : forall cfg env d, qdf cfg -> classic_xref cfg -> fixqdf (write cfg env d) = write cfg env d.
     Theorem write_qdf_layout : forall cfg env d, qdf cfg -> wf_doc d -> qdf_layout (lines (write cfg env d)).
     Theorem fixqdf_identity_xrefstm : ... equal except the two /W widths and the entry bytes they size.
     Theorem fixqdf_wf : forall f, qdf_layout (lines f) -> wf_file id (fixqdf f) = true /\ doc_of (fixqdf f) = doc_of_layout f.
     Theorem fixqdf_idempotent : forall f, qdf_layout (lines f) -> fixqdf (fixqdf f) = fixqdf f.

   are FALSE on the faithful model for three input classes (known findings C17-F1, C17-F3, C17-F4; a fourth,
   C17-F2, was repaired in /repo by e1b84020 and the model follows the repaired code); what is
   proved instead is fixqdf_offset_invariant / fixqdf_classic_table above (the cross-reference half of fixqdf_wf for
   classic files, for ALL inputs), the width lemmas below, and the refutations here.  fixqdf_idempotent and the
   stream-length half of fixqdf_wf are not proved (checked on every generated case by the harness).
   ==================================================================================================== *)
Definition rs_ok (r : rs_result) : bool := match r with RsOk _ => true | RsErr _ _ => false end.

Lemma rs_ok_true : forall r, rs_ok r = true -> exists sf, r = RsOk sf.
Proof. intros [sf|c a] H; [exists sf; reflexivity | discriminate]. Qed.
Lemma rs_ok_false : forall r, rs_ok r = false -> exists c a, r = RsErr c a.
Proof. intros [sf|c a] H; [discriminate | exists c, a; reflexivity]. Qed.

(* fix-qdf succeeds (exit 0) on f and writes something else than f, which the strict reader rejects *)
Definition fq_damages (f : list N) : bool :=
  match fixqdf f with
  | FqDone g => negb (list_eqb N.eqb g f) && negb (rs_ok (read_strict g))
  | FqFail _ _ => false
  end.

Lemma fq_damages_spec : forall f, fq_damages f = true ->
  exists g c a, fixqdf f = FqDone g /\ g <> f /\ read_strict g = RsErr c a.
Proof.
  intros f H. unfold fq_damages in H. destruct (fixqdf f) as [g|g e]; [|discriminate].
  apply andb_true_iff in H. destruct H as [H1 H2].
  apply negb_true_iff in H1. apply negb_true_iff in H2.
  destruct (rs_ok_false _ H2) as [c [a Hr]]. exists g, c, a. repeat split; [|exact Hr].
  intros ->. assert (list_eqb N.eqb f f = true) by (apply list_eqb_N_eq; reflexivity). congruence.
Qed.

(* C17-F1: a file written by the real qpdf --qdf (classic cross-reference table), strictly valid PDF; fix-qdf applied
   to the UNEDITED file exits 0 and writes a different, invalid file.  (fixqdf_identity and the premise-free reading
   of fixqdf_wf are false.) *)
Lemma fixqdf_identity_refuted_lemma :
  (exists sf, read_strict c17_w_endstream = RsOk sf) /\
  (exists g c a, fixqdf c17_w_endstream = FqDone g /\ g <> c17_w_endstream /\ read_strict g = RsErr c a).
Proof.
  split; [apply rs_ok_true; vm_compute; reflexivity|].
  apply fq_damages_spec; vm_compute; reflexivity.
Qed.

(* former finding C17-F2, repaired in /repo by e1b84020 (is_type_line): the real --qdf output of a document whose
   dictionary holds the string (/Type /XRef) obeys every layout rule, is strictly valid, has no marker LINE although it
   contains the marker TEXT, and fix-qdf now reproduces it byte for byte.  (With the substring matcher of the
   unrepaired code the model wrote a damaged file here; that was fixqdf_identity_refuted's second half.) *)
Lemma fixqdf_marker_text_identity_lemma :
  qdf_layout c17_w_marker = QlOk /\
  (exists sf, read_strict c17_w_marker = RsOk sf) /\
  existsb (fq_contains fqk_type_xref) (fq_split_lines c17_w_marker) = true /\
  Forall fq_plain (fq_split_lines c17_w_marker) /\
  fixqdf c17_w_marker = FqDone c17_w_marker.
Proof.
  split; [vm_compute; reflexivity|].
  split; [apply rs_ok_true; vm_compute; reflexivity|].
  split; [vm_compute; reflexivity|].
  split; [|vm_compute; reflexivity].
  apply Forall_forall. intros l Hl.
  assert (H : forallb (fun l => negb (fq_is_type_line l fqk_type_objstm) && negb (fq_is_type_line l fqk_type_xref)) (fq_split_lines c17_w_marker) = true)
    by (vm_compute; reflexivity).
  rewrite forallb_forall in H. specialize (H l Hl). apply andb_true_iff in H. destruct H as [H1 H2].
  apply negb_true_iff in H1. apply negb_true_iff in H2. split; assumption.
Qed.

(* C17-F1 seen from the layout side: stream data containing a line "endstream" is written verbatim, so the real
   output cannot be read line-wise: the object of line 30.. is not closed where its first "endstream" line says *)
Lemma write_qdf_layout_refuted_lemma :
  (exists sf, read_strict c17_w_endstream = RsOk sf) /\ qdf_layout c17_w_endstream = QlBad 3 39.
Proof. split; [apply rs_ok_true; vm_compute; reflexivity | vm_compute; reflexivity]. Qed.

Definition fq_changes_head (f : list N) : bool :=
  match fixqdf f with
  | FqDone g => rs_ok (read_strict g) && list_eqb N.eqb (firstn 60 g) (firstn 60 f) && negb (list_eqb N.eqb (firstn 120 g) (firstn 120 f))
  | FqFail _ _ => false
  end.

Lemma fq_changes_head_spec : forall f, fq_changes_head f = true ->
  exists g, fixqdf f = FqDone g /\ (exists sf, read_strict g = RsOk sf) /\
            firstn 60 g = firstn 60 f /\ firstn 120 g <> firstn 120 f.
Proof.
  intros f H. unfold fq_changes_head in H. destruct (fixqdf f) as [g|g e]; [|discriminate].
  apply andb_true_iff in H. destruct H as [H H3]. apply andb_true_iff in H. destruct H as [H1 H2].
  exists g. split; [reflexivity|]. split; [apply rs_ok_true; exact H1|].
  split; [apply list_eqb_N_eq; exact H2|].
  apply negb_true_iff in H3. intros Heq. rewrite Heq in H3.
  assert (list_eqb N.eqb (firstn 120 f) (firstn 120 f) = true) by (apply list_eqb_N_eq; reflexivity). congruence.
Qed.

(* C17-F3: real output of --qdf --object-streams=generate --newline-before-endstream: layout rules obeyed, strictly
   valid; fix-qdf on the unedited file writes a valid file that already differs within the first 120 bytes (the
   /Length of the object stream, object 1), far from the xref stream at the end. *)
Lemma fixqdf_identity_xrefstm_refuted_lemma :
  qdf_layout c17_w_nbe = QlOk /\
  (exists sf, read_strict c17_w_nbe = RsOk sf) /\
  exists g, fixqdf c17_w_nbe = FqDone g /\ (exists sf, read_strict g = RsOk sf) /\
            firstn 60 g = firstn 60 c17_w_nbe /\ firstn 120 g <> firstn 120 c17_w_nbe.
Proof.
  split; [vm_compute; reflexivity|].
  split; [apply rs_ok_true; vm_compute; reflexivity|].
  apply fq_changes_head_spec. vm_compute. reflexivity.
Qed.

Definition fq_fails_obj (f : list N) (line num : Z) : bool :=
  match fixqdf f with
  | FqFail _ (FqFatalObj l n) => (l =? line) && (n =? num)
  | _ => false
  end.

Lemma fq_fails_obj_spec : forall f line num, fq_fails_obj f line num = true ->
  exists partial, fixqdf f = FqFail partial (FqFatalObj line num).
Proof.
  intros f line num H. unfold fq_fails_obj in H. destruct (fixqdf f) as [g|g e]; [discriminate|].
  destruct e; try discriminate. apply andb_true_iff in H. destruct H as [H1 H2].
  apply Z.eqb_eq in H1. apply Z.eqb_eq in H2. subst. exists g. reflexivity.
Qed.

(* C17-F4: real output of --qdf --object-streams=generate --preserve-unreferenced for an input with an object stream:
   strictly valid PDF, but the original object stream is kept as an ordinary stream whose dictionary still says
   /Type /ObjStm, numbering rule broken at line 85; fix-qdf on the unedited file stops with
   "<file>:85: expected object 11" (exit 2) *)
Lemma fixqdf_preserved_objstm_refuted_lemma :
  (exists sf, read_strict c17_w_preserved = RsOk sf) /\
  qdf_layout c17_w_preserved = QlBad 2 85 /\
  exists partial, fixqdf c17_w_preserved = FqFail partial (FqFatalObj 85 11).
Proof.
  split; [apply rs_ok_true; vm_compute; reflexivity|].
  split; [vm_compute; reflexivity|].
  apply fq_fails_obj_spec. vm_compute. reflexivity.
Qed.

(* the plain case, for contrast and as the non-vacuity witness of the theorems above: real --qdf output of
   minimal.pdf has no marker lines, the run reaches the end state, and fix-qdf reproduces it byte for byte *)
Definition fq_plainb (l : list N) : bool :=
  negb (fq_is_type_line l fqk_type_objstm) && negb (fq_is_type_line l fqk_type_xref).

Lemma fq_plainb_spec : forall ls, forallb fq_plainb ls = true -> Forall fq_plain ls.
Proof.
  intros ls H. apply Forall_forall. intros l Hl. rewrite forallb_forall in H. specialize (H l Hl).
  unfold fq_plainb in H. apply andb_true_iff in H. destruct H as [H1 H2].
  apply negb_true_iff in H1. apply negb_true_iff in H2. split; assumption.
Qed.

Definition fq_reaches_done (lines : list (list N)) (n : nat) : bool :=
  match fq_run fq_init lines with
  | inl s => match q_st s with Fq_done => Nat.eqb (length (q_xref s)) n | _ => false end
  | inr _ => false
  end.

Lemma fq_reaches_done_spec : forall lines n, fq_reaches_done lines n = true ->
  exists s, fq_run fq_init lines = inl s /\ q_st s = Fq_done /\ length (q_xref s) = n.
Proof.
  intros lines n H. unfold fq_reaches_done in H. destruct (fq_run fq_init lines) as [s|e]; [|discriminate].
  exists s. split; [reflexivity|]. destruct (q_st s); try discriminate. split; [reflexivity|]. apply Nat.eqb_eq. exact H.
Qed.

Lemma fixqdf_identity_example_lemma :
  Forall fq_plain (fq_split_lines c17_w_plain) /\
  (exists s, fq_run fq_init (fq_split_lines c17_w_plain) = inl s /\ q_st s = Fq_done /\ length (q_xref s) = 7%nat) /\
  fixqdf c17_w_plain = FqDone c17_w_plain /\ qdf_layout c17_w_plain = QlOk /\
  (exists sf, read_strict c17_w_plain = RsOk sf).
Proof.
  split; [apply fq_plainb_spec; vm_compute; reflexivity|].
  split; [apply fq_reaches_done_spec; vm_compute; reflexivity|].
  split; [vm_compute; reflexivity|]. split; [vm_compute; reflexivity|]. apply rs_ok_true; vm_compute; reflexivity.
Qed.

(* non-vacuity of fixqdf_object_stream and fixqdf_stream_length: concrete lines (File/C17Examples.v) meeting every premise *)
Definition c17_ex_state : fqs :=
  match fq_run fq_init [c17_l_obj1; c17_l_open] with inl s => s | inr _ => fq_init end.
Definition c17_ex_member : fq_member :=
  {| m_hdr := c17_l_member; m_digits := c17_d_2; m_first := c17_l_open; m_rest := [c17_l_key; c17_l_close] |}.

Lemma fixqdf_object_stream_example_lemma :
  q_st c17_ex_state = Fq_in_obj /\ q_ostream c17_ex_state = [] /\ q_ooffs c17_ex_state = [] /\ q_odisc c17_ex_state = [] /\
  q_oidx c17_ex_state = 0 /\ q_oext c17_ex_state = [] /\ q_okept c17_ex_state = [] /\
  fq_eqb c17_l_type fqk_stream_nl = false /\ fq_eqb c17_l_type fqk_endobj_nl = false /\
  fq_is_type_line c17_l_type fqk_type_objstm = true /\
  Forall (fun l => fq_eqb l fqk_stream_nl = false) [c17_l_olddict; c17_l_close] /\
  Forall (fun l => fq_match_ostream_obj l = None) [c17_l_pair] /\
  fq_members_ok (q_last_obj c17_ex_state + 1) [c17_ex_member] /\
  q_last_obj c17_ex_state + Z.of_nat (length [c17_ex_member]) <= 2147483647 /\
  (* and for fixqdf_stream_length *)
  Forall (fun l => fq_eqb l fqk_endstream_nl = false) [c17_l_bt; c17_l_almost] /\
  Forall (fun l => fq_match_n_0_obj l = None) [fqk_endobj_nl; [10%N]; fqk_ignore_newline] /\
  fq_match_n_0_obj c17_l_obj2 = Some c17_d_2 /\ Z.of_N (dec_value c17_d_2) = q_last_obj c17_ex_state + 1 /\
  fq_match_num c17_l_44 = true.
Proof.
  repeat (split; [first [reflexivity | (repeat constructor; reflexivity) | (vm_compute; intros H; discriminate H)]|]).
  reflexivity.
Qed.
