(* C18 proofs, part 11: the refinement for EVERY key order, and for name trees.

   C18ProofsH proves that the model of NNTree.cc refines the sorted map over integer keys.  Here the same is proved for
   any key type with a decidable total order (nk_order: reflexive, antisymmetric, transitive, total), and instantiated
   for number trees (Z, nn_zcmp) and for name trees (UTF-8 values ordered by std::string <, nn_scmp); for name trees on
   their STORED strings it is stated on the quotient the comparison induces (keys identified when getUTF8Value agrees).

   Method (an order embedding + naturality, no proof of C18InvA..G is repeated): one call of the API involves finitely
   many keys (those of the tree, of the specification's state and of the call).  List them: S.  The positions in S are
   a key type of their own (nat, compared as the keys they denote); it embeds into the given key type (i |-> S[i]) and
   into the integers (i |-> the number of keys of S below S[i], nk_rank), both maps preserving the three-way
   comparison, and two positions have the same image under one map iff they have under the other.  Model and
   specification commute with comparison-preserving renamings (C18ProofsP), so the call over the given keys is the
   image of a call over positions, whose image over the integers satisfies C18ProofsH's simulation lemma; the
   conclusion travels back along the two maps (nk_step_ok_transfer). *)
From Coq Require Import Sorting.Sorted.
From QV Require Import Base.Bytes Json.JsonEmit Struct.NNTreeModel Struct.NNTreeSpec Struct.NNKeys
  Struct.C18Proofs Struct.C18ProofsB Struct.C18ProofsC
  Struct.C18InvA Struct.C18InvB Struct.C18InvC Struct.C18InvD Struct.C18InvE Struct.C18InvF Struct.C18InvG Struct.C18ProofsH
  Struct.C18ProofsN Struct.C18ProofsP.
Local Open Scope Z_scope.

(* ------------------------------------------------------------------ the simulation relation, for any key type *)
(* stored tree valid (wf_code 0: no /Limits on the root, keys strictly ascending, every /Limits exact, no empty
   non-root node, node sizes within the split bound), content = the map, the specification still defined, and the
   iterator either invalid with the cursor at end() or standing on the entry whose key is the cursor *)
Definition nk_rel {K : Type} (cmp : K -> K -> comparison) (t : Z) (s : nnst K) (m : smst K) : Prop :=
  wf_code K cmp t (st_root K s) = 0 /\ sm_map K m = nn_abs K (st_root K s) /\ sm_unspec K m = false /\
  ((st_item K s < 0 /\ sm_cur K m = None) \/
   (exists e, nn_cur K s = Some e /\ sm_cur K m = Some (fst e))).

(* one call: same result as the sorted map, relation kept, no warning *)
Definition nk_step_ok {K : Type} (cmp : K -> K -> comparison) (t : Z) (op : nnop K) (s : nnst K) (m : smst K) : Prop :=
  fst (nn_step K cmp t op s) = fst (sm_step K cmp op m) /\
  nk_rel cmp t (snd (nn_step K cmp t op s)) (snd (sm_step K cmp op m)) /\
  st_warn K (snd (nn_step K cmp t op s)) = st_warn K s.

(* a history: at every call the result, the content, the validity of the stored tree and the absence of warnings *)
Fixpoint nk_agree {K : Type} (cmp : K -> K -> comparison) (t : Z) (ops : list (nnop K)) (s : nnst K) (m : smst K) : Prop :=
  match ops with
  | [] => True
  | op :: ops' =>
      fst (nn_step K cmp t op s) = fst (sm_step K cmp op m) /\
      nn_abs K (st_root K (snd (nn_step K cmp t op s))) = sm_map K (snd (sm_step K cmp op m)) /\
      wf_code K cmp t (st_root K (snd (nn_step K cmp t op s))) = 0 /\
      st_warn K (snd (nn_step K cmp t op s)) = st_warn K s /\
      nk_agree cmp t ops' (snd (nn_step K cmp t op s)) (snd (sm_step K cmp op m))
  end.

Fixpoint nk_sm_final {K : Type} (cmp : K -> K -> comparison) (ops : list (nnop K)) (m : smst K) : smst K :=
  match ops with
  | [] => m
  | op :: ops' => nk_sm_final cmp ops' (snd (sm_step K cmp op m))
  end.
Definition nk_init_sm {K : Type} (root : nnode K) : smst K := SmSt K (nn_abs K root) None false.

Lemma nk_unspec_step : forall K cmp op (m : smst K), sm_unspec K m = true -> sm_unspec K (snd (sm_step K cmp op m)) = true.
Proof.
  intros K cmp op m H. destruct op; simpl; try exact H.
  - destruct (sm_cur K m); exact H.
  - destruct (sm_cur K m); exact H.
  - match goal with |- context [if ?b then _ else _] => destruct b end; [exact H|reflexivity].
  - destruct (sm_cur K m); exact H.
Qed.
Lemma nk_unspec_final : forall K cmp ops (m : smst K), sm_unspec K m = true -> sm_unspec K (nk_sm_final cmp ops m) = true.
Proof. intros K cmp. induction ops as [|op ops IH]; intros m H; simpl; [exact H|]. apply IH, nk_unspec_step, H. Qed.

(* ------------------------------------------------------------------ integers: C18ProofsH in this vocabulary *)
Lemma nk_cur_at_pos : forall (s : nnst Z) e, nn_cur Z s = Some e ->
  exists A B, at_pos (st_root Z s) (st_path Z s) (st_item Z s) A e B.
Proof.
  intros s e H. unfold nn_cur in H. destruct (st_item Z s <? 0) eqn:Ei; [discriminate|]. apply Z.ltb_ge in Ei.
  unfold nn_leaf_items in H. destruct (nn_get Z (st_root Z s) (st_path Z s)) as [[l items|l kids]|] eqn:Eg; try discriminate.
  destruct (unplug _ _ _ Eg) as (fs & Hr & Hp). rewrite c18_znth_pos in H by exact Ei.
  exists (zpre fs ++ firstn (Z.to_nat (st_item Z s)) items), (skipn (S (Z.to_nat (st_item Z s))) items ++ zpost fs).
  exists fs, l, items. repeat split; assumption.
Qed.

Lemma nk_rel_Z : forall t s m, nk_rel nn_zcmp t s m <-> c18_rel t s m.
Proof.
  intros t s m. unfold nk_rel, c18_rel, c18_cursor_rel. rewrite wf_code_iff. split.
  - intros (H1 & H2 & H3 & H4). split; [exact H1|]. split; [exact H2|]. split; [exact H3|].
    destruct H4 as [H4|(e & Hc & Hm)]; [left; exact H4|right].
    destruct (nk_cur_at_pos s e Hc) as (A & B & Hp). exists A, e, B. split; assumption.
  - intros (H1 & H2 & H3 & H4). split; [exact H1|]. split; [exact H2|]. split; [exact H3|].
    destruct H4 as [H4|(A & e & B & Hp & Hm)]; [left; exact H4|right].
    exists e. split; [apply (at_pos_cur s A e B Hp)|exact Hm].
Qed.

Lemma nk_step_refines_Z : forall t op (s : nnst Z) (m : smst Z), 3 <= t -> nk_rel nn_zcmp t s m ->
  sm_unspec Z (snd (sm_step Z nn_zcmp op m)) = false -> nk_step_ok nn_zcmp t op s m.
Proof.
  intros t op s m Ht Hrel Hu. apply nk_rel_Z in Hrel.
  destruct (nn_step_refines_lemma t s m op Ht Hrel Hu) as (H1 & H2 & H3).
  split; [exact H1|]. split; [apply nk_rel_Z; exact H2|exact H3].
Qed.

(* ------------------------------------------------------------------ transfer along two comparison-preserving maps *)
Lemma nk_map_transfer {A B C} (g : A -> B) (h : A -> C) : (forall x y, g x = g y -> h x = h y) ->
  forall l1 l2, map g l1 = map g l2 -> map h l1 = map h l2.
Proof.
  intros H. induction l1 as [|x l1 IH]; intros [|y l2] E; simpl in *; try discriminate; [reflexivity|].
  injection E as E1 E2. rewrite (H _ _ E1), (IH _ E2). reflexivity.
Qed.

Section NkTransfer.
  Variables K1 Ka Kb : Type.
  Variable c1 : K1 -> K1 -> comparison.
  Variable ca : Ka -> Ka -> comparison.
  Variable cb : Kb -> Kb -> comparison.
  Variable fa : K1 -> Ka.
  Variable fb : K1 -> Kb.
  Hypothesis Hfa : forall a b, c1 a b = ca (fa a) (fa b).
  Hypothesis Hfb : forall a b, c1 a b = cb (fb a) (fb b).
  Hypothesis Hab : forall x y, fa x = fa y -> fb x = fb y.

  Lemma nk_mkv_transfer : forall x y : K1 * Z, nk_mkv K1 Ka fa x = nk_mkv K1 Ka fa y -> nk_mkv K1 Kb fb x = nk_mkv K1 Kb fb y.
  Proof. intros [a v] [b w] H. unfold nk_mkv in *. cbn [fst snd] in *. injection H as H1 H2. rewrite (Hab _ _ H1), H2. reflexivity. Qed.

  Lemma nk_mres_transfer : forall r1 r2 : nnres K1, nk_mres K1 Ka fa r1 = nk_mres K1 Ka fa r2 -> nk_mres K1 Kb fb r1 = nk_mres K1 Kb fb r2.
  Proof.
    intros [[e1|]|v1|] [[e2|]|v2|] H; cbn [nk_mres option_map] in *; try discriminate; try reflexivity.
    - assert (H' : nk_mkv K1 Ka fa e1 = nk_mkv K1 Ka fa e2) by congruence. rewrite (nk_mkv_transfer _ _ H'). reflexivity.
    - injection H as ->. reflexivity.
  Qed.

  Lemma nk_rel_transfer : forall t s m,
    nk_rel ca t (nk_mst K1 Ka fa s) (nk_msm K1 Ka fa m) -> nk_rel cb t (nk_mst K1 Kb fb s) (nk_msm K1 Kb fb m).
  Proof.
    intros t s m (H1 & H2 & H3 & H4). unfold nk_rel.
    cbn [nk_mst nk_msm st_root st_item sm_map sm_cur sm_unspec] in *.
    rewrite (nk_wf_code_nat K1 Ka c1 ca fa Hfa) in H1. rewrite (nk_abs_nat K1 Ka fa) in H2.
    rewrite (nk_wf_code_nat K1 Kb c1 cb fb Hfb), (nk_abs_nat K1 Kb fb).
    split; [exact H1|]. split; [apply (nk_map_transfer _ _ nk_mkv_transfer _ _ H2)|]. split; [exact H3|].
    destruct H4 as [[Hi Hc]|(e & Hc & Hm)].
    - left. split; [exact Hi|]. destruct (sm_cur K1 m); [discriminate|reflexivity].
    - right.
      change (nn_cur Ka (NNSt Ka (nk_mnode K1 Ka fa (st_root K1 s)) (st_path K1 s) (st_item K1 s) (st_warn K1 s)))
        with (nn_cur Ka (nk_mst K1 Ka fa s)) in Hc. rewrite (nk_cur_nat K1 Ka fa) in Hc.
      change (nn_cur Kb (NNSt Kb (nk_mnode K1 Kb fb (st_root K1 s)) (st_path K1 s) (st_item K1 s) (st_warn K1 s)))
        with (nn_cur Kb (nk_mst K1 Kb fb s)). rewrite (nk_cur_nat K1 Kb fb).
      destruct (nn_cur K1 s) as [[k v]|]; [|discriminate]. cbn [option_map] in *. injection Hc as <-.
      exists (nk_mkv K1 Kb fb (k, v)). split; [reflexivity|].
      destruct (sm_cur K1 m) as [c|]; [|discriminate]. cbn [option_map nk_mkv fst] in *. injection Hm as Hm.
      rewrite (Hab _ _ Hm). reflexivity.
  Qed.

  Lemma nk_step_ok_transfer : forall t op s m,
    nk_step_ok ca t (nk_mop K1 Ka fa op) (nk_mst K1 Ka fa s) (nk_msm K1 Ka fa m) ->
    nk_step_ok cb t (nk_mop K1 Kb fb op) (nk_mst K1 Kb fb s) (nk_msm K1 Kb fb m).
  Proof.
    intros t op s m. unfold nk_step_ok.
    rewrite (nk_step_nat K1 Ka c1 ca fa Hfa), (nk_sm_step_nat K1 Ka c1 ca fa Hfa).
    rewrite (nk_step_nat K1 Kb c1 cb fb Hfb), (nk_sm_step_nat K1 Kb c1 cb fb Hfb).
    unfold nk_mstep, nk_msstep. cbn [fst snd]. intros (H1 & H2 & H3).
    split; [apply nk_mres_transfer; exact H1|]. split; [apply nk_rel_transfer; exact H2|exact H3].
  Qed.

  Lemma nk_unspec_transfer : forall op m,
    sm_unspec Ka (snd (sm_step Ka ca (nk_mop K1 Ka fa op) (nk_msm K1 Ka fa m))) =
    sm_unspec Kb (snd (sm_step Kb cb (nk_mop K1 Kb fb op) (nk_msm K1 Kb fb m))).
  Proof.
    intros op m. rewrite (nk_sm_step_nat K1 Ka c1 ca fa Hfa), (nk_sm_step_nat K1 Kb c1 cb fb Hfb). reflexivity.
  Qed.
End NkTransfer.

(* ------------------------------------------------------------------ renaming keys by a function that fixes them *)
Section NkKeys.
  Variable K : Type.
  Definition nk_keys_lim (l : option (K * K)) : list K := match l with Some (a, b) => [a; b] | None => [] end.
  Fixpoint nk_keys_node (n : nnode K) : list K :=
    match n with
    | NLeaf l items => nk_keys_lim l ++ map fst items
    | NInner l kids => nk_keys_lim l ++ flat_map nk_keys_node kids
    end.
  Definition nk_keys_op (op : nnop K) : list K :=
    match op with
    | OpInsert k _ | OpRemove k | OpFind k | OpFindLE k | OpInsAfter k _ => [k]
    | _ => []
    end.
  Definition nk_keys_sm (m : smst K) : list K :=
    map fst (sm_map K m) ++ match sm_cur K m with Some c => [c] | None => [] end.

  Variable g : K -> K.

  Lemma nk_mlim_id : forall l, (forall k, In k (nk_keys_lim l) -> g k = k) -> nk_mlim K K g l = l.
  Proof.
    intros [[a b]|] H; [|reflexivity]. cbn. unfold nk_mpair. cbn [fst snd].
    rewrite (H a), (H b) by (simpl; tauto). reflexivity.
  Qed.
  Lemma nk_mkv_id : forall items, (forall k, In k (map fst items) -> g k = k) -> map (nk_mkv K K g) items = items.
  Proof.
    induction items as [|[k v] items IH]; intros H; [reflexivity|]. cbn [map]. unfold nk_mkv at 1. cbn [fst snd].
    rewrite (H k) by (left; reflexivity). rewrite IH; [reflexivity|]. intros k' Hk. apply H. right. exact Hk.
  Qed.
  Lemma nk_mnode_id : forall n, (forall k, In k (nk_keys_node n) -> g k = k) -> nk_mnode K K g n = n.
  Proof.
    induction n as [l items|l kids IH] using (nnode_ind' K); intros H; cbn [nk_mnode nk_keys_node] in *.
    - rewrite nk_mlim_id, nk_mkv_id; [reflexivity| |]; intros k Hk; apply H; apply in_or_app; [right|left]; exact Hk.
    - rewrite nk_mlim_id by (intros k Hk; apply H; apply in_or_app; left; exact Hk). f_equal.
      assert (H' : forall k, In k (flat_map nk_keys_node kids) -> g k = k)
        by (intros k Hk; apply H; apply in_or_app; right; exact Hk).
      clear H. induction kids as [|x kids IHk]; [reflexivity|]. inversion IH as [|? ? Hx Hks]; subst. cbn [map].
      rewrite Hx by (intros k Hk; apply H'; cbn [flat_map]; apply in_or_app; left; exact Hk).
      rewrite IHk; [reflexivity|exact Hks|]. intros k Hk. apply H'. cbn [flat_map]. apply in_or_app. right. exact Hk.
  Qed.
  Lemma nk_mop_id : forall op, (forall k, In k (nk_keys_op op) -> g k = k) -> nk_mop K K g op = op.
  Proof. intros [k v|k|k|k| | | | | |k v|] H; cbn [nk_mop]; try reflexivity; rewrite (H k) by (left; reflexivity); reflexivity. Qed.
  Lemma nk_msm_id : forall m, (forall k, In k (nk_keys_sm m) -> g k = k) -> nk_msm K K g m = m.
  Proof.
    intros [mm c u] H. unfold nk_msm, nk_keys_sm in *. cbn [sm_map sm_cur sm_unspec] in *.
    rewrite nk_mkv_id by (intros k Hk; apply H; apply in_or_app; left; exact Hk).
    destruct c as [c|]; [|reflexivity]. cbn [option_map]. rewrite (H c) by (apply in_or_app; right; left; reflexivity). reflexivity.
  Qed.
End NkKeys.

Section NkCompose.
  Variables A B C : Type.
  Variable g : A -> B.
  Variable h : B -> C.
  Lemma nk_mnode_comp : forall n, nk_mnode B C h (nk_mnode A B g n) = nk_mnode A C (fun k => h (g k)) n.
  Proof.
    induction n as [l items|l kids IH] using (nnode_ind' A); cbn [nk_mnode].
    - f_equal; [destruct l as [[a b]|]; reflexivity|]. rewrite map_map. reflexivity.
    - f_equal; [destruct l as [[a b]|]; reflexivity|]. rewrite map_map. apply map_ext_Forall. exact IH.
  Qed.
  Lemma nk_mst_comp : forall s, nk_mst B C h (nk_mst A B g s) = nk_mst A C (fun k => h (g k)) s.
  Proof. intros s. unfold nk_mst. cbn [st_root st_path st_item st_warn]. rewrite nk_mnode_comp. reflexivity. Qed.
  Lemma nk_mop_comp : forall op, nk_mop B C h (nk_mop A B g op) = nk_mop A C (fun k => h (g k)) op.
  Proof. intros []; reflexivity. Qed.
  Lemma nk_msm_comp : forall m, nk_msm B C h (nk_msm A B g m) = nk_msm A C (fun k => h (g k)) m.
  Proof.
    intros [mm c u]. unfold nk_msm. cbn [sm_map sm_cur sm_unspec]. rewrite map_map. destruct c; reflexivity.
  Qed.
End NkCompose.

(* ------------------------------------------------------------------ the embedding of a finite key set into Z *)
Section NkRank.
  Variable K : Type.
  Variable cmp : K -> K -> comparison.
  Hypothesis Hord : nk_order cmp.
  Variable S : list K.
  Variable d : K.

  Definition nk_rank (a : K) : Z := nn_zlen (filter (fun s => k_lt K cmp s a) S).

  Lemma nk_filter_le {A} (p q : A -> bool) l : (forall x, p x = true -> q x = true) ->
    (length (filter p l) <= length (filter q l))%nat.
  Proof.
    intros H. induction l as [|x l IH]; [apply le_n|]. simpl. destruct (p x) eqn:Ep.
    - rewrite (H x Ep). simpl. lia.
    - destruct (q x); simpl; lia.
  Qed.
  Lemma nk_filter_lt {A} (p q : A -> bool) l y : (forall x, p x = true -> q x = true) ->
    In y l -> p y = false -> q y = true -> (length (filter p l) < length (filter q l))%nat.
  Proof.
    intros H Hin Hp Hq. induction l as [|x l IH]; [destruct Hin|]. simpl. destruct Hin as [->|Hin].
    - rewrite Hp, Hq. simpl. pose proof (nk_filter_le p q l H). lia.
    - specialize (IH Hin). destruct (p x) eqn:Ep.
      + rewrite (H x Ep). simpl. lia.
      + destruct (q x); simpl; lia.
  Qed.

  Lemma nk_rank_lt : forall a b, In a S -> cmp a b = Lt -> nk_rank a < nk_rank b.
  Proof.
    intros a b Ha Hab. unfold nk_rank, nn_zlen. apply inj_lt.
    apply (nk_filter_lt _ _ S a).
    - intros x Hx. unfold k_lt in *. destruct (cmp x a) eqn:E; try discriminate.
      rewrite (nko_trans cmp Hord x a b E Hab). reflexivity.
    - exact Ha.
    - unfold k_lt. rewrite (nko_refl cmp Hord). reflexivity.
    - unfold k_lt. rewrite Hab. reflexivity.
  Qed.

  Lemma nk_rank_cmp : forall a b, In a S -> In b S -> cmp a b = Z.compare (nk_rank a) (nk_rank b).
  Proof.
    intros a b Ha Hb. destruct (cmp a b) eqn:E.
    - apply (nko_eq cmp Hord) in E. subst b. symmetry. apply Z.compare_refl.
    - symmetry. apply Z.compare_lt_iff. apply nk_rank_lt; assumption.
    - symmetry. apply Z.compare_gt_iff. apply nk_rank_lt; [exact Hb|].
      rewrite (nko_sym cmp Hord a b), E. reflexivity.
  Qed.

  Fixpoint nk_index (k : K) (l : list K) : nat :=
    match l with
    | [] => O
    | x :: r => match cmp k x with Eq => O | _ => Datatypes.S (nk_index k r) end
    end.
  Lemma nk_nth_index : forall k l, In k l -> nth (nk_index k l) l d = k.
  Proof.
    intros k. induction l as [|x l IH]; intros H; [destruct H|]. cbn [nk_index].
    destruct (cmp k x) eqn:E.
    - apply (nko_eq cmp Hord) in E. subst x. reflexivity.
    - destruct H as [->|H]; [rewrite (nko_refl cmp Hord) in E; discriminate|]. cbn [nth]. apply IH. exact H.
    - destruct H as [->|H]; [rewrite (nko_refl cmp Hord) in E; discriminate|]. cbn [nth]. apply IH. exact H.
  Qed.
End NkRank.

(* ------------------------------------------------------------------ one call, any key order *)
(* M1.  For every key type with a decidable total order, every threshold t >= 3 and every state related to a sorted
   map: each call of the helper API (insert / replace, remove, find, find at-or-below, begin, last, end, ++, --,
   iterator insertAfter where the key belongs, iterator remove) returns what the sorted map returns, leaves the
   iterator where the documentation says, keeps the stored tree valid and its content equal to the map, and warns
   about nothing.  (d: any key; only used to name positions outside the finite key set.) *)
Lemma nk_step_refines_lemma : forall (K : Type) (cmp : K -> K -> comparison), nk_order cmp -> K ->
  forall (t : Z) (op : nnop K) (s : nnst K) (m : smst K),
  3 <= t -> nk_rel cmp t s m -> sm_unspec K (snd (sm_step K cmp op m)) = false -> nk_step_ok cmp t op s m.
Proof.
  intros K cmp Hord d t op s m Ht Hrel Hu.
  set (S := d :: nk_keys_node K (st_root K s) ++ nk_keys_sm K m ++ nk_keys_op K op).
  set (iota := fun i : nat => nth i S d).
  set (idx := fun k : K => nk_index K cmp k S).
  set (c' := fun i j : nat => cmp (iota i) (iota j)).
  set (phi := fun i : nat => nk_rank K cmp S (iota i)).
  assert (HinS : forall i, In (iota i) S).
  { intros i. unfold iota. destruct (nth_in_or_default i S d) as [H|H]; [exact H|]. rewrite H. left. reflexivity. }
  assert (Hiota : forall a b, c' a b = cmp (iota a) (iota b)) by reflexivity.
  assert (Hphi : forall a b, c' a b = nn_zcmp (phi a) (phi b)).
  { intros a b. unfold c', phi, nn_zcmp. apply nk_rank_cmp; [exact Hord|apply HinS|apply HinS]. }
  assert (Hpi : forall x y, phi x = phi y -> iota x = iota y).
  { intros x y H. apply (nko_eq cmp Hord). rewrite <- Hiota, Hphi, H. apply Z.compare_refl. }
  assert (Hip : forall x y, iota x = iota y -> phi x = phi y).
  { intros x y H. unfold phi. rewrite H. reflexivity. }
  assert (Hfix : forall k, In k S -> iota (idx k) = k).
  { intros k Hk. unfold iota, idx. apply nk_nth_index; assumption. }
  (* the call over positions *)
  set (sn := nk_mst K nat idx s). set (mn := nk_msm K nat idx m). set (opn := nk_mop K nat idx op).
  assert (Es : nk_mst nat K iota sn = s).
  { unfold sn. rewrite nk_mst_comp. destruct s as [root path item w]. unfold nk_mst. cbn [st_root st_path st_item st_warn].
    f_equal. apply nk_mnode_id. intros k Hk. apply Hfix. right. apply in_or_app. left. exact Hk. }
  assert (Em : nk_msm nat K iota mn = m).
  { unfold mn. rewrite nk_msm_comp. apply nk_msm_id. intros k Hk. apply Hfix. right. apply in_or_app. right.
    apply in_or_app. left. exact Hk. }
  assert (Eo : nk_mop nat K iota opn = op).
  { unfold opn. rewrite nk_mop_comp. apply nk_mop_id. intros k Hk. apply Hfix. right. apply in_or_app. right.
    apply in_or_app. right. exact Hk. }
  rewrite <- Es, <- Em in Hrel. rewrite <- Em, <- Eo in Hu. rewrite <- Es, <- Em, <- Eo.
  apply (nk_step_ok_transfer nat Z K c' nn_zcmp cmp phi iota Hphi Hiota Hpi).
  apply nk_step_refines_Z; [exact Ht| |].
  - apply (nk_rel_transfer nat K Z c' cmp nn_zcmp iota phi Hiota Hphi Hip). exact Hrel.
  - rewrite (nk_unspec_transfer nat Z K c' nn_zcmp cmp phi iota Hphi Hiota). exact Hu.
Qed.

(* the per-operation forms (C18ProofsH: nn_find_step_refines, nn_insert_refines, nn_insert_after_refines,
   nn_remove_refines, nn_iter_refines), for every key order *)
Lemma nk_find_refines_lemma : forall (K : Type) (cmp : K -> K -> comparison), nk_order cmp ->
  forall (t : Z) (k : K) (s : nnst K) (m : smst K), 3 <= t -> nk_rel cmp t s m ->
  nk_step_ok cmp t (OpFind k) s m /\ nk_step_ok cmp t (OpFindLE k) s m.
Proof.
  intros K cmp Hord t k s m Ht Hrel. destruct Hrel as (H1 & H2 & H3 & H4).
  split; apply nk_step_refines_lemma; try assumption; try exact k; try (repeat split; assumption); exact H3.
Qed.
Lemma nk_insert_refines_lemma : forall (K : Type) (cmp : K -> K -> comparison), nk_order cmp ->
  forall (t : Z) (k : K) (v : Z) (s : nnst K) (m : smst K), 3 <= t -> nk_rel cmp t s m ->
  nk_step_ok cmp t (OpInsert k v) s m.
Proof.
  intros K cmp Hord t k v s m Ht Hrel. pose proof Hrel as (H1 & H2 & H3 & H4).
  apply nk_step_refines_lemma; try assumption; exact H3.
Qed.
Lemma nk_remove_refines_lemma : forall (K : Type) (cmp : K -> K -> comparison), nk_order cmp ->
  forall (t : Z) (k : K) (s : nnst K) (m : smst K), 3 <= t -> nk_rel cmp t s m ->
  nk_step_ok cmp t (OpRemove k) s m.
Proof.
  intros K cmp Hord t k s m Ht Hrel. pose proof Hrel as (H1 & H2 & H3 & H4).
  apply nk_step_refines_lemma; try assumption; exact H3.
Qed.
Lemma nk_insert_after_refines_lemma : forall (K : Type) (cmp : K -> K -> comparison), nk_order cmp ->
  forall (t : Z) (k : K) (v : Z) (s : nnst K) (m : smst K), 3 <= t -> nk_rel cmp t s m ->
  sm_unspec K (snd (sm_step K cmp (OpInsAfter k v) m)) = false ->
  nk_step_ok cmp t (OpInsAfter k v) s m.
Proof. intros K cmp Hord t k v s m Ht Hrel Hu. apply nk_step_refines_lemma; assumption. Qed.
Lemma nk_iter_refines_lemma : forall (K : Type) (cmp : K -> K -> comparison), nk_order cmp -> K ->
  forall (t : Z) (op : nnop K) (s : nnst K) (m : smst K), 3 <= t -> nk_rel cmp t s m ->
  In op [OpBegin; OpLast; OpEnd; OpNext; OpPrev; OpIterRemove] -> nk_step_ok cmp t op s m.
Proof.
  intros K cmp Hord d t op s m Ht Hrel Hop. pose proof Hrel as (H1 & H2 & H3 & H4).
  apply nk_step_refines_lemma; try assumption.
  simpl in Hop. destruct Hop as [<-|[<-|[<-|[<-|[<-|[<-|[]]]]]]]; simpl; try exact H3; destruct (sm_cur K m); exact H3.
Qed.

(* ------------------------------------------------------------------ histories of any length, any key order *)
Lemma nk_init_rel : forall (K : Type) (cmp : K -> K -> comparison) t (s0 : nnode K),
  wf_code K cmp t s0 = 0 -> nk_rel cmp t (nn_init K s0) (nk_init_sm s0).
Proof.
  intros K cmp t s0 H. split; [exact H|]. split; [reflexivity|]. split; [reflexivity|]. left. split; [cbn; lia|reflexivity].
Qed.

Lemma nk_agree_from_rel : forall (K : Type) (cmp : K -> K -> comparison), nk_order cmp -> K ->
  forall t, 3 <= t -> forall ops (s : nnst K) (m : smst K),
  nk_rel cmp t s m -> sm_unspec K (nk_sm_final cmp ops m) = false ->
  nk_agree cmp t ops s m /\ nk_rel cmp t (nn_final K cmp t ops s) (nk_sm_final cmp ops m).
Proof.
  intros K cmp Hord d t Ht. induction ops as [|op ops IH]; intros s m Hrel Hfin; [split; [exact Logic.I|exact Hrel]|].
  cbn [nk_agree nk_sm_final nn_final] in *.
  assert (Hspec : sm_unspec K (snd (sm_step K cmp op m)) = false).
  { destruct (sm_unspec K (snd (sm_step K cmp op m))) eqn:E; [|reflexivity].
    rewrite (nk_unspec_final K cmp ops _ E) in Hfin. discriminate. }
  destruct (nk_step_refines_lemma K cmp Hord d t op s m Ht Hrel Hspec) as (Hres & Hrel' & Hw).
  destruct (IH _ _ Hrel' Hfin) as [Hag Hfinal].
  split; [|exact Hfinal]. destruct Hrel' as (Hwf & Hmap & _ & _).
  split; [exact Hres|]. split; [symmetry; exact Hmap|]. split; [exact Hwf|]. split; [exact Hw|exact Hag].
Qed.

(* M2.  The refinement for histories of ANY length over ANY decidable total key order: every split threshold t >= 3,
   every valid starting tree of any size and depth, every sequence of calls that uses insertAfter only where the key
   belongs.  nk_agree states, call by call: result = the sorted map's, content = the map, wf_code = 0, no warning. *)
Lemma nk_refines_map_lemma : forall (K : Type) (cmp : K -> K -> comparison), nk_order cmp -> K ->
  forall (t : Z) (s0 : nnode K) (ops : list (nnop K)),
  3 <= t -> wf_code K cmp t s0 = 0 ->
  sm_unspec K (nk_sm_final cmp ops (nk_init_sm s0)) = false ->
  nk_agree cmp t ops (nn_init K s0) (nk_init_sm s0).
Proof.
  intros K cmp Hord d t s0 ops Ht Hwf Hfin.
  apply (nk_agree_from_rel K cmp Hord d t Ht ops); [apply nk_init_rel; exact Hwf|exact Hfin].
Qed.

(* M3.  Validity of the stored tree is preserved by every such history, for any key order *)
Lemma nk_wf_preserved_lemma : forall (K : Type) (cmp : K -> K -> comparison), nk_order cmp -> K ->
  forall (t : Z) (s0 : nnode K) (ops : list (nnop K)),
  3 <= t -> wf_code K cmp t s0 = 0 ->
  sm_unspec K (nk_sm_final cmp ops (nk_init_sm s0)) = false ->
  wf_code K cmp t (st_root K (nn_final K cmp t ops (nn_init K s0))) = 0.
Proof.
  intros K cmp Hord d t s0 ops Ht Hwf Hfin.
  destruct (nk_agree_from_rel K cmp Hord d t Ht ops _ _ (nk_init_rel K cmp t s0 Hwf) Hfin) as [_ (H & _)]. exact H.
Qed.

(* ------------------------------------------------------------------ instances *)
(* number trees: integer keys (the statement of nn_refines_map in the vocabulary of this file) *)
Lemma nk_number_trees_refine_map_lemma : forall (t : Z) (s0 : nnode Z) (ops : list (nnop Z)),
  3 <= t -> wf_code Z nn_zcmp t s0 = 0 ->
  sm_unspec Z (nk_sm_final nn_zcmp ops (nk_init_sm s0)) = false ->
  nk_agree nn_zcmp t ops (nn_init Z s0) (nk_init_sm s0) /\
  wf_code Z nn_zcmp t (st_root Z (nn_final Z nn_zcmp t ops (nn_init Z s0))) = 0.
Proof.
  intros t s0 ops Ht Hwf Hfin. split.
  - apply (nk_refines_map_lemma Z nn_zcmp nk_zcmp_total_order_lemma 0); assumption.
  - apply (nk_wf_preserved_lemma Z nn_zcmp nk_zcmp_total_order_lemma 0); assumption.
Qed.

(* name trees on texts: keys are UTF-8 values ordered as compareKeys orders them (std::string <) *)
Lemma nk_name_trees_refine_map_lemma : forall (t : Z) (s0 : nnode (list N)) (ops : list (nnop (list N))),
  3 <= t -> wf_code (list N) nn_scmp t s0 = 0 ->
  sm_unspec (list N) (nk_sm_final nn_scmp ops (nk_init_sm s0)) = false ->
  nk_agree nn_scmp t ops (nn_init (list N) s0) (nk_init_sm s0) /\
  wf_code (list N) nn_scmp t (st_root (list N) (nn_final (list N) nn_scmp t ops (nn_init (list N) s0))) = 0.
Proof.
  intros t s0 ops Ht Hwf Hfin. split.
  - apply (nk_refines_map_lemma (list N) nn_scmp nk_scmp_total_order_lemma []); assumption.
  - apply (nk_wf_preserved_lemma (list N) nn_scmp nk_scmp_total_order_lemma []); assumption.
Qed.

(* name trees on STORED strings (any spelling of the keys: PDFDocEncoding, UTF-16 with either byte order mark, UTF-8
   with mark, well-formed or not), run with the comparison the code uses (nk_compare_names).  compareKeys does not
   distinguish stored strings with the same UTF-8 value (nk_compare_names_antisym_refuted), so the sorted map is one
   over texts; the theorem is on that quotient: the run on stored strings, every key read through getUTF8Value, IS the
   run on texts (same results, same trees, same warnings), the validity verdict of a tree of stored strings is that of
   its texts, and that run refines the sorted map over texts. *)
Lemma nk_names_refine_map_quotient_lemma : forall (t : Z) (s0 : nnode (list N)) (ops : list (nnop (list N))),
  3 <= t -> wf_code (list N) nk_compare_names t s0 = 0 ->
  sm_unspec (list N) (nk_sm_final nk_compare_names ops (nk_init_sm s0)) = false ->
  let view := nk_mnode (list N) (list N) nk_utf8_value in
  let vops := map (nk_mop (list N) (list N) nk_utf8_value) ops in
  (forall n, wf_code (list N) nk_compare_names t n = wf_code (list N) nn_scmp t (view n)) /\
  nk_mst (list N) (list N) nk_utf8_value (nn_final (list N) nk_compare_names t ops (nn_init (list N) s0)) =
    nn_final (list N) nn_scmp t vops (nn_init (list N) (view s0)) /\
  nk_agree nn_scmp t vops (nn_init (list N) (view s0)) (nk_init_sm (view s0)) /\
  wf_code (list N) nk_compare_names t (st_root (list N) (nn_final (list N) nk_compare_names t ops (nn_init (list N) s0))) = 0.
Proof.
  intros t s0 ops Ht Hwf Hfin view vops.
  assert (Hf : forall a b, nk_compare_names a b = nn_scmp (nk_utf8_value a) (nk_utf8_value b)) by reflexivity.
  assert (Hwfn : forall n, wf_code (list N) nk_compare_names t n = wf_code (list N) nn_scmp t (view n)).
  { intros n. symmetry. apply (nk_wf_code_nat _ _ nk_compare_names nn_scmp nk_utf8_value Hf). }
  assert (Hfinal : nk_mst (list N) (list N) nk_utf8_value (nn_final (list N) nk_compare_names t ops (nn_init (list N) s0)) =
                   nn_final (list N) nn_scmp t vops (nn_init (list N) (view s0))).
  { symmetry. apply (nk_final_nat _ _ nk_compare_names nn_scmp nk_utf8_value Hf t ops (nn_init (list N) s0)). }
  assert (Hun : forall ops' (m : smst (list N)),
            sm_unspec _ (nk_sm_final nn_scmp (map (nk_mop (list N) (list N) nk_utf8_value) ops') (nk_msm _ _ nk_utf8_value m)) =
            sm_unspec _ (nk_sm_final nk_compare_names ops' m)).
  { induction ops' as [|op ops' IH]; intros m; [reflexivity|]. cbn [nk_sm_final map].
    rewrite (nk_sm_step_nat _ _ nk_compare_names nn_scmp nk_utf8_value Hf). unfold nk_msstep. cbn [snd]. apply IH. }
  assert (Hinit : nk_init_sm (view s0) = nk_msm _ _ nk_utf8_value (nk_init_sm s0)).
  { unfold nk_init_sm, nk_msm. cbn [sm_map sm_cur sm_unspec option_map]. unfold view. rewrite nk_abs_nat. reflexivity. }
  assert (Hwf' : wf_code (list N) nn_scmp t (view s0) = 0) by (rewrite <- Hwfn; exact Hwf).
  assert (Hfin' : sm_unspec (list N) (nk_sm_final nn_scmp vops (nk_init_sm (view s0))) = false).
  { rewrite Hinit. unfold vops. rewrite Hun. exact Hfin. }
  destruct (nk_name_trees_refine_map_lemma t (view s0) vops Ht Hwf' Hfin') as [Hag Hwfin].
  split; [exact Hwfn|]. split; [exact Hfinal|]. split; [exact Hag|].
  rewrite Hwfn. rewrite <- Hfinal in Hwfin. exact Hwfin.
Qed.

(* M0.  Naturality (C18ProofsP), as one statement: a renaming of keys that preserves the three-way comparison commutes
   with every call of the model (result, tree, iterator, warnings), with every call of the specification, and with the
   validity checker.  With f = getUTF8Value this says that NNTree.cc cannot tell a stored string from its text. *)
Lemma nk_model_natural_lemma : forall (K1 K2 : Type) (c1 : K1 -> K1 -> comparison) (c2 : K2 -> K2 -> comparison) (f : K1 -> K2),
  (forall a b, c1 a b = c2 (f a) (f b)) ->
  (forall t op s, nn_step K2 c2 t (nk_mop K1 K2 f op) (nk_mst K1 K2 f s) =
                  (nk_mres K1 K2 f (fst (nn_step K1 c1 t op s)), nk_mst K1 K2 f (snd (nn_step K1 c1 t op s)))) /\
  (forall op m, sm_step K2 c2 (nk_mop K1 K2 f op) (nk_msm K1 K2 f m) =
                (nk_mres K1 K2 f (fst (sm_step K1 c1 op m)), nk_msm K1 K2 f (snd (sm_step K1 c1 op m)))) /\
  (forall t n, wf_code K2 c2 t (nk_mnode K1 K2 f n) = wf_code K1 c1 t n) /\
  (forall n, nn_abs K2 (nk_mnode K1 K2 f n) = map (nk_mkv K1 K2 f) (nn_abs K1 n)).
Proof.
  intros K1 K2 c1 c2 f Hf. split; [|split; [|split]].
  - intros t op s. apply (nk_step_nat K1 K2 c1 c2 f Hf).
  - intros op m. apply (nk_sm_step_nat K1 K2 c1 c2 f Hf).
  - intros t n. apply (nk_wf_code_nat K1 K2 c1 c2 f Hf).
  - intros n. apply nk_abs_nat.
Qed.

(* ------------------------------------------------------------------ the two correspondences of name trees are one *)
Lemma nk_view_node_is_rename : forall n, nk_view_node n = nk_mnode (list N) (list N) nk_utf8_value n.
Proof.
  induction n as [l items|l kids IH] using (nnode_ind' (list N)); cbn [nk_view_node nk_mnode].
  - reflexivity.
  - f_equal; try reflexivity; apply map_ext_Forall; exact IH.
Qed.

(* M4.  What the harness runs on stored strings (nk_run_raw, shown through nk_view_node / getUTF8Value) is, call by
   call - result, warnings, whole tree -, the run of the same history on texts (the older name-tree correspondence). *)
Lemma nk_run_raw_view_lemma : forall (t : Z) (root : nnode (list N)) (ops : list (nnop (list N))),
  map (fun x : nnres (list N) * Z * nnode (list N) =>
         (nk_mres (list N) (list N) nk_utf8_value (fst (fst x)), snd (fst x), nk_view_node (snd x)))
      (nk_run_raw t root ops) =
  nn_run (list N) nn_scmp t (nk_view_node root) (map (nk_mop (list N) (list N) nk_utf8_value) ops).
Proof.
  intros t root ops. unfold nk_run_raw. rewrite nk_view_node_is_rename.
  rewrite (nk_run_nat (list N) (list N) nk_compare_names nn_scmp nk_utf8_value (fun a b => eq_refl)).
  apply map_ext. intros [[r w] n]. unfold nk_mout. cbn [fst snd]. rewrite nk_view_node_is_rename. reflexivity.
Qed.

(* M5 (refutation of the literal statement on stored strings, and what happens instead).  Inserting a key whose text is
   already present in ANOTHER spelling replaces the value and keeps the stored spelling: the result names the old string
   object, where a sorted map over stored strings would hold and return the new one.  Read through getUTF8Value the two
   agree (nk_names_refine_map_quotient). *)
Lemma nk_names_literal_refuted_lemma :
  let root := NLeaf None [([239; 187; 191; 97]%N, 1)] in
  let op := OpInsert [97]%N 2 in
  wf_code (list N) nk_compare_names 3 root = 0 /\
  nn_step (list N) nk_compare_names 3 op (nn_init (list N) root) =
    (RIter (Some ([239; 187; 191; 97]%N, 2)), NNSt (list N) (NLeaf None [([239; 187; 191; 97]%N, 2)]) [] 0 0) /\
  fst (sm_step (list N) nk_compare_names op (nk_init_sm root)) = RIter (Some ([97]%N, 2)) /\
  fst (nn_step (list N) nk_compare_names 3 op (nn_init (list N) root)) <>
  fst (sm_step (list N) nk_compare_names op (nk_init_sm root)).
Proof.
  cbv zeta. split; [vm_compute; reflexivity|]. split; [vm_compute; reflexivity|]. split; [vm_compute; reflexivity|].
  vm_compute. discriminate.
Qed.
