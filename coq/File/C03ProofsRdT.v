(* C03 - reader model: the cross-reference table built from the writer's classic table (objects 1..n in order, all
   generation 0), its map order, the final "highest generation" pass, lookups.  Part of step (6) of
   rd_reads_writer_output (see the end of File/C03ProofsRdW.v). *)
From QV Require Import Base.Bytes Lex.TokModel Obj.ParseModel File.XrefModel File.RdModel File.C03ProofsRd
     Obj.Queue File.WriterArith Obj.WriterModel Obj.C01FileProofs File.C03ProofsRdW File.C03ProofsRdX.
From Coq Require Import Lia.
Local Open Scope N_scope.

(* the table: object i, i+1, ... at the recorded offsets *)
Fixpoint rdt_tbl (i : N) (offs : list (N * N)) : rd_tbl :=
  match offs with
  | [] => []
  | ko :: r => (i, 0, C3Use (snd ko) 0) :: rdt_tbl (i + 1) r
  end.

(* insertXrefEntry for each line, starting from a table that holds objects below i only and no deleted object *)
Lemma rdt_has_below : forall st i g,
  (forall e, In e (c3_tbl st) -> fst (fst e) < i) -> c3_has st i g = false.
Proof.
  intros st i g H. unfold c3_has. revert H. generalize (c3_tbl st) as l. intros l H.
  induction l as [|h t IH]; [reflexivity|].
  cbn [existsb]. assert (Hh : fst (fst h) < i) by (apply H; left; reflexivity).
  assert (Hne : (fst (fst h) =? i) = false) by (apply N.eqb_neq; lia).
  rewrite Hne. cbn [andb orb]. apply IH. intros e He. apply H. right. exact He.
Qed.

Lemma rdt_insert_lemma : forall offs max_id st i,
  c3_deleted st = [] -> (forall e, In e (c3_tbl st) -> fst (fst e) < i) -> 0 < i ->
  i + N.of_nat (length offs) <= max_id + 1 ->
  c3_tbl (rdx_insert max_id st i offs) = c3_tbl st ++ rdt_tbl i offs /\ c3_deleted (rdx_insert max_id st i offs) = [].
Proof.
  induction offs as [|ko r IH]; intros max_id st i Hdel Hlt Hi Hlen.
  - cbn [rdx_insert rdt_tbl]. rewrite app_nil_r. split; [reflexivity | exact Hdel].
  - cbn [rdx_insert rdt_tbl]. cbn [length] in Hlen. rewrite Nat2N.inj_succ in Hlen.
    assert (Hstep : c3_entry max_id st (i, C3Use (snd ko) 0)
                    = {| c3_tbl := c3_tbl st ++ [(i, 0, C3Use (snd ko) 0)]; c3_deleted := c3_deleted st |}).
    { unfold c3_entry. cbn [snd fst]. unfold c3_insert_use.
      assert (H1 : (0 <? i) = true) by (apply N.ltb_lt; lia).
      assert (H2 : (i <=? max_id) = true) by (apply N.leb_le; lia).
      rewrite H1, H2. change (0 <? 65535) with true. cbn [andb negb].
      unfold c3_is_deleted. rewrite Hdel. cbn [existsb].
      rewrite (rdt_has_below st i 0 Hlt). reflexivity. }
    rewrite Hstep.
    destruct (IH max_id {| c3_tbl := c3_tbl st ++ [(i, 0, C3Use (snd ko) 0)]; c3_deleted := c3_deleted st |} (i + 1))
      as [Ht Hd].
    + cbn [c3_deleted]. exact Hdel.
    + cbn [c3_tbl]. intros e He. apply in_app_or in He. destruct He as [He | He].
      * specialize (Hlt e He). lia.
      * cbn [In] in He. destruct He as [He | []]. subst e. cbn [fst]. lia.
    + lia.
    + lia.
    + rewrite Ht, Hd. cbn [c3_tbl c3_deleted]. rewrite <- app_assoc. cbn [app]. split; reflexivity.
Qed.

Lemma rdt_insert_fresh_lemma : forall offs max_id,
  N.of_nat (length offs) <= max_id ->
  c3_tbl (rdx_insert max_id (Build_c3_state [] []) 1 offs) = rdt_tbl 1 offs /\
  c3_deleted (rdx_insert max_id (Build_c3_state [] []) 1 offs) = [].
Proof.
  intros offs max_id Hlen.
  destruct (rdt_insert_lemma offs max_id (Build_c3_state [] []) 1) as [Ht Hd].
  - reflexivity.
  - cbn [c3_tbl]. intros e [].
  - lia.
  - lia.
  - rewrite Ht, Hd. cbn [c3_tbl app]. split; reflexivity.
Qed.

(* the free entry of object 0, recorded after the table: the table is unchanged, 0 is the only deleted object *)
Lemma rdt_tbl_has_below : forall offs i obj g, obj < i ->
  existsb (fun e : N * N * c3_xe => (fst (fst e) =? obj) && (snd (fst e) =? g)) (rdt_tbl i offs) = false.
Proof.
  induction offs as [|ko r IH]; intros i obj g Hlt; [reflexivity|].
  cbn [rdt_tbl existsb fst snd].
  assert (Hne : (i =? obj) = false) by (apply N.eqb_neq; lia).
  rewrite Hne. cbn [andb orb]. apply IH. lia.
Qed.

Lemma rdt_free0_lemma : forall offs max_id st,
  c3_tbl st = rdt_tbl 1 offs -> c3_deleted st = [] ->
  c3_tbl (fold_left (c3_entry max_id) [(0, C3Free 65535)] st) = rdt_tbl 1 offs /\
  c3_deleted (fold_left (c3_entry max_id) [(0, C3Free 65535)] st) = [0].
Proof.
  intros offs max_id st Ht Hd. cbn [fold_left]. unfold c3_entry. cbn [snd fst]. unfold c3_insert_free.
  assert (Hhas : c3_has st 0 65535 = false).
  { unfold c3_has. rewrite Ht. apply rdt_tbl_has_below. lia. }
  rewrite Hhas. assert (Hle : (0 <=? max_id) = true) by (apply N.leb_le; lia).
  rewrite Hle. cbn [negb andb c3_tbl c3_deleted]. rewrite Hd. split; [exact Ht | reflexivity].
Qed.

(* the table is already in map order, and the final pass of read_xref removes nothing *)
Lemma rdt_sort_id_lemma : forall offs i, fold_right rd_insert_sorted [] (rdt_tbl i offs) = rdt_tbl i offs.
Proof.
  induction offs as [|ko r IH]; intros i; [reflexivity|].
  cbn [rdt_tbl fold_right]. rewrite IH.
  destruct r as [|ko' r']; [reflexivity|].
  cbn [rdt_tbl rd_insert_sorted].
  assert (Hlt : (i <? i + 1) = true) by (apply N.ltb_lt; lia).
  rewrite Hlt. reflexivity.
Qed.

Lemma rdt_gen_pass_id_lemma : forall offs i, rd_gen_pass (rdt_tbl i offs) = rdt_tbl i offs.
Proof.
  induction offs as [|ko r IH]; intros i; [reflexivity|].
  destruct r as [|ko' r'].
  - reflexivity.
  - specialize (IH (i + 1)). cbn [rdt_tbl] in IH |- *. cbn [rd_gen_pass fst]. 
    assert (Hne : (i =? i + 1) = false) by (apply N.eqb_neq; lia).
    rewrite Hne. cbn [andb]. f_equal. exact IH.
Qed.

(* lookups *)
Lemma rdt_lookup_lemma : forall offs i k ko,
  nth_error offs k = Some ko -> rd_lookup (rdt_tbl i offs) (i + N.of_nat k) 0 = Some (C3Use (snd ko) 0).
Proof.
  induction offs as [|ko0 r IH]; intros i k ko Hnth.
  - destruct k; discriminate Hnth.
  - cbn [rdt_tbl rd_lookup]. destruct k as [|k].
    + cbn [nth_error] in Hnth. inversion Hnth; subst ko0. cbn [N.of_nat]. rewrite N.add_0_r, N.eqb_refl.
      cbn [andb N.eqb]. reflexivity.
    + cbn [nth_error] in Hnth.
      assert (Hne : (i =? i + N.of_nat (S k)) = false) by (apply N.eqb_neq; lia).
      rewrite Hne. cbn [andb].
      replace (i + N.of_nat (S k)) with (i + 1 + N.of_nat k) by lia. apply IH. exact Hnth.
Qed.

Lemma rdt_lookup_none_lemma : forall offs i obj gen,
  (obj < i \/ i + N.of_nat (length offs) <= obj \/ gen <> 0) -> rd_lookup (rdt_tbl i offs) obj gen = None.
Proof.
  induction offs as [|ko0 r IH]; intros i obj gen H; [reflexivity|].
  cbn [rdt_tbl rd_lookup]. cbn [length] in H. rewrite Nat2N.inj_succ in H.
  assert (Hne : (i =? obj) && (0 =? gen) = false).
  { destruct (i =? obj) eqn:E1; [|reflexivity]. destruct (0 =? gen) eqn:E2; [|reflexivity].
    apply N.eqb_eq in E1. apply N.eqb_eq in E2. lia. }
  rewrite Hne. apply IH. lia.
Qed.

Lemma rdt_max_obj_lemma : forall offs i m, rd_max_obj (rdt_tbl i offs) m = (if (length offs =? 0)%nat then m else N.max m (i + N.of_nat (length offs) - 1)).
Proof.
  induction offs as [|ko0 r IH]; intros i m; [reflexivity|].
  cbn [rdt_tbl rd_max_obj]. rewrite IH. cbn [length Nat.eqb].
  destruct r as [|ko1 r']; cbn [length Nat.eqb].
  - cbn [N.of_nat]. lia.
  - rewrite !Nat2N.inj_succ. lia.
Qed.

(* no compressed entry: the object-stream cache of the view is empty *)
Lemma rdt_stm_fold_id : forall (A : Type) (f : list A -> N -> N -> list A) offs i (acc : list A),
  fold_left (fun (acc : list A) (ent : N * N * c3_xe) =>
               match ent with
               | (_, _, C3Comp stm idx) => f acc stm idx
               | _ => acc
               end) (rdt_tbl i offs) acc = acc.
Proof.
  intros A f. induction offs as [|ko r IH]; intros i acc; [reflexivity|].
  cbn [rdt_tbl fold_left]. apply IH.
Qed.

Lemma rdt_no_stm_cache_lemma : forall fuel e offs i, rde_tbl e = rdt_tbl i offs -> rd_stm_cache fuel e = [].
Proof.
  intros fuel e offs i He. unfold rd_stm_cache. rewrite He. apply rdt_stm_fold_id.
Qed.
