(* C18 proofs, part 8: the UNBOUNDED refinement.  For every split threshold t >= 3, every valid starting
   tree (wf_code = 0: any size, any depth, balanced or not) and every history of helper calls of any
   length over all integer keys, the model of NNTree.cc agrees with the sorted-map specification at every
   call: same result (including where the iterator stands), same content, stored tree valid (keys
   ascending, every /Limits exact, no empty non-root node, node sizes within the split bound), no warning.

   Method: representation invariant tree_inv (C18InvA) + simulation relation c18_rel (C18InvD: content
   equal, cursor of the specification = entry the iterator path leads to), preserved by every call:
   find/findLE (C18InvC), iterator moves (C18InvD), insert / insertAfter with split at every level and the
   root push-down (C18InvE, C18InvF), remove with pruning and iterator repositioning (C18InvG). *)
From Coq Require Import Sorting.Sorted.
From QV Require Import Base.Bytes Struct.NNTreeModel Struct.NNTreeSpec Struct.C18Proofs Struct.C18ProofsB Struct.C18ProofsC
  Struct.C18InvA Struct.C18InvB Struct.C18InvC Struct.C18InvD Struct.C18InvE Struct.C18InvF Struct.C18InvG.
Local Open Scope Z_scope.

(* find / findLE as steps of a history *)
Lemma nn_find_step_refines_lemma : forall (t : Z) (s : nnst Z) (m : smst Z) (k : Z),
  c18_rel t s m -> c18_step_ok t (OpFind k) s m /\ c18_step_ok t (OpFindLE k) s m.
Proof.
  intros t s m k (Hinv & Hmap & Hun & Hcur).
  pose proof (ti_sorted _ _ Hinv) as Hsorted.
  assert (Hgen : forall prev (s' : zst) (r : option (Z * Z)),
    st_root Z s' = st_root Z s -> st_warn Z s' = st_warn Z s -> find_post (st_root Z s) k prev s' ->
    r = (if prev then sm_floor Z nn_zcmp k (sm_map Z m) else sm_at Z nn_zcmp k (sm_map Z m)) ->
    fst (RIter (nn_cur Z s'), s') = fst (RIter r, SmSt Z (sm_map Z m) (option_map fst r) (sm_unspec Z m)) /\
    c18_rel t (snd (RIter (nn_cur Z s'), s')) (snd (RIter r, SmSt Z (sm_map Z m) (option_map fst r) (sm_unspec Z m))) /\
    st_warn Z (snd (RIter (nn_cur Z s'), s')) = st_warn Z s).
  { intros prev s' r Hr Hw Hpost ->. cbn [fst snd]. rewrite Hmap.
    assert (Hrest : forall r', nn_cur Z s' = r' ->
              (r' = None /\ st_item Z s' < 0 \/ exists A e B, r' = Some e /\ at_pos (st_root Z s') (st_path Z s') (st_item Z s') A e B) ->
              RIter (nn_cur Z s') = RIter r' /\
              c18_rel t s' (SmSt Z (zabs (st_root Z s)) (option_map fst r') (sm_unspec Z m)) /\ st_warn Z s' = st_warn Z s).
    { intros r' Hc Hcase. split; [rewrite Hc; reflexivity|]. split; [|exact Hw].
      split; [rewrite Hr; exact Hinv|]. split; [cbn; rewrite Hr; reflexivity|]. split; [exact Hun|].
      destruct Hcase as [[-> Hi]|(A & e & B & -> & Hp)]; [left; split; [exact Hi|reflexivity]|].
      right. exists A, e, B. split; [exact Hp|reflexivity]. }
    destruct Hpost as [[Hall Hi]|(A & e & B & HAeB & He & HB & Hc)].
    - destruct (sm_before_all _ _ Hall) as (H1 & H2 & _).
      replace (if prev then sm_floor Z nn_zcmp k (zabs (st_root Z s)) else sm_at Z nn_zcmp k (zabs (st_root Z s)))
        with (@None (Z * Z)) by (destruct prev; congruence).
      apply Hrest; [apply cur_none; exact Hi|left; split; [reflexivity|exact Hi]].
    - rewrite HAeB in *. destruct Hc as [[Hc Hp]|(Hneq & -> & Hi)].
      + replace (if prev then sm_floor Z nn_zcmp k (A ++ e :: B) else sm_at Z nn_zcmp k (A ++ e :: B)) with (Some e).
        2:{ destruct prev; [symmetry; apply sm_floor_mid; assumption|].
            destruct Hc as [Heq|?]; [|discriminate]. rewrite <- Heq. symmetry. apply sm_at_mid. exact Hsorted. }
        rewrite <- Hr in Hp. apply Hrest; [apply (at_pos_cur s' A e B Hp)|right; exists A, e, B; split; [reflexivity|exact Hp]].
      + rewrite (sm_at_mid_other A e B Hsorted k ltac:(lia) HB).
        apply Hrest; [apply cur_none; exact Hi|left; split; [reflexivity|exact Hi]]. }
  unfold c18_step_ok. split.
  - change (nn_step Z nn_zcmp t (OpFind k) s) with
      (match nn_find Z nn_zcmp k false s with Some s' => (RIter (nn_cur Z s'), s') | None => (RErr, s) end).
    change (sm_step Z nn_zcmp (OpFind k) m) with
      (RIter (sm_at Z nn_zcmp k (sm_map Z m)), SmSt Z (sm_map Z m) (option_map fst (sm_at Z nn_zcmp k (sm_map Z m))) (sm_unspec Z m)).
    destruct (find_ok t k false s Hinv) as (s' & Hf & Hr & Hw & Hpost). rewrite Hf.
    apply (Hgen false s' _ Hr Hw Hpost eq_refl).
  - change (nn_step Z nn_zcmp t (OpFindLE k) s) with
      (match nn_find Z nn_zcmp k true s with Some s' => (RIter (nn_cur Z s'), s') | None => (RErr, s) end).
    change (sm_step Z nn_zcmp (OpFindLE k) m) with
      (RIter (sm_floor Z nn_zcmp k (sm_map Z m)), SmSt Z (sm_map Z m) (option_map fst (sm_floor Z nn_zcmp k (sm_map Z m))) (sm_unspec Z m)).
    destruct (find_ok t k true s Hinv) as (s' & Hf & Hr & Hw & Hpost). rewrite Hf.
    apply (Hgen true s' _ Hr Hw Hpost eq_refl).
Qed.

(* every call of the helper API, wherever the specification defines it *)
Lemma nn_step_refines_lemma : forall (t : Z) (s : nnst Z) (m : smst Z) (op : nnop Z),
  3 <= t -> c18_rel t s m -> sm_unspec Z (snd (sm_step Z nn_zcmp op m)) = false -> c18_step_ok t op s m.
Proof.
  intros t s m op Ht Hrel Hspec. destruct op as [k v|k|k|k| | | | | |k v|].
  - apply nn_insert_refines_lemma; assumption.
  - apply nn_remove_refines_lemma; [lia|exact Hrel|right; exists k; reflexivity].
  - apply (nn_find_step_refines_lemma t s m k Hrel).
  - apply (nn_find_step_refines_lemma t s m k Hrel).
  - apply nn_iter_refines_lemma; [exact Hrel|simpl; tauto].
  - apply nn_iter_refines_lemma; [exact Hrel|simpl; tauto].
  - apply nn_iter_refines_lemma; [exact Hrel|simpl; tauto].
  - apply nn_iter_refines_lemma; [exact Hrel|simpl; tauto].
  - apply nn_iter_refines_lemma; [exact Hrel|simpl; tauto].
  - apply nn_insert_after_refines_lemma; assumption.
  - apply nn_remove_refines_lemma; [lia|exact Hrel|left; reflexivity].
Qed.

Lemma res_eqb_refl : forall r : nnres Z, res_eqb r r = true.
Proof.
  intros [[[k v]|]|[v|]|]; simpl; rewrite ?Z.eqb_refl; reflexivity.
Qed.
Lemma kv_list_eqb_refl : forall l : list (Z * Z), list_eqb kv_eqb l l = true.
Proof.
  induction l as [|[k v] l IH]; [reflexivity|]. cbn [list_eqb]. rewrite IH. unfold kv_eqb. cbn [fst snd].
  rewrite !Z.eqb_refl. reflexivity.
Qed.

Lemma c18_init_rel : forall t s0, wf_code Z nn_zcmp t s0 = 0 -> c18_rel t (nn_init Z s0) (init_sm s0).
Proof.
  intros t s0 H. split; [apply wf_code_iff; exact H|]. split; [reflexivity|]. split; [reflexivity|].
  left. split; [cbn; lia|reflexivity].
Qed.

Lemma c18_agree_from_rel : forall t, 3 <= t -> forall ops (s : nnst Z) (m : smst Z),
  c18_rel t s m -> sm_unspec Z (sm_final ops m) = false -> agree t ops s m = true.
Proof.
  intros t Ht. induction ops as [|op ops IH]; intros s m Hrel Hfin; [reflexivity|].
  cbn [agree sm_final] in *.
  assert (Hspec : sm_unspec Z (snd (sm_step Z nn_zcmp op m)) = false).
  { destruct (sm_unspec Z (snd (sm_step Z nn_zcmp op m))) eqn:E; [|reflexivity].
    rewrite (unspec_final ops _ E) in Hfin. discriminate. }
  destruct (nn_step_refines_lemma t s m op Ht Hrel Hspec) as (Hres & Hrel' & Hw).
  destruct (nn_step Z nn_zcmp t op s) as [r1 s'].
  destruct (sm_step Z nn_zcmp op m) as [r2 m']. cbn [fst snd] in *.
  rewrite Hspec. apply andb_true_iff. split; [|apply IH; assumption].
  unfold step_ok. destruct Hrel' as (Hinv' & Hmap' & _ & _).
  subst r2. rewrite res_eqb_refl, Hmap', kv_list_eqb_refl.
  apply wf_code_iff in Hinv'. rewrite Hinv', Hw, !Z.eqb_refl. reflexivity.
Qed.

(* M5.  The refinement, unbounded: any threshold >= 3 (the least for which split() leaves both halves
   non-empty and within the bound), any valid starting tree, any history that uses insertAfter only where
   the key belongs.  `agree` compares, call by call: the result (iterator position / removed value), the
   content against the sorted map, the validity verdict wf_code of the stored tree, and the warning count. *)
Lemma nn_refines_map_lemma : forall (t : Z) (s0 : nnode Z) (ops : list (nnop Z)),
  3 <= t -> wf_code Z nn_zcmp t s0 = 0 ->
  sm_unspec Z (sm_final ops (init_sm s0)) = false ->
  agree t ops (nn_init Z s0) (init_sm s0) = true.
Proof.
  intros t s0 ops Ht Hwf Hfin. apply c18_agree_from_rel; [exact Ht|apply c18_init_rel; exact Hwf|exact Hfin].
Qed.

(* validity of the stored tree (no /Limits on the root, keys ascending, /Limits exact, no empty non-root
   node, node sizes within the split bound) is preserved by every such history of any length *)
Lemma nn_wf_preserved_lemma : forall (t : Z) (s0 : nnode Z) (ops : list (nnop Z)),
  3 <= t -> wf_code Z nn_zcmp t s0 = 0 ->
  sm_unspec Z (sm_final ops (init_sm s0)) = false ->
  wf_code Z nn_zcmp t (st_root Z (nn_final Z nn_zcmp t ops (nn_init Z s0))) = 0.
Proof.
  intros t s0 ops Ht Hwf Hfin.
  apply (agree_wf_final t ops (nn_init Z s0) (init_sm s0)); [|exact Hfin|exact Hwf].
  apply nn_refines_map_lemma; assumption.
Qed.
