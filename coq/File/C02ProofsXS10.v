(* C02 extension, part 10 (step 5): assembly of xs_write_read_strict - the strict reader accepts the whole output of the
   object-stream / xref-stream writer model and returns the written document. *)
From QV Require Import Base.Bytes File.StrictSyntax File.ReadStrict File.WriterArith File.C02Proofs.
From QV Require Import Obj.Queue Obj.C01WriterProofs Obj.WriterModel Obj.WmPrinters Obj.WriterModelXS Obj.C01RoundtripProofs Obj.C01FileProofs.
From QV Require Import File.C02ProofsXS File.C02ProofsXS2 File.C02ProofsXS3 File.C02ProofsXS4 File.C02ProofsXS5 File.C02ProofsXS6
  File.C02ProofsXS7 File.C02ProofsXS8 File.C02ProofsXS9.
From Coq Require Import Lia.
Local Open Scope N_scope.

(* ---------- generic: a fold of a checker over a list all of whose elements pass ---------- *)
Lemma xa_fold_rel : forall (A B E : Type) (F : list B + E -> A -> list B + E) (R : A -> list B -> Prop) l acc,
  (forall ke, In ke l -> exists r, R ke r /\ (length r <= 1)%nat /\ forall objs, F (inl objs) ke = inl (r ++ objs)) ->
  exists rs, Forall2 R l rs /\ fold_left F l (inl acc) = inl (rev (concat rs) ++ acc).
Proof.
  intros A B E F R. induction l as [|ke t IH]; intros acc H.
  - exists []. split; [constructor | reflexivity].
  - destruct (H ke (or_introl eq_refl)) as [r [Hr [Hl Hf]]].
    destruct (IH (r ++ acc)) as [rs [H1 H2]]; [intros x Hx; apply H; right; exact Hx|].
    exists (r :: rs). split; [constructor; assumption|]. cbn [fold_left concat]. rewrite Hf, H2, rev_app_distr, <- app_assoc.
    f_equal. f_equal. destruct r as [|a [|b r']]; [reflexivity | reflexivity | cbn in Hl; lia].
Qed.

Lemma xa_find_unique : forall (l : list sobj) o, NoDup (map so_num l) -> In o l ->
  find (fun o' => so_num o' =? so_num o) l = Some o.
Proof.
  induction l as [|a l IH]; intros o Hnd Hin; [contradiction|]. cbn [map] in Hnd. inversion Hnd as [|? ? H1 H2]; subst.
  cbn [find]. destruct Hin as [-> | Hin]; [rewrite N.eqb_refl; reflexivity|].
  destruct (so_num a =? so_num o) eqn:E; [| apply IH; assumption].
  apply N.eqb_eq in E. exfalso. apply H1. rewrite E. apply in_map. exact Hin.
Qed.

(* ---------- the merged table, by object number ---------- *)
Lemma xa_numbered_app : forall l1 l2 a, xs_numbered a (l1 ++ l2) = xs_numbered a l1 ++ xs_numbered (a + N.of_nat (length l1)) l2.
Proof.
  induction l1 as [|e l1 IH]; intros l2 a; [cbn; rewrite N.add_0_r; reflexivity|].
  cbn [app xs_numbered length]. rewrite IH. f_equal. f_equal. f_equal. lia.
Qed.

Lemma xa_numbered_seq : forall (f : N -> xs_xent) n s,
  xs_numbered (N.of_nat s) (map (fun j => f (N.of_nat j)) (seq s n))
  = map (fun x => (x, xs_to_xentry (f x))) (xn_range (N.of_nat s) n).
Proof.
  intros f. induction n as [|n IH]; intros s; [reflexivity|]. cbn [seq map xs_numbered xn_range]. f_equal.
  replace (N.of_nat s + 1) with (N.of_nat (S s)) by lia. apply IH.
Qed.

Definition xa_g (d : doc) (n : N) : N * xentry := (n, xs_to_xentry (xs_lookup_ent (xs_l_table (xs_L d)) n)).

Lemma xa_XR_form : forall d,
  xs_numbered 0 (xs_l_entries (xs_L d))
  = (0, XFree 0 0) :: map (xa_g d) (xn_range 1 (N.to_nat (xs_l_xref_id (xs_L d)) - 1))
    ++ [(xs_l_xref_id (xs_L d), XInUse (xs_l_xref_off (xs_L d)) 0)].
Proof.
  intros d. unfold xa_g. rewrite xs_L_eq. cbn [xs_l_entries xs_l_xref_id xs_l_xref_off xs_l_table].
  cbn [xs_numbered xs_to_xentry]. f_equal. rewrite xa_numbered_app. f_equal.
  - change (0 + 1) with (N.of_nat 1). apply (xa_numbered_seq (fun x => xs_lookup_ent (snd (fst (xs_E d))) x)).
  - rewrite map_length, seq_length. cbn [xs_numbered xs_to_xentry]. destruct (xs_Q_inv d) as [Hpos _]. f_equal. f_equal. lia.
Qed.

Lemma xa_index_entries_mem : forall ren stm ms i0 j m, nth_error ms j = Some m ->
  In (ren m, XsIn stm (i0 + N.of_nat j)) (xs_index_entries ren stm ms i0).
Proof.
  induction ms as [|a ms IH]; intros i0 j m H; destruct j; cbn [nth_error] in H; try discriminate.
  - injection H as ->. cbn [xs_index_entries]. left. rewrite N.add_0_r. reflexivity.
  - cbn [xs_index_entries]. right. replace (i0 + N.of_nat (S j)) with (i0 + 1 + N.of_nat j) by lia. apply IH. exact H.
Qed.

Lemma xa_map_flat_map : forall (A B C : Type) (g : B -> C) (f : A -> list B) l, map g (flat_map f l) = flat_map (fun x => map g (f x)) l.
Proof. intros A B C g f. induction l as [|a t IH]; [reflexivity|]. cbn [flat_map]. rewrite map_app, IH. reflexivity. Qed.
Lemma xa_flat_map_map : forall (A B C : Type) (h : A -> B) (f : B -> list C) l, flat_map f (map h l) = flat_map (fun x => f (h x)) l.
Proof. intros A B C h f. induction l as [|a t IH]; [reflexivity|]. cbn [map flat_map]. rewrite IH. reflexivity. Qed.
Lemma xa_flat_flat : forall (A B C : Type) (g : B -> list C) (f : A -> list B) l, flat_map g (flat_map f l) = flat_map (fun x => flat_map g (f x)) l.
Proof. intros A B C g f. induction l as [|a t IH]; [reflexivity|]. cbn [flat_map]. rewrite flat_map_app, IH. reflexivity. Qed.

(* the compressed-entry checks of XS8, with the member and its value made explicit *)
Lemma xa_comp_read : forall d, wf_doc d -> xs_eligible d <> [] ->
  forall n stm idx, In (n, XsIn stm idx) (xs_l_table (xs_L d)) ->
  let out := xs_out d in
  exists q o dct doff len nn first data pairs ooff v rest k m,
    In (XsStm k) (xs_items d) /\ stm = xs_srenf d k /\ nth_error (xs_members (xs_P d) k) (N.to_nat idx) = Some m /\ n = xs_renf d m
    /\ v = to_pobj (d_objects d) (xs_renf d) (i_val (xs_lookup (d_objects d) m))
    /\ In (stm, XsOff q) (xs_l_table (xs_L d))
    /\ (forall len_of, parse_indirect (length out) (N.of_nat (length out)) out q len_of = inl (Some o))
    /\ so_num o = stm /\ so_val o = SpDict dct /\ so_stream o = Some (doff, len)
    /\ dict_get dct n_Type = Some (SpName n_ObjStm) /\ get_int dct n_N = Some nn /\ get_int dct n_First = Some first
    /\ decode_struct_stream dct (firstn (N.to_nat len) (at_off out doff)) = Some data
    /\ objstm_pairs (N.to_nat nn) data [] = Some pairs
    /\ nth_error pairs (N.to_nat idx) = Some (n, ooff)
    /\ parse_obj (length out + length data)
         (firstn (match nth_error pairs (S (N.to_nat idx)) with
                  | Some (_, noff) => if ooff <? noff then N.to_nat (noff - ooff) else length data
                  | None => length data
                  end) (skipn (N.to_nat (first + ooff)) data)) = Some (v, rest).
Proof.
  intros d W Hel n stm idx Hin out.
  destruct (xe_tab_in d n stm idx Hin) as [k [q [m [Hl [Hstm [Hm Hn]]]]]].
  destruct (xe_item_read d W Hel (XsStm k) q Hl) as [o [Hp [Hnum [_ [_ [_ [Hval [doff [rest0 [Hstr Hat]]]]]]]]]].
  set (objs := d_objects d) in *. set (p := xs_P d) in *. set (ren := xs_renf d) in *.
  set (data := xs_ostm_data WUS WUN objs p ren k) in *.
  set (ms := xs_members p k) in *.
  pose proof (xe_lay_item d (XsStm k) q Hl) as Hit.
  assert (Hlo : (0 < length out)%nat).
  { unfold out. rewrite (xr_out_eq d Hel), !app_length. unfold xs_s_startxref. cbn [length]. lia. }
  (* the member's value *)
  set (vv := i_val (xs_lookup objs m)).
  assert (Hmem : In m ms) by (apply nth_error_In in Hm; exact Hm).
  destruct (xs_no_excluded_member_lemma d k m Hmem) as [Hns _].
  destruct W as [Hc Hobjs Htr Hst Hsb Hver Hids Hroot Hsize Hkeys Hnoprev Hnoxs].
  assert (Hwfv : wf_wobj vv).
  { unfold vv, xs_lookup. destruct (find_obj objs m) as [i0|] eqn:Hf; [| exact I].
    destruct (find_obj_in _ _ _ Hf) as [k0 Hk0]. unfold wf_doc_objs in Hobjs. rewrite Forall_forall in Hobjs. apply (Hobjs (k0, i0) Hk0). }
  assert (Hrefs : forall x, In x (refs_of objs vv) -> 0 < ren x).
  { intros x Hx.
    assert (Hch : In x (children (graph_of d) m)).
    { apply xe_children_printed. unfold xo_printed. rewrite Hns. exact Hx. }
    pose proof (xs_refs_numbered_lemma d (XsStm k) x) as Hr. rewrite xs_L_eq in Hr. cbn [xs_l_items xs_l_plan xs_l_ren xs_l_xref_id] in Hr.
    apply Hr; [exact Hit|]. cbn [xs_item_children]. apply in_flat_map. exists m. split; [exact Hmem | exact Hch]. }
  pose proof (xs_objstm_member_parses_lemma d k (N.to_nat idx) m (length out + length data)) as Hmp. cbv zeta in Hmp.
  rewrite xs_L_eq in Hmp. cbn [xs_l_plan xs_l_ren] in Hmp. fold objs p ren data ms vv in Hmp.
  destruct (Hmp Hm Hwfv Hrefs ltac:(lia)) as [pairs [ooff [Hpairs [Hplen [Hnth Hparse]]]]].
  (* consecutive numbers *)
  assert (Hcons : ren (hd 0 ms) + N.of_nat (N.to_nat idx) = n).
  { pose proof (xs_members_consecutive_lemma d k) as Hcs. rewrite xs_L_eq in Hcs. cbn [xs_l_items xs_l_plan xs_l_ren xs_l_sren] in Hcs.
    destruct (Hcs (N.to_nat idx) m Hit Hm) as [E1 _].
    assert (H0 : nth_error ms 0 = Some (hd 0 ms)) by (fold ms in Hm; destruct ms; [destruct (N.to_nat idx); discriminate | reflexivity]).
    destruct (Hcs O (hd 0 ms) Hit H0) as [E0 _]. fold ren in E0, E1. rewrite Hn, E1, E0. lia. }
  rewrite Hcons in Hnth.
  exists q, o, (xe_objstm_dict d k), doff, (N.of_nat (length data)), (N.of_nat (length ms)), (xs_ostm_first WUS WUN objs p ren k),
         data, pairs, ooff, (to_pobj objs ren vv), [10], k, m.
  assert (Htabq : In (stm, XsOff q) (xs_l_table (xs_L d))).
  { rewrite xs_L_eq. cbn [xs_l_table]. rewrite (xe_tab_eq d). apply in_flat_map. exists (XsStm k, q). split; [exact Hl|].
    cbn [fst snd xs_item_entries]. apply in_or_app. right. left. rewrite Hstm. reflexivity. }
  split; [exact Hit|]. split; [exact Hstm|]. split; [exact Hm|]. split; [exact Hn|]. split; [reflexivity|].
  split; [exact Htabq|]. split; [exact Hp|]. split; [rewrite Hnum, Hstm; reflexivity|]. split; [exact Hval|]. split; [exact Hstr|].
  split; [reflexivity|]. split; [apply xf_get_int; reflexivity|]. split; [apply xf_get_int; reflexivity|].
  split.
  { unfold decode_struct_stream. change (dict_get (xe_objstm_dict d k) n_Filter) with (@None pobj).
    fold out in Hat. rewrite Hat, Nat2N.id, xs_firstn_exact. reflexivity. }
  split; [rewrite Nat2N.id; exact Hpairs|]. split; [exact Hnth|]. exact Hparse.
Qed.

Definition k_Encrypt : list N := [69; 110; 99; 114; 121; 112; 116].

Section Cap.
  Variable d : doc.
  Hypothesis W : wf_doc d.
  Hypothesis Hel : xs_eligible d <> [].
  Hypothesis Htt : xr_trailer_trimmed d.
  Hypothesis Henc : ~ In k_Encrypt (map fst (d_trailer d)).
  Hypothesis Hoff : xs_l_xref_off (xs_L d) < 2 ^ 63.
  Hypothesis Hid : xs_l_xref_id (xs_L d) < 2 ^ 63.
  Let L := xs_L d.
  Let out := xs_out d.
  Let total := N.of_nat (length out).
  Let tab := xs_l_table L.
  Let ren := xs_renf d.
  Let sren := xs_srenf d.
  Let p := xs_P d.
  Let XR := xs_numbered 0 (xs_l_entries L).

  Lemma xa_closed : doc_closed d.
  Proof. destruct W. assumption. Qed.

  Lemma xa_tab_nodup : NoDup (map fst tab).
  Proof. apply (xs_numbering_bijection_lemma d xa_closed). Qed.

  Lemma xa_g_off : forall n q, In (n, XsOff q) tab -> xa_g d n = (n, XInUse q 0).
  Proof. intros n q H. unfold xa_g. fold L tab. rewrite (xs_lookup_ent_nodup tab n _ xa_tab_nodup H). reflexivity. Qed.
  Lemma xa_g_in : forall n s j, In (n, XsIn s j) tab -> xa_g d n = (n, XComp s j).
  Proof. intros n s j H. unfold xa_g. fold L tab. rewrite (xs_lookup_ent_nodup tab n _ xa_tab_nodup H). reflexivity. Qed.

  Lemma xa_tab_lay : forall ip, In ip (xe_lay d) -> forall e, In e (xs_item_entries p ren sren (fst ip) (snd ip)) -> In e tab.
  Proof.
    intros ip Hip e He. unfold tab, L. rewrite xs_L_eq. cbn [xs_l_table]. rewrite (xe_tab_eq d).
    apply in_flat_map. exists ip. split; [exact Hip | exact He].
  Qed.

  (* the entries of one item, in number order *)
  Definition xa_ents (ip : xs_item * N) : list (N * xentry) :=
    match fst ip with
    | XsObj x => [(ren x, XInUse (snd ip) 0)]
    | XsStm k => (sren k, XInUse (snd ip) 0) :: map (fun m => xa_g d (ren m)) (xs_members p k)
    end.

  Lemma xa_range_by_items :
    map (xa_g d) (xn_range 1 (N.to_nat (xs_l_xref_id L) - 1)) = flat_map xa_ents (xe_lay d).
  Proof.
    destruct (xs_numbering_bijection_lemma d xa_closed) as [Hnums _]. fold L in Hnums. rewrite <- Hnums.
    rewrite xa_map_flat_map.
    assert (Hitems : xs_l_items L = map fst (xe_lay d)).
    { unfold L. rewrite xs_L_eq. cbn [xs_l_items]. unfold xe_lay. rewrite xe_layout_fst. reflexivity. }
    rewrite Hitems, xa_flat_map_map. apply xn_flat_map_ext_in. intros [it q] Hip. cbn [fst].
    unfold xa_ents. cbn [fst snd]. destruct it as [x | k]; unfold xn_item_nums, L; rewrite xs_L_eq; cbn [xs_l_ren xs_l_sren xs_l_plan map].
    - f_equal. apply xa_g_off. apply (xa_tab_lay (XsObj x, q) Hip). cbn [fst snd xs_item_entries]. left. reflexivity.
    - f_equal; [| rewrite map_map; reflexivity].
      apply xa_g_off. apply (xa_tab_lay (XsStm k, q) Hip). cbn [fst snd xs_item_entries]. apply in_or_app. right. left. reflexivity.
  Qed.

  Lemma xa_XR_items : XR = (0, XFree 0 0) :: flat_map xa_ents (xe_lay d) ++ [(xs_l_xref_id L, XInUse (xs_l_xref_off L) 0)].
  Proof. unfold XR, L. rewrite xa_XR_form. fold L. rewrite xa_range_by_items. reflexivity. Qed.

  (* a member's entry is a compressed entry *)
  Lemma xa_member_entry : forall k q j m, In (XsStm k, q) (xe_lay d) -> nth_error (xs_members p k) j = Some m ->
    xa_g d (ren m) = (ren m, XComp (sren k) (N.of_nat j)).
  Proof.
    intros k q j m Hip Hj. apply xa_g_in. apply (xa_tab_lay (XsStm k, q) Hip). cbn [fst snd xs_item_entries].
    apply in_or_app. left. pose proof (xa_index_entries_mem ren (sren k) (xs_members p k) 0 j m Hj) as H. rewrite N.add_0_l in H. exact H.
  Qed.

  (* ---------- step 1: the in-use entries ---------- *)
  Section Fold.
  Variable len_of : N -> option N.

  Definition xa_G1 (ke : N * xentry) : option sobj :=
    match ke with
    | (k, XInUse off gen) => match parse_indirect (length out) total out off len_of with inl (Some o) => Some o | _ => None end
    | _ => None
    end.
  Definition xa_opt (o : option sobj) : list sobj := match o with Some x => [x] | None => [] end.
  Definition xa_C : list sobj := flat_map (fun ke => xa_opt (xa_G1 ke)) XR.

  Lemma xa_G1_inuse : forall n off g, In (n, XInUse off g) XR ->
    exists o, parse_indirect (length out) total out off len_of = inl (Some o) /\ xa_G1 (n, XInUse off g) = Some o
              /\ so_num o = n /\ so_gen o = g /\ so_where o = XInUse off 0.
  Proof.
    intros n off g H. destruct (xs_inuse_entries_read_lemma d W Hel Htt n off g H) as [o [H1 [H2 [H3 H4]]]].
    exists o. fold out in H1. fold total in H1. unfold xa_G1. rewrite (H1 len_of). repeat split; assumption.
  Qed.

  Lemma xa_C_in : forall o, In o xa_C -> exists off g, In (so_num o, XInUse off g) XR /\ xa_G1 (so_num o, XInUse off g) = Some o /\ so_gen o = g.
  Proof.
    intros o H. unfold xa_C in H. apply in_flat_map in H. destruct H as [[k e] [Hke Ho]].
    destruct e as [a b | off g | a b]; cbn [xa_G1 xa_opt] in Ho; try contradiction.
    destruct (xa_G1_inuse k off g Hke) as [o' [Hp [HG [Hn [Hg _]]]]]. rewrite Hp in Ho. cbn [xa_opt] in Ho. destruct Ho as [<- | []].
    exists off, g. rewrite Hn. repeat split; assumption.
  Qed.

  Lemma xa_XR_nodup : NoDup (map fst XR).
  Proof. apply (xs_merged_table_lemma (xs_l_entries L)). Qed.

  Lemma xa_nodup_gen : forall (l : list (N * xentry)), NoDup (map fst l) ->
    (forall ke o, In ke l -> In o (xa_opt (xa_G1 ke)) -> so_num o = fst ke) ->
    NoDup (map so_num (flat_map (fun ke => xa_opt (xa_G1 ke)) l)).
  Proof.
    induction l as [|ke t IH]; intros Hnd Hnum; [constructor|]. cbn [map] in Hnd. inversion Hnd as [|? ? H1 H2]; subst.
    cbn [flat_map]. rewrite map_app.
    assert (IHt : NoDup (map so_num (flat_map (fun ke0 => xa_opt (xa_G1 ke0)) t))).
    { apply IH; [exact H2|]. intros ke0 o Hk Ho. apply Hnum; [right; exact Hk | exact Ho]. }
    destruct (xa_G1 ke) as [o|] eqn:E; cbn [xa_opt map app]; [| exact IHt].
    constructor; [| exact IHt]. intros Hin. apply in_map_iff in Hin. destruct Hin as [o' [Hn' Ho']].
    apply in_flat_map in Ho'. destruct Ho' as [ke' [Hk' Ho'']].
    pose proof (Hnum ke' o' (or_intror Hk') Ho'') as E1.
    pose proof (Hnum ke o (or_introl eq_refl)) as E2. rewrite E in E2. specialize (E2 (or_introl eq_refl)).
    apply H1. rewrite <- E2, <- Hn', E1. apply in_map. exact Hk'.
  Qed.

  Lemma xa_C_nodup : NoDup (map so_num xa_C).
  Proof.
    apply xa_nodup_gen; [exact xa_XR_nodup|]. intros [k e] o Hke Ho.
    destruct e as [a b | off g | a b]; cbn [xa_G1 xa_opt] in Ho; try contradiction.
    destruct (xa_G1_inuse k off g Hke) as [o' [Hp [_ [Hn _]]]]. rewrite Hp in Ho. cbn [xa_opt] in Ho. destruct Ho as [<- | []]. exact Hn.
  Qed.

  (* (c) the object found under a stream's number is the object stream parsed for that number *)
  Lemma xa_find_stream : forall stm q o, In (stm, XsOff q) tab ->
    parse_indirect (length out) total out q len_of = inl (Some o) -> so_num o = stm ->
    find (fun o' => so_num o' =? stm) (rev xa_C) = Some o.
  Proof.
    intros stm q o Hin Hp Hn.
    assert (Hx : In (stm, XInUse q 0) XR).
    { destruct (xs_numbering_bijection_lemma d xa_closed) as [_ [_ Hcov]]. fold L tab in Hcov.
      assert (Hk : 1 <= stm < xs_l_xref_id L) by (apply Hcov; apply in_map_iff; exists (stm, XsOff q); split; [reflexivity | exact Hin]).
      unfold XR, L. rewrite xa_XR_form. right. apply in_or_app. left. rewrite <- (xa_g_off stm q Hin).
      apply in_map. apply xn_range_in. fold L. lia. }
    assert (Hc : In o xa_C).
    { unfold xa_C. apply in_flat_map. exists (stm, XInUse q 0). split; [exact Hx|]. cbn [xa_G1]. rewrite Hp. left. reflexivity. }
    rewrite <- Hn. apply xa_find_unique; [rewrite map_rev; apply NoDup_rev; exact xa_C_nodup | apply in_rev; rewrite rev_involutive; exact Hc].
  Qed.

  (* ---------- (b) the collected objects, item by item ---------- *)
  Lemma xa_ents_collect : forall ip, In ip (xe_lay d) ->
    flat_map (fun ke => xa_opt (xa_G1 ke)) (xa_ents ip) = xa_opt (xa_G1 (xe_item_num d (fst ip), XInUse (snd ip) 0)).
  Proof.
    intros [it q] Hip. unfold xa_ents. cbn [fst snd]. destruct it as [x | k]; cbn [flat_map xe_item_num]; [rewrite app_nil_r; reflexivity|].
    fold ren sren. match goal with |- ?a ++ ?b = ?a => assert (E : b = []); [| rewrite E, app_nil_r; reflexivity] end.
    apply flat_map_nil. apply Forall_forall. intros ke Hke. apply in_map_iff in Hke. destruct Hke as [m [<- Hm]].
    destruct (In_nth_error _ _ Hm) as [j Hj]. rewrite (xa_member_entry k q j m Hip Hj). reflexivity.
  Qed.

  Definition xa_dummy : sobj := {| so_num := 0; so_gen := 0; so_where := XFree 0 0; so_val := SpNull; so_stream := None; so_end := 0 |}.
  Definition xa_obj (ip : xs_item * N) : sobj :=
    match xa_G1 (xe_item_num d (fst ip), XInUse (snd ip) 0) with Some o => o | None => xa_dummy end.
  Definition xa_xobj : sobj :=
    match xa_G1 (xs_l_xref_id L, XInUse (xs_l_xref_off L) 0) with Some o => o | None => xa_dummy end.

  Lemma xa_obj_spec : forall ip, In ip (xe_lay d) ->
    xa_G1 (xe_item_num d (fst ip), XInUse (snd ip) 0) = Some (xa_obj ip)
    /\ so_num (xa_obj ip) = xe_item_num d (fst ip) /\ so_gen (xa_obj ip) = 0 /\ so_where (xa_obj ip) = XInUse (snd ip) 0
    /\ so_end (xa_obj ip) = snd ip + N.of_nat (length (xs_chunk' d (fst ip))).
  Proof.
    intros [it q] Hip. cbn [fst snd]. destruct (xs_item_reads_lemma d W Hel it q Hip) as [o [H1 [H2 [H3 [H4 H5]]]]].
    fold out in H1. fold total in H1. unfold xa_obj. cbn [fst snd xa_G1]. rewrite (H1 len_of). repeat split; assumption.
  Qed.

  Lemma xa_xobj_spec : xa_G1 (xs_l_xref_id L, XInUse (xs_l_xref_off L) 0) = Some xa_xobj /\ so_num xa_xobj = xs_l_xref_id L.
  Proof.
    assert (Hx : In (xs_l_xref_id L, XInUse (xs_l_xref_off L) 0) XR) by (rewrite xa_XR_items; right; apply in_or_app; right; left; reflexivity).
    destruct (xa_G1_inuse _ _ _ Hx) as [o [_ [HG [Hn _]]]]. unfold xa_xobj. rewrite HG. split; [reflexivity | exact Hn].
  Qed.

  Lemma xa_C_items : xa_C = map xa_obj (xe_lay d) ++ [xa_xobj].
  Proof.
    unfold xa_C. rewrite xa_XR_items. cbn [flat_map xa_G1 xa_opt app]. rewrite flat_map_app, xa_flat_flat. f_equal.
    - assert (G : forall l, (forall ip, In ip l -> In ip (xe_lay d)) ->
                  flat_map (fun x => flat_map (fun ke => xa_opt (xa_G1 ke)) (xa_ents x)) l = map xa_obj l).
      { induction l as [|ip t IH]; intros Hl; [reflexivity|]. cbn [flat_map map].
        rewrite (xa_ents_collect ip (Hl ip (or_introl eq_refl))).
        rewrite (proj1 (xa_obj_spec ip (Hl ip (or_introl eq_refl)))). cbn [xa_opt app]. f_equal.
        apply IH. intros x Hx. apply Hl. right. exact Hx. }
      apply G. intros ip H. exact H.
    - cbn [flat_map]. rewrite (proj1 xa_xobj_spec). reflexivity.
  Qed.

  (* the regions of the collected objects other than the xref stream, as read_strict lists them *)
  Lemma xa_body_regions :
    map region_of (filter (fun o => negb (so_num xa_xobj =? so_num o)) (rev xa_C))
    = rev (xr_regs (xs_chunk' d) (xs_l_items L) (N.of_nat (length (xs_l_hdr L)))).
  Proof.
    rewrite xa_C_items, rev_app_distr. cbn [rev app filter]. rewrite N.eqb_refl. cbn [negb].
    assert (Hlay : xr_regs (xs_chunk' d) (xs_l_items L) (N.of_nat (length (xs_l_hdr L)))
                   = map (fun ip => (snd ip, snd ip + N.of_nat (length (xs_chunk' d (fst ip))))) (xe_lay d)).
    { unfold L. rewrite xs_L_eq. cbn [xs_l_items xs_l_hdr]. unfold xe_lay. rewrite xe_layout_regs. reflexivity. }
    rewrite Hlay, <- map_rev, <- map_rev.
    assert (G : forall l, (forall ip, In ip l -> In ip (xe_lay d)) ->
                map region_of (filter (fun o => negb (so_num xa_xobj =? so_num o)) (map xa_obj l))
                = map (fun ip => (snd ip, snd ip + N.of_nat (length (xs_chunk' d (fst ip))))) l).
    { induction l as [|ip t IH]; intros Hl; [reflexivity|]. cbn [map filter].
      destruct (xa_obj_spec ip (Hl ip (or_introl eq_refl))) as [_ [Hn [_ [Hw He]]]].
      assert (Hne : (so_num xa_xobj =? so_num (xa_obj ip)) = false).
      { apply N.eqb_neq. rewrite (proj2 xa_xobj_spec), Hn. unfold L. rewrite xs_L_eq. cbn [xs_l_xref_id].
        destruct (fst ip) as [x | k]; cbn [xe_item_num]; [pose proof (xs_renf_lt d x) | pose proof (xs_srenf_lt d k)]; lia. }
      rewrite Hne. cbn [negb map]. f_equal; [unfold region_of; rewrite Hw, He; reflexivity|].
      apply IH. intros x Hx. apply Hl. right. exact Hx. }
    rewrite <- (G (rev (xe_lay d))) by (intros ip H; apply in_rev; exact H). rewrite map_rev. reflexivity.
  Qed.

  (* ---------- (d) no superseded bodies; /Root resolves to a non-free entry ---------- *)
  Lemma xa_old_regions : forall (fuel : nat),
    flat_map (fun ke : N * xentry =>
      match snd ke with
      | XInUse off gen =>
          match lookup_x (fst ke) XR with
          | Some (XInUse off' _) => if off' =? off then [] else
              match parse_indirect fuel total out off (fun _ => None) with
              | inl (Some o) => [(off, so_end o)]
              | _ => []
              end
          | _ =>
              match parse_indirect fuel total out off (fun _ => None) with
              | inl (Some o) => [(off, so_end o)]
              | _ => []
              end
          end
      | _ => []
      end) (rev XR) = [].
  Proof.
    intros fuel. apply flat_map_nil. apply Forall_forall. intros [k e] Hke. apply in_rev in Hke. cbn [fst snd].
    destruct e as [a b | off g | a b]; try reflexivity.
    rewrite (lookup_x_in k (XInUse off g) XR xa_XR_nodup Hke), N.eqb_refl. reflexivity.
  Qed.

  Lemma xa_tab_nofree : forall n, ~ In (n, XsFree) tab.
  Proof.
    intros n H. unfold tab, L in H. rewrite xs_L_eq in H. cbn [xs_l_table] in H. rewrite (xe_tab_eq d) in H. apply in_flat_map in H.
    destruct H as [[it q] [_ He]]. cbn [fst snd] in He. destruct it as [x | k]; cbn [xs_item_entries In] in He.
    - destruct He as [He | []]. discriminate.
    - apply in_app_or in He. destruct He as [He | [He | []]]; [| discriminate].
      apply (xs_index_entries_in (d_objects d) (xs_P d) _ (xs_srenf d)) in He. destruct He as [j [m [_ [_ He]]]]. discriminate.
  Qed.

  Lemma xa_root : exists rn e, dict_get (xp_xref_dict d) n_Root = Some (SpRef rn 0) /\ lookup_x rn XR = Some e
                               /\ (forall a b, e <> XFree a b).
  Proof.
    destruct W as [Hc Hobjs Htr Hst Hsb Hver Hids [r [ir [Hroot [Hfr Hnn]]]] Hsize [Hnd [Hnoid Hdk]] Hnoprev Hnoxs].
    exists (ren r), (snd (xa_g d (ren r))).
    assert (Hrr : In r (roots_of d)) by (apply (root_in_roots d r Hroot)).
    pose proof (xq_roots_numbered d r Hrr) as Hpos. pose proof (xs_renf_lt d r) as Hlt. fold ren in Hpos, Hlt.
    split; [| split].
    - apply dict_get_in; [apply xk_dict_nodup; assumption|]. unfold xp_xref_dict. cbv zeta. apply in_or_app. left.
      replace (SpRef (ren r) 0) with (to_pobj (d_objects d) (xs_l_ren (xs_L d)) (ORef r))
        by (cbn [to_pobj]; rewrite xs_L_eq; reflexivity).
      apply xk_pdict_in; [| exact Hnn]. unfold xp_xref_entries. apply in_or_app. right.
      apply find_some in Hroot. destruct Hroot as [Hr _]. apply in_map_iff. exists (k_Root, ORef r). split; [reflexivity | exact Hr].
    - apply lookup_x_in; [exact xa_XR_nodup|]. unfold XR, L. rewrite xa_XR_form. right. apply in_or_app. left.
      replace (ren r, snd (xa_g d (ren r))) with (xa_g d (ren r)) by reflexivity.
      apply in_map. apply xn_range_in. rewrite xs_L_eq. cbn [xs_l_xref_id]. lia.
    - intros a b. cbn [xa_g snd]. fold L tab.
      destruct (xs_numbering_bijection_lemma d xa_closed) as [_ [_ Hcov]]. fold L tab in Hcov.
      assert (Hk : In (ren r) (map fst tab)) by (apply Hcov; unfold L; rewrite xs_L_eq; cbn [xs_l_xref_id]; lia).
      apply in_map_iff in Hk. destruct Hk as [[n e] [En Hin]]. cbn [fst] in En. subst n.
      rewrite (xs_lookup_ent_nodup tab (ren r) e xa_tab_nodup Hin).
      destruct e; cbn [xs_to_xentry]; try discriminate. exfalso. apply (xa_tab_nofree (ren r)). exact Hin.
  Qed.
  End Fold.

  Lemma xa_filter_ext : forall (A : Type) (f g : A -> bool) l, (forall a, f a = g a) -> filter f l = filter g l.
  Proof. intros A f g l H. induction l as [|a t IH]; [reflexivity|]. cbn [filter]. rewrite H, IH. reflexivity. Qed.

  Lemma xa_forall2_map : forall (A B : Type) (f : A -> B) l l', Forall2 (fun a b => b = f a) l l' -> l' = map f l.
  Proof. intros A B f l l' H. induction H; [reflexivity|]. cbn [map]. subst. reflexivity. Qed.

  Lemma xa_dict_noenc : dict_get (xp_xref_dict d) k_Encrypt = None.
  Proof.
    apply dict_get_none. intros H. apply xk_dict_keys in H.
    destruct H as [H | [H | [H | [H | H]]]]; try discriminate. exact (Henc H).
  Qed.

  (* the relation satisfied by what step 2 collects for one entry *)
  Definition xa_R2 (ke : N * xentry) (r : list sobj) : Prop :=
    match ke with
    | (k, XComp stm idx) =>
        exists c, r = [c] /\ so_num c = k /\ so_gen c = 0 /\ so_where c = XComp stm idx /\ so_stream c = None
          /\ exists kk m, In (XsStm kk) (xs_items d) /\ stm = sren kk /\ nth_error (xs_members p kk) (N.to_nat idx) = Some m
                          /\ k = ren m /\ so_val c = to_pobj (d_objects d) ren (i_val (xs_lookup (d_objects d) m))
    | _ => r = []
    end.

  Let G0 : N -> option N := fun _ => None.

  Definition xa_P (f : sfile) : Prop :=
    sf_version f = xs_version (d_version d) /\ sf_sections f = 1 /\ sf_xref_stream f = true
    /\ sf_trailer f = xp_xref_dict d /\ sf_startxref f = xs_l_xref_off L /\ sf_regions f = xr_regions d
    /\ exists rs2, Forall2 xa_R2 XR rs2 /\ sf_objs f = rev (xa_C G0) ++ rev (concat rs2).

  Lemma xa_main : match read_strict out with RsOk f => xa_P f | RsErr _ _ => False end.
  Proof.
    destruct (xs_header_parses_lemma d W Hel) as [after_hdr [Hhdr Hhend]]. fold out in Hhdr, Hhend. fold total in Hhend. fold L in Hhend.
    destruct (xs_tail_parses_lemma d Hel) as [Hfl Htail]. fold L out in Hfl, Htail.
    destruct (xs_xref_section_reads_lemma d W Hel Htt Hoff Hid) as [ox [Hsec [Hoxn [Hoxg [Hoxw [Hoxe [Hsize Hprev]]]]]]].
    fold L out in Hsec. fold total in Hsec. fold L in Hoxn, Hoxw, Hoxe, Hsize.
    destruct (xs_merged_table_lemma (xs_l_entries L)) as [Hmerge [Hxnd Hmax]].
    set (sx := xs_l_xref_off L + xr_xref_len d) in *.
    unfold read_strict. fold total. rewrite Hhdr, Hfl, Htail. cbn [negb].
    cbn [read_chain existsb]. rewrite Hsec. cbn [sec_dict]. rewrite Hprev.
    cbn [hd fold_left sec_entries sec_dict]. rewrite Hmerge. fold XR. fold XR in Hxnd, Hmax.
    pose proof xa_dict_noenc as Hne. unfold k_Encrypt in Hne. rewrite Hne. clear Hne.
    (* step 1 *)
    match goal with |- match match fold_left ?F _ _ with inl _ => _ | inr _ => _ end with RsOk _ => _ | RsErr _ _ => _ end =>
      destruct (xa_fold_rel _ _ _ F (fun ke r => r = xa_opt (xa_G1 G0 ke)) XR []) as [rs1 [HF1 HE1]] end.
    { intros [k e] Hke. exists (xa_opt (xa_G1 G0 (k, e))). split; [reflexivity|]. split.
      - destruct (xa_G1 G0 (k, e)); cbn; lia.
      - intros objs. cbv beta iota. destruct e as [a b | off g | a b]; try reflexivity.
        destruct (xs_inuse_entries_read_lemma d W Hel Htt k off g Hke) as [o [Hp [Hn [Hg _]]]]. fold out in Hp. fold total in Hp.
        rewrite (Hp _). unfold xa_G1. rewrite (Hp G0). rewrite Hn, Hg, !N.eqb_refl. reflexivity. }
    rewrite HE1. apply xa_forall2_map in HF1.
    assert (HC : concat rs1 = xa_C G0) by (rewrite HF1; unfold xa_C; rewrite flat_map_concat_map; reflexivity).
    rewrite HC, app_nil_r. clear HE1.
    (* step 2 *)
    match goal with |- match match fold_left ?F _ _ with inl _ => _ | inr _ => _ end with RsOk _ => _ | RsErr _ _ => _ end =>
      destruct (xa_fold_rel _ _ _ F xa_R2 XR []) as [rs2 [HF2 HE2]] end.
    { intros [k e] Hke. destruct e as [a b | off g | stm idx];
        try (exists []; split; [reflexivity | split; [cbn; lia | intros; reflexivity]]).
      assert (Hin : In (k, XsIn stm idx) tab).
      { destruct (xe_entry_cases d k _ Hke) as [[_ E] | [[_ E] | [Hk E]]]; try discriminate.
        destruct (xs_lookup_ent_in (xs_l_table (xs_L d)) k) as [E0 | Hin]; [rewrite E0 in E; discriminate|].
        destruct (xs_lookup_ent (xs_l_table (xs_L d)) k); cbn [xs_to_xentry] in E; try discriminate. injection E as <- <-. exact Hin. }
      pose proof (xa_comp_read d W Hel k stm idx Hin) as HC2. cbv zeta in HC2. fold out in HC2. fold total in HC2.
      destruct HC2 as [q [o [dct [doff [len [nn [first [data [pairs [ooff [v [rest [kk [m
        [Hit [Hstm [Hm [Hkm [Hv [Htq [Hp [Hon [Hoval [Hostr [HT [HN [HFi [Hdec [Hpairs [Hnth Hparse]]]]]]]]]]]]]]]]]]]]]]]]]]]]]].
      exists [{| so_num := k; so_gen := 0; so_where := XComp stm idx; so_val := v; so_stream := None; so_end := 0 |}].
      split; [| split; [cbn; lia|]].
      - cbn [xa_R2]. eexists. split; [reflexivity|]. cbn [so_num so_gen so_where so_stream so_val]. repeat split.
        exists kk, m. repeat split; assumption.
      - intros cobjs. cbv beta iota. rewrite (xa_find_stream G0 stm q o Htq (Hp G0) Hon).
        rewrite Hoval, Hostr, HT, HN, HFi. change (negb (beq n_ObjStm n_ObjStm)) with false. cbv iota.
        rewrite Hdec, Hpairs, Hnth, N.eqb_refl. cbn [negb]. rewrite Hparse. reflexivity. }
    rewrite HE2. clear HE2. rewrite app_nil_r.
    (* /Size *)
    rewrite Hsize.
    assert (Hsz : max_num XR 0 + 1 = xs_l_xref_id L + 1).
    { pose proof (xs_entries_length d) as Hl. fold L in Hl. rewrite Hmax; [rewrite Hl; lia|]. intros E. rewrite E in Hl. cbn in Hl. lia. }
    rewrite Hsz, N.eqb_refl. cbn [negb].
    (* /Root *)
    destruct (xa_root G0) as [rn [e [Hr [Hlk Hnf]]]]. rewrite Hr, Hlk.
    assert (Hsort : sort_regions ((0, offset_of total after_hdr) :: (sx, total)
                 :: map sec_region [{| sec_entries := rev XR; sec_dict := xp_xref_dict d; sec_is_stream := true;
                                       sec_region := (xs_l_xref_off L, sx); sec_tail_value := 0; sec_obj := Some ox |}]
                 ++ map (fun o : sobj => (match so_where o with XInUse off _ => off | _ => 0 end, so_end o))
                        (filter (fun o : sobj => negb (existsb (fun s : section => match sec_obj s with
                                                                                   | Some x => so_num x =? so_num o
                                                                                   | None => false end)
                                  [{| sec_entries := rev XR; sec_dict := xp_xref_dict d; sec_is_stream := true;
                                      sec_region := (xs_l_xref_off L, sx); sec_tail_value := 0; sec_obj := Some ox |}]))
                                (rev (xa_C G0)))
                 ++ []) = xr_regions d).
    { cbn [map sec_region existsb sec_obj].
      rewrite (xa_filter_ext _ _ (fun o => negb (so_num (xa_xobj G0) =? so_num o)))
        by (intros o; rewrite Hoxn, (proj2 (xa_xobj_spec G0)), Bool.orb_false_r; reflexivity).
      change (fun o : sobj => (match so_where o with XInUse off _ => off | _ => 0 end, so_end o)) with region_of.
      rewrite (xa_body_regions G0), Hhend, app_nil_r.
      pose proof (xs_sort_regions_lemma d Hel) as Hs. cbv zeta in Hs. fold L out total sx in Hs.
      change ((xs_l_xref_off L, sx) :: rev (xr_regs (xs_chunk' d) (xs_l_items L) (N.of_nat (length (xs_l_hdr L)))))
        with ([(xs_l_xref_off L, sx)] ++ rev (xr_regs (xs_chunk' d) (xs_l_items L) (N.of_nat (length (xs_l_hdr L))))).
      exact Hs. }
    pose proof (xs_regions_ok_lemma d Hel) as Hreg. fold out total in Hreg.
    cbn [flat_map sec_entries]. rewrite (xa_old_regions (length out)). change (@nil (N * N) ++ []) with (@nil (N * N)).
    destruct e as [a b | a b | a b]; [exfalso; exact (Hnf a b eq_refl) | |];
      (rewrite Hsort, Hreg; unfold xa_P; cbn [sf_version sf_sections sf_xref_stream sf_trailer sf_startxref sf_regions sf_objs length];
       repeat split; exists rs2; split; [exact HF2 | reflexivity]).
  Qed.

  (* ---------- consequences for the objects ---------- *)
  Lemma xa_nodup_app_disj : forall (A : Type) (l1 l2 : list A) x, NoDup (l1 ++ l2) -> In x l1 -> In x l2 -> False.
  Proof.
    induction l1 as [|a l1 IH]; intros l2 x Hnd H1 H2; [contradiction|]. cbn [app] in Hnd. inversion Hnd as [|? ? Ha Hl]; subst.
    destruct H1 as [-> | H1]; [apply Ha; apply in_or_app; right; exact H2 | exact (IH l2 x Hl H1 H2)].
  Qed.
  Lemma xa_flat_map_inj : forall (A B : Type) (f : A -> list B) l a b x, NoDup (flat_map f l) ->
    In a l -> In b l -> In x (f a) -> In x (f b) -> a = b.
  Proof.
    intros A B f. induction l as [|c t IH]; intros a b x Hnd Ha Hb Hxa Hxb; [contradiction|]. cbn [flat_map] in Hnd.
    assert (Ht : NoDup (flat_map f t)).
    { clear - Hnd. induction (f c) as [|y l IHl]; [exact Hnd|]. cbn [app] in Hnd. inversion Hnd; subst. apply IHl. assumption. }
    destruct Ha as [-> | Ha]; destruct Hb as [-> | Hb]; try reflexivity.
    - exfalso. apply (xa_nodup_app_disj _ _ _ x Hnd Hxa). apply in_flat_map. exists b. split; assumption.
    - exfalso. apply (xa_nodup_app_disj _ _ _ x Hnd Hxb). apply in_flat_map. exists a. split; assumption.
    - apply (IH a b x Ht Ha Hb Hxa Hxb).
  Qed.

  Lemma xa_sren_inj : forall k kk, In (XsStm k) (xs_items d) -> In (XsStm kk) (xs_items d) -> sren k = sren kk -> k = kk.
  Proof.
    intros k kk Hk Hkk E. destruct (xs_numbering_bijection_lemma d xa_closed) as [Hnums _]. fold L in Hnums.
    assert (Hnd : NoDup (flat_map (xn_item_nums L) (xs_l_items L))) by (rewrite Hnums; apply xn_range_nodup).
    assert (Hi : xs_l_items L = xs_items d) by (unfold L; rewrite xs_L_eq; reflexivity). rewrite Hi in Hnd.
    assert (Heq : XsStm k = XsStm kk).
    { apply (xa_flat_map_inj _ _ (xn_item_nums L) (xs_items d) (XsStm k) (XsStm kk) (sren k) Hnd Hk Hkk);
        unfold xn_item_nums, L; rewrite xs_L_eq; cbn [xs_l_sren xs_l_ren xs_l_plan]; left; [reflexivity | symmetry; exact E]. }
    injection Heq as ->. reflexivity.
  Qed.

  Lemma xa_lay_of_item : forall it, In it (xs_items d) -> exists q, In (it, q) (xe_lay d).
  Proof.
    intros it H. rewrite <- (xe_layout_fst (xs_chunk' d) (xs_items d) (N.of_nat (length (xs_hdr d)))) in H.
    apply in_map_iff in H. destruct H as [[it' q] [E Hin]]. cbn [fst] in E. subst it'. exists q. exact Hin.
  Qed.
End Cap.

(* The capstone for the object-stream / cross-reference-stream mode (qpdf --object-streams=generate --compress-streams=n
   --decode-level=none --static-id): for EVERY well-formed document that has an eligible object, whose trailer carries none of the
   keys the writer erases, and whose output stays below 2^63, the strict reader (written from ISO 32000-1 only) accepts the WHOLE
   output of the byte-exact writer model and reads back the written document: version max(input, 1.5); ONE section, a
   cross-reference stream; the trailer entries with /Size = highest number + 1 and the /ID pair; every byte accounted for
   (header, each written item, the xref stream, the tail: the regions of xs_regions_ok); every uncompressed object (plain or
   stream object, object stream) under its new number with generation 0 at its recorded offset with the written value; and
   every member of every object stream as a compressed object (stream number, index) under its new number with the written
   value, references renumbered. *)
Lemma xs_write_read_strict_lemma : forall d, wf_doc d -> xs_eligible d <> [] -> xr_trailer_trimmed d ->
  ~ In k_Encrypt (map fst (d_trailer d)) ->
  xs_l_xref_off (xs_L d) < 2 ^ 63 -> xs_l_xref_id (xs_L d) < 2 ^ 63 ->
  exists f, read_strict (xs_write_doc wm_unparse_string wm_unparse_name d) = RsOk f
    /\ sf_version f = xs_version (d_version d)
    /\ sf_sections f = 1 /\ sf_xref_stream f = true
    /\ sf_trailer f = xp_xref_dict d
    /\ get_int (sf_trailer f) n_Size = Some (xs_l_xref_id (xs_L d) + 1)
    /\ sf_startxref f = xs_l_xref_off (xs_L d)
    /\ sf_regions f = xr_regions d
    /\ regions_ok (xs_out d) 0 (sf_regions f) (N.of_nat (length (xs_out d))) = None
    /\ (forall it q, In (it, q) (xe_lay d) ->
          exists so, In so (sf_objs f) /\ so_num so = xe_item_num d it /\ so_gen so = 0 /\ so_where so = XInUse q 0
                     /\ match it with
                        | XsObj x => so_val so = xo_val (d_objects d) (xs_renf d) (xs_lookup (d_objects d) x)
                        | XsStm k => so_val so = SpDict (xe_objstm_dict d k)
                        end)
    /\ (forall k j m, In (XsStm k) (xs_items d) -> nth_error (xs_members (xs_P d) k) j = Some m ->
          exists so, In so (sf_objs f) /\ so_num so = xs_renf d m /\ so_gen so = 0
                     /\ so_where so = XComp (xs_srenf d k) (N.of_nat j) /\ so_stream so = None
                     /\ so_val so = to_pobj (d_objects d) (xs_renf d) (i_val (xs_lookup (d_objects d) m))).
Proof.
  intros d W Hel Htt Henc Hoff Hid.
  pose proof (xa_main d W Hel Htt Henc Hoff Hid) as Hm. fold (xs_out d).
  destruct (read_strict (xs_out d)) as [f | c a]; [| contradiction]. exists f. split; [reflexivity|].
  destruct Hm as [Hv [Hs [Hx [Ht [Hsx [Hr [rs2 [HF2 Hobjs]]]]]]]].
  split; [exact Hv|]. split; [exact Hs|]. split; [exact Hx|]. split; [exact Ht|].
  split; [rewrite Ht; apply (xr_dict_size d W Htt)|]. split; [exact Hsx|]. split; [exact Hr|].
  split; [rewrite Hr; apply (xs_regions_ok_lemma d Hel)|]. split.
  - intros it q Hip. exists (xa_obj d (fun _ => None) (it, q)).
    destruct (xa_obj_spec d W Hel (fun _ => None) (it, q) Hip) as [HG [Hn [Hg [Hw _]]]]. cbn [fst snd] in *.
    split; [| split; [exact Hn | split; [exact Hg | split; [exact Hw|]]]].
    + rewrite Hobjs. apply in_or_app. left. apply in_rev. rewrite rev_involutive, (xa_C_items d W Hel Htt). apply in_or_app. left.
      apply in_map. exact Hip.
    + destruct (xe_item_read d W Hel it q Hip) as [o [Hp [_ [_ [_ [_ Hval]]]]]].
      assert (Eo : xa_obj d (fun _ => None) (it, q) = o).
      { unfold xa_obj, xa_G1. cbn [fst snd]. rewrite (Hp (fun _ => None)). reflexivity. }
      rewrite Eo. destruct it as [x | k]; [exact Hval | exact (proj1 Hval)].
  - intros k j m Hk Hj.
    destruct (xa_lay_of_item d (XsStm k) Hk) as [q Hip].
    assert (Hin : In (xs_renf d m, XComp (xs_srenf d k) (N.of_nat j)) (xs_numbered 0 (xs_l_entries (xs_L d)))).
    { rewrite (xa_XR_items d W). right. apply in_or_app. left. apply in_flat_map. exists (XsStm k, q). split; [exact Hip|].
      unfold xa_ents. cbn [fst snd]. right. rewrite <- (xa_member_entry d W k q j m Hip Hj). apply (in_map (fun m0 => xa_g d (xs_renf d m0))). apply (nth_error_In _ _ Hj). }
    destruct (Forall2_in_left _ _ _ _ _ _ HF2 Hin) as [r [Hr2 HR]]. cbn [xa_R2] in HR.
    destruct HR as [c [-> [Hn [Hg [Hw [Hst [kk [m' [Hkk [Hs2 [Hm' [Hnm Hval]]]]]]]]]]]].
    assert (kk = k) by (symmetry; apply (xa_sren_inj d W k kk Hk Hkk Hs2)). subst kk.
    rewrite Nat2N.id in Hm'. assert (m' = m) by congruence. subst m'.
    exists c. split; [| repeat split; assumption].
    rewrite Hobjs. apply in_or_app. right. apply in_rev. rewrite rev_involutive. apply in_concat. exists [c]. split; [exact Hr2 | left; reflexivity].
Qed.
