(* C07 - the Annex F decoder inverts the model of qpdf's hint-table encoder (hint_roundtrip), through a
   bit-level account of write_bits (bits_functions.hh): a BitWriter run emits exactly the MSB-first
   fields, each flush pads with zero bits to the next byte boundary. *)
From QV Require Import Base.Bytes Filters.Filters File.ReadStrict Lin.HintTypes Lin.BitIO Lin.Hints Lin.AnnexF.
Local Open Scope N_scope.

(* ================= bit lists ================= *)
Notation bitsof := af_byte_bits.

Lemma bitsof_length : forall n v, length (bitsof n v) = n.
Proof. induction n as [|n IH]; intros v; cbn [af_byte_bits length]; [reflexivity|]. rewrite IH. reflexivity. Qed.

Lemma bitsof_split : forall a b v, bitsof (a + b) v = bitsof a (v / 2 ^ N.of_nat b) ++ bitsof b v.
Proof.
  induction a as [|a IH]; intros b v; [reflexivity|].
  cbn [Nat.add af_byte_bits app]. rewrite IH. f_equal.
  rewrite N.div_pow2_bits. f_equal. lia.
Qed.

Lemma bitsof_mod_gen : forall k n v, (k <= n)%nat -> bitsof k (v mod 2 ^ N.of_nat n) = bitsof k v.
Proof.
  induction k as [|k IH]; intros n v Hk; [reflexivity|].
  cbn [af_byte_bits]. rewrite IH by lia. f_equal.
  apply N.mod_pow2_bits_low. lia.
Qed.

Lemma bitsof_mod : forall n v, bitsof n (v mod 2 ^ N.of_nat n) = bitsof n v.
Proof. intros. apply bitsof_mod_gen. lia. Qed.

Lemma bitsof_zero : forall n, bitsof n 0 = repeat false n.
Proof. induction n as [|n IH]; [reflexivity|]. cbn [af_byte_bits repeat]. rewrite IH, N.bits_0. reflexivity. Qed.

Lemma mod_pow2_succ : forall v k, v mod 2 ^ N.succ k = v mod 2 ^ k + 2 ^ k * N.b2n (N.testbit v k).
Proof.
  intros v k. rewrite N.pow_succ_r', N.mul_comm.
  rewrite N.mod_mul_r by (try apply N.pow_nonzero; lia).
  rewrite N.testbit_spec'. reflexivity.
Qed.

(* reading a field back *)
Lemma af_field_bitsof : forall n v rest acc,
  af_field n (bitsof n v ++ rest) acc = Some (acc * 2 ^ N.of_nat n + v mod 2 ^ N.of_nat n, rest).
Proof.
  induction n as [|n IH]; intros v rest acc.
  - cbn. rewrite N.mod_1_r. f_equal. f_equal. lia.
  - cbn [af_byte_bits app af_field]. rewrite IH. f_equal. f_equal.
    rewrite Nat2N.inj_succ, mod_pow2_succ, N.pow_succ_r'.
    destruct (N.testbit v (N.of_nat n)); cbn [N.b2n]; lia.
Qed.

(* ================= write_bits, bit by bit ================= *)
(* writer state seen as k pending bits of value pv *)
Definition wrep (w : bitwr) (pv : N) (k : nat) : Prop :=
  (k <= 7)%nat /\ bw_off w = 7 - N.of_nat k /\ bw_ch w = pv * 2 ^ (8 - N.of_nat k) /\ pv < 2 ^ N.of_nat k.

Lemma wrep_init : wrep bw_init 0 0.
Proof. unfold wrep, bw_init. cbn. repeat split; lia. Qed.

Definition rangeN (n : nat) : list N := map N.of_nat (seq 0 n).
Lemma rangeN_In : forall n v, v < N.of_nat n -> In v (rangeN n).
Proof. intros n v H. unfold rangeN. apply in_map_iff. exists (N.to_nat v). split; [lia|]. apply in_seq. lia. Qed.

Definition step_check (k pv btw nv : N) : bool :=
  N.lor (pv * 2 ^ (8 - k)) ((nv * 2 ^ (8 - k - btw)) mod 256) =? (pv * 2 ^ btw + nv) * 2 ^ (8 - k - btw).

Definition step_sweep : bool :=
  forallb (fun k => forallb (fun pv => forallb (fun btw =>
     if (1 <=? btw) && (btw <=? 8 - k) then forallb (fun nv => step_check k pv btw nv) (rangeN (Nat.pow 2 (N.to_nat btw))) else true)
     (rangeN 9)) (rangeN (Nat.pow 2 (N.to_nat k)))) (rangeN 8).

Lemma step_sweep_ok : step_sweep = true.
Proof. vm_compute. reflexivity. Qed.

Lemma pow2_nat : forall k, N.of_nat (Nat.pow 2 k) = 2 ^ N.of_nat k.
Proof.
  induction k as [|k IH]; [reflexivity|].
  rewrite Nat2N.inj_succ, N.pow_succ_r', <- IH. cbn [Nat.pow]. lia.
Qed.

Lemma step_fact : forall k pv btw nv, k <= 7 -> pv < 2 ^ k -> 1 <= btw -> btw <= 8 - k -> nv < 2 ^ btw ->
  N.lor (pv * 2 ^ (8 - k)) ((nv * 2 ^ (8 - k - btw)) mod 256) = (pv * 2 ^ btw + nv) * 2 ^ (8 - k - btw).
Proof.
  intros k pv btw nv Hk Hpv Hb1 Hb2 Hnv.
  pose proof step_sweep_ok as H. unfold step_sweep in H.
  rewrite forallb_forall in H. specialize (H k (rangeN_In 8 k ltac:(lia))).
  rewrite forallb_forall in H. specialize (H pv).
  assert (Hin : In pv (rangeN (Nat.pow 2 (N.to_nat k)))).
  { apply rangeN_In. rewrite pow2_nat, N2Nat.id. exact Hpv. }
  specialize (H Hin). rewrite forallb_forall in H. specialize (H btw (rangeN_In 9 btw ltac:(lia))).
  replace ((1 <=? btw) && (btw <=? 8 - k)) with true in H
    by (symmetry; apply andb_true_iff; split; apply N.leb_le; lia).
  rewrite forallb_forall in H. specialize (H nv).
  assert (Hin2 : In nv (rangeN (Nat.pow 2 (N.to_nat btw)))).
  { apply rangeN_In. rewrite pow2_nat, N2Nat.id. exact Hnv. }
  specialize (H Hin2). unfold step_check in H. apply N.eqb_eq in H. exact H.
Qed.

Lemma af_bits_app : forall a b, af_bits (a ++ b) = af_bits a ++ af_bits b.
Proof. induction a as [|x a IH]; intros b; [reflexivity|]. cbn [app af_bits]. rewrite IH, app_assoc. reflexivity. Qed.

Lemma af_bits_length : forall l, length (af_bits l) = (8 * length l)%nat.
Proof. induction l as [|x l IH]; [reflexivity|]. cbn [af_bits]. rewrite app_length, bitsof_length, IH. cbn [length]. lia. Qed.

Lemma write_loop_spec : forall fuel w val bits pv k,
  wrep w pv k -> (N.to_nat bits < fuel)%nat ->
  exists w' o pv' k', write_bits_loop fuel w val bits = (w', o) /\ wrep w' pv' k' /\ Forall (fun b => b < 256) o /\
    af_bits o ++ bitsof k' pv' = bitsof k pv ++ bitsof (N.to_nat bits) val.
Proof.
  induction fuel as [|f IH]; intros w val bits pv k Hrep Hfuel; [lia|].
  cbn [write_bits_loop]. destruct (N.eqb_spec bits 0) as [E0|E0].
  - subst bits. exists w, [], pv, k. cbn [af_bits app N.to_nat af_byte_bits]. rewrite app_nil_r.
    split; [reflexivity|]. split; [exact Hrep|]. split; [constructor|reflexivity].
  - cbv zeta. destruct Hrep as (Hk & Hoff & Hch & Hpv).
    set (kk := N.of_nat k) in *.
    assert (Hkk : kk <= 7) by (unfold kk; lia).
    rewrite Hoff, Hch.
    replace (7 - kk + 1) with (8 - kk) by lia.
    set (btw := N.min bits (8 - kk)).
    assert (Hb1 : 1 <= btw) by (unfold btw; lia).
    assert (Hb2 : btw <= 8 - kk) by (unfold btw; lia).
    assert (Hb3 : btw <= bits) by (unfold btw; lia).
    set (nv0 := (val / 2 ^ (bits - btw)) mod 2 ^ btw).
    assert (Hnv0 : nv0 < 2 ^ btw) by (unfold nv0; apply N.mod_lt, N.pow_nonzero; lia).
    assert (Hnv256 : nv0 mod 256 = nv0).
    { apply N.mod_small. assert (2 ^ btw <= 2 ^ 8) by (apply N.pow_le_mono_r; lia). change (2 ^ 8) with 256 in *. lia. }
    rewrite Hnv256.
    rewrite (step_fact kk pv btw nv0 Hkk Hpv Hb1 Hb2 Hnv0).
    set (pv1 := pv * 2 ^ btw + nv0).
    assert (Hpv1 : pv1 < 2 ^ (kk + btw)).
    { unfold pv1. rewrite N.pow_add_r.
      assert ((pv + 1) * 2 ^ btw <= 2 ^ kk * 2 ^ btw) by (apply N.mul_le_mono_r; lia). lia. }
    (* bits identity for this step *)
    assert (Hbits : bitsof (k + N.to_nat btw) pv1 = bitsof k pv ++ bitsof (N.to_nat btw) (val / 2 ^ (bits - btw))).
    { rewrite bitsof_split, N2Nat.id. f_equal.
      - f_equal. unfold pv1. rewrite N.div_add_l by (apply N.pow_nonzero; lia).
        rewrite N.div_small by exact Hnv0. lia.
      - rewrite <- (bitsof_mod (N.to_nat btw) pv1), <- (bitsof_mod (N.to_nat btw) (val / _)). rewrite N2Nat.id.
        f_equal. unfold pv1. rewrite N.add_comm, N.mod_add by (apply N.pow_nonzero; lia).
        unfold nv0. rewrite N.mod_mod by (apply N.pow_nonzero; lia). reflexivity. }
    assert (Hval : bitsof (N.to_nat bits) val = bitsof (N.to_nat btw) (val / 2 ^ (bits - btw)) ++ bitsof (N.to_nat (bits - btw)) val).
    { replace (N.to_nat bits) with (N.to_nat btw + N.to_nat (bits - btw))%nat by lia.
      rewrite bitsof_split, N2Nat.id. reflexivity. }
    destruct (N.eqb_spec (8 - kk - btw) 0) as [EL|EL].
    + (* the byte is complete *)
      rewrite EL, N.pow_0_r, N.mul_1_r.
      destruct (IH bw_init val (bits - btw) 0 0%nat wrep_init ltac:(lia)) as (w' & o & pv' & k' & Hrun & Hrep' & Hall & Hb).
      rewrite Hrun. exists w', (pv1 :: o), pv', k'. split; [reflexivity|]. split; [exact Hrep'|]. split.
      * constructor; [|exact Hall]. replace (kk + btw) with 8 in Hpv1 by lia. exact Hpv1.
      * cbn [af_bits]. rewrite <- app_assoc, Hb. change (bitsof 0 0) with (@nil bool). cbn [app].
        replace 8%nat with (k + N.to_nat btw)%nat by lia.
        rewrite Hbits, Hval, <- app_assoc. reflexivity.
    + (* bits remain in ch: this was the last chunk *)
      assert (Ebb : btw = bits) by (unfold btw in *; lia).
      replace (bits - btw) with 0 by lia.
      assert (Hret : forall w0, write_bits_loop f w0 val 0 = (w0, [])) by (intros w0; destruct f; reflexivity).
      rewrite Hret.
      exists {| bw_ch := pv1 * 2 ^ (8 - kk - btw); bw_off := 7 - kk - btw |}, [], pv1, (k + N.to_nat btw)%nat.
      split; [reflexivity|]. split.
      * unfold wrep. cbn [bw_off bw_ch]. repeat split; try lia.
        -- f_equal. f_equal. lia.
        -- replace (N.of_nat (k + N.to_nat btw)) with (kk + btw) by lia. exact Hpv1.
      * split; [constructor|]. cbn [af_bits app]. rewrite Hbits, Hval.
        replace (bits - btw) with 0 by lia. cbn [N.to_nat af_byte_bits]. rewrite app_nil_r. reflexivity.
Qed.

(* ================= BitWriter runs ================= *)
Lemma wrep_0 : forall w pv, wrep w pv 0 -> w = bw_init /\ pv = 0.
Proof.
  intros [ch off] pv (H1 & H2 & H3 & H4). cbn [bw_off bw_ch] in *.
  change (2 ^ N.of_nat 0) with 1 in H4. assert (pv = 0) by lia. subst pv.
  split; [|reflexivity]. unfold bw_init. f_equal; [rewrite H3; reflexivity | rewrite H2; reflexivity].
Qed.

Lemma rev'_rev_append : forall (o acc : list N), rev' (rev_append o acc) = rev' acc ++ o.
Proof.
  intros o acc. unfold rev'. rewrite !rev_append_rev, !app_nil_r, rev_app_distr, rev_involutive. reflexivity.
Qed.

Definition payload (fs : list (N * N)) : list bool := flat_map (fun f => bitsof (N.to_nat (snd f)) (fst f)) fs.
Definition wr_ops (fs : list (N * N)) : list bitop := map (fun f => BWr (fst f) (snd f)) fs.
Definition widths_ok (fs : list (N * N)) : Prop := Forall (fun f => snd f <= 32) fs.

Lemma bs_run_app : forall a b s, bs_run (a ++ b) s = match bs_run a s with Some s' => bs_run b s' | None => None end.
Proof.
  induction a as [|x a IH]; intros b s; [reflexivity|].
  cbn [app bs_run]. destruct x as [v n|].
  - destruct (bs_write s v n); [apply IH|reflexivity].
  - destruct (bs_flush s); [apply IH|reflexivity].
Qed.

Lemma bs_write_spec : forall s v n pv k, wrep (bs_w s) pv k -> n <= 32 ->
  exists s' pv' k' o, bs_write s v n = Some s' /\ wrep (bs_w s') pv' k' /\ bs_bytes s' = bs_bytes s ++ o /\
    Forall (fun b => b < 256) o /\ af_bits o ++ bitsof k' pv' = bitsof k pv ++ bitsof (N.to_nat n) v.
Proof.
  intros s v n pv k Hrep Hn. unfold bs_write, write_bits.
  replace (32 <? n) with false by (symmetry; apply N.ltb_ge; exact Hn).
  destruct (write_loop_spec (S (N.to_nat n)) (bs_w s) v n pv k Hrep ltac:(lia)) as (w' & o & pv' & k' & Hrun & Hrep' & Hall & Hb).
  rewrite Hrun. eexists _, pv', k', o. split; [reflexivity|]. cbn [bs_w bs_out]. split; [exact Hrep'|].
  split; [unfold bs_bytes; cbn [bs_out]; apply rev'_rev_append|]. split; assumption.
Qed.

Lemma run_writes : forall fs s pv k, wrep (bs_w s) pv k -> widths_ok fs ->
  exists s' pv' k' o, bs_run (wr_ops fs) s = Some s' /\ wrep (bs_w s') pv' k' /\ bs_bytes s' = bs_bytes s ++ o /\
    Forall (fun b => b < 256) o /\ af_bits o ++ bitsof k' pv' = bitsof k pv ++ payload fs.
Proof.
  induction fs as [|[v n] fs IH]; intros s pv k Hrep Hw.
  - exists s, pv, k, []. cbn [wr_ops map bs_run af_bits app payload flat_map]. rewrite !app_nil_r.
    split; [reflexivity|]. split; [exact Hrep|]. split; [reflexivity|]. split; [constructor|reflexivity].
  - inversion Hw as [|? ? Hn Hw']; subst. cbn [snd] in Hn.
    destruct (bs_write_spec s v n pv k Hrep Hn) as (s1 & pv1 & k1 & o1 & Hr1 & Hrep1 & Hb1 & Hall1 & Hbits1).
    destruct (IH s1 pv1 k1 Hrep1 Hw') as (s2 & pv2 & k2 & o2 & Hr2 & Hrep2 & Hb2 & Hall2 & Hbits2).
    exists s2, pv2, k2, (o1 ++ o2). cbn [wr_ops map bs_run fst snd]. rewrite Hr1. fold (wr_ops fs). rewrite Hr2.
    split; [reflexivity|]. split; [exact Hrep2|]. split; [rewrite Hb2, Hb1, app_assoc; reflexivity|].
    split; [apply Forall_app; split; assumption|].
    rewrite af_bits_app, <- app_assoc, Hbits2, app_assoc, Hbits1. cbn [payload flat_map fst snd]. rewrite <- app_assoc. reflexivity.
Qed.

Lemma run_flush : forall s pv k, wrep (bs_w s) pv k ->
  exists s' o, bs_flush s = Some s' /\ bs_w s' = bw_init /\ bs_bytes s' = bs_bytes s ++ o /\ Forall (fun b => b < 256) o /\
    af_bits o = bitsof k pv ++ repeat false ((8 - k) mod 8).
Proof.
  intros s pv k Hrep. unfold bs_flush.
  pose proof Hrep as (Hk & Hoff & _ & _).
  destruct k as [|k].
  - destruct (wrep_0 _ _ Hrep) as [Hw _]. rewrite Hw. cbn [bw_init bw_off]. change (7 <? 7) with false.
    exists s, []. rewrite app_nil_r. split; [reflexivity|]. split; [exact Hw|]. split; [reflexivity|].
    split; [constructor|reflexivity].
  - rewrite Hoff. replace (7 - N.of_nat (S k) <? 7) with true by (symmetry; apply N.ltb_lt; lia).
    destruct (bs_write_spec s 0 (7 - N.of_nat (S k) + 1) pv (S k) Hrep ltac:(lia)) as (s1 & pv1 & k1 & o1 & Hr1 & Hrep1 & Hb1 & Hall1 & Hbits1).
    assert (Hlen : (8 * length o1 + k1 = S k + N.to_nat (7 - N.of_nat (S k) + 1))%nat).
    { apply (f_equal (@length bool)) in Hbits1. rewrite !app_length, af_bits_length, !bitsof_length in Hbits1. exact Hbits1. }
    destruct Hrep1 as (Hk1 & Hrest1).
    assert (Ek1 : k1 = 0%nat) by lia. subst k1.
    destruct (wrep_0 _ _ (conj Hk1 Hrest1)) as [Hw1 _].
    exists s1, o1. split; [exact Hr1|]. split; [exact Hw1|]. split; [exact Hb1|]. split; [exact Hall1|].
    cbn [af_byte_bits] in Hbits1. rewrite app_nil_r in Hbits1. rewrite Hbits1, bitsof_zero.
    f_equal. f_equal. rewrite Nat.mod_small by lia. lia.
Qed.

(* a row: fields then flush, from a byte boundary to a byte boundary *)
Lemma run_row : forall fs s, bs_w s = bw_init -> widths_ok fs ->
  exists s' o, bs_run (wr_ops fs ++ [BFl]) s = Some s' /\ bs_w s' = bw_init /\ bs_bytes s' = bs_bytes s ++ o /\
    Forall (fun b => b < 256) o /\
    af_bits o = payload fs ++ repeat false ((8 - length (payload fs) mod 8) mod 8).
Proof.
  intros fs s Hal Hw.
  assert (Hrep : wrep (bs_w s) 0 0) by (rewrite Hal; apply wrep_init).
  destruct (run_writes fs s 0 0%nat Hrep Hw) as (s1 & pv1 & k1 & o1 & Hr1 & Hrep1 & Hb1 & Hall1 & Hbits1).
  destruct (run_flush s1 pv1 k1 Hrep1) as (s2 & o2 & Hr2 & Hal2 & Hb2 & Hall2 & Hbits2).
  exists s2, (o1 ++ o2). rewrite bs_run_app, Hr1. cbn [bs_run]. rewrite Hr2.
  split; [reflexivity|]. split; [exact Hal2|]. split; [rewrite Hb2, Hb1, app_assoc; reflexivity|].
  split; [apply Forall_app; split; assumption|].
  cbn [af_byte_bits app] in Hbits1.
  rewrite af_bits_app, Hbits2, app_assoc, Hbits1. f_equal. f_equal.
  assert (Hlen : (8 * length o1 + k1 = length (payload fs))%nat).
  { apply (f_equal (@length bool)) in Hbits1. rewrite app_length, af_bits_length, bitsof_length in Hbits1. exact Hbits1. }
  destruct Hrep1 as (Hk1 & _).
  rewrite <- Hlen. rewrite Nat.add_comm, Nat.mul_comm, Nat.mod_add by lia. rewrite (Nat.mod_small k1) by lia. reflexivity.
Qed.

(* fields that fill whole bytes, no flush needed *)
Lemma run_whole : forall fs s, bs_w s = bw_init -> widths_ok fs -> (length (payload fs) mod 8 = 0)%nat ->
  exists s' o, bs_run (wr_ops fs) s = Some s' /\ bs_w s' = bw_init /\ bs_bytes s' = bs_bytes s ++ o /\
    Forall (fun b => b < 256) o /\ af_bits o = payload fs.
Proof.
  intros fs s Hal Hw Hm.
  assert (Hrep : wrep (bs_w s) 0 0) by (rewrite Hal; apply wrep_init).
  destruct (run_writes fs s 0 0%nat Hrep Hw) as (s1 & pv1 & k1 & o1 & Hr1 & Hrep1 & Hb1 & Hall1 & Hbits1).
  cbn [af_byte_bits app] in Hbits1.
  assert (Hlen : (8 * length o1 + k1 = length (payload fs))%nat).
  { apply (f_equal (@length bool)) in Hbits1. rewrite app_length, af_bits_length, bitsof_length in Hbits1. exact Hbits1. }
  pose proof Hrep1 as (Hk1 & _).
  assert (Ek : k1 = 0%nat).
  { rewrite <- Hlen in Hm. rewrite Nat.add_comm, Nat.mul_comm, Nat.mod_add in Hm by lia. rewrite Nat.mod_small in Hm by lia. exact Hm. }
  subst k1. destruct (wrep_0 _ _ Hrep1) as [Hw1 _].
  exists s1, o1. cbn [af_byte_bits] in Hbits1. rewrite app_nil_r in Hbits1. repeat split; assumption.
Qed.

(* ================= the decoder on what the writer emitted ================= *)
Lemma take_n_app : forall (a b : list N), take_n (length a) (a ++ b) = Some (a, b).
Proof. induction a as [|x a IH]; intros b; [reflexivity|]. cbn [length app take_n]. rewrite IH. reflexivity. Qed.

Lemma af_fields_spec : forall w vs rest,
  af_fields (length vs) w (flat_map (bitsof w) vs ++ rest) = Some (map (fun v => v mod 2 ^ N.of_nat w) vs, rest).
Proof.
  induction vs as [|v vs IH]; intros rest; [reflexivity|].
  cbn [length af_fields flat_map map]. rewrite <- app_assoc, af_field_bitsof, IH. cbn. reflexivity.
Qed.

Definition row_fs (vs : list N) (w : N) : list (N * N) := map (fun v => (v, w)) vs.

Lemma payload_row : forall vs w, payload (row_fs vs w) = flat_map (bitsof (N.to_nat w)) vs.
Proof. induction vs as [|v vs IH]; intros w; [reflexivity|]. cbn [row_fs map payload flat_map fst snd]. f_equal. apply IH. Qed.

Lemma flat_map_const_length : forall w vs, length (flat_map (bitsof w) vs) = (length vs * w)%nat.
Proof. induction vs as [|v vs IH]; [reflexivity|]. cbn [flat_map length]. rewrite app_length, bitsof_length, IH. lia. Qed.

Lemma widths_ok_row : forall vs w, w <= 32 -> widths_ok (row_fs vs w).
Proof. intros vs w H. unfold widths_ok, row_fs. apply Forall_forall. intros f Hf. apply in_map_iff in Hf. destruct Hf as [v [<- _]]. exact H. Qed.

Lemma map_mod_small : forall w vs, Forall (fun v => v < 2 ^ w) vs -> map (fun v => v mod 2 ^ w) vs = vs.
Proof.
  induction vs as [|v vs IH]; intros H; [reflexivity|]. inversion H; subst. cbn [map]. rewrite IH by assumption.
  rewrite N.mod_small by assumption. reflexivity.
Qed.

Lemma row_decode : forall vs w o rest, Forall (fun v => v < 2 ^ w) vs ->
  af_bits o = payload (row_fs vs w) ++ repeat false ((8 - length (payload (row_fs vs w)) mod 8) mod 8) ->
  af_row (length vs) w (o ++ rest) = Some (vs, rest).
Proof.
  intros vs w o rest Hfit Hbits. unfold af_row.
  assert (Hlen : (8 * length o = length vs * N.to_nat w + (8 - (length vs * N.to_nat w) mod 8) mod 8)%nat).
  { apply (f_equal (@length bool)) in Hbits. rewrite af_bits_length, app_length, repeat_length, payload_row, flat_map_const_length in Hbits. exact Hbits. }
  assert (Hnb : N.to_nat ((N.of_nat (length vs) * w + 7) / 8) = length o).
  { set (P := (length vs * N.to_nat w)%nat) in *.
    assert (Hp : (P mod 8 < 8)%nat) by (apply Nat.mod_upper_bound; lia).
    assert (Hpad : ((8 - P mod 8) mod 8 < 8)%nat) by (apply Nat.mod_upper_bound; lia).
    assert (HP : N.of_nat (length vs) * w = N.of_nat P) by (unfold P; lia).
    rewrite HP.
    assert (Hq : (N.of_nat P + 7) / 8 = N.of_nat (length o)).
    { symmetry. apply (N.div_unique _ 8 _ (N.of_nat P + 7 - 8 * N.of_nat (length o))); lia. }
    rewrite Hq. lia. }
  rewrite Hnb, take_n_app, Hbits, payload_row.
  replace (N.to_nat w) with (N.to_nat w) by reflexivity.
  rewrite af_fields_spec, N2Nat.id, map_mod_small by exact Hfit. reflexivity.
Qed.

(* a whole row, writer then decoder *)
Lemma row_roundtrip : forall vs w s, bs_w s = bw_init -> w <= 32 -> Forall (fun v => v < 2 ^ w) vs ->
  exists s' o, bs_run (wr_ops (row_fs vs w) ++ [BFl]) s = Some s' /\ bs_w s' = bw_init /\ bs_bytes s' = bs_bytes s ++ o /\
    forall rest, af_row (length vs) w (o ++ rest) = Some (vs, rest).
Proof.
  intros vs w s Hal Hw Hfit.
  destruct (run_row (row_fs vs w) s Hal (widths_ok_row vs w Hw)) as (s' & o & Hr & Hal' & Hb & _ & Hbits).
  exists s', o. repeat split; try assumption. intros rest. apply row_decode; assumption.
Qed.

(* ================= rows of the model = rows of wr_ops ================= *)
Lemma wr_ops_app : forall a b, wr_ops (a ++ b) = wr_ops a ++ wr_ops b.
Proof. intros. unfold wr_ops. apply map_app. Qed.
Lemma row_fs_app : forall a b w, row_fs (a ++ b) w = row_fs a w ++ row_fs b w.
Proof. intros. unfold row_fs. apply map_app. Qed.

Lemma lh_vec_ops_eq : forall (A : Type) (es : list A) n w (f : A -> N), length es = n ->
  lh_vec_ops n es w f = Some (wr_ops (row_fs (map f es) w) ++ [BFl]).
Proof.
  induction es as [|e es IH]; intros n w f Hn; subst n; [reflexivity|].
  cbn [length lh_vec_ops]. rewrite (IH (length es) w f eq_refl). reflexivity.
Qed.

Lemma lh_items_ops_eq : forall vec2 n2 w, length vec2 = n2 -> lh_items_ops n2 vec2 w = Some (wr_ops (row_fs vec2 w)).
Proof.
  induction vec2 as [|x t IH]; intros n2 w Hn; subst n2; [reflexivity|].
  cbn [length lh_items_ops]. rewrite (IH (length t) w eq_refl). reflexivity.
Qed.

Lemma lh_vecvec_ops_eq : forall (A : Type) (es : list A) n (cnt : A -> N) w (vec2 : A -> list N), length es = n ->
  (forall e, In e es -> length (vec2 e) = N.to_nat (cnt e)) ->
  lh_vecvec_ops n es cnt w vec2 = Some (wr_ops (row_fs (concat (map vec2 es)) w) ++ [BFl]).
Proof.
  induction es as [|e es IH]; intros n cnt w vec2 Hn Hlen; subst n; [reflexivity|].
  cbn [length lh_vecvec_ops map concat].
  rewrite (lh_items_ops_eq (vec2 e) (N.to_nat (cnt e)) w) by (apply Hlen; left; reflexivity).
  rewrite (IH (length es) cnt w vec2 eq_refl) by (intros x Hx; apply Hlen; right; exact Hx).
  rewrite row_fs_app, wr_ops_app, <- app_assoc. reflexivity.
Qed.

(* ================= header fields ================= *)
Lemma af_hfields_spec : forall widths (fs : list (N * N)) r,
  map snd fs = map (fun w => N.of_nat (8 * w)) widths ->
  af_hfields widths (payload fs ++ r) = Some (map (fun f => fst f mod 2 ^ snd f) fs).
Proof.
  induction widths as [|w widths IH]; intros fs r Hw.
  - destruct fs; [reflexivity|discriminate].
  - destruct fs as [|[v b] fs]; [discriminate|]. cbn [map snd fst] in Hw. injection Hw as Hb Hw'.
    cbn [af_hfields payload flat_map fst snd]. rewrite Hb, Nat2N.id, <- app_assoc, af_field_bitsof.
    fold (payload fs). rewrite (IH fs r Hw'). cbn [map fst snd]. reflexivity.
Qed.

Lemma payload_length : forall fs, length (payload fs) = fold_right Nat.add 0%nat (map (fun f => N.to_nat (snd f)) fs).
Proof. induction fs as [|f fs IH]; [reflexivity|]. cbn [payload flat_map map fold_right]. rewrite app_length, bitsof_length. fold (payload fs). rewrite IH. reflexivity. Qed.

Lemma hdr_decode : forall widths (fs : list (N * N)) o rest,
  af_bits o = payload fs -> map snd fs = map (fun w => N.of_nat (8 * w)) widths -> Forall (fun f => fst f < 2 ^ snd f) fs ->
  af_us widths (o ++ rest) = Some (map fst fs, rest).
Proof.
  intros widths fs o rest Hbits Hw Hfit. unfold af_us.
  assert (Hlen : fold_right Nat.add 0%nat widths = length o).
  { apply (f_equal (@length bool)) in Hbits. rewrite af_bits_length, payload_length in Hbits.
    assert (Hs : forall (ws : list nat) (gs : list (N * N)), map snd gs = map (fun w => N.of_nat (8 * w)) ws ->
               fold_right Nat.add 0%nat (map (fun f => N.to_nat (snd f)) gs) = (8 * fold_right Nat.add 0%nat ws)%nat).
    { induction ws as [|w ws IHw]; intros gs Hg; destruct gs as [|[v b] gs]; try discriminate; [reflexivity|].
      cbn [map snd] in Hg. injection Hg as Hb Hg'. cbn [map fold_right snd]. rewrite (IHw gs Hg'), Hb. lia. }
    rewrite (Hs widths fs Hw) in Hbits. lia. }
  rewrite Hlen, take_n_app, Hbits.
  rewrite <- (app_nil_r (payload fs)), (af_hfields_spec widths fs [] Hw).
  f_equal. f_equal. clear -Hfit. induction Hfit as [|f fs Hf _ IH]; [reflexivity|].
  cbn [map]. rewrite IH, N.mod_small by exact Hf. reflexivity.
Qed.

(* ================= zip / split inverses ================= *)
Lemma af_zip_page_eq : forall es,
  af_zip_page (map pe_nobjects_delta es) (map pe_length_delta es) (map pe_nshared es) (map pe_identifiers es)
              (map pe_numerators es) (map pe_content_offset_delta es) (map pe_content_length_delta es) = es.
Proof. induction es as [|[a b c d e f g] es IH]; [reflexivity|]. cbn [map af_zip_page]. cbn. f_equal. exact IH. Qed.

Lemma af_zip_shared_eq : forall es,
  af_zip_shared (map se_length_delta es) (map se_signature es) (map se_nobjects_m1 es) = es.
Proof. induction es as [|[a b c] es IH]; [reflexivity|]. cbn [map af_zip_shared]. cbn. f_equal. exact IH. Qed.

Lemma af_split_eq : forall (A : Type) (es : list A) (cnt : A -> N) (vec : A -> list N),
  (forall e, In e es -> length (vec e) = N.to_nat (cnt e)) ->
  af_split (map cnt es) (concat (map vec es)) = map vec es.
Proof.
  induction es as [|e es IH]; intros cnt vec Hlen; [reflexivity|].
  cbn [map concat af_split]. rewrite <- (Hlen e (or_introl eq_refl)).
  rewrite firstn_app, Nat.sub_diag, firstn_all, firstn_O, app_nil_r.
  rewrite skipn_app, Nat.sub_diag, skipn_all. cbn [skipn app].
  rewrite IH by (intros x Hx; apply Hlen; right; exact Hx). reflexivity.
Qed.

Lemma fold_add_acc : forall l a, fold_left N.add l a = a + fold_left N.add l 0.
Proof. induction l as [|x l IH]; intros a; cbn [fold_left]; [lia|]. rewrite (IH (a + x)), (IH (0 + x)). lia. Qed.

Lemma af_sum_concat : forall (A : Type) (es : list A) (cnt : A -> N) (vec : A -> list N),
  (forall e, In e es -> length (vec e) = N.to_nat (cnt e)) ->
  N.to_nat (af_sum (map cnt es)) = length (concat (map vec es)).
Proof.
  induction es as [|e es IH]; intros cnt vec Hlen; [reflexivity|].
  cbn [map concat]. rewrite app_length. unfold af_sum in *. cbn [fold_left]. rewrite fold_add_acc.
  rewrite <- (IH cnt vec) by (intros x Hx; apply Hlen; right; exact Hx).
  rewrite (Hlen e (or_introl eq_refl)). lia.
Qed.

Lemma Forall_concat_map : forall (A : Type) (es : list A) (vec : A -> list N) (P : N -> Prop),
  (forall e, In e es -> Forall P (vec e)) -> Forall P (concat (map vec es)).
Proof.
  induction es as [|e es IH]; intros vec P H; [constructor|].
  cbn [map concat]. apply Forall_app. split; [apply H; left; reflexivity|apply IH; intros x Hx; apply H; right; exact Hx].
Qed.

Lemma Forall_map_In : forall (A : Type) (es : list A) (f : A -> N) (P : N -> Prop),
  (forall e, In e es -> P (f e)) -> Forall P (map f es).
Proof. intros A es f P H. apply Forall_forall. intros x Hx. apply in_map_iff in Hx. destruct Hx as [e [<- He]]. apply H, He. Qed.

Lemma bs_run_app_some : forall a b s s1, bs_run a s = Some s1 -> bs_run (a ++ b) s = bs_run b s1.
Proof. intros a b s s1 H. rewrite bs_run_app, H. reflexivity. Qed.

Lemma some_inj : forall (A : Type) (a b : A), Some a = Some b -> a = b.
Proof. intros A a b H. congruence. Qed.

Lemma lh_cat_cons : forall a l, lh_cat (Some a :: l) = match lh_cat l with Some b => Some (a ++ b) | None => None end.
Proof. reflexivity. Qed.
Lemma lh_cat_nil : lh_cat [] = Some [].
Proof. reflexivity. Qed.

(* ================= page offset hint table ================= *)
Definition pe_fits (t : hp_table) (e : hp_entry) : Prop :=
  pe_nobjects_delta e < 2 ^ hp_bits_nobjects t /\ pe_length_delta e < 2 ^ hp_bits_length t /\
  pe_nshared e < 2 ^ hp_bits_nshared t /\
  length (pe_identifiers e) = N.to_nat (pe_nshared e) /\ length (pe_numerators e) = N.to_nat (pe_nshared e) /\
  Forall (fun v => v < 2 ^ hp_bits_identifier t) (pe_identifiers e) /\
  Forall (fun v => v < 2 ^ hp_bits_numerator t) (pe_numerators e) /\
  pe_content_offset_delta e < 2 ^ hp_bits_content_offset t /\ pe_content_length_delta e < 2 ^ hp_bits_content_length t.

(* every field fits the width it is written with; widths are at most 32 (the writer's limit) *)
Definition hp_fits (npages : nat) (t : hp_table) : Prop :=
  length (hp_entries t) = npages /\
  hp_min_nobjects t < 2 ^ 32 /\ hp_first_page_offset t < 2 ^ 32 /\ hp_min_length t < 2 ^ 32 /\
  hp_min_content_offset t < 2 ^ 32 /\ hp_min_content_length t < 2 ^ 32 /\ hp_denominator t < 2 ^ 16 /\
  hp_bits_nobjects t <= 32 /\ hp_bits_length t <= 32 /\ hp_bits_content_offset t <= 32 /\ hp_bits_content_length t <= 32 /\
  hp_bits_nshared t <= 32 /\ hp_bits_identifier t <= 32 /\ hp_bits_numerator t <= 32 /\
  forall e, In e (hp_entries t) -> pe_fits t e.

Definition hp_hdr_fs (t : hp_table) : list (N * N) :=
  [(hp_min_nobjects t, 32); (hp_first_page_offset t, 32); (hp_bits_nobjects t, 16); (hp_min_length t, 32);
   (hp_bits_length t, 16); (hp_min_content_offset t, 32); (hp_bits_content_offset t, 16); (hp_min_content_length t, 32);
   (hp_bits_content_length t, 16); (hp_bits_nshared t, 16); (hp_bits_identifier t, 16); (hp_bits_numerator t, 16);
   (hp_denominator t, 16)].

Lemma le32_lt16 : forall x, x <= 32 -> x < 2 ^ 16.
Proof. intros x H. assert (32 < 2 ^ 16) by reflexivity. lia. Qed.

Lemma ltb32_false : forall x, x <= 32 -> (32 <? x) = false.
Proof. intros x H. apply N.ltb_ge. exact H. Qed.

Lemma hpage_roundtrip : forall npages t ops s, hp_fits npages t -> hpage_ops npages t = Some ops -> bs_w s = bw_init ->
  exists s' o, bs_run ops s = Some s' /\ bs_w s' = bw_init /\ bs_bytes s' = bs_bytes s ++ o /\
    forall rest, af_decode_page_table npages (o ++ rest) = Some (t, rest).
Proof.
  intros npages t ops s Hfit Hops Hal.
  destruct Hfit as (Hlen & F1 & F2 & F4 & F6 & F8 & F13 & W3 & W5 & W7 & W9 & W10 & W11 & W12 & Hent).
  set (es := hp_entries t) in *.
  assert (Hidl : forall e, In e es -> length (pe_identifiers e) = N.to_nat (pe_nshared e)) by (intros e He; apply (Hent e He)).
  assert (Hnul : forall e, In e es -> length (pe_numerators e) = N.to_nat (pe_nshared e)) by (intros e He; apply (Hent e He)).
  assert (Hshape : hpage_ops npages t = Some (wr_ops (hp_hdr_fs t) ++
            (wr_ops (row_fs (map pe_nobjects_delta es) (hp_bits_nobjects t)) ++ [BFl]) ++
            (wr_ops (row_fs (map pe_length_delta es) (hp_bits_length t)) ++ [BFl]) ++
            (wr_ops (row_fs (map pe_nshared es) (hp_bits_nshared t)) ++ [BFl]) ++
            (wr_ops (row_fs (concat (map pe_identifiers es)) (hp_bits_identifier t)) ++ [BFl]) ++
            (wr_ops (row_fs (concat (map pe_numerators es)) (hp_bits_numerator t)) ++ [BFl]) ++
            (wr_ops (row_fs (map pe_content_offset_delta es) (hp_bits_content_offset t)) ++ [BFl]) ++
            (wr_ops (row_fs (map pe_content_length_delta es) (hp_bits_content_length t)) ++ [BFl]) ++ [])).
  { unfold hpage_ops. fold es.
    rewrite !(lh_vec_ops_eq hp_entry es npages) by exact Hlen.
    rewrite (lh_vecvec_ops_eq hp_entry es npages pe_nshared (hp_bits_identifier t) pe_identifiers Hlen Hidl).
    rewrite (lh_vecvec_ops_eq hp_entry es npages pe_nshared (hp_bits_numerator t) pe_numerators Hlen Hnul).
    reflexivity. }
  rewrite Hshape in Hops. apply some_inj in Hops. subst ops. clear Hshape.
  (* header *)
  assert (Hw0 : widths_ok (hp_hdr_fs t)) by (unfold widths_ok, hp_hdr_fs; repeat constructor; cbn [snd]; lia).
  assert (Hm0 : (length (payload (hp_hdr_fs t)) mod 8 = 0)%nat) by (rewrite payload_length; reflexivity).
  destruct (run_whole (hp_hdr_fs t) s Hal Hw0 Hm0) as (s0 & o0 & R0 & A0 & B0 & _ & D0).
  assert (Hf0 : Forall (fun f => fst f < 2 ^ snd f) (hp_hdr_fs t)).
  { unfold hp_hdr_fs. repeat constructor; cbn [fst snd]; try assumption; apply le32_lt16; assumption. }
  (* rows *)
  destruct (row_roundtrip (map pe_nobjects_delta es) (hp_bits_nobjects t) s0 A0 W3
              (Forall_map_In _ es _ _ (fun e He => proj1 (Hent e He)))) as (s1 & o1 & R1 & A1 & B1 & D1).
  destruct (row_roundtrip (map pe_length_delta es) (hp_bits_length t) s1 A1 W5
              (Forall_map_In _ es _ _ (fun e He => proj1 (proj2 (Hent e He))))) as (s2 & o2 & R2 & A2 & B2 & D2).
  destruct (row_roundtrip (map pe_nshared es) (hp_bits_nshared t) s2 A2 W10
              (Forall_map_In _ es _ _ (fun e He => proj1 (proj2 (proj2 (Hent e He)))))) as (s3 & o3 & R3 & A3 & B3 & D3).
  destruct (row_roundtrip (concat (map pe_identifiers es)) (hp_bits_identifier t) s3 A3 W11
              (Forall_concat_map _ es _ _ (fun e He => proj1 (proj2 (proj2 (proj2 (proj2 (proj2 (Hent e He))))))))) as (s4 & o4 & R4 & A4 & B4 & D4).
  destruct (row_roundtrip (concat (map pe_numerators es)) (hp_bits_numerator t) s4 A4 W12
              (Forall_concat_map _ es _ _ (fun e He => proj1 (proj2 (proj2 (proj2 (proj2 (proj2 (proj2 (Hent e He)))))))))) as (s5 & o5 & R5 & A5 & B5 & D5).
  destruct (row_roundtrip (map pe_content_offset_delta es) (hp_bits_content_offset t) s5 A5 W7
              (Forall_map_In _ es _ _ (fun e He => proj1 (proj2 (proj2 (proj2 (proj2 (proj2 (proj2 (proj2 (Hent e He))))))))))) as (s6 & o6 & R6 & A6 & B6 & D6).
  destruct (row_roundtrip (map pe_content_length_delta es) (hp_bits_content_length t) s6 A6 W9
              (Forall_map_In _ es _ _ (fun e He => proj2 (proj2 (proj2 (proj2 (proj2 (proj2 (proj2 (proj2 (Hent e He))))))))))) as (s7 & o7 & R7 & A7 & B7 & D7).
  exists s7, (o0 ++ o1 ++ o2 ++ o3 ++ o4 ++ o5 ++ o6 ++ o7).
  split.
  { rewrite (bs_run_app_some _ _ _ _ R0), (bs_run_app_some _ _ _ _ R1), (bs_run_app_some _ _ _ _ R2), (bs_run_app_some _ _ _ _ R3),
            (bs_run_app_some _ _ _ _ R4), (bs_run_app_some _ _ _ _ R5), (bs_run_app_some _ _ _ _ R6).
    rewrite app_nil_r. exact R7. }
  split; [exact A7|]. split.
  { rewrite B7, B6, B5, B4, B3, B2, B1, B0. repeat rewrite <- app_assoc. reflexivity. }
  intros rest. unfold af_decode_page_table. repeat rewrite <- app_assoc.
  rewrite (hdr_decode [4; 4; 2; 4; 2; 4; 2; 4; 2; 2; 2; 2; 2]%nat (hp_hdr_fs t) o0 _ D0 eq_refl Hf0).
  cbn [map fst hp_hdr_fs].
  rewrite !ltb32_false by assumption. cbn [orb].
  rewrite map_length in D1, D2, D3, D6, D7. rewrite Hlen in D1, D2, D3, D6, D7.
  rewrite D1, D2, D3. cbv zeta.
  rewrite (af_sum_concat _ es pe_nshared pe_identifiers Hidl), D4.
  rewrite <- (af_sum_concat _ es pe_nshared pe_identifiers Hidl), (af_sum_concat _ es pe_nshared pe_numerators Hnul), D5.
  rewrite D6, D7.
  rewrite (af_split_eq _ es pe_nshared pe_identifiers Hidl), (af_split_eq _ es pe_nshared pe_numerators Hnul), af_zip_page_eq.
  f_equal. f_equal. subst es. destruct t; reflexivity.
Qed.

(* ================= shared object hint table ================= *)
Definition hs_fits (t : hs_table) : Prop :=
  N.to_nat (hs_ntotal t) = length (hs_entries t) /\
  hs_first_obj t < 2 ^ 32 /\ hs_first_offset t < 2 ^ 32 /\ hs_nfirst t < 2 ^ 32 /\ hs_ntotal t < 2 ^ 32 /\ hs_min_length t < 2 ^ 32 /\
  hs_bits_nobjects t <= 32 /\ hs_bits_length t <= 32 /\
  forall e, In e (hs_entries t) -> se_length_delta e < 2 ^ hs_bits_length t /\ se_signature e = 0 /\ se_nobjects_m1 e < 2 ^ hs_bits_nobjects t.

Definition hs_hdr_fs (t : hs_table) : list (N * N) :=
  [(hs_first_obj t, 32); (hs_first_offset t, 32); (hs_nfirst t, 32); (hs_ntotal t, 32); (hs_bits_nobjects t, 16);
   (hs_min_length t, 32); (hs_bits_length t, 16)].

Lemma in_firstn : forall (A : Type) n (l : list A) x, In x (firstn n l) -> In x l.
Proof.
  induction n as [|n IH]; intros l x H; [destruct H|]. destruct l as [|y l]; [destruct H|].
  cbn [firstn] in H. destruct H as [->|H]; [left; reflexivity|right; apply IH; exact H].
Qed.

Lemma af_sum_zeros : forall (A : Type) (es : list A) (f : A -> N), (forall e, In e es -> f e = 0) -> af_sum (map f es) = 0.
Proof.
  induction es as [|e es IH]; intros f H; [reflexivity|].
  unfold af_sum in *. cbn [map fold_left]. rewrite (H e (or_introl eq_refl)). cbn. apply IH. intros x Hx. apply H. right. exact Hx.
Qed.

Lemma hshared_roundtrip : forall t ops s, hs_fits t -> hshared_ops t = Some ops -> bs_w s = bw_init ->
  exists s' o, bs_run ops s = Some s' /\ bs_w s' = bw_init /\ bs_bytes s' = bs_bytes s ++ o /\
    forall rest, af_decode_shared_table (o ++ rest) = Some (t, rest).
Proof.
  intros t ops s Hfit Hops Hal.
  destruct Hfit as (Hlen & F1 & F2 & F3 & F4 & F6 & W5 & W7 & Hent).
  set (es := hs_entries t) in *.
  assert (Hshape : hshared_ops t = Some (wr_ops (hs_hdr_fs t) ++
            (wr_ops (row_fs (map se_length_delta es) (hs_bits_length t)) ++ [BFl]) ++
            (wr_ops (row_fs (map se_signature es) 1) ++ [BFl]) ++
            (wr_ops (row_fs (map se_nobjects_m1 es) (hs_bits_nobjects t)) ++ [BFl]) ++ [])).
  { unfold hshared_ops. fold es.
    replace (existsb (fun x => negb (se_signature x =? 0)) (firstn (N.to_nat (hs_ntotal t)) es)) with false.
    2:{ symmetry. apply not_true_is_false. intros Hex. apply existsb_exists in Hex. destruct Hex as [x [Hx Hs]].
        apply in_firstn in Hx. destruct (Hent x Hx) as (_ & Hz & _). rewrite Hz in Hs. discriminate. }
    rewrite !(lh_vec_ops_eq hs_entry es (N.to_nat (hs_ntotal t))) by (symmetry; exact Hlen).
    reflexivity. }
  rewrite Hshape in Hops. apply some_inj in Hops. subst ops. clear Hshape.
  assert (Hw0 : widths_ok (hs_hdr_fs t)) by (unfold widths_ok, hs_hdr_fs; repeat constructor; cbn [snd]; lia).
  assert (Hm0 : (length (payload (hs_hdr_fs t)) mod 8 = 0)%nat) by (rewrite payload_length; reflexivity).
  destruct (run_whole (hs_hdr_fs t) s Hal Hw0 Hm0) as (s0 & o0 & R0 & A0 & B0 & _ & D0).
  assert (Hf0 : Forall (fun f => fst f < 2 ^ snd f) (hs_hdr_fs t)).
  { unfold hs_hdr_fs. repeat constructor; cbn [fst snd]; try assumption; apply le32_lt16; assumption. }
  destruct (row_roundtrip (map se_length_delta es) (hs_bits_length t) s0 A0 W7
              (Forall_map_In _ es _ _ (fun e He => proj1 (Hent e He)))) as (s1 & o1 & R1 & A1 & B1 & D1).
  assert (Hsig : Forall (fun v => v < 2 ^ 1) (map se_signature es)).
  { apply Forall_map_In. intros e He. destruct (Hent e He) as (_ & Hz & _). rewrite Hz. reflexivity. }
  destruct (row_roundtrip (map se_signature es) 1 s1 A1 ltac:(lia) Hsig) as (s2 & o2 & R2 & A2 & B2 & D2).
  destruct (row_roundtrip (map se_nobjects_m1 es) (hs_bits_nobjects t) s2 A2 W5
              (Forall_map_In _ es _ _ (fun e He => proj2 (proj2 (Hent e He))))) as (s3 & o3 & R3 & A3 & B3 & D3).
  exists s3, (o0 ++ o1 ++ o2 ++ o3).
  split.
  { rewrite (bs_run_app_some _ _ _ _ R0), (bs_run_app_some _ _ _ _ R1), (bs_run_app_some _ _ _ _ R2).
    rewrite app_nil_r. exact R3. }
  split; [exact A3|]. split.
  { rewrite B3, B2, B1, B0. repeat rewrite <- app_assoc. reflexivity. }
  intros rest. unfold af_decode_shared_table. repeat rewrite <- app_assoc.
  rewrite (hdr_decode [4; 4; 4; 4; 2; 4; 2]%nat (hs_hdr_fs t) o0 _ D0 eq_refl Hf0).
  cbn [map fst hs_hdr_fs].
  rewrite !ltb32_false by assumption. cbn [orb]. cbv zeta.
  rewrite map_length in D1, D2, D3. rewrite <- Hlen in D1, D2, D3.
  rewrite D1, D2.
  rewrite (af_sum_zeros _ es se_signature (fun e He => proj1 (proj2 (Hent e He)))).
  change (16 * N.to_nat 0)%nat with 0%nat. cbn [take_n]. rewrite D3, af_zip_shared_eq.
  f_equal. f_equal. subst es. destruct t; reflexivity.
Qed.

(* ================= generic (outline) hint table ================= *)
Definition hg_fits (t : hg_table) : Prop :=
  hg_first_obj t < 2 ^ 32 /\ hg_first_offset t < 2 ^ 32 /\ hg_nobjects t < 2 ^ 32 /\ hg_length t < 2 ^ 32.

Definition hg_fs (t : hg_table) : list (N * N) := [(hg_first_obj t, 32); (hg_first_offset t, 32); (hg_nobjects t, 32); (hg_length t, 32)].

Lemma hgeneric_roundtrip : forall t s, hg_fits t -> bs_w s = bw_init ->
  exists s' o, bs_run (hgeneric_ops t) s = Some s' /\ bs_w s' = bw_init /\ bs_bytes s' = bs_bytes s ++ o /\
    forall rest, af_decode_generic_table (o ++ rest) = Some (t, rest).
Proof.
  intros t s (F1 & F2 & F3 & F4) Hal.
  change (hgeneric_ops t) with (wr_ops (hg_fs t)).
  assert (Hw0 : widths_ok (hg_fs t)) by (unfold widths_ok, hg_fs; repeat constructor; cbn [snd]; lia).
  assert (Hm0 : (length (payload (hg_fs t)) mod 8 = 0)%nat) by (rewrite payload_length; reflexivity).
  destruct (run_whole (hg_fs t) s Hal Hw0 Hm0) as (s0 & o0 & R0 & A0 & B0 & _ & D0).
  exists s0, o0. repeat split; try assumption.
  intros rest. unfold af_decode_generic_table.
  assert (Hf0 : Forall (fun f => fst f < 2 ^ snd f) (hg_fs t)) by (unfold hg_fs; repeat constructor; assumption).
  rewrite (hdr_decode [4; 4; 4; 4]%nat (hg_fs t) o0 _ D0 eq_refl Hf0).
  cbn [map fst hg_fs]. destruct t; reflexivity.
Qed.

(* ================= the hint stream ================= *)
Lemma skipn_app_exact : forall (A : Type) (a b : list A), skipn (length a) (a ++ b) = b.
Proof. intros. rewrite skipn_app, Nat.sub_diag, skipn_all. reflexivity. Qed.

Lemma bs_count_bytes : forall s, bs_count s = N.of_nat (length (bs_bytes s)).
Proof. intros s. unfold bs_count, bs_bytes, rev'. rewrite rev_append_rev, app_nil_r, rev_length. reflexivity. Qed.

(* hint_roundtrip: the Annex F decoder reads back exactly the tables the encoder was given, for all tables
   whose fields fit their widths (what calc_hpage_fits_lemma / nbits_adequate establish for computed tables).
   The outline table is present in the stream iff it has objects. *)
Lemma hint_roundtrip_lemma : forall npages hp hs ho data pS pO,
  hp_fits npages hp -> hs_fits hs -> hg_fits ho ->
  gen_hint_stream npages hp hs ho = Some (data, pS, pO) ->
  exists ends, af_decode_hints npages data pS (if 0 <? hg_nobjects ho then Some pO else None)
               = Some (hp, hs, if 0 <? hg_nobjects ho then Some ho else None, ends).
Proof.
  intros npages hp hs ho data pS pO Hp Hs Hg Hgen.
  unfold gen_hint_stream in Hgen.
  destruct (hpage_ops npages hp) as [po|] eqn:Epo; [|discriminate].
  destruct (hshared_ops hs) as [so|] eqn:Eso; [|discriminate].
  destruct (hpage_roundtrip npages hp po bs_init Hp Epo eq_refl) as (s1 & o1 & R1 & A1 & B1 & D1).
  rewrite R1 in Hgen.
  destruct (hshared_roundtrip hs so s1 Hs Eso A1) as (s2 & o2 & R2 & A2 & B2 & D2).
  rewrite R2 in Hgen.
  change (bs_bytes bs_init) with (@nil N) in B1. cbn [app] in B1.
  unfold af_decode_hints.
  destruct (0 <? hg_nobjects ho) eqn:Eo.
  - destruct (hgeneric_roundtrip ho s2 Hg A2) as (s3 & o3 & R3 & A3 & B3 & D3).
    rewrite R3 in Hgen. injection Hgen as <- <- <-.
    rewrite B3, B2, B1, <- app_assoc.
    rewrite D1. rewrite !bs_count_bytes, B1, Nat2N.id, skipn_app_exact, D2.
    rewrite B2, B1, Nat2N.id, app_assoc, skipn_app_exact.
    rewrite <- (app_nil_r o3), D3. eexists. reflexivity.
  - injection Hgen as <- <- <-.
    rewrite B2, B1. rewrite D1. rewrite bs_count_bytes, B1, Nat2N.id, skipn_app_exact.
    rewrite <- (app_nil_r o2), D2. eexists. reflexivity.
Qed.
