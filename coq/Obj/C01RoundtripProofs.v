(* Round trip of the writer model's object printer through the STRICT object parser (the specification
   of C02/C01): what `unparse` prints is read back by `parse_obj` as the same object, for every object,
   provided the string and name printers have that property (stated as section hypotheses and discharged
   for the concrete printers below). Statements are fixed. *)
From QV Require Import Base.Bytes File.StrictSyntax Obj.Queue Obj.WriterModel Obj.WmPrinters File.C02Proofs.
From Coq Require Import Lia.
Local Open Scope N_scope.

(* the strict reader's value of a writer-model object (references renumbered by ren, null dictionary
   entries dropped because the printer drops them) *)
Fixpoint to_pobj (objs : list (N * indirect)) (ren : N -> N) (o : obj) : pobj :=
  match o with
  | ONull => SpNull
  | OBool b => SpBool b
  | OInt z => SpInt z
  | OReal s => SpReal s
  | OStr s => SpStr s
  | OName n => SpName n
  | ORef id => SpRef (ren id) 0
  | OArr l => SpArr ((fix go (l : list obj) : list pobj :=
                        match l with [] => [] | x :: t => to_pobj objs ren x :: go t end) l)
  | ODict d => SpDict ((fix go (l : list (list N * obj)) : list (list N * pobj) :=
                          match l with
                          | [] => []
                          | kv :: t => if is_null_val objs (snd kv) then go t
                                       else (fst kv, to_pobj objs ren (snd kv)) :: go t
                          end) d)
  end.

(* what may follow a printed object so that tokenisation does not run on: white space or a delimiter *)
Definition ends_ok (rest : list N) : Prop :=
  match rest with [] => True | c :: _ => is_ws c = true \/ is_delim c = true end.

(* well-formed objects: reals are legal real spellings, names have no NUL, numbers and ids in range *)
Fixpoint wf_wobj (o : obj) : Prop :=
  match o with
  | OReal s => exists t, parse_number s = Some t /\ t = StReal s
  | OName n => ~ In 0 n /\ Forall (fun b => b < 256) n
  | OStr s => Forall (fun b => b < 256) s
  | OArr l => (fix all (l : list obj) : Prop := match l with [] => True | x :: t => wf_wobj x /\ all t end) l
  | ODict d => (fix all (l : list (list N * obj)) : Prop :=
                  match l with [] => True | kv :: t => (~ In 0 (fst kv) /\ Forall (fun b => b < 256) (fst kv)) /\ wf_wobj (snd kv) /\ all t end) d
  | _ => True
  end.

(* ---------- token-level lemmas ---------- *)
Lemma regular_not_ws : forall c, is_regular c = true -> is_ws c = false /\ is_delim c = false.
Proof.
  intros c H. unfold is_regular in H. apply andb_true_iff in H. destruct H as [H1 H2].
  apply negb_true_iff in H1. apply negb_true_iff in H2. split; assumption.
Qed.

Lemma ends_ok_take_regular : forall rest, ends_ok rest -> take_regular rest = ([], rest).
Proof.
  intros [|c t] H; [reflexivity|]. cbn [ends_ok] in H. cbn [take_regular].
  unfold is_regular. destruct H as [H|H]; rewrite H; cbn; try reflexivity.
  rewrite andb_false_r. reflexivity.
Qed.

Lemma take_regular_app : forall w rest, forallb is_regular w = true -> ends_ok rest ->
  take_regular (w ++ rest) = (w, rest).
Proof.
  induction w as [|c w IH]; intros rest Hw Hr.
  - apply ends_ok_take_regular. exact Hr.
  - cbn [forallb] in Hw. apply andb_true_iff in Hw. destruct Hw as [Hc Hw].
    cbn [app take_regular]. rewrite Hc, (IH _ Hw Hr). reflexivity.
Qed.

Lemma skip_ws_regular : forall c t, is_regular c = true -> skip_ws (c :: t) = c :: t.
Proof.
  intros c t H. destruct (regular_not_ws _ H) as [H1 H2].
  unfold skip_ws. cbn [skip_ws_c]. rewrite H1.
  destruct (c =? 37) eqn:E; [|reflexivity].
  apply N.eqb_eq in E. subst c. discriminate H2.
Qed.

(* the tokenizer on a regular first byte *)
Definition tok_regular (s : list N) : option (tok * list N) :=
  let (w, r) := take_regular s in
  match w with
  | [] => None
  | h :: _ => if is_digit h || (h =? 43) || (h =? 45) || (h =? 46)
              then match parse_number w with Some t => Some (t, r) | None => None end
              else Some (StKw w, r)
  end.

Lemma next_tok_regular_byte : forall c, In c all_bytes -> is_regular c = true ->
  forall t, next_tok (c :: t) = tok_regular (c :: t).
Proof.
  intros c Hin.
  vm_compute in Hin.
  repeat (destruct Hin as [<-|Hin]; [intros Hr t; try discriminate Hr; reflexivity|]).
  destruct Hin.
Qed.

Lemma next_tok_regular : forall c t, c < 256 -> is_regular c = true ->
  next_tok (c :: t) = tok_regular (c :: t).
Proof. intros c t Hc Hr. apply next_tok_regular_byte; [apply all_bytes_complete; exact Hc | exact Hr]. Qed.

Lemma all_digits_regular : forall w, all_digits w = true -> forallb is_regular w = true.
Proof.
  induction w as [|c w IH]; intros H; [reflexivity|].
  cbn [all_digits] in H. apply andb_true_iff in H. destruct H as [Hc Hw].
  cbn [forallb]. rewrite (IH Hw), andb_true_r.
  unfold is_digit in Hc. apply andb_true_iff in Hc. destruct Hc as [H1 H2].
  apply N.leb_le in H1. apply N.leb_le in H2.
  unfold is_regular, is_ws, is_delim.
  repeat match goal with |- context [c =? ?k] => replace (c =? k) with false by (symmetry; apply N.eqb_neq; lia) end.
  reflexivity.
Qed.

Lemma digit_lt_256 : forall c, is_digit c = true -> c < 256.
Proof.
  intros c Hc. unfold is_digit in Hc. apply andb_true_iff in Hc. destruct Hc as [H1 H2].
  apply N.leb_le in H2. lia.
Qed.

Lemma digit_not_sign : forall c, is_digit c = true -> c <> 43 /\ c <> 45.
Proof.
  intros c Hc. unfold is_digit in Hc. apply andb_true_iff in Hc. destruct Hc as [H1 H2].
  apply N.leb_le in H1. lia.
Qed.

Lemma strip_sign_cons : forall c t, strip_sign (c :: t) =
  if c =? 43 then (false, t) else if c =? 45 then (true, t) else (false, c :: t).
Proof.
  intros c t. destruct c as [|p]; [reflexivity|].
  do 6 (try (destruct p as [p|p|]; try reflexivity)).
Qed.

Lemma strip_sign_digit : forall c w, is_digit c = true -> strip_sign (c :: w) = (false, c :: w).
Proof.
  intros c w Hc. destruct (digit_not_sign _ Hc) as [H1 H2]. rewrite strip_sign_cons.
  apply N.eqb_neq in H1. apply N.eqb_neq in H2. rewrite H1, H2. reflexivity.
Qed.

(* a nonempty digit string followed by white space or a delimiter is read as that integer *)
Lemma next_tok_digits : forall w rest, all_digits w = true -> w <> [] -> ends_ok rest ->
  next_tok (w ++ rest) = Some (StInt (Z.of_N (dec_value w)), rest).
Proof.
  intros [|c w] rest Hd Hne Hr; [congruence|].
  pose proof (all_digits_regular _ Hd) as Hreg.
  cbn [all_digits] in Hd. apply andb_true_iff in Hd. destruct Hd as [Hc Hw].
  cbn [forallb] in Hreg. apply andb_true_iff in Hreg. destruct Hreg as [Hrc Hrw].
  cbn [app]. rewrite next_tok_regular by (try apply digit_lt_256; assumption).
  unfold tok_regular. change (c :: w ++ rest) with ((c :: w) ++ rest).
  rewrite take_regular_app; [| cbn [forallb]; rewrite Hrc, Hrw; reflexivity | exact Hr].
  rewrite Hc. cbn [orb]. unfold parse_number. rewrite strip_sign_digit by exact Hc.
  cbn [all_digits]. rewrite Hc, Hw. reflexivity.
Qed.

Lemma next_tok_neg_digits : forall w rest, all_digits w = true -> w <> [] -> ends_ok rest ->
  next_tok (45 :: w ++ rest) = Some (StInt (- Z.of_N (dec_value w)), rest).
Proof.
  intros w rest Hd Hne Hr.
  pose proof (all_digits_regular _ Hd) as Hreg.
  rewrite next_tok_regular by (try reflexivity; lia).
  unfold tok_regular. change (45 :: w ++ rest) with ((45 :: w) ++ rest).
  rewrite take_regular_app; [| cbn [forallb]; rewrite Hreg; reflexivity | exact Hr].
  change (is_digit 45 || (45 =? 43) || (45 =? 45) || (45 =? 46)) with true. cbv iota.
  unfold parse_number. change (strip_sign (45 :: w)) with (true, w). cbv iota.
  destruct w as [|c w]; [congruence|]. rewrite Hd. reflexivity.
Qed.

Lemma dec_of_N_nonempty : forall n, dec_of_N n <> [].
Proof.
  intros n E. destruct (dec_of_N_value_lemma n) as [_ [_ H]]. rewrite E in H. cbn in H. lia.
Qed.

Lemma next_tok_dec_of_N : forall n rest, ends_ok rest ->
  next_tok (dec_of_N n ++ rest) = Some (StInt (Z.of_N n), rest).
Proof.
  intros n rest Hr. destruct (dec_of_N_value_lemma n) as [Hv [Hd _]].
  rewrite next_tok_digits by (try apply dec_of_N_nonempty; assumption).
  rewrite Hv. reflexivity.
Qed.

Lemma next_tok_dec_of_Z : forall z rest, ends_ok rest ->
  next_tok (dec_of_Z z ++ rest) = Some (StInt z, rest).
Proof.
  intros z rest Hr. destruct z as [|p|p]; unfold dec_of_Z.
  - change [48] with (dec_of_N 0). apply (next_tok_dec_of_N 0). exact Hr.
  - apply (next_tok_dec_of_N (Npos p)). exact Hr.
  - cbn [app]. destruct (dec_of_N_value_lemma (Npos p)) as [Hv [Hd _]].
    rewrite next_tok_neg_digits by (try apply dec_of_N_nonempty; assumption).
    rewrite Hv. reflexivity.
Qed.

(* keywords *)
Lemma next_tok_kw : forall c w rest, c < 256 -> forallb is_regular (c :: w) = true ->
  (is_digit c || (c =? 43) || (c =? 45) || (c =? 46)) = false -> ends_ok rest ->
  next_tok ((c :: w) ++ rest) = Some (StKw (c :: w), rest).
Proof.
  intros c w rest Hc Hreg Hk Hr.
  assert (Hrc : is_regular c = true) by (cbn [forallb] in Hreg; apply andb_true_iff in Hreg; tauto).
  cbn [app]. rewrite next_tok_regular by assumption.
  unfold tok_regular. change (c :: w ++ rest) with ((c :: w) ++ rest).
  rewrite take_regular_app by assumption. rewrite Hk. reflexivity.
Qed.

(* ---------- real spellings ---------- *)
Fixpoint split_dot (l : list N) : option (list N * list N) :=
  match l with
  | [] => None
  | 46 :: t => Some ([], t)
  | c :: t => match split_dot t with Some (a, b) => Some (c :: a, b) | None => None end
  end.

Lemma parse_number_eq : forall s, parse_number s =
  let (neg, body) := strip_sign s in
  match body with
  | [] => None
  | _ => if all_digits body then
           let v := Z.of_N (dec_value body) in Some (StInt (if neg then (- v)%Z else v))
         else match split_dot body with
              | Some (a, b) => if all_digits a && all_digits b && negb (Nat.eqb (length a + length b) 0)
                               then Some (StReal s) else None
              | None => None
              end
  end.
Proof. reflexivity. Qed.

Lemma split_dot_cons : forall c t, split_dot (c :: t) =
  if c =? 46 then Some ([], t)
  else match split_dot t with Some (a, b) => Some (c :: a, b) | None => None end.
Proof.
  intros c t. destruct c as [|p]; [reflexivity|].
  do 6 (try (destruct p as [p|p|]; try reflexivity)).
Qed.

Definition numch (c : N) : bool := is_digit c || (c =? 43) || (c =? 45) || (c =? 46).

Lemma numch_range : forall c, numch c = true -> 43 <= c <= 57.
Proof.
  intros c H. unfold numch, is_digit in H.
  repeat (apply orb_true_iff in H; destruct H as [H|H]); try (apply N.eqb_eq in H; lia).
  apply andb_true_iff in H. destruct H as [H1 H2]. apply N.leb_le in H1. apply N.leb_le in H2. lia.
Qed.

Lemma numch_regular : forall c, numch c = true -> is_regular c = true.
Proof.
  intros c H. pose proof (numch_range c H) as Hr.
  unfold is_regular, is_ws, is_delim.
  repeat match goal with |- context [c =? ?k] =>
    replace (c =? k) with false by (symmetry; apply N.eqb_neq;
      let E := fresh in intros E; subst c; try lia; discriminate H) end.
  reflexivity.
Qed.

Lemma all_digits_numch : forall w, all_digits w = true -> forallb numch w = true.
Proof.
  induction w as [|c w IH]; intros H; [reflexivity|].
  cbn [all_digits] in H. apply andb_true_iff in H. destruct H as [Hc Hw].
  cbn [forallb]. rewrite (IH Hw). unfold numch. rewrite Hc. reflexivity.
Qed.

Lemma split_dot_numch : forall l a b, split_dot l = Some (a, b) ->
  all_digits a = true -> all_digits b = true -> forallb numch l = true.
Proof.
  induction l as [|c t IH]; intros a b H Ha Hb; [reflexivity|].
  rewrite split_dot_cons in H. cbn [forallb]. destruct (c =? 46) eqn:E.
  - apply N.eqb_eq in E. subst c. injection H as <- <-.
    rewrite (all_digits_numch _ Hb). reflexivity.
  - destruct (split_dot t) as [[a' b']|] eqn:Et; [|discriminate H].
    injection H as <- <-. cbn [all_digits] in Ha. apply andb_true_iff in Ha. destruct Ha as [Hc Ha].
    rewrite (IH _ _ eq_refl Ha Hb). unfold numch. rewrite Hc. reflexivity.
Qed.

Lemma real_spelling_numch : forall s, parse_number s = Some (StReal s) ->
  s <> [] /\ forallb numch s = true.
Proof.
  intros s H. rewrite parse_number_eq in H.
  destruct s as [|c t]; [discriminate H|]. split; [discriminate|].
  assert (Hbody : forall body, body <> [] ->
     (if all_digits body then
           let v := Z.of_N (dec_value body) in Some (StInt (if true then (- v)%Z else v))
         else match split_dot body with
              | Some (a, b) => if all_digits a && all_digits b && negb (Nat.eqb (length a + length b) 0)
                               then Some (StReal (c :: t)) else None
              | None => None
              end) = Some (StReal (c :: t)) \/
     (if all_digits body then
           let v := Z.of_N (dec_value body) in Some (StInt (if false then (- v)%Z else v))
         else match split_dot body with
              | Some (a, b) => if all_digits a && all_digits b && negb (Nat.eqb (length a + length b) 0)
                               then Some (StReal (c :: t)) else None
              | None => None
              end) = Some (StReal (c :: t)) -> forallb numch body = true).
  { intros body _ [Hb|Hb];
    (destruct (all_digits body); [discriminate Hb|];
     destruct (split_dot body) as [[a b]|] eqn:Es; [|discriminate Hb];
     destruct (all_digits a) eqn:Ea; [|discriminate Hb];
     destruct (all_digits b) eqn:Eb; [|discriminate Hb];
     exact (split_dot_numch _ _ _ Es Ea Eb)). }
  rewrite strip_sign_cons in H.
  destruct (c =? 43) eqn:E1; [|destruct (c =? 45) eqn:E2].
  - destruct t as [|c' t']; [discriminate H|].
    change (forallb numch (c :: c' :: t')) with (numch c && forallb numch (c' :: t')). rewrite (Hbody (c' :: t')); [|discriminate|right; exact H].
    unfold numch. rewrite E1. rewrite !orb_true_r. reflexivity.
  - destruct t as [|c' t']; [discriminate H|].
    change (forallb numch (c :: c' :: t')) with (numch c && forallb numch (c' :: t')). rewrite (Hbody (c' :: t')); [|discriminate|left; exact H].
    unfold numch. rewrite E2. rewrite !orb_true_r. reflexivity.
  - apply Hbody; [discriminate|right; exact H].
Qed.

Lemma forallb_numch_regular : forall w, forallb numch w = true -> forallb is_regular w = true.
Proof.
  induction w as [|c w IH]; intros H; [reflexivity|].
  cbn [forallb] in *. apply andb_true_iff in H. destruct H as [Hc Hw].
  rewrite (numch_regular _ Hc), (IH Hw). reflexivity.
Qed.

Lemma next_tok_real : forall s rest, parse_number s = Some (StReal s) -> ends_ok rest ->
  next_tok (s ++ rest) = Some (StReal s, rest).
Proof.
  intros s rest H Hr. destruct (real_spelling_numch s H) as [Hne Hn].
  destruct s as [|c w]; [congruence|].
  pose proof (forallb_numch_regular _ Hn) as Hreg.
  cbn [forallb] in Hn. apply andb_true_iff in Hn. destruct Hn as [Hc Hw].
  pose proof (numch_range c Hc) as Hrange.
  cbn [app]. rewrite next_tok_regular; [| lia | apply numch_regular; exact Hc].
  unfold tok_regular. change (c :: w ++ rest) with ((c :: w) ++ rest).
  rewrite take_regular_app by assumption.
  fold (numch c). rewrite Hc, H. reflexivity.
Qed.

(* ---------- the object parser unfolded ---------- *)
Section Loops.
  Variable po : list N -> option (pobj * list N).
  Fixpoint arr_loop (k : nat) (s1 : list N) (acc : list pobj) : option (pobj * list N) :=
    match k with
    | O => None
    | S k' =>
        match next_tok s1 with
        | Some (StArrC, r1) => Some (SpArr (rev' acc), r1)
        | _ => match po s1 with
               | Some (o, r1) => arr_loop k' r1 (o :: acc)
               | None => None
               end
        end
    end.
  Fixpoint dict_loop (k : nat) (s1 : list N) (acc : list (list N * pobj)) : option (pobj * list N) :=
    match k with
    | O => None
    | S k' =>
        match next_tok s1 with
        | Some (StDictC, r1) => Some (SpDict (rev' acc), r1)
        | Some (StName key, r1) =>
            match po r1 with
            | Some (o, r2) => dict_loop k' r2 ((key, o) :: acc)
            | None => None
            end
        | _ => None
        end
    end.
End Loops.

Lemma parse_obj_S : forall f s, parse_obj (S f) s =
  match next_tok s with
  | None => None
  | Some (t, r) =>
      match t with
      | StInt z =>
          match next_tok r with
          | Some (StInt g, r2) =>
              match next_tok r2 with
              | Some (StKw w, r3) =>
                  if beq w kw_R && (0 <? z)%Z && (0 <=? g)%Z then Some (SpRef (Z.to_N z) (Z.to_N g), r3)
                  else Some (SpInt z, r)
              | _ => Some (SpInt z, r)
              end
          | _ => Some (SpInt z, r)
          end
      | StReal sp => Some (SpReal sp, r)
      | StStr v => Some (SpStr v, r)
      | StName n => Some (SpName n, r)
      | StKw w => if beq w kw_true then Some (SpBool true, r)
                 else if beq w kw_false then Some (SpBool false, r)
                 else if beq w kw_null then Some (SpNull, r)
                 else None
      | StArrO => arr_loop (parse_obj f) f r []
      | StDictO => dict_loop (parse_obj f) f r []
      | _ => None
      end
  end.
Proof. reflexivity. Qed.

Lemma parse_obj_sp : forall fuel s, parse_obj fuel (32 :: s) = parse_obj fuel s.
Proof.
  intros [|f] s; [reflexivity|]. rewrite !parse_obj_S.
  change (next_tok (32 :: s)) with (next_tok s). reflexivity.
Qed.

Lemma parse_obj_not_arrc : forall fuel s x r, parse_obj fuel s = Some x -> next_tok s <> Some (StArrC, r).
Proof.
  intros [|f] s x r H E; [discriminate H|]. rewrite parse_obj_S, E in H. discriminate H.
Qed.

Lemma arr_loop_step : forall po k s1 acc o r1, po s1 = Some (o, r1) ->
  (forall r, next_tok s1 <> Some (StArrC, r)) ->
  arr_loop po (S k) s1 acc = arr_loop po k r1 (o :: acc).
Proof.
  intros po k s1 acc o r1 Hpo Hn. cbn [arr_loop]. rewrite Hpo.
  destruct (next_tok s1) as [[[] r]|]; try reflexivity.
  exfalso. apply (Hn r). reflexivity.
Qed.

(* what follows an integer must not complete "n g R" *)
Definition no_ref_follow (rest : list N) : Prop :=
  match next_tok rest with
  | Some (StInt g, r2) => match next_tok r2 with Some (StKw w, _) => beq w kw_R = false | _ => True end
  | _ => True
  end.
Definition not_R (s : list N) : Prop :=
  match next_tok s with Some (StKw w, _) => beq w kw_R = false | _ => True end.

Lemma next_tok_sp0 : forall t, next_tok (32 :: 48 :: 32 :: t) = Some (StInt 0, 32 :: t).
Proof. reflexivity. Qed.

Lemma next_tok_spR : forall rest, ends_ok rest -> next_tok (32 :: 82 :: rest) = Some (StKw kw_R, rest).
Proof.
  intros rest Hr. change (next_tok (32 :: 82 :: rest)) with (next_tok ([82] ++ rest)).
  apply next_tok_kw; [reflexivity | reflexivity | reflexivity | exact Hr].
Qed.

Lemma wf_arr : forall l, wf_wobj (OArr l) <-> Forall wf_wobj l.
Proof.
  induction l as [|x t IH]; split; intros H.
  - constructor.
  - exact I.
  - destruct H as [H1 H2]. constructor; [exact H1 | apply IH; exact H2].
  - inversion H as [|? ? H1 H2]; subst. split; [exact H1 | apply IH; exact H2].
Qed.

Definition wf_key (k : list N) : Prop := ~ In 0 k /\ Forall (fun b => b < 256) k.
Lemma wf_dict : forall d, wf_wobj (ODict d) <-> Forall (fun kv => wf_key (fst kv) /\ wf_wobj (snd kv)) d.
Proof.
  induction d as [|x t IH]; split; intros H.
  - constructor.
  - exact I.
  - destruct H as [H1 [H2 H3]]. constructor; [split; [exact H1 | exact H2] | apply IH; exact H3].
  - inversion H as [|? ? [H1 H2] H3]; subst. split; [exact H1 | split; [exact H2 | apply IH; exact H3]].
Qed.

Section WithPrinters.
  Variable us : list N -> list N.
  Variable un : list N -> list N.
  (* the two printers are read back by the strict tokenizer *)
  Hypothesis us_ok : forall s rest, Forall (fun b => b < 256) s -> ends_ok rest ->
    next_tok (us s ++ rest) = Some (StStr s, rest).
  Hypothesis un_ok : forall n rest, ~ In 0 n -> Forall (fun b => b < 256) n -> ends_ok rest ->
    next_tok (un n ++ rest) = Some (StName n, rest).

  Section Fixed.
  Variable objs : list (N * indirect).
  Variable ren : N -> N.
  Hypothesis ren_pos : forall id, 0 < ren id.

  Local Notation U := (unparse us un objs ren).
  Local Notation P := (to_pobj objs ren).
  Definition ga (x : obj) : list N := sp ++ unparse us un objs ren x.
  Definition gd (kv : list N * obj) : list N :=
    if is_null_val objs (snd kv) then [] else sp ++ un (fst kv) ++ sp ++ unparse us un objs ren (snd kv).
  Definition FA (l : list obj) (rest : list N) : list N := flat_map ga l ++ 32 :: 93 :: rest.
  Definition FD (d : list (list N * obj)) (rest : list N) : list N := flat_map gd d ++ 32 :: 62 :: 62 :: rest.

  Fixpoint pdict (d : list (list N * obj)) : list (list N * pobj) :=
    match d with
    | [] => []
    | kv :: t => if is_null_val objs (snd kv) then pdict t else (fst kv, to_pobj objs ren (snd kv)) :: pdict t
    end.

  Lemma to_pobj_arr : forall l, P (OArr l) = SpArr (map P l).
  Proof.
    intros l. reflexivity.
  Qed.
  Lemma to_pobj_dict : forall d, P (ODict d) = SpDict (pdict d).
  Proof.
    intros d. reflexivity.
  Qed.

  Lemma U_arr : forall l rest, U (OArr l) ++ rest = 91 :: FA l rest.
  Proof.
    intros l rest. unfold FA. cbn [unparse]. cbn [app]. rewrite <- app_assoc. reflexivity.
  Qed.
  Lemma U_dict : forall d rest, U (ODict d) ++ rest = 60 :: 60 :: FD d rest.
  Proof.
    intros d rest. unfold FD. cbn [unparse]. cbn [app]. rewrite <- app_assoc. reflexivity.
  Qed.

  Definition head_of (o : obj) (F : list N) : tok * list N :=
    match o with
    | ONull => (StKw kw_null, F)
    | OBool true => (StKw kw_true, F)
    | OBool false => (StKw kw_false, F)
    | OInt z => (StInt z, F)
    | OReal s => (StReal s, F)
    | OStr s => (StStr s, F)
    | OName n => (StName n, F)
    | ORef id => (StInt (Z.of_N (ren id)), 32 :: 48 :: 32 :: 82 :: F)
    | OArr l => (StArrO, FA l F)
    | ODict d => (StDictO, FD d F)
    end.

  Lemma head_tok : forall o F, wf_wobj o -> ends_ok F -> next_tok (U o ++ F) = Some (head_of o F).
  Proof.
    intros o F Hwf HF. destruct o as [|b|z|s|s|n|l|d|id].
    - apply (next_tok_kw 110 [117; 108; 108]); try reflexivity; exact HF.
    - destruct b.
      + apply (next_tok_kw 116 [114; 117; 101]); try reflexivity; exact HF.
      + apply (next_tok_kw 102 [97; 108; 115; 101]); try reflexivity; exact HF.
    - apply next_tok_dec_of_Z. exact HF.
    - destruct Hwf as [t [H1 H2]]. subst t. apply next_tok_real; assumption.
    - apply us_ok; assumption.
    - destruct Hwf as [H1 H2]. apply un_ok; assumption.
    - rewrite U_arr. reflexivity.
    - rewrite U_dict. reflexivity.
    - cbn [unparse head_of]. rewrite <- app_assoc. apply next_tok_dec_of_N.
      left. reflexivity.
  Qed.
  Lemma ga_cons : forall x t rest, FA (x :: t) rest = 32 :: U x ++ FA t rest.
  Proof. intros x t rest. unfold FA, ga. cbn [flat_map sp app]. rewrite <- app_assoc. reflexivity. Qed.

  Lemma FA_ends_ok : forall l rest, ends_ok (FA l rest).
  Proof. intros [|x t] rest; [|rewrite ga_cons]; left; reflexivity. Qed.

  Lemma U_not_R : forall y F, wf_wobj y -> ends_ok F -> not_R (U y ++ F).
  Proof.
    intros y F Hwf HF. unfold not_R. rewrite (head_tok y F Hwf HF).
    destruct y as [|[|]|z|s|s|n|l|d|id]; cbn [head_of]; try exact I; reflexivity.
  Qed.

  Lemma U_nrf : forall y F, wf_wobj y -> ends_ok F -> not_R F -> no_ref_follow (U y ++ F).
  Proof.
    intros y F Hwf HF HR. unfold no_ref_follow. rewrite (head_tok y F Hwf HF).
    destruct y as [|[|]|z|s|s|n|l|d|id]; cbn [head_of]; try exact I.
    unfold not_R in HR. destruct (next_tok F) as [[[] r]|]; try exact I. exact HR.
  Qed.

  Lemma FA_not_R : forall l rest, Forall wf_wobj l -> not_R (FA l rest).
  Proof.
    intros [|x t] rest Hwf.
    - exact I.
    - rewrite ga_cons. inversion Hwf as [|? ? H1 H2]; subst.
      unfold not_R. change (next_tok (32 :: U x ++ FA t rest)) with (next_tok (U x ++ FA t rest)).
      apply U_not_R; [exact H1 | apply FA_ends_ok].
  Qed.

  Lemma FA_nrf : forall l rest, Forall wf_wobj l -> no_ref_follow (FA l rest).
  Proof.
    intros [|x t] rest Hwf.
    - exact I.
    - rewrite ga_cons. inversion Hwf as [|? ? H1 H2]; subst.
      unfold no_ref_follow. change (next_tok (32 :: U x ++ FA t rest)) with (next_tok (U x ++ FA t rest)).
      apply U_nrf; [exact H1 | apply FA_ends_ok | apply FA_not_R; exact H2].
  Qed.

  (* dictionaries *)
  Lemma FD_null : forall kv t rest, is_null_val objs (snd kv) = true -> FD (kv :: t) rest = FD t rest.
  Proof. intros kv t rest H. unfold FD. cbn [flat_map]. unfold gd at 1. rewrite H. reflexivity. Qed.
  Lemma FD_nonnull : forall kv t rest, is_null_val objs (snd kv) = false ->
    FD (kv :: t) rest = 32 :: un (fst kv) ++ 32 :: U (snd kv) ++ FD t rest.
  Proof.
    intros kv t rest H. unfold FD. cbn [flat_map]. unfold gd at 1. rewrite H.
    cbn [sp app]. rewrite <- !app_assoc. reflexivity.
  Qed.
  Lemma gd_null_len : forall kv t, is_null_val objs (snd kv) = true -> flat_map gd (kv :: t) = flat_map gd t.
  Proof. intros kv t H. cbn [flat_map]. unfold gd at 1. rewrite H. reflexivity. Qed.
  Lemma gd_nonnull_len : forall kv t, is_null_val objs (snd kv) = false ->
    length (flat_map gd (kv :: t)) = (2 + length (un (fst kv)) + length (U (snd kv)) + length (flat_map gd t))%nat.
  Proof.
    intros kv t H. cbn [flat_map]. unfold gd at 1. rewrite H.
    rewrite !app_length. cbn [sp length]. lia.
  Qed.

  Lemma FD_ends_ok : forall d rest, ends_ok (FD d rest).
  Proof.
    induction d as [|kv t IH]; intros rest.
    - left. reflexivity.
    - destruct (is_null_val objs (snd kv)) eqn:E.
      + rewrite FD_null by exact E. apply IH.
      + rewrite FD_nonnull by exact E. left. reflexivity.
  Qed.

  Definition wf_entry (kv : list N * obj) : Prop := wf_key (fst kv) /\ wf_wobj (snd kv).

  Lemma FD_nrf : forall d rest, Forall wf_entry d -> no_ref_follow (FD d rest).
  Proof.
    induction d as [|kv t IH]; intros rest Hwf.
    - exact I.
    - inversion Hwf as [|? ? [[H1 H2] H3] H4]; subst.
      destruct (is_null_val objs (snd kv)) eqn:E.
      + rewrite FD_null by exact E. apply IH. exact H4.
      + rewrite FD_nonnull by exact E. unfold no_ref_follow.
        change (next_tok (32 :: un (fst kv) ++ 32 :: U (snd kv) ++ FD t rest))
          with (next_tok (un (fst kv) ++ 32 :: U (snd kv) ++ FD t rest)).
        rewrite un_ok; [exact I | exact H1 | exact H2 | left; reflexivity].
  Qed.

  Section Step.
    Variable f : nat.
    Hypothesis IHf : forall o rest, wf_wobj o -> ends_ok rest ->
      (forall z, o = OInt z -> no_ref_follow rest) -> (length (U o) < f)%nat ->
      parse_obj f (U o ++ rest) = Some (P o, rest).

    Lemma arr_ok : forall rest l k acc, Forall wf_wobj l ->
      (length (flat_map ga l) <= f)%nat -> (length (flat_map ga l) < k)%nat ->
      arr_loop (parse_obj f) k (FA l rest) acc = Some (SpArr (rev' (rev (map P l) ++ acc)), rest).
    Proof.
      intros rest. induction l as [|x t IH]; intros k acc Hwf Hf Hk.
      - destruct k as [|k]; [inversion Hk|]. reflexivity.
      - inversion Hwf as [|? ? H1 H2]; subst.
        assert (Hlen : length (flat_map ga (x :: t)) = (1 + length (U x) + length (flat_map ga t))%nat).
        { cbn [flat_map]. unfold ga at 1. rewrite !app_length. reflexivity. }
        rewrite Hlen in Hf, Hk.
        destruct k as [|k]; [inversion Hk|].
        assert (Hx : parse_obj f (FA (x :: t) rest) = Some (P x, FA t rest)).
        { rewrite ga_cons, parse_obj_sp. apply IHf.
          - exact H1.
          - apply FA_ends_ok.
          - intros z _. apply FA_nrf. exact H2.
          - lia. }
        rewrite (arr_loop_step _ _ _ _ _ _ Hx).
        + rewrite IH by (try assumption; lia).
          cbn [map rev]. rewrite <- app_assoc. reflexivity.
        + intros r. apply (parse_obj_not_arrc _ _ _ _ Hx).
    Qed.

    Lemma dict_ok : forall rest d k acc, Forall wf_entry d ->
      (length (flat_map gd d) <= f)%nat -> (length (flat_map gd d) < k)%nat ->
      dict_loop (parse_obj f) k (FD d rest) acc = Some (SpDict (rev' (rev (pdict d) ++ acc)), rest).
    Proof.
      intros rest. induction d as [|kv t IH]; intros k acc Hwf Hf Hk.
      - destruct k as [|k]; [inversion Hk|]. reflexivity.
      - inversion Hwf as [|? ? [[H1 H2] H3] H4]; subst.
        destruct (is_null_val objs (snd kv)) eqn:E.
        + rewrite FD_null by exact E. rewrite gd_null_len in Hf, Hk by exact E.
          cbn [pdict]. rewrite E. apply IH; assumption.
        + rewrite FD_nonnull by exact E. rewrite gd_nonnull_len in Hf, Hk by exact E.
          destruct k as [|k]; [inversion Hk|].
          cbn [dict_loop].
          change (next_tok (32 :: un (fst kv) ++ 32 :: U (snd kv) ++ FD t rest))
            with (next_tok (un (fst kv) ++ 32 :: U (snd kv) ++ FD t rest)).
          rewrite un_ok; [| exact H1 | exact H2 | left; reflexivity].
          rewrite parse_obj_sp, IHf.
          * rewrite IH by (try assumption; lia).
            cbn [pdict]. rewrite E. cbn [rev]. rewrite <- app_assoc. reflexivity.
          * exact H3.
          * apply FD_ends_ok.
          * intros z _. apply FD_nrf. exact H4.
          * lia.
    Qed.
  End Step.

  Lemma unparse_parses_fuel : forall fuel o rest,
    wf_wobj o -> ends_ok rest -> (forall z, o = OInt z -> no_ref_follow rest) ->
    (length (U o) < fuel)%nat ->
    parse_obj fuel (U o ++ rest) = Some (P o, rest).
  Proof.
    induction fuel as [|f IH]; intros o rest Hwf Hr Hnr Hlen; [inversion Hlen|].
    rewrite parse_obj_S, (head_tok o rest Hwf Hr).
    destruct o as [|[|]|z|s|s|n|l|d|id]; cbn [head_of]; try reflexivity.
    - specialize (Hnr z eq_refl). unfold no_ref_follow in Hnr.
      destruct (next_tok rest) as [[[] r2]|]; try reflexivity.
      destruct (next_tok r2) as [[[] r3]|]; try reflexivity.
      rewrite Hnr. reflexivity.
    - assert (Hl : (length (flat_map ga l) + 3 < S f)%nat).
      { cbn [unparse] in Hlen. rewrite !app_length in Hlen. cbn [length] in Hlen.
        unfold ga. lia. }
      rewrite (arr_ok f IH rest l f []); [| apply wf_arr; exact Hwf | lia | lia].
      rewrite app_nil_r, rev'_rev, rev_involutive. reflexivity.
    - assert (Hl : (length (flat_map gd d) + 5 < S f)%nat).
      { cbn [unparse] in Hlen. rewrite !app_length in Hlen. cbn [length] in Hlen.
        unfold gd. lia. }
      rewrite (dict_ok f IH rest d f []); [| apply wf_dict; exact Hwf | lia | lia].
      rewrite app_nil_r, rev'_rev, rev_involutive. reflexivity.
    - rewrite next_tok_sp0, next_tok_spR by exact Hr.
      pose proof (ren_pos id) as Hp.
      replace (0 <? Z.of_N (ren id))%Z with true by (symmetry; apply Z.ltb_lt; lia).
      cbn [beq kw_R list_eqb N.eqb Pos.eqb andb Z.leb Z.compare]. 
      rewrite N2Z.id. reflexivity.
  Qed.
  End Fixed.

  (* MAIN: every printed object parses back to the same object, leaving exactly the rest *)
  (* FALSE: counterexample o = OInt 5, rest = [32;48;32;82] (" 0 R"), ren = fun _ => 1, fuel = 100:
     `ends_ok rest` holds (rest starts with a space) but the parser's look-ahead for "n g R" reads
     "5 0 R" as the reference SpRef 5 0 with rest [], not SpInt 5 with rest " 0 R"
     (Eval vm_compute in parse_obj 100 (unparse wm_unparse_string wm_unparse_name [] (fun _ => 1) (OInt 5) ++ [32;48;32;82])
      = Some (SpRef 5 0, [])); refuted formally as `unparse_parses_refuted_lemma` at the end of this file.
     Missing hypothesis: when o is an integer, what follows must not complete "n g R", i.e.
     `forall z, o = OInt z -> no_ref_follow rest` (no_ref_follow rest: if the first token of rest is an
     integer then the token after it is not the keyword R). With it the statement holds for every
     object: `unparse_parses_fixed` below. *)
  (* The statement without the look-ahead side condition is FALSE (refuted below as unparse_parses_refuted_lemma):
     o = OInt 5 followed by " 0 R" is read as the reference 5 0 R.
       Lemma unparse_parses_lemma : forall objs ren o rest fuel,
         wf_wobj o -> (forall id, 0 < ren id) -> ends_ok rest ->
         ( * enough fuel: more than the number of tokens printed * )
         (length (unparse us un objs ren o) < fuel)%nat ->
         parse_obj fuel (unparse us un objs ren o ++ rest) = Some (to_pobj objs ren o, rest).
       Proof. Abort. *)

  Lemma unparse_parses_fixed : forall objs ren o rest fuel,
    wf_wobj o -> (forall id, 0 < ren id) -> ends_ok rest ->
    (forall z, o = OInt z -> no_ref_follow rest) ->
    (length (unparse us un objs ren o) < fuel)%nat ->
    parse_obj fuel (unparse us un objs ren o ++ rest) = Some (to_pobj objs ren o, rest).
  Proof.
    intros objs ren o rest fuel Hwf Hren Hr Hnr Hlen.
    apply unparse_parses_fuel; assumption.
  Qed.

  (* the original statement holds for everything that is not a bare integer *)
  Lemma unparse_parses_nonint : forall objs ren o rest fuel,
    wf_wobj o -> (forall id, 0 < ren id) -> ends_ok rest ->
    (forall z, o <> OInt z) ->
    (length (unparse us un objs ren o) < fuel)%nat ->
    parse_obj fuel (unparse us un objs ren o ++ rest) = Some (to_pobj objs ren o, rest).
  Proof.
    intros objs ren o rest fuel Hwf Hren Hr Hni Hlen.
    apply unparse_parses_fixed; try assumption.
    intros z E. exfalso. exact (Hni z E).
  Qed.
End WithPrinters.

(* convenient sufficient conditions for no_ref_follow *)
Lemma no_ref_follow_nil : no_ref_follow [].
Proof. exact I. Qed.
(* "\nendobj\n..." follows the value of an indirect object *)
Lemma no_ref_follow_endobj : forall t, no_ref_follow ([10; 101; 110; 100; 111; 98; 106; 10] ++ t).
Proof. intros t. exact I. Qed.

(* ---------- names ---------- *)
Lemma lt16_cases : forall v, v < 16 ->
  v = 0 \/ v = 1 \/ v = 2 \/ v = 3 \/ v = 4 \/ v = 5 \/ v = 6 \/ v = 7 \/ v = 8 \/ v = 9 \/ v = 10 \/
  v = 11 \/ v = 12 \/ v = 13 \/ v = 14 \/ v = 15.
Proof. intros v H. lia. Qed.

Lemma hexd_regular : forall v, v < 16 -> is_regular (wm_hexd v) = true /\ hexv (wm_hexd v) = Some v.
Proof.
  intros v Hv. pose proof (lt16_cases v Hv) as H.
  repeat (destruct H as [->|H]; [split; reflexivity|]). subst v. split; reflexivity.
Qed.

Lemma name_unescape_cons : forall c rest, name_unescape (c :: rest) =
  let literal := match name_unescape rest with Some r => Some (c :: r) | None => None end in
  if c =? 35 then
    match rest with
    | a :: b :: t =>
        match hexv a, hexv b with
        | Some x, Some y =>
            match name_unescape t with
            | Some r => if x * 16 + y =? 0 then None else Some ((x * 16 + y) :: r)
            | None => None
            end
        | _, _ => literal
        end
    | _ => literal
    end
  else literal.
Proof. reflexivity. Qed.

Definition name_char_cls (b : N) : bool :=
  list_eqb N.eqb (wm_name_char b) [35; wm_hexd (b / 16); wm_hexd (b mod 16)]
  || (list_eqb N.eqb (wm_name_char b) [b] && is_regular b && negb (b =? 35)).

Lemma name_char_cls_all : forall b, b < 256 -> ((b =? 0) || name_char_cls b) = true.
Proof. apply byte_sweep. vm_compute. reflexivity. Qed.

Lemma name_char_byte : forall b, b < 256 -> b <> 0 ->
  (forall t, take_regular (wm_name_char b ++ t) = let (a, r) := take_regular t in (wm_name_char b ++ a, r)) /\
  (forall w, name_unescape (wm_name_char b ++ w) = match name_unescape w with Some r => Some (b :: r) | None => None end).
Proof.
  intros b Hb Hne. pose proof (name_char_cls_all b Hb) as H.
  apply orb_true_iff in H. destruct H as [H|H]; [apply N.eqb_eq in H; congruence|].
  unfold name_char_cls in H. apply orb_true_iff in H. destruct H as [H|H].
  - apply list_eqb_N_eq in H. rewrite H.
    assert (H1 : b / 16 < 16) by (apply N.div_lt_upper_bound; lia).
    assert (H2 : b mod 16 < 16) by (apply N.mod_lt; lia).
    destruct (hexd_regular _ H1) as [R1 X1]. destruct (hexd_regular _ H2) as [R2 X2].
    assert (Hv : b / 16 * 16 + b mod 16 = b) by (rewrite (N.div_mod' b 16) at 3; lia).
    split.
    + intros t. cbn [app take_regular]. rewrite R1, R2.
      change (is_regular 35) with true. cbv iota. destruct (take_regular t); reflexivity.
    + intros w. cbn [app]. rewrite name_unescape_cons. cbv zeta. change (35 =? 35) with true. cbv iota.
      rewrite X1, X2, Hv. destruct (name_unescape w); [|reflexivity].
      apply N.eqb_neq in Hne. rewrite Hne. reflexivity.
  - apply andb_true_iff in H. destruct H as [H H3]. apply andb_true_iff in H. destruct H as [H1 H2].
    apply list_eqb_N_eq in H1. rewrite H1. apply negb_true_iff in H3. split.
    + intros t. cbn [app take_regular]. rewrite H2. destruct (take_regular t); reflexivity.
    + intros w. cbn [app]. rewrite name_unescape_cons. cbv zeta. rewrite H3. reflexivity.
Qed.

Lemma name_chars_read : forall n rest, ~ In 0 n -> Forall (fun b => b < 256) n -> ends_ok rest ->
  take_regular (flat_map wm_name_char n ++ rest) = (flat_map wm_name_char n, rest) /\
  name_unescape (flat_map wm_name_char n) = Some n.
Proof.
  induction n as [|b n IH]; intros rest H0 Hb Hr.
  - cbn [flat_map app]. split; [apply ends_ok_take_regular; exact Hr | reflexivity].
  - inversion Hb as [|? ? Hb1 Hb2]; subst.
    assert (Hne : b <> 0) by (intros E; apply H0; left; exact E).
    assert (H0' : ~ In 0 n) by (intros E; apply H0; right; exact E).
    destruct (name_char_byte b Hb1 Hne) as [HA HB].
    destruct (IH rest H0' Hb2 Hr) as [IH1 IH2].
    cbn [flat_map]. split.
    + rewrite <- app_assoc, HA, IH1. reflexivity.
    + rewrite HB, IH2. reflexivity.
Qed.


(* ---------- strings ---------- *)
Lemma hexd_facts : forall v, v < 16 ->
  (forall t, next_tok (60 :: wm_hexd v :: t) =
             match hex_string (wm_hexd v :: t) None [] with Some (x, r) => Some (StStr x, r) | None => None end) /\
  (forall t acc, hex_string (wm_hexd v :: t) None acc = hex_string t (Some v) acc) /\
  (forall t h acc, hex_string (wm_hexd v :: t) (Some h) acc = hex_string t None ((h * 16 + v) :: acc)).
Proof.
  intros v Hv. pose proof (lt16_cases v Hv) as H.
  repeat (destruct H as [->|H]; [repeat split; intros; reflexivity|]).
  subst v. repeat split; intros; reflexivity.
Qed.

Lemma hex_chars_read : forall s rest acc, Forall (fun b => b < 256) s ->
  hex_string (flat_map (fun b => [wm_hexd (b / 16); wm_hexd (b mod 16)]) s ++ 62 :: rest) None acc
  = Some (rev' (rev s ++ acc), rest).
Proof.
  induction s as [|b s IH]; intros rest acc Hb.
  - reflexivity.
  - inversion Hb as [|? ? Hb1 Hb2]; subst.
    assert (H1 : b / 16 < 16) by (apply N.div_lt_upper_bound; lia).
    assert (H2 : b mod 16 < 16) by (apply N.mod_lt; lia).
    destruct (hexd_facts _ H1) as [_ [HA _]]. destruct (hexd_facts _ H2) as [_ [_ HB]].
    cbn [flat_map app]. rewrite HA, HB, IH by exact Hb2.
    replace (b / 16 * 16 + b mod 16) with b.
    + cbn [rev]. rewrite <- app_assoc. reflexivity.
    + rewrite (N.div_mod' b 16) at 1. lia.
Qed.

Lemma lit_char_byte : forall b, In b all_bytes ->
  forall t acc, lit_string 0 (wm_lit_char b ++ t) acc = lit_string 0 t (b :: acc).
Proof.
  intros b Hin. vm_compute in Hin.
  repeat (destruct Hin as [<-|Hin]; [intros t acc; reflexivity|]).
  destruct Hin.
Qed.

Lemma lit_chars_read : forall s rest acc, Forall (fun b => b < 256) s ->
  lit_string 0 (flat_map wm_lit_char s ++ 41 :: rest) acc = Some (rev' (rev s ++ acc), rest).
Proof.
  induction s as [|b s IH]; intros rest acc Hb.
  - reflexivity.
  - inversion Hb as [|? ? Hb1 Hb2]; subst.
    cbn [flat_map]. rewrite <- app_assoc, lit_char_byte by (apply all_bytes_complete; exact Hb1).
    rewrite IH by exact Hb2. cbn [rev]. rewrite <- app_assoc. reflexivity.
Qed.

(* the concrete printers satisfy the hypotheses *)
Lemma wm_string_read_lemma : forall s rest, Forall (fun b => b < 256) s -> ends_ok rest ->
  next_tok (wm_unparse_string s ++ rest) = Some (StStr s, rest).
Proof.
  intros s rest Hb _. unfold wm_unparse_string. destruct (wm_use_hex s) eqn:Eh.
  - destruct s as [|b s].
    + discriminate Eh.
    + pose proof (hex_chars_read (b :: s) rest [] Hb) as H.
      inversion Hb as [|? ? Hb1 Hb2]; subst.
      assert (H1 : b / 16 < 16) by (apply N.div_lt_upper_bound; lia).
      destruct (hexd_facts _ H1) as [HA _].
      cbn [flat_map app] in *. rewrite <- app_assoc. cbn [app]. rewrite HA, H.
      rewrite app_nil_r, rev'_rev. change (rev s ++ [b]) with (rev (b :: s)). rewrite rev_involutive. reflexivity.
  - cbn [app]. rewrite <- app_assoc. cbn [app]. unfold next_tok.
    change (skip_ws (40 :: flat_map wm_lit_char s ++ 41 :: rest)) with (40 :: flat_map wm_lit_char s ++ 41 :: rest).
    cbv iota beta. rewrite lit_chars_read by exact Hb.
    rewrite app_nil_r, rev'_rev, rev_involutive. reflexivity.
Qed.

Lemma wm_name_read_lemma : forall n rest, ~ In 0 n -> Forall (fun b => b < 256) n -> ends_ok rest ->
  next_tok (wm_unparse_name n ++ rest) = Some (StName n, rest).
Proof.
  intros n rest H0 Hb Hr. destruct (name_chars_read n rest H0 Hb Hr) as [H1 H2].
  unfold wm_unparse_name. cbn [app]. unfold next_tok.
  change (skip_ws (47 :: flat_map wm_name_char n ++ rest)) with (47 :: flat_map wm_name_char n ++ rest).
  cbv iota beta. rewrite H1, H2. reflexivity.
Qed.

(* integers: the decimal printer is read back *)
Lemma dec_of_Z_read_lemma : forall z rest, ends_ok rest ->
  (match rest with c :: _ => is_ws c = true \/ is_delim c = true | [] => True end) ->
  next_tok (dec_of_Z z ++ rest) = Some (StInt z, rest).
Proof. intros z rest Hr _. apply next_tok_dec_of_Z. exact Hr. Qed.

(* formal refutation of the unfixed main statement (see the FALSE comment above) *)
Lemma unparse_parses_refuted_lemma :
  ~ (forall (us un : list N -> list N),
       (forall s rest, Forall (fun b => b < 256) s -> ends_ok rest ->
                       next_tok (us s ++ rest) = Some (StStr s, rest)) ->
       (forall n rest, ~ In 0 n -> Forall (fun b => b < 256) n -> ends_ok rest ->
                       next_tok (un n ++ rest) = Some (StName n, rest)) ->
       forall objs ren o rest fuel,
         wf_wobj o -> (forall id, 0 < ren id) -> ends_ok rest ->
         (length (unparse us un objs ren o) < fuel)%nat ->
         parse_obj fuel (unparse us un objs ren o ++ rest) = Some (to_pobj objs ren o, rest)).
Proof.
  intros H.
  specialize (H wm_unparse_string wm_unparse_name wm_string_read_lemma wm_name_read_lemma
                [] (fun _ => 1) (OInt 5) [32; 48; 32; 82] 100%nat I).
  assert (H1 : forall id : N, 0 < (fun _ : N => 1) id) by (intros; reflexivity).
  assert (H2 : ends_ok [32; 48; 32; 82]) by (left; reflexivity).
  assert (H3 : (length (unparse wm_unparse_string wm_unparse_name [] (fun _ : N => 1%N) (OInt 5)) < 100)%nat)
    by (vm_compute; lia).
  specialize (H H1 H2 H3). vm_compute in H. discriminate H.
Qed.

(* the fixed round trip instantiated with the concrete printers *)
Lemma unparse_parses_wm_lemma : forall objs ren o rest fuel,
  wf_wobj o -> (forall id, 0 < ren id) -> ends_ok rest ->
  (forall z, o = OInt z -> no_ref_follow rest) ->
  (length (unparse wm_unparse_string wm_unparse_name objs ren o) < fuel)%nat ->
  parse_obj fuel (unparse wm_unparse_string wm_unparse_name objs ren o ++ rest) = Some (to_pobj objs ren o, rest).
Proof.
  apply unparse_parses_fixed; [exact wm_string_read_lemma | exact wm_name_read_lemma].
Qed.
