(* C20 - proofs about the shared-storage heap model (Sys/HeapShare.v). *)
From QV Require Import Base.Bytes Sys.Heap Sys.HeapShare Sys.C20Proofs.
Local Open Scope N_scope.
Local Opaque xfuel.

(* ================================================================== what an observation reads of one cell *)
(* the value with a stream's data source replaced by the bytes it delivers, and the object id *)
Definition xnorm (w : hxworld) (v : hxval) : hxval :=
  match v with XStream d s => XStream d (XsFile (xdata w s)) | _ => v end.
Definition xcellobs (w : hxworld) (l : nat) : hxval * N := (xnorm w (xval w l), xog w l).

Lemma xnorm_inv w w' v v' : xnorm w' v' = xnorm w v ->
  match v with
  | XStream d s => exists s', v' = XStream d s' /\ xdata w' s' = xdata w s
  | _ => v' = v
  end.
Proof.
  destruct v, v'; simpl; intros H; try discriminate; try (inversion H; subst; reflexivity).
  injection H as H1 H2. subst. eexists; split; [reflexivity|exact H2].
Qed.

Lemma xcellobs_og w w' l : xcellobs w' l = xcellobs w l -> xog w' l = xog w l.
Proof. unfold xcellobs. intros H. inversion H. reflexivity. Qed.

Lemma xcellobs_val w w' l : xcellobs w' l = xcellobs w l ->
  match xval w l with
  | XStream d s => exists s', xval w' l = XStream d s' /\ xdata w' s' = xdata w s
  | v => xval w' l = v
  end.
Proof. unfold xcellobs. intros H. inversion H as [[H1 H2]]. apply xnorm_inv in H1. destruct (xval w l); exact H1. Qed.

Definition xagree (w w' : hxworld) (ls : list nat) : Prop := Forall (fun l => xcellobs w' l = xcellobs w l) ls.

Lemma flat_map_ext_in' {A B} (f g : A -> list B) l : (forall x, In x l -> f x = g x) -> flat_map f l = flat_map g l.
Proof. induction l; simpl; intros H; [reflexivity|]. rewrite H by auto. rewrite IHl; auto. Qed.

Lemma Forall_flat_map' {A B} (P : B -> Prop) (f : A -> list B) l :
  Forall P (flat_map f l) -> forall x, In x l -> Forall P (f x).
Proof.
  induction l; simpl; intros H x Hx; [contradiction|]. apply Forall_app in H. destruct H as [H1 H2].
  destruct Hx as [->|Hx]; auto.
Qed.

Lemma xclos_head f w l : In l (xclos f w l).
Proof. destruct f; simpl; auto. Qed.

(* the closure and the text only depend on what the closure's cells show *)
Lemma xclos_agree w w' : forall f l, xagree w w' (xclos f w l) -> xclos f w' l = xclos f w l.
Proof.
  induction f as [|f IH]; intros l H; simpl; [reflexivity|]. f_equal.
  simpl in H. inversion H as [|? ? Hl Hr]; subst.
  pose proof (xcellobs_val _ _ _ Hl) as Hv.
  assert (Hkid : forall e, xagree w w' (if xog w e =? 0 then xclos f w e else [e]) ->
                 (if xog w' e =? 0 then xclos f w' e else [e]) = (if xog w e =? 0 then xclos f w e else [e])).
  { intros e He. assert (Hog : xog w' e = xog w e).
    { apply xcellobs_og. unfold xagree in He. rewrite Forall_forall in He. apply He.
      destruct (xog w e =? 0); [apply xclos_head|left; reflexivity]. }
    rewrite Hog. destruct (xog w e =? 0); [apply IH; exact He|reflexivity]. }
  destruct (xval w l) eqn:E; try (rewrite Hv; reflexivity).
  - rewrite Hv. apply flat_map_ext_in'. intros e He. apply Hkid. eapply Forall_flat_map' in Hr; eauto.
  - rewrite Hv. apply flat_map_ext_in'. intros e He. apply Hkid.
    apply (Forall_flat_map' _ (fun kv => if xog w (snd kv) =? 0 then xclos f w (snd kv) else [snd kv]) items Hr e He).
  - destruct Hv as (s' & -> & _). apply IH. exact Hr.
Qed.

Lemma xunparse_agree w w' : forall f l, xagree w w' (xclos f w l) -> xunparse f w' l = xunparse f w l.
Proof.
  induction f as [|f IH]; intros l H; simpl; [reflexivity|].
  simpl in H. inversion H as [|? ? Hl Hr]; subst.
  pose proof (xcellobs_val _ _ _ Hl) as Hv. pose proof (xcellobs_og _ _ _ Hl) as Hog.
  assert (Hitem : forall e, xagree w w' (if xog w e =? 0 then xclos f w e else [e]) ->
                 (if xog w' e =? 0 then xunparse f w' e else Some (s_ref (xog w' e))) =
                 (if xog w e =? 0 then xunparse f w e else Some (s_ref (xog w e))) /\ xcellobs w' e = xcellobs w e).
  { intros e He. assert (Hc : xcellobs w' e = xcellobs w e).
    { unfold xagree in He. rewrite Forall_forall in He. apply He.
      destruct (xog w e =? 0); [apply xclos_head|left; reflexivity]. }
    split; [|exact Hc]. rewrite (xcellobs_og _ _ _ Hc). destruct (xog w e =? 0); [apply IH; exact He|reflexivity]. }
  destruct (xval w l) eqn:E; try (rewrite Hv; reflexivity).
  - rewrite Hv. erewrite map_ext_in; [reflexivity|]. intros e He. simpl.
    destruct (Hitem e (Forall_flat_map' _ _ _ Hr e He)) as [-> _]. reflexivity.
  - rewrite Hv. erewrite map_ext_in; [reflexivity|]. intros e He. simpl.
    destruct (Hitem (snd e) (Forall_flat_map' _ (fun kv => if xog w (snd kv) =? 0 then xclos f w (snd kv) else [snd kv]) items Hr e He)) as [Hi Hc].
    rewrite Hi. pose proof (xcellobs_val _ _ _ Hc) as Hv2.
    destruct (xval w (snd e)) eqn:E2; try (rewrite Hv2; reflexivity).
    destruct Hv2 as (s' & -> & _). reflexivity.
  - destruct Hv as (s' & -> & _). rewrite Hog. reflexivity.
Qed.

Lemma xshow_agree w w' l : xagree w w' (xclos (S xfuel) w l) -> xshow w' l = xshow w l.
Proof.
  unfold xshow. generalize xfuel. intros F H.
  assert (Hl : xcellobs w' l = xcellobs w l).
  { unfold xagree in H. rewrite Forall_forall in H. apply H. apply xclos_head. }
  pose proof (xcellobs_val _ _ _ Hl) as Hv.
  destruct (xval w l) eqn:E; try (rewrite Hv; rewrite (xunparse_agree w w' _ _ H); reflexivity).
  destruct Hv as (s' & -> & Hd). rewrite Hd.
  cbn [xclos] in H. rewrite E in H. inversion H; subst. rewrite (xunparse_agree w w' F dict); auto.
Qed.

Lemma xunparse_h_agree w w' l : xagree w w' (xclos (S xfuel) w l) -> xunparse_h w' l = xunparse_h w l.
Proof.
  unfold xunparse_h. generalize xfuel. intros F H.
  assert (Hl : xcellobs w' l = xcellobs w l).
  { unfold xagree in H. rewrite Forall_forall in H. apply H. apply xclos_head. }
  rewrite (xcellobs_og _ _ _ Hl), (xunparse_agree w w' _ _ H). reflexivity.
Qed.

(* ================================================================== a party's observation depends on its cells only *)
Lemma in_flat_map_Forall {A B} (P : B -> Prop) (f : A -> list B) l x : Forall P (flat_map f l) -> In x l -> Forall P (f x).
Proof. intros H Hx. eapply Forall_flat_map'; eauto. Qed.

Lemma xagree_app w w' l1 l2 : xagree w w' (l1 ++ l2) -> xagree w w' l1 /\ xagree w w' l2.
Proof. unfold xagree. apply Forall_app. Qed.

Lemma xobs_agree w w' p :
  xdoc w' p = xdoc w p -> xroots_of w' p = xroots_of w p -> xagree w w' (xparty_cells w p) -> xobs w' p = xobs w p.
Proof.
  intros Hd Hr Ha. unfold xparty_cells in Ha. apply xagree_app in Ha. destruct Ha as [Hc Hro].
  unfold xobs, xobs_objects, xobs_roots. rewrite Hd, Hr. f_equal.
  - destruct (xdoc w p) as [dv|]; [|reflexivity]. destruct (xd_alive dv); [|reflexivity].
    apply map_ext. intros id. f_equal. destruct (nmap_get (xd_cache dv) id) as [l|] eqn:E; [|reflexivity].
    apply xshow_agree. apply nmap_get_in in E.
    apply (in_flat_map_Forall _ (fun e => xclos (S xfuel) w (snd e)) _ (id, l) Hc E).
  - apply map_ext_in. intros e He. f_equal. f_equal.
    + f_equal. apply xunparse_h_agree. apply (in_flat_map_Forall _ (fun e => xclos (S xfuel) w (snd (snd e))) _ e Hro He).
    + apply xshow_agree. apply (in_flat_map_Forall _ (fun e => xclos (S xfuel) w (snd (snd e))) _ e Hro He).
Qed.

Lemma xparty_cells_agree w w' p :
  xdoc w' p = xdoc w p -> xroots_of w' p = xroots_of w p -> xagree w w' (xparty_cells w p) -> xparty_cells w' p = xparty_cells w p.
Proof.
  intros Hd Hr Ha. unfold xparty_cells in *. apply xagree_app in Ha. destruct Ha as [Hc Hro]. rewrite Hd, Hr. apply (f_equal2 (@app nat)).
  - destruct (xdoc w p) as [dv|]; [|reflexivity]. apply flat_map_ext_in'. intros e He. apply xclos_agree.
    apply (in_flat_map_Forall _ (fun e => xclos (S xfuel) w (snd e)) _ e Hc He).
  - apply flat_map_ext_in'. intros e He. apply xclos_agree.
    apply (in_flat_map_Forall _ (fun e => xclos (S xfuel) w (snd (snd e))) _ e Hro He).
Qed.

(* ================================================================== ranges: every index points at something *)
Definition xkids (v : hxval) : list nat :=
  match v with XArr els => els | XDict items => map snd items | XStream d _ => [d] | _ => [] end.
Definition xbuf_of (v : hxval) : list nat := match v with XStream _ (XsBuf b) => [b] | _ => [] end.

Record xinr (w : hxworld) : Prop := {
  xr_kids : forall l c, xget w l = Some c -> Forall (fun k => (k < length (xw_cells w))%nat) (xkids (xc_val c));
  xr_bufs : forall l c, xget w l = Some c -> Forall (fun b => (b < length (xw_bufs w))%nat) (xbuf_of (xc_val c));
  xr_cache : forall d dv, xdoc w d = Some dv -> Forall (fun e => (snd e < length (xw_cells w))%nat) (xd_cache dv);
  xr_cmap : forall d dv, xdoc w d = Some dv -> Forall (fun e => (snd e < length (xw_cells w))%nat) (xd_cmap dv);
  xr_roots : Forall (fun e => (snd (snd e) < length (xw_cells w))%nat /\ xroot_ok (fst (snd e)) (fst e) = true
                              /\ (fst (snd e) < length (xw_docs w))%nat) (xw_roots w);
  xr_held : Forall (fun e => (xh_buf (snd e) < length (xw_bufs w))%nat) (xw_held w);
  xr_docs0 : (0 < length (xw_docs w))%nat
}.

Lemma xval_kids w l : xinr w -> Forall (fun k => (k < length (xw_cells w))%nat) (xkids (xval w l)).
Proof. intros R. unfold xval. destruct (xget w l) eqn:E; [eapply xr_kids; eauto|constructor]. Qed.

Lemma xclos_inr w : xinr w -> forall f l, (l < length (xw_cells w))%nat -> Forall (fun k => (k < length (xw_cells w))%nat) (xclos f w l).
Proof.
  intros R. induction f as [|f IH]; intros l Hl; simpl; [repeat constructor; auto|]. constructor; [auto|].
  pose proof (xval_kids w l R) as K.
  assert (Hkid : forall e, (e < length (xw_cells w))%nat ->
            Forall (fun k => (k < length (xw_cells w))%nat) (if xog w e =? 0 then xclos f w e else [e])).
  { intros e He. destruct (xog w e =? 0); [apply IH; auto|repeat constructor; auto]. }
  destruct (xval w l); simpl in K; try constructor.
  - induction K; simpl; [constructor|]. apply Forall_app. split; auto.
  - induction items as [|[k e] t IHt]; simpl in *; [constructor|]. inversion K; subst. apply Forall_app. split; auto.
  - inversion K; subst. apply IH. auto.
Qed.

Lemma xparty_cells_inr w p : xinr w -> Forall (fun k => (k < length (xw_cells w))%nat) (xparty_cells w p).
Proof.
  intros R. unfold xparty_cells. apply Forall_app. split.
  - destruct (xdoc w p) as [dv|] eqn:E; [|constructor]. pose proof (xr_cache w R p dv E) as C.
    induction C; cbn [flat_map]; [constructor|]. apply Forall_app. split; auto. apply xclos_inr; auto.
  - pose proof (xr_roots w R) as C. unfold xroots_of.
    induction C as [|e t He Ht IH]; cbn [filter flat_map]; [constructor|].
    destruct (Nat.eqb (fst (snd e)) p); cbn [flat_map]; auto. apply Forall_app. split; auto. apply xclos_inr; auto. apply He.
Qed.

(* ================================================================== what an operation of party a may do *)
(* Wr: the cells whose observable content may change *)
Record xkeeps (Wr : nat -> Prop) (a : nat) (w w' : hxworld) : Prop := {
  xk_cells : forall l, (l < length (xw_cells w))%nat -> ~ Wr l -> xcellobs w' l = xcellobs w l;
  xk_len : (length (xw_cells w) <= length (xw_cells w'))%nat;
  xk_docs : forall p, p <> a -> xdoc w' p = xdoc w p;
  xk_ndocs : (length (xw_docs w) <= length (xw_docs w'))%nat;
  xk_nbufs : (length (xw_bufs w) <= length (xw_bufs w'))%nat;
  xk_roots : forall p, p <> a -> xroots_of w' p = xroots_of w p
}.

Lemma xkeeps_refl Wr a w : xkeeps Wr a w w.
Proof. constructor; auto. Qed.

Lemma xkeeps_trans Wr a w1 w2 w3 : xkeeps Wr a w1 w2 -> xkeeps Wr a w2 w3 -> xkeeps Wr a w1 w3.
Proof.
  intros [C1 L1 D1 N1 B1 R1] [C2 L2 D2 N2 B2 R2]. constructor.
  - intros l Hl Hw. rewrite C2, C1; auto. lia.
  - lia.
  - intros p Hp. rewrite D2, D1; auto.
  - lia.
  - lia.
  - intros p Hp. rewrite R2, R1; auto.
Qed.

Lemma xkeeps_weaken (Wr Wr' : nat -> Prop) a w w' : (forall l, Wr l -> Wr' l) -> xkeeps Wr a w w' -> xkeeps Wr' a w w'.
Proof. intros H [C L D N Bf R]. constructor; auto. Qed.

(* the frame argument: cells of another party that are not written *)
Lemma xframe_core Wr a w w' p :
  xinr w -> xkeeps Wr a w w' -> p <> a -> (forall l, In l (xparty_cells w p) -> ~ Wr l) -> xobs w' p = xobs w p.
Proof.
  intros R [C L D Nd Bf Ro] Hp Hn. apply xobs_agree; auto.
  pose proof (xparty_cells_inr w p R) as I. unfold xagree. rewrite Forall_forall in *. intros l Hl. apply C; auto.
Qed.

Lemma xparty_cells_keeps Wr a w w' p :
  xinr w -> xkeeps Wr a w w' -> p <> a -> (forall l, In l (xparty_cells w p) -> ~ Wr l) -> xparty_cells w' p = xparty_cells w p.
Proof.
  intros R [C L D Nd Bf Ro] Hp Hn. apply xparty_cells_agree; auto.
  pose proof (xparty_cells_inr w p R) as I. unfold xagree. rewrite Forall_forall in *. intros l Hl. apply C; auto.
Qed.

(* ================================================================== primitives *)
Definition xnone : nat -> Prop := fun _ => False.
Definition xok (Wr : nat -> Prop) (a : nat) (w w' : hxworld) : Prop := xinr w -> xkeeps Wr a w w' /\ xinr w'.

Lemma xok_refl Wr a w : xok Wr a w w.
Proof. intros R. split; [apply xkeeps_refl|exact R]. Qed.

Lemma xok_trans Wr a w1 w2 w3 : xok Wr a w1 w2 -> xok Wr a w2 w3 -> xok Wr a w1 w3.
Proof. intros H1 H2 R. destruct (H1 R) as [K1 R2]. destruct (H2 R2) as [K2 R3]. split; [eapply xkeeps_trans; eauto|auto]. Qed.

Lemma xok_weaken (Wr Wr' : nat -> Prop) a w w' : (forall l, Wr l -> Wr' l) -> xok Wr a w w' -> xok Wr' a w w'.
Proof. intros H O R. destruct (O R). split; [eapply xkeeps_weaken; eauto|auto]. Qed.

Lemma xget_lt w l c : xget w l = Some c -> (l < length (xw_cells w))%nat.
Proof. unfold xget. intros H. apply nth_error_Some. congruence. Qed.

Lemma Forall_lt_le (n m : nat) l : (n <= m)%nat -> Forall (fun k => (k < n)%nat) l -> Forall (fun k => (k < m)%nat) l.
Proof. intros H F. eapply Forall_impl; [|exact F]. simpl. intros; lia. Qed.

Lemma Forall_snd_lt_le {A} (n m : nat) (l : list (A * nat)) :
  (n <= m)%nat -> Forall (fun e => (snd e < n)%nat) l -> Forall (fun e => (snd e < m)%nat) l.
Proof. intros H F. eapply Forall_impl; [|exact F]. simpl. intros; lia. Qed.

(* the same cells list except appended / rewritten entries: a generic constructor for xinr after a change of cells only *)
Lemma xinr_cells w cs :
  xinr w -> (length (xw_cells w) <= length cs)%nat ->
  (forall l c, nth_error cs l = Some c ->
     Forall (fun k => (k < length cs)%nat) (xkids (xc_val c)) /\ Forall (fun b => (b < length (xw_bufs w))%nat) (xbuf_of (xc_val c))) ->
  xinr (xset_cells w cs).
Proof.
  intros R L H. constructor; simpl.
  - intros l c E. apply (H l c E).
  - intros l c E. apply (H l c E).
  - intros d dv E. eapply Forall_snd_lt_le; [exact L|]. apply (xr_cache w R d dv E).
  - intros d dv E. eapply Forall_snd_lt_le; [exact L|]. apply (xr_cmap w R d dv E).
  - eapply Forall_impl; [|apply (xr_roots w R)]. simpl. intros e (H1 & H2 & H3). repeat split; auto. lia.
  - apply (xr_held w R).
  - apply (xr_docs0 w R).
Qed.

Lemma xcellobs_same_cell w w' l :
  xget w' l = xget w l -> (forall c b, xget w l = Some c -> In b (xbuf_of (xc_val c)) -> nth b (xw_bufs w') [] = nth b (xw_bufs w) []) ->
  xcellobs w' l = xcellobs w l.
Proof.
  intros E B. unfold xcellobs, xval, xog. rewrite E. destruct (xget w l) as [c|] eqn:Ec; [|reflexivity].
  f_equal. destruct (xc_val c) eqn:Ev; simpl; try reflexivity. destruct src; simpl; try reflexivity.
  f_equal. f_equal. apply (B c b eq_refl). rewrite Ev. simpl. auto.
Qed.

Lemma xalloc_ok a w c :
  (xinr w -> Forall (fun k => (k < length (xw_cells w))%nat) (xkids (xc_val c)) /\
             Forall (fun b => (b < length (xw_bufs w))%nat) (xbuf_of (xc_val c))) ->
  xok xnone a w (fst (xalloc w c)) /\ snd (xalloc w c) = length (xw_cells w).
Proof.
  intros Hc. split; [|reflexivity]. intros R. destruct (Hc R) as [Hk Hb]. split.
  - constructor; simpl; auto.
    + intros l Hl _. apply xcellobs_same_cell; [|reflexivity]. unfold xget. simpl. apply nth_error_app1. exact Hl.
    + rewrite app_length. simpl. lia.
  - change (fst (xalloc w c)) with (xset_cells w (xw_cells w ++ [c])). apply xinr_cells; auto.
    + rewrite app_length. simpl. lia.
    + intros l c0 E. rewrite app_length. simpl.
      destruct (Nat.lt_ge_cases l (length (xw_cells w))) as [Hl|Hl].
      * rewrite nth_error_app1 in E by exact Hl. split; [|eapply xr_bufs; eauto].
        eapply Forall_lt_le; [|eapply xr_kids; eauto]. lia.
      * rewrite nth_error_app2 in E by exact Hl. destruct (l - length (xw_cells w))%nat as [|k] eqn:Ek.
        -- simpl in E. inversion E; subst. split; [eapply Forall_lt_le; [|exact Hk]; lia|exact Hb].
        -- simpl in E. destruct k; discriminate.
Qed.

Lemma xalloc_len w c : length (xw_cells (fst (xalloc w c))) = S (length (xw_cells w)).
Proof. simpl. rewrite app_length. simpl. lia. Qed.

Lemma xget_set_eq w l c : (l < length (xw_cells w))%nat -> xget (xset w l c) l = Some c.
Proof. intros H. unfold xget. simpl. apply nth_error_set_nth_eq. exact H. Qed.
Lemma xget_set_ne w l c l' : l <> l' -> xget (xset w l c) l' = xget w l'.
Proof. intros H. unfold xget. simpl. apply nth_error_set_nth_ne. exact H. Qed.

Lemma set_nth_length {A} (l : list A) n x : length (set_nth l n x) = length l.
Proof. revert n. induction l; intros [|n]; simpl; auto. Qed.

Lemma xset_ok a w l c :
  (xinr w -> Forall (fun k => (k < length (xw_cells w))%nat) (xkids (xc_val c)) /\
             Forall (fun b => (b < length (xw_bufs w))%nat) (xbuf_of (xc_val c))) ->
  xok (eq l) a w (xset w l c).
Proof.
  intros Hc R. destruct (Hc R) as [Hk Hb]. split.
  - constructor; simpl; auto.
    + intros l' Hl Hn. apply xcellobs_same_cell; [|reflexivity]. apply xget_set_ne. congruence.
    + rewrite set_nth_length. lia.
  - change (xset w l c) with (xset_cells w (set_nth (xw_cells w) l c)). apply xinr_cells; auto.
    + rewrite set_nth_length. lia.
    + intros l' c0 E. rewrite set_nth_length. destruct (Nat.eq_dec l l') as [->|Hne].
      * destruct (Nat.lt_ge_cases l' (length (xw_cells w))) as [Hl|Hl].
        -- rewrite nth_error_set_nth_eq in E by exact Hl. inversion E; subst. auto.
        -- rewrite nth_error_set_nth_out in E by exact Hl. split; [eapply xr_kids; eauto|eapply xr_bufs; eauto].
      * rewrite nth_error_set_nth_ne in E by exact Hne. split; [eapply xr_kids; eauto|eapply xr_bufs; eauto].
Qed.

(* a rewrite that leaves value and object id alone (only the owner changes) is invisible *)
Lemma xset_owner_ok a w l c q :
  xget w l = Some c -> xok xnone a w (xset w l (mkXc (xc_val c) q (xc_og c))).
Proof.
  intros E R. pose proof (xget_lt _ _ _ E) as Hl.
  destruct (xset_ok a w l (mkXc (xc_val c) q (xc_og c))) as [K R']; [|exact R|].
  { intros _. simpl. split; [eapply xr_kids; eauto|eapply xr_bufs; eauto]. }
  split; [|exact R']. destruct K as [C L D Nd Bf Ro]. constructor; auto.
  intros l' Hl' _. destruct (Nat.eq_dec l l') as [<-|Hne]; [|apply C; auto].
  unfold xcellobs, xval, xog. rewrite xget_set_eq by exact Hl. rewrite E. reflexivity.
Qed.

Lemma xsetval_ok a w l v :
  (xinr w -> Forall (fun k => (k < length (xw_cells w))%nat) (xkids v) /\ Forall (fun b => (b < length (xw_bufs w))%nat) (xbuf_of v)) ->
  xok (eq l) a w (xsetval w l v).
Proof. intros H. unfold xsetval. destruct (xget w l); [|apply xok_refl]. apply xset_ok. exact H. Qed.

Lemma xballoc_ok a w bs : xok xnone a w (fst (xballoc w bs)) /\ snd (xballoc w bs) = length (xw_bufs w).
Proof.
  split; [|reflexivity]. intros R. split.
  - constructor; simpl; auto; [|rewrite app_length; lia]. intros l Hl _. apply xcellobs_same_cell; [reflexivity|].
    intros c b E Hb. simpl. apply app_nth1. pose proof (xr_bufs w R l c E) as F. rewrite Forall_forall in F. apply F. exact Hb.
  - constructor; simpl; try apply R.
    + intros l c E. rewrite app_length. eapply Forall_lt_le; [|eapply (xr_bufs w R); eauto]. lia.
    + rewrite app_length. eapply Forall_impl; [|apply (xr_held w R)]. simpl. intros; lia.
Qed.

Lemma filter_imap_set_other {A} (f : nat * A -> bool) m r v :
  f (r, v) = false -> (forall v', In (r, v') m -> f (r, v') = false) -> filter f (imap_set m r v) = filter f m.
Proof.
  intros Hv Hm. induction m as [|[k x] m IH]; simpl; [rewrite Hv; reflexivity|].
  destruct (Nat.ltb r k); [simpl; rewrite Hv; reflexivity|].
  destruct (Nat.eqb k r) eqn:E.
  - apply Nat.eqb_eq in E. subst k. simpl. rewrite Hv. rewrite (Hm x (or_introl eq_refl)). reflexivity.
  - simpl. rewrite IH; [reflexivity|]. intros v' Hi. apply Hm. right. exact Hi.
Qed.

Lemma Forall_imap_set' {A} (P : nat * A -> Prop) m k v : Forall P m -> P (k, v) -> Forall P (imap_set m k v).
Proof.
  intros H Hx. induction H as [|[k' v'] m Hh Ht IH]; simpl; auto.
  destruct (Nat.ltb k k'); [auto|]. destruct (Nat.eqb k' k); auto.
Qed.

Lemma xsetroot_ok a w r l :
  (xinr w -> (l < length (xw_cells w))%nat) -> xroot_ok a r = true -> (a < length (xw_docs w))%nat -> xok xnone a w (xsetroot w r a l).
Proof.
  intros Hl Hr Ha R. specialize (Hl R). split.
  - constructor; simpl; auto. intros p Hp. unfold xroots_of. simpl. apply filter_imap_set_other.
    + simpl. apply Nat.eqb_neq. congruence.
    + intros [p' l'] Hi. simpl. pose proof (xr_roots w R) as F. rewrite Forall_forall in F. destruct (F _ Hi) as (_ & H2 & _). simpl in H2.
      unfold xroot_ok in *. apply Nat.eqb_eq in H2, Hr. apply Nat.eqb_neq. congruence.
  - constructor; simpl; try apply R. apply Forall_imap_set'; [apply R|]. simpl. auto.
Qed.

Lemma xsetheld_ok a w br h : (xinr w -> (xh_buf h < length (xw_bufs w))%nat) -> xok xnone a w (xsetheld w br h).
Proof.
  intros Hb R. split.
  - constructor; simpl; auto.
  - constructor; simpl; try apply R. apply Forall_imap_set'; [apply R|]. simpl. auto.
Qed.

Lemma xdoc_setdoc_ne w a dv p : p <> a -> xdoc (xsetdoc w a dv) p = xdoc w p.
Proof. intros H. unfold xdoc. simpl. apply nth_error_set_nth_ne. congruence. Qed.

Lemma xsetdoc_ok a w dv :
  (xinr w -> Forall (fun e => (snd e < length (xw_cells w))%nat) (xd_cache dv) /\ Forall (fun e => (snd e < length (xw_cells w))%nat) (xd_cmap dv)) ->
  xok xnone a w (xsetdoc w a dv).
Proof.
  intros H R. destruct (H R) as [H1 H2]. split.
  - constructor; simpl; auto; [intros p Hp; apply xdoc_setdoc_ne; exact Hp|rewrite set_nth_length; lia].
  - constructor; simpl; try apply R.
    + intros d dv' E. unfold xdoc in E. simpl in E. destruct (Nat.eq_dec a d) as [->|Hne].
      * destruct (Nat.lt_ge_cases d (length (xw_docs w))) as [Hl|Hl].
        -- rewrite nth_error_set_nth_eq in E by exact Hl. inversion E; subst. exact H1.
        -- rewrite nth_error_set_nth_out in E by exact Hl. eapply xr_cache; eauto.
      * rewrite nth_error_set_nth_ne in E by exact Hne. eapply xr_cache; eauto.
    + intros d dv' E. unfold xdoc in E. simpl in E. destruct (Nat.eq_dec a d) as [->|Hne].
      * destruct (Nat.lt_ge_cases d (length (xw_docs w))) as [Hl|Hl].
        -- rewrite nth_error_set_nth_eq in E by exact Hl. inversion E; subst. exact H2.
        -- rewrite nth_error_set_nth_out in E by exact Hl. eapply xr_cmap; eauto.
      * rewrite nth_error_set_nth_ne in E by exact Hne. eapply xr_cmap; eauto.
    + rewrite set_nth_length. apply R.
    + rewrite set_nth_length. apply R.
Qed.

Lemma xsetcache_ok a w id l : (xinr w -> (l < length (xw_cells w))%nat) -> xok xnone a w (xsetcache w a id l).
Proof.
  intros Hl. unfold xsetcache. destruct (xdoc w a) as [dv|] eqn:E; [|apply xok_refl].
  apply xsetdoc_ok. intros R. simpl. split; [|eapply xr_cmap; eauto]. apply Forall_nmap_set; [eapply xr_cache; eauto|]. simpl. auto.
Qed.

Lemma xsetcmap_ok a w s id l : (xinr w -> (l < length (xw_cells w))%nat) -> xok xnone a w (xsetcmap w a s id l).
Proof.
  intros Hl. unfold xsetcmap. destruct (xdoc w a) as [dv|] eqn:E; [|apply xok_refl].
  apply xsetdoc_ok. intros R. simpl. split; [eapply xr_cache; eauto|]. constructor; [simpl; auto|eapply xr_cmap; eauto].
Qed.

(* ================================================================== navigation, parsing, copying: allocation only *)
Local Arguments xalloc : simpl never.
Local Arguments xballoc : simpl never.
Local Arguments xset : simpl never.
Local Arguments xsetval : simpl never.
Local Arguments xsetroot : simpl never.
Local Arguments xsetheld : simpl never.
Local Arguments xsetdoc : simpl never.
Local Arguments xsetcache : simpl never.
Local Arguments xsetcmap : simpl never.
Local Arguments xbset : simpl never.
Definition xres_ok (a : nat) (w : hxworld) (r : option (hxworld * nat)) : Prop :=
  match r with Some (w1, l) => xok xnone a w w1 /\ (xinr w -> (l < length (xw_cells w1))%nat) | None => True end.

Lemma xok_len Wr a w w' : xok Wr a w w' -> xinr w -> (length (xw_cells w) <= length (xw_cells w'))%nat.
Proof. intros O R. destruct (O R) as [K _]. apply K. Qed.

Lemma xalloc_scalar_ok a w c : xkids (xc_val c) = [] -> xbuf_of (xc_val c) = [] ->
  xok xnone a w (fst (xalloc w c)) /\ (snd (xalloc w c) < length (xw_cells (fst (xalloc w c))))%nat.
Proof.
  intros Hk Hb. split.
  - apply xalloc_ok. intros _. rewrite Hk, Hb. split; constructor.
  - rewrite xalloc_len. simpl. lia.
Qed.

Lemma xnav1_ok a w l s : (l < length (xw_cells w))%nat -> xres_ok a w (xnav1 w l s).
Proof.
  intros Hl. unfold xnav1. destruct s.
  - destruct (xval w l) eqn:E; simpl; auto. destruct (nth_error els n) eqn:En; simpl; auto.
    split; [apply xok_refl|]. intros R. pose proof (xval_kids w l R) as K. rewrite E in K. simpl in K.
    apply (Forall_nth_error _ _ _ _ K En).
  - destruct (xval w l) eqn:E; simpl; auto. destruct (nmap_get items k) eqn:En.
    + simpl. split; [apply xok_refl|]. intros R. pose proof (xval_kids w l R) as K. rewrite E in K. simpl in K.
      apply nmap_get_in in En. rewrite Forall_forall in K. apply K. apply in_map_iff. exists (k, n). auto.
    + destruct (xalloc_scalar_ok a w (mkXc XNull (xqp w l) 0) eq_refl eq_refl) as [O L].
      destruct (xalloc w (mkXc XNull (xqp w l) 0)) as [w1 l1]. split; auto.
  - destruct (xval w l) eqn:E; simpl; auto.
    split; [apply xok_refl|]. intros R. pose proof (xval_kids w l R) as K. rewrite E in K. simpl in K. inversion K; auto.
Qed.

Lemma xnavs_ok a p : forall w l, (xinr w -> (l < length (xw_cells w))%nat) -> xinr w -> xres_ok a w (xnavs w l p).
Proof.
  induction p as [|s p IH]; intros w l Hl R; simpl.
  - split; [apply xok_refl|auto].
  - pose proof (xnav1_ok a w l s (Hl R)) as H1. destruct (xnav1 w l s) as [[w1 l1]|]; simpl in *; auto.
    destruct H1 as [O1 L1]. destruct (O1 R) as [_ R1].
    pose proof (IH w1 l1 (fun _ => L1 R) R1) as H2. destruct (xnavs w1 l1 p) as [[w2 l2]|]; simpl in *; auto.
    destruct H2 as [O2 L2]. split; [eapply xok_trans; eauto|auto].
Qed.

Lemma imap_get_in' {A} (m : list (nat * A)) k v : imap_get m k = Some v -> In (k, v) m.
Proof. apply imap_get_in. Qed.

Definition xres3_ok (a : nat) (w : hxworld) (r : option (hxworld * nat * bool)) : Prop :=
  match r with Some (w1, l, _) => xok xnone a w w1 /\ (xinr w -> (l < length (xw_cells w1))%nat) | None => True end.

Lemma xres3_alloc b w c f : xkids (xc_val c) = [] -> xbuf_of (xc_val c) = [] ->
  xres3_ok b w (let (w1, l) := xalloc w c in Some (w1, l, f)).
Proof.
  intros Hk Hb. destruct (xalloc_scalar_ok b w c Hk Hb) as [O L].
  destruct (xalloc w c) as [w1 l1]. simpl in *. auto.
Qed.

Lemma xeval_head_ok any a b w h : xinr w -> xres3_ok b w (xeval_head any a w h).
Proof.
  intros R. unfold xeval_head. destruct h; try (apply xres3_alloc; reflexivity).
  - destruct (imap_get (xw_roots w) r) as [[p l]|] eqn:E; [|exact I].
    assert (Hl : (l < length (xw_cells w))%nat).
    { apply imap_get_in in E. pose proof (xr_roots w R) as F. rewrite Forall_forall in F. apply (F _ E). }
    destruct (Nat.eqb p a); [split; [apply xok_refl|auto]|]. destruct any; [|exact I]. split; [apply xok_refl|auto].
  - destruct (xdoc w a) as [dv|] eqn:E; [|exact I].
    destruct (xd_alive dv && (3 <=? id) && (id <=? xcache_max (xd_cache dv))); [|exact I].
    destruct (nmap_get (xd_cache dv) id) as [l|] eqn:Eg; [|apply xres3_alloc; reflexivity].
    split; [apply xok_refl|]. intros _. apply nmap_get_in in Eg. pose proof (xr_cache w R a dv E) as F.
    rewrite Forall_forall in F. apply (F _ Eg).
Qed.

(* b: the party on whose account the allocations are booked (allocation touches no party's view) *)
Lemma xeval_ok any a b w e : xinr w -> xres3_ok b w (xeval any a w e).
Proof.
  intros R. unfold xeval. pose proof (xeval_head_ok any a b w (fst e) R) as H1.
  destruct (xeval_head any a w (fst e)) as [[[w1 l] c]|]; simpl in *; auto.
  destruct H1 as [O1 L1]. destruct (O1 R) as [_ R1].
  pose proof (xnavs_ok b (snd e) w1 l (fun _ => L1 R) R1) as H2.
  destruct (xnavs w1 l (snd e)) as [[w2 l2]|]; simpl in *; auto.
  destruct H2 as [O2 L2]. split; [eapply xok_trans; eauto|auto].
Qed.

Definition xpair_ok (a : nat) (w : hxworld) (r : hxworld * nat) : Prop :=
  xinr w -> xkeeps xnone a w (fst r) /\ xinr (fst r) /\ (snd r < length (xw_cells (fst r)))%nat.

Lemma xpair_alloc a w c :
  (xinr w -> Forall (fun k => (k < length (xw_cells w))%nat) (xkids (xc_val c)) /\
             Forall (fun b => (b < length (xw_bufs w))%nat) (xbuf_of (xc_val c))) ->
  xpair_ok a w (xalloc w c).
Proof.
  intros Hc R. destruct (xalloc_ok a w c Hc) as [O2 E]. destruct (O2 R) as [K R2]. split; [exact K|split; [exact R2|]].
  rewrite E, xalloc_len. lia.
Qed.

Lemma xpair_trans a w w1 r :
  xkeeps xnone a w w1 -> xinr w1 -> xpair_ok a w1 r -> xkeeps xnone a w (fst r) /\ xinr (fst r) /\ (snd r < length (xw_cells (fst r)))%nat.
Proof. intros K R1 P. destruct (P R1) as (K2 & R2 & L). split; [eapply xkeeps_trans; eauto|split; auto]. Qed.

Lemma xkeeps_len Wr a w w' : xkeeps Wr a w w' -> (length (xw_cells w) <= length (xw_cells w'))%nat.
Proof. intros K. apply K. Qed.

Lemma xbuild_ok a ctx : forall t w, xpair_ok a w (xbuild ctx t w).
Proof.
  fix IH 1. intros t w. destruct t as [|z|k|ts|kts]; cbn [xbuild].
  - apply xpair_alloc. intros _. split; constructor.
  - apply xpair_alloc. intros _. split; constructor.
  - apply xpair_alloc. intros _. split; constructor.
  - match goal with |- context [(fix go (ts : list xtree) (w : hxworld) (acc : list nat) {struct ts} : hxworld * list nat := _) ts w []] =>
      set (go := fix go (ts : list xtree) (w : hxworld) (acc : list nat) {struct ts} : hxworld * list nat :=
                   match ts with
                   | [] => (w, rev' acc)
                   | t :: r => let (w1, l) := xbuild ctx t w in go r w1 (l :: acc)
                   end) end.
    assert (G : forall ts w0 acc, xinr w0 -> Forall (fun k => (k < length (xw_cells w0))%nat) acc ->
                xkeeps xnone a w0 (fst (go ts w0 acc)) /\ xinr (fst (go ts w0 acc)) /\
                Forall (fun k => (k < length (xw_cells (fst (go ts w0 acc))))%nat) (snd (go ts w0 acc))).
    { induction ts0 as [|t r IHr]; intros w0 acc R0 F; simpl.
      - split; [apply xkeeps_refl|split; [exact R0|]]. rewrite rev'_rev. apply Forall_rev. auto.
      - destruct (IH t w0 R0) as (K1 & R1 & L1). destruct (xbuild ctx t w0) as [w1 l] eqn:Eb. simpl in *.
        destruct (IHr w1 (l :: acc) R1) as (K2 & R2 & F2).
        { constructor; [exact L1|]. eapply Forall_lt_le; [apply (xkeeps_len _ _ _ _ K1)|exact F]. }
        split; [eapply xkeeps_trans; eauto|split; auto]. }
    intros R. destruct (G ts w [] R (Forall_nil _)) as (K1 & R1 & F1).
    destruct (go ts w []) as [w1 els]. simpl in *.
    apply (xpair_trans a w w1 (xalloc w1 (mkXc (XArr els) ctx 0)) K1 R1).
    apply xpair_alloc. intros _. simpl. split; [exact F1|constructor].
  - match goal with |- context [(fix go (kts : list (N * xtree)) (w : hxworld) (acc : list (N * nat)) {struct kts} : hxworld * list (N * nat) := _) kts w []] =>
      set (go := fix go (kts : list (N * xtree)) (w : hxworld) (acc : list (N * nat)) {struct kts} : hxworld * list (N * nat) :=
                   match kts with
                   | [] => (w, acc)
                   | (k, t) :: r => let (w1, l) := xbuild ctx t w in go r w1 (nmap_set acc k l)
                   end) end.
    assert (G : forall kts w0 acc, xinr w0 -> Forall (fun e => (snd e < length (xw_cells w0))%nat) acc ->
                xkeeps xnone a w0 (fst (go kts w0 acc)) /\ xinr (fst (go kts w0 acc)) /\
                Forall (fun e => (snd e < length (xw_cells (fst (go kts w0 acc))))%nat) (snd (go kts w0 acc))).
    { induction kts0 as [|[k t] r IHr]; intros w0 acc R0 F; simpl.
      - split; [apply xkeeps_refl|split; [exact R0|exact F]].
      - destruct (IH t w0 R0) as (K1 & R1 & L1). destruct (xbuild ctx t w0) as [w1 l] eqn:Eb. simpl in *.
        destruct (IHr w1 (nmap_set acc k l) R1) as (K2 & R2 & F2).
        { apply Forall_nmap_set; [|exact L1]. eapply Forall_snd_lt_le; [apply (xkeeps_len _ _ _ _ K1)|exact F]. }
        split; [eapply xkeeps_trans; eauto|split; auto]. }
    intros R. destruct (G kts w [] R (Forall_nil _)) as (K1 & R1 & F1).
    destruct (go kts w []) as [w1 items]. simpl in *.
    apply (xpair_trans a w w1 (xalloc w1 (mkXc (XDict items) ctx 0)) K1 R1).
    apply xpair_alloc. intros _. simpl. split; [apply Forall_map_snd; exact F1|constructor].
Qed.

Lemma xclone_ok a : forall f q og w l, xpair_ok a w (xclone f q og w l).
Proof.
  induction f as [|f IH]; intros q og w l; cbn [xclone].
  - apply xpair_alloc. intros _. split; constructor.
  - destruct (xval w l) eqn:E; try (apply xpair_alloc; intros _; split; constructor).
    + (* array *)
      assert (G : forall els w0 acc, xinr w0 -> Forall (fun k => (k < length (xw_cells w0))%nat) acc ->
                  let r := fold_left (fun st e => let (w2, e') := xclone f None 0 (fst st) e in (w2, e' :: snd st)) els (w0, acc) in
                  xkeeps xnone a w0 (fst r) /\ xinr (fst r) /\ Forall (fun k => (k < length (xw_cells (fst r)))%nat) (snd r)).
      { induction els0 as [|e r IHr]; intros w0 acc R0 F; cbn [fold_left].
        - cbn. split; [apply xkeeps_refl|split; auto].
        - cbn [fst snd]. destruct (IH None 0 w0 e R0) as (K1 & R1 & L1). destruct (xclone f None 0 w0 e) as [w1 e'] eqn:Ec. cbn [fst snd] in *.
          destruct (IHr w1 (e' :: acc) R1) as (K2 & R2 & F2).
          { constructor; [exact L1|]. eapply Forall_lt_le; [apply (xkeeps_len _ _ _ _ K1)|exact F]. }
          split; [eapply xkeeps_trans; eauto|split; auto]. }
      intros R. destruct (G els w [] R (Forall_nil _)) as (K1 & R1 & F1).
      destruct (fold_left (fun st e => let (w2, e') := xclone f None 0 (fst st) e in (w2, e' :: snd st)) els (w, [])) as [w1 acc].
      cbn [fst snd] in *.
      apply (xpair_trans a w w1 (xalloc w1 (mkXc (XArr (rev' acc)) q og)) K1 R1).
      apply xpair_alloc. intros _. simpl. split; [|constructor]. rewrite rev'_rev. apply Forall_rev. exact F1.
    + (* dictionary *)
      set (stepf := fun (st : hxworld * list (N * nat)) (kv : N * nat) =>
                      match xval (fst st) (snd kv) with
                      | XNull => st
                      | _ => let (w2, e') := xclone f None 0 (fst st) (snd kv) in (w2, nmap_set (snd st) (fst kv) e')
                      end).
      assert (G : forall its w0 acc, xinr w0 -> Forall (fun e => (snd e < length (xw_cells w0))%nat) acc ->
                  let r := fold_left stepf its (w0, acc) in
                  xkeeps xnone a w0 (fst r) /\ xinr (fst r) /\ Forall (fun e => (snd e < length (xw_cells (fst r)))%nat) (snd r)).
      { induction its as [|[k e] r IHr]; intros w0 acc R0 F; cbn [fold_left].
        - cbn. split; [apply xkeeps_refl|split; auto].
        - assert (Hs : xkeeps xnone a w0 (fst (stepf (w0, acc) (k, e))) /\ xinr (fst (stepf (w0, acc) (k, e))) /\
                       Forall (fun x => (snd x < length (xw_cells (fst (stepf (w0, acc) (k, e)))))%nat) (snd (stepf (w0, acc) (k, e)))).
          { unfold stepf. cbn [fst snd].
            assert (Hc : xkeeps xnone a w0 (fst (let (w2, e') := xclone f None 0 w0 e in (w2, nmap_set acc k e'))) /\
                         xinr (fst (let (w2, e') := xclone f None 0 w0 e in (w2, nmap_set acc k e'))) /\
                         Forall (fun x => (snd x < length (xw_cells (fst (let (w2, e') := xclone f None 0 w0 e in (w2, nmap_set acc k e')))))%nat)
                                (snd (let (w2, e') := xclone f None 0 w0 e in (w2, nmap_set acc k e')))).
            { destruct (IH None 0 w0 e R0) as (K1 & R1 & L1). destruct (xclone f None 0 w0 e) as [w1 e'] eqn:Ec. cbn [fst snd] in *.
              split; [exact K1|split; [exact R1|]]. apply Forall_nmap_set; [|exact L1].
              eapply Forall_snd_lt_le; [apply (xkeeps_len _ _ _ _ K1)|exact F]. }
            destruct (xval w0 e); try exact Hc. cbn [fst snd]. split; [apply xkeeps_refl|split; auto]. }
          destruct Hs as (K1 & R1 & F1). destruct (stepf (w0, acc) (k, e)) as [w1 acc1]. cbn [fst snd] in *.
          destruct (IHr w1 acc1 R1 F1) as (K2 & R2 & F2).
          split; [eapply xkeeps_trans; eauto|split; auto]. }
      intros R. destruct (G items w [] R (Forall_nil _)) as (K1 & R1 & F1).
      fold stepf. destruct (fold_left stepf items (w, [])) as [w1 its]. cbn [fst snd] in *.
      apply (xpair_trans a w w1 (xalloc w1 (mkXc (XDict its) q og)) K1 R1).
      apply xpair_alloc. intros _. simpl. split; [apply Forall_map_snd; exact F1|constructor].
Qed.

(* ================================================================== ~QPDF *)
Lemma xfold_okQ {A} Wr a (f : hxworld -> A -> hxworld) (key : A -> nat) (Q : A -> Prop) (l : list A) :
  (forall w x, Q x -> (key x < length (xw_cells w))%nat -> xok Wr a w (f w x)) ->
  Forall Q l -> forall w, Forall (fun x => (key x < length (xw_cells w))%nat) l -> xok Wr a w (fold_left f l w).
Proof.
  intros Hf HQ. induction HQ as [|x l Hq HQ IH]; intros w F; simpl; [apply xok_refl|].
  inversion F as [|? ? Hx Hl]; subst. intros R.
  destruct (Hf w x Hq Hx R) as [K1 R1].
  assert (F' : Forall (fun y => (key y < length (xw_cells (f w x)))%nat) l).
  { eapply Forall_impl; [|exact Hl]. simpl. intros y Hy. pose proof (xkeeps_len _ _ _ _ K1). lia. }
  destruct (IH (f w x) F' R1) as [K2 R2]. split; [eapply xkeeps_trans; eauto|exact R2].
Qed.

Lemma xfold_ok {A} Wr a (f : hxworld -> A -> hxworld) (key : A -> nat) (l : list A) :
  (forall w x, (key x < length (xw_cells w))%nat -> xok Wr a w (f w x)) ->
  forall w, Forall (fun x => (key x < length (xw_cells w))%nat) l -> xok Wr a w (fold_left f l w).
Proof.
  intros Hf. apply (xfold_okQ Wr a f key (fun _ => True)); auto. apply Forall_forall. auto.
Qed.

(* disconnecting a direct object (and what hangs below it) changes owners only *)
Lemma xdisconnect_direct_ok a : forall f w l, (l < length (xw_cells w))%nat -> xok xnone a w (xdisconnect f true w l).
Proof.
  induction f as [|f IH]; intros w l Hl; cbn [xdisconnect]; [apply xok_refl|].
  destruct (xget w l) as [c|] eqn:E; [|apply xok_refl].
  destruct (true && negb (xc_og c =? 0)) eqn:Eg; [apply xok_refl|].
  assert (Hog : xc_og c = 0). { simpl in Eg. apply negb_false_iff in Eg. apply N.eqb_eq in Eg. exact Eg. }
  match goal with |- xok _ _ _ (match xget ?w1 l with _ => _ end) => set (wmid := w1) end.
  assert (O1 : xok xnone a w wmid).
  { unfold wmid. intros R. pose proof (xr_kids w R l c E) as K.
    destruct (xc_val c) eqn:Ev; try (apply xok_refl; exact R); simpl in K.
    - apply (xfold_ok xnone a (fun wa e => xdisconnect f true wa e) (fun e => e) els); auto.
    - apply (xfold_ok xnone a (fun wa e => xdisconnect f true wa (snd e)) (fun e => snd e) items); auto.
      apply (proj2 (Forall_map_snd (fun k => (k < length (xw_cells w))%nat) items)). exact K.
    - inversion K; subst. apply IH; auto. }
  intros R. destruct (O1 R) as [K1 R1].
  destruct (xget wmid l) as [c1|] eqn:E1; [|split; auto].
  (* the cell itself: value and id unchanged since the children only lost their owners *)
  assert (Hsame : xcellobs wmid l = xcellobs w l) by (apply K1; [exact Hl|intros []]).
  assert (Hog1 : xc_og c1 = 0).
  { apply xcellobs_og in Hsame. unfold xog in Hsame. rewrite E1, E in Hsame. congruence. }
  destruct (xset_owner_ok a wmid l c1 None E1 R1) as [K2 R2]. rewrite Hog1 in K2, R2.
  split; [eapply xkeeps_trans; eauto|exact R2].
Qed.

Lemma xdestroy_entry_ok a w l : (l < length (xw_cells w))%nat -> xok (eq l) a w (xdestroy_entry w l).
Proof.
  intros Hl. unfold xdestroy_entry. generalize (S xfuel). intros f0.
  assert (O1 : xok (eq l) a w (xdisconnect f0 false w l)).
  { destruct f0 as [|f]; cbn [xdisconnect]; [apply xok_refl|].
    destruct (xget w l) as [c|] eqn:E; [|apply xok_refl].
    cbn [andb].
    match goal with |- xok _ _ _ (match xget ?w1 l with _ => _ end) => set (wmid := w1) end.
    assert (O1 : xok xnone a w wmid).
    { unfold wmid. intros R. pose proof (xr_kids w R l c E) as K.
      destruct (xc_val c) eqn:Ev; try (apply xok_refl; exact R); simpl in K.
      - apply (xfold_ok xnone a (fun wa e => xdisconnect f true wa e) (fun e => e) els); auto.
        intros; apply xdisconnect_direct_ok; auto.
      - apply (xfold_ok xnone a (fun wa e => xdisconnect f true wa (snd e)) (fun e => snd e) items); auto.
        + intros; apply xdisconnect_direct_ok; auto.
        + apply (proj2 (Forall_map_snd (fun k => (k < length (xw_cells w))%nat) items)). exact K.
      - inversion K; subst. apply xdisconnect_direct_ok; auto. }
    intros R. destruct (O1 R) as [K1 R1].
    destruct (xget wmid l) as [c1|] eqn:E1; [|split; [eapply xkeeps_weaken; [|exact K1]; intros ? []|exact R1]].
    destruct (xset_ok a wmid l (mkXc (xc_val c1) None 0)) as [K2 R2]; [|exact R1|].
    { intros _. simpl. split; [eapply xr_kids; eauto|eapply xr_bufs; eauto]. }
    split; [|exact R2]. eapply xkeeps_trans; [eapply xkeeps_weaken; [|exact K1]; intros ? []|exact K2]. }
  destruct (xval (xdisconnect f0 false w l) l); try exact O1;
    (eapply xok_trans; [exact O1|]; apply xsetval_ok; intros _; simpl; split; constructor).
Qed.

(* ================================================================== every operation *)
Lemma xmem_In l ls : xmem l ls = true <-> In l ls.
Proof.
  unfold xmem. rewrite existsb_exists. split.
  - intros (x & Hx & E). apply Nat.eqb_eq in E. subst. exact Hx.
  - intros H. exists l. split; [exact H|apply Nat.eqb_refl].
Qed.

Lemma xparty_cells_nodoc w p : xinr w -> (length (xw_docs w) <= p)%nat -> xparty_cells w p = [].
Proof.
  intros R Hp. unfold xparty_cells, xdoc. rewrite (proj2 (nth_error_None _ _) Hp). simpl.
  pose proof (xr_roots w R) as F. unfold xroots_of. induction F as [|e t He Ht IH]; [reflexivity|]. cbn [filter].
  destruct He as (_ & _ & H3). destruct (Nat.eqb (fst (snd e)) p) eqn:E; [apply Nat.eqb_eq in E; lia|]. exact IH.
Qed.

Lemma xshared_false_not_in w a t p : xinr w -> xshared w a t = false -> p <> a -> ~ In t (xparty_cells w p).
Proof.
  intros R H Hp Hin. destruct (Nat.lt_ge_cases p (length (xw_docs w))) as [Hl|Hl].
  - unfold xshared in H. assert (Hx : existsb (fun p0 => negb (Nat.eqb p0 a) && xmem t (xparty_cells w p0)) (seq 0 (length (xw_docs w))) = true).
    { apply existsb_exists. exists p. split; [apply in_seq; lia|]. apply andb_true_iff. split.
      - apply negb_true_iff. apply Nat.eqb_neq. exact Hp.
      - apply xmem_In. exact Hin. }
    congruence.
  - rewrite (xparty_cells_nodoc w p R Hl) in Hin. contradiction.
Qed.

(* what every step satisfies: the cells it rewrites visibly are invisible to the other parties *)
Definition xstep_spec (a : nat) (w w' : hxworld) : Prop :=
  exists Wr : nat -> Prop, xkeeps Wr a w w' /\ xinr w' /\ (forall p l, p <> a -> In l (xparty_cells w p) -> ~ Wr l).

Lemma xspec_refl a w : xinr w -> xstep_spec a w w.
Proof. intros R. exists xnone. split; [apply xkeeps_refl|split; [exact R|]]. intros p l _ _ []. Qed.

Lemma xspec_alloc a w w' : xinr w -> xok xnone a w w' -> xstep_spec a w w'.
Proof. intros R O. destruct (O R) as [K R']. exists xnone. split; [exact K|split; [exact R'|]]. intros p l _ _ []. Qed.

Lemma xspec_target a w w1 w' t :
  xinr w -> xkeeps xnone a w w1 -> xinr w1 -> xshared w1 a t = false -> xok (eq t) a w1 w' -> xstep_spec a w w'.
Proof.
  intros R K1 R1 Hs O. destruct (O R1) as [K2 R2]. exists (eq t).
  split; [eapply xkeeps_trans; [eapply xkeeps_weaken; [|exact K1]; intros ? []|exact K2]|]. split; [exact R2|].
  intros p l Hp Hin <-.
  assert (E : xparty_cells w1 p = xparty_cells w p).
  { apply (xparty_cells_keeps xnone a w w1 p R K1 Hp). intros ? _ []. }
  apply (xshared_false_not_in w1 a t p R1 Hs Hp). rewrite E. exact Hin.
Qed.

Lemma xsep_cache w a dv p e :
  xinr w -> xsep_b w = true -> xdoc w a = Some dv -> In e (xd_cache dv) -> p <> a -> ~ In (snd e) (xparty_cells w p).
Proof.
  intros R S E He Hp. apply (xshared_false_not_in w a (snd e) p R); [|exact Hp].
  unfold xsep_b in S. rewrite forallb_forall in S.
  assert (Ha : In a (seq 0 (length (xw_docs w)))). { apply in_seq. split; [lia|]. apply nth_error_Some. unfold xdoc in E. congruence. }
  specialize (S a Ha). rewrite E in S. rewrite forallb_forall in S. specialize (S e He). apply negb_true_iff in S. exact S.
Qed.

Lemma xedit_insert_ok a w t wh lv w' :
  (t < length (xw_cells w))%nat -> (lv < length (xw_cells w))%nat -> xedit_insert w t wh lv = Some w' -> xok (eq t) a w w'.
Proof.
  intros Ht Hv H. unfold xedit_insert in H.
  destruct wh; destruct (xval w t) eqn:E; try discriminate.
  - assert (K : xinr w -> Forall (fun k => (k < length (xw_cells w))%nat) (map snd items)).
    { intros R. pose proof (xval_kids w t R) as K. rewrite E in K. exact K. }
    assert (Hset : xok (eq t) a w (xsetval w t (XDict (nmap_set items k lv)))).
    { apply xsetval_ok. intros R. simpl. split; [|constructor]. apply Forall_map_snd. apply Forall_nmap_set; [|exact Hv].
      apply (proj2 (Forall_map_snd (fun k => (k < length (xw_cells w))%nat) items)). auto. }
    assert (Hdel : xok (eq t) a w (xsetval w t (XDict (nmap_del items k)))).
    { apply xsetval_ok. intros R. simpl. split; [|constructor]. apply Forall_map_snd. apply Forall_nmap_del.
      apply (proj2 (Forall_map_snd (fun k => (k < length (xw_cells w))%nat) items)). auto. }
    inversion H; subst. destruct (xval w lv); auto. destruct (xog w lv =? 0); auto.
  - inversion H; subst. apply xsetval_ok. intros R. simpl. split; [|constructor].
    pose proof (xval_kids w t R) as K. rewrite E in K. simpl in K. apply Forall_app. split; auto.
  - destruct (Nat.ltb n (length els)); [|discriminate]. inversion H; subst. apply xsetval_ok. intros R. simpl. split; [|constructor].
    pose proof (xval_kids w t R) as K. rewrite E in K. simpl in K. apply Forall_set_nth; auto.
Qed.

Lemma xedit_delete_ok a w t wh w' : xedit_delete w t wh = Some w' -> xok (eq t) a w w'.
Proof.
  intros H. unfold xedit_delete in H.
  destruct wh; destruct (xval w t) eqn:E; try discriminate.
  - inversion H; subst. apply xsetval_ok. intros R. simpl. split; [|constructor].
    pose proof (xval_kids w t R) as K. rewrite E in K. simpl in K. apply Forall_map_snd. apply Forall_nmap_del.
    apply (proj2 (Forall_map_snd (fun k => (k < length (xw_cells w))%nat) items)). auto.
  - destruct (Nat.ltb n (length els)); [|discriminate]. inversion H; subst. apply xsetval_ok. intros R. simpl. split; [|constructor].
    pose proof (xval_kids w t R) as K. rewrite E in K. simpl in K. apply Forall_remove_nth. auto.
Qed.

Lemma xappend_ok a w cs :
  (forall c, In c cs -> Forall (fun k => (k < length (xw_cells w) + length cs)%nat) (xkids (xc_val c)) /\ xbuf_of (xc_val c) = []) ->
  xok xnone a w (xset_cells w (xw_cells w ++ cs)).
Proof.
  intros H R. split.
  - constructor; simpl; auto.
    + intros l Hl _. apply xcellobs_same_cell; [|reflexivity]. unfold xget. simpl. apply nth_error_app1. exact Hl.
    + rewrite app_length. lia.
  - apply xinr_cells; auto.
    + rewrite app_length. lia.
    + intros l c E. rewrite app_length. destruct (Nat.lt_ge_cases l (length (xw_cells w))) as [Hl|Hl].
      * rewrite nth_error_app1 in E by exact Hl. split; [|eapply xr_bufs; eauto].
        eapply Forall_lt_le; [|eapply xr_kids; eauto]. lia.
      * rewrite nth_error_app2 in E by exact Hl. apply nth_error_In in E. destruct (H c E) as [H1 H2]. rewrite H2. split; [exact H1|constructor].
Qed.

Lemma xadd_doc_ok a w dv :
  a = length (xw_docs w) ->
  (xinr w -> Forall (fun e => (snd e < length (xw_cells w))%nat) (xd_cache dv) /\ Forall (fun e => (snd e < length (xw_cells w))%nat) (xd_cmap dv)) ->
  xok xnone a w (xadd_doc w dv).
Proof.
  intros Ha H R. destruct (H R) as [H1 H2]. split.
  - constructor; simpl; auto; [intros p Hp; unfold xdoc; simpl; apply nth_error_app_other; congruence|rewrite app_length; lia].
  - constructor; simpl; try apply R.
    + intros d dv' E. unfold xdoc in E. simpl in E. destruct (Nat.eq_dec d (length (xw_docs w))) as [->|Hne].
      * rewrite nth_error_app2 in E by lia. rewrite Nat.sub_diag in E. simpl in E. inversion E; subst. exact H1.
      * rewrite nth_error_app_other in E by exact Hne. eapply xr_cache; eauto.
    + intros d dv' E. unfold xdoc in E. simpl in E. destruct (Nat.eq_dec d (length (xw_docs w))) as [->|Hne].
      * rewrite nth_error_app2 in E by lia. rewrite Nat.sub_diag in E. simpl in E. inversion E; subst. exact H2.
      * rewrite nth_error_app_other in E by exact Hne. eapply xr_cmap; eauto.
    + rewrite app_length. eapply Forall_impl; [|apply (xr_roots w R)]. simpl. intros e (X1 & X2 & X3). repeat split; auto. lia.
    + rewrite app_length. simpl. lia.
Qed.

Lemma xalive_lt w a : xalive w a = true -> (a < length (xw_docs w))%nat.
Proof. unfold xalive, xdoc. intros H. apply nth_error_Some. destruct (nth_error (xw_docs w) a); [discriminate|discriminate]. Qed.

(* ================================================================== buffers in the program's variables *)
Record xbinv (w : hxworld) : Prop := {
  (* distinct variables hold distinct Buffers *)
  xb_nodup : NoDup (map (fun e => xh_buf (snd e)) (xw_held w));
  (* a Buffer the library handed out and the program has not passed back is referenced by no stream *)
  xb_private : forall r h, In (r, h) (xw_held w) -> xh_given h = false ->
               forall l c, xget w l = Some c -> ~ In (xh_buf h) (xbuf_of (xc_val c))
}.

Lemma nth_set_nth_ne {A} (l : list A) n m x d : n <> m -> nth m (set_nth l n x) d = nth m l d.
Proof. revert n m. induction l; intros [|n] [|m] H; simpl; auto; try congruence. Qed.

Lemma xbset_ok a w b bs :
  (forall l c, xget w l = Some c -> ~ In b (xbuf_of (xc_val c))) -> xok xnone a w (xbset w b bs).
Proof.
  intros Hn R. split.
  - constructor; simpl; auto; [|rewrite set_nth_length; lia]. intros l Hl _. apply xcellobs_same_cell; [reflexivity|].
    intros c b' E Hb. simpl. apply nth_set_nth_ne. intros ->. apply (Hn l c E Hb).
  - constructor; simpl; try apply R.
    + intros l c E. rewrite set_nth_length. eapply (xr_bufs w R); eauto.
    + rewrite set_nth_length. apply R.
Qed.

Lemma xballoc_pair a w bs : xinr w ->
  xkeeps xnone a w (fst (xballoc w bs)) /\ xinr (fst (xballoc w bs)) /\
  (snd (xballoc w bs) < length (xw_bufs (fst (xballoc w bs))))%nat /\
  snd (xballoc w bs) = length (xw_bufs w) /\
  xw_cells (fst (xballoc w bs)) = xw_cells w /\ xw_held (fst (xballoc w bs)) = xw_held w /\
  nth (snd (xballoc w bs)) (xw_bufs (fst (xballoc w bs))) [] = bs.
Proof.
  intros R. destruct (xballoc_ok a w bs) as [O E]. destruct (O R) as [K R1].
  split; [exact K|]. split; [exact R1|]. unfold xballoc. cbn [fst snd xw_bufs xw_cells xw_held]. rewrite app_length. simpl.
  repeat split; try lia. rewrite app_nth2 by lia. rewrite Nat.sub_diag. reflexivity.
Qed.

Lemma xcmap_get_in m s id l : xcmap_get m s id = Some l -> In ((s, id), l) m.
Proof.
  induction m as [|[[s' id'] l'] m IH]; simpl; [discriminate|].
  destruct (Nat.eqb s' s && (id' =? id)) eqn:E; intros H.
  - apply andb_true_iff in E. destruct E as [E1 E2]. apply Nat.eqb_eq in E1. apply N.eqb_eq in E2. inversion H; subst. auto.
  - auto.
Qed.

(* copy_data_to on an immediate-copy source: the source stream now reads the same bytes from a Buffer *)
Lemma xsetval_same_data a w t dd src b :
  xval w t = XStream dd src -> (b < length (xw_bufs w))%nat -> nth b (xw_bufs w) [] = xdata w src ->
  xok xnone a w (xsetval w t (XStream dd (XsBuf b))).
Proof.
  intros Ev Hb Hd R.
  assert (Hdd : (dd < length (xw_cells w))%nat).
  { pose proof (xval_kids w t R) as K. rewrite Ev in K. simpl in K. inversion K; auto. }
  destruct (xsetval_ok a w t (XStream dd (XsBuf b))) as [K R']; [|exact R|].
  { intros _. simpl. split; repeat constructor; auto. }
  split; [|exact R']. destruct K as [C L D Nd Bf Ro]. constructor; auto.
  intros l Hl _. destruct (Nat.eq_dec t l) as [<-|Hne]; [|apply C; auto].
  unfold xsetval. unfold xval in Ev. destruct (xget w t) as [c|] eqn:E; [|discriminate].
  unfold xcellobs, xval, xog. rewrite xget_set_eq by exact Hl. rewrite E. cbn [xc_val xc_og]. rewrite Ev.
  cbn [xnorm xdata]. unfold xset. cbn [xw_bufs]. rewrite Hd. reflexivity.
Qed.

Lemma xeval_own a w e w1 t c :
  xinr w -> xeval false a w e = Some (w1, t, c) -> xkeeps xnone a w w1 /\ xinr w1 /\ (t < length (xw_cells w1))%nat.
Proof.
  intros R E. pose proof (xeval_ok false a a w e R) as H. rewrite E in H. destruct H as [O L].
  destruct (O R) as [K R1]. auto.
Qed.

Lemma xstep_spec_ok a w op : xinr w -> xbinv w -> xsep_b w = true -> xstep_spec a w (fst (xstep a w op)).
Proof.
  intros R B Sp. destruct op; cbn [xstep].
  - (* XoNewDoc *)
    destruct (Nat.eqb a (length (xw_docs w)) && negb (Nat.eqb a 0)) eqn:G; cbn [fst]; [|apply xspec_refl; exact R].
    apply andb_true_iff in G. destruct G as [G _]. apply Nat.eqb_eq in G.
    apply xspec_alloc; [exact R|].
    eapply xok_trans.
    + apply (xappend_ok a w [mkXc XReserved (Some a) 1; mkXc XReserved (Some a) 2]).
      intros c [<-|[<-|[]]]; simpl; split; auto.
    + apply xadd_doc_ok; [exact G|]. intros _. simpl. rewrite app_length. simpl. split; [|constructor].
      repeat constructor; simpl; lia.
  - (* XoOpenDoc *)
    destruct (Nat.eqb a (length (xw_docs w)) && negb (Nat.eqb a 0)) eqn:G; cbn [fst]; [|apply xspec_refl; exact R].
    apply andb_true_iff in G. destruct G as [G _]. apply Nat.eqb_eq in G.
    apply xspec_alloc; [exact R|].
    eapply xok_trans.
    + apply (xappend_ok a w (xfile_cells a (length (xw_cells w)))).
      intros c Hc. simpl in Hc.
      repeat (destruct Hc as [<-|Hc]; [simpl; split; [repeat constructor; lia|reflexivity]|]). contradiction.
    + apply xadd_doc_ok; [exact G|]. intros _. simpl. rewrite app_length. simpl. split; [|constructor].
      repeat constructor; simpl; lia.
  - (* XoParse *)
    destruct ((Nat.eqb a 0 || xalive w a) && xroot_ok a r) eqn:G; [|apply xspec_refl; exact R].
    apply andb_true_iff in G. destruct G as [G1 G2].
    assert (Ha : (a < length (xw_docs w))%nat).
    { apply orb_true_iff in G1. destruct G1 as [G1|G1]; [|apply xalive_lt; exact G1].
      apply Nat.eqb_eq in G1. subst a. apply (xr_docs0 w R). }
    assert (Hb : forall t', xstep_spec a w (fst (let (w1, l) := xbuild (if Nat.eqb a 0 then None else Some a) t' w in (xsetroot w1 r a l, IrOk)))).
    { intros t'. destruct (xbuild_ok a (if Nat.eqb a 0 then None else Some a) t' w R) as (K1 & R1 & L1).
      destruct (xbuild (if Nat.eqb a 0 then None else Some a) t' w) as [w1 l]. cbn [fst snd] in *.
      apply xspec_alloc; [exact R|]. intros _.
      destruct (xsetroot_ok a w1 r l (fun _ => L1) G2) as [K2 R2]; [|exact R1|].
      { pose proof (xk_ndocs _ _ _ _ K1). lia. }
      split; [eapply xkeeps_trans; eauto|exact R2]. }
    destruct t; try (apply xspec_refl; exact R); apply Hb.
  - (* XoHold *)
    destruct (xroot_ok a r && Nat.ltb a (length (xw_docs w))) eqn:G; [|apply xspec_refl; exact R].
    apply andb_true_iff in G. destruct G as [G1 G2]. apply Nat.ltb_lt in G2.
    destruct (xeval false a w h) as [[[w1 l] c]|] eqn:E; [|apply xspec_refl; exact R]. cbn [fst].
    destruct (xeval_own a w h w1 l c R E) as (K1 & R1 & L1).
    apply xspec_alloc; [exact R|]. intros _.
    destruct (xsetroot_ok a w1 r l (fun _ => L1) G1) as [K2 R2]; [|exact R1|].
    { pose proof (xk_ndocs _ _ _ _ K1). lia. }
    split; [eapply xkeeps_trans; eauto|exact R2].
  - (* XoMakeInd *)
    destruct (xalive w a) eqn:G; [|apply xspec_refl; exact R].
    destruct (xeval false a w h) as [[[w1 l] c]|] eqn:E; [|apply xspec_refl; exact R].
    destruct (xeval_own a w h w1 l c R E) as (K1 & R1 & L1).
    destruct ((xog w1 l =? 0) && negb (xshared w1 a l)) eqn:G2; [|apply xspec_refl; exact R]. cbn [fst].
    apply andb_true_iff in G2. destruct G2 as [_ G2]. apply negb_true_iff in G2.
    apply (xspec_target a w w1 _ l R K1 R1 G2).
    eapply xok_trans; [eapply xok_weaken; [|apply (xsetcache_ok a w1 (xcount w1 a + 1) l (fun _ => L1))]; intros ? []|].
    destruct (xget (xsetcache w1 a (xcount w1 a + 1) l) l) as [c0|] eqn:Ec; [|apply xok_refl].
    apply xset_ok. intros R2. simpl. split; [eapply xr_kids; eauto|eapply xr_bufs; eauto].
  - (* XoInsert *)
    destruct (xeval false a w h) as [[[w1 t] c]|] eqn:E; [|apply xspec_refl; exact R].
    destruct (xeval_own a w h w1 t c R E) as (K1 & R1 & L1).
    destruct (xeval true a w1 v) as [[[w2 lv] cross]|] eqn:Ev; [|apply xspec_refl; exact R].
    pose proof (xeval_ok true a a w1 v R1) as H2. rewrite Ev in H2. destruct H2 as [O2 L2]. destruct (O2 R1) as [K2 R2]. specialize (L2 R1).
    assert (K12 : xkeeps xnone a w w2) by (eapply xkeeps_trans; eauto).
    match goal with |- context [if ?g then (w, IrSkip) else _] => destruct g eqn:G end; [apply xspec_refl; exact R|].
    apply orb_false_iff in G. destruct G as [G _]. apply orb_false_iff in G. destruct G as [G _].
    apply orb_false_iff in G. destruct G as [G _]. apply orb_false_iff in G. destruct G as [_ G].
    destruct (xedit_insert w2 t wh lv) as [w3|] eqn:Ee; [|apply xspec_refl; exact R].
    destruct (xclash w2 t lv); cbn [fst].
    + apply xspec_alloc; [exact R|]. intros _. auto.
    + apply (xspec_target a w w2 w3 t R K12 R2 G).
      eapply xedit_insert_ok; [| |exact Ee]; auto. pose proof (xkeeps_len _ _ _ _ K2). lia.
  - (* XoDelete *)
    destruct (xeval false a w h) as [[[w1 t] c]|] eqn:E; [|apply xspec_refl; exact R].
    destruct (xeval_own a w h w1 t c R E) as (K1 & R1 & L1).
    match goal with |- context [if ?g then (w, IrSkip) else _] => destruct g eqn:G end; [apply xspec_refl; exact R|].
    apply orb_false_iff in G. destruct G as [G _].
    destruct (xedit_delete w1 t wh) as [w2|] eqn:Ee; [|apply xspec_refl; exact R]. cbn [fst].
    apply (xspec_target a w w1 w2 t R K1 R1 G). eapply xedit_delete_ok; eauto.
  - (* XoDestroy *)
    destruct (xdoc w a) as [dv|] eqn:E; [|apply xspec_refl; exact R].
    destruct (xd_alive dv); [|apply xspec_refl; exact R]. cbn [fst].
    set (Wr := fun l => In l (map snd (xd_cache dv))).
    assert (O1 : xok Wr a w (fold_left (fun wa e => xdestroy_entry wa (snd e)) (xd_cache dv) w)).
    { apply (xfold_okQ Wr a (fun wa e => xdestroy_entry wa (snd e)) (fun e => snd e) (fun e => In e (xd_cache dv)) (xd_cache dv)).
      - intros w0 x Hq Hx. eapply xok_weaken; [|apply xdestroy_entry_ok; exact Hx].
        intros l <-. unfold Wr. apply in_map. exact Hq.
      - apply Forall_forall. auto.
      - apply (xr_cache w R a dv E). }
    destruct (O1 R) as [K1 R1].
    destruct (xsetdoc_ok a _ (mkXd [] false (xd_imm dv) (xd_cmap dv)) (fun _ => conj (Forall_nil _) (Forall_snd_lt_le _ _ _ (xkeeps_len _ _ _ _ K1) (xr_cmap w R a dv E))) R1) as [K2 R2].
    exists Wr. split; [eapply xkeeps_trans; [exact K1|eapply xkeeps_weaken; [|exact K2]; intros ? []]|]. split; [exact R2|].
    intros p l Hp Hin Hw. unfold Wr in Hw. apply in_map_iff in Hw. destruct Hw as (e & <- & He).
    apply (xsep_cache w a dv p e R Sp E He Hp Hin).
  - (* XoObserve *) destruct (xalive w a); apply xspec_refl; exact R.
  - (* XoNewStream *)
    destruct (xalive w a && xroot_ok a r) eqn:G; [|apply xspec_refl; exact R].
    apply andb_true_iff in G. destruct G as [G1 G2]. apply xalive_lt in G1.
    destruct (xpair_alloc a w (mkXc (XDict []) (Some a) 0) (fun _ => conj (Forall_nil _) (Forall_nil _)) R) as (K1 & R1 & L1).
    destruct (xalloc w (mkXc (XDict []) (Some a) 0)) as [w1 d]. cbn [fst snd] in *.
    destruct (xballoc_pair a w1 bs R1) as (K2 & R2 & L2 & _ & Ec & _).
    destruct (xballoc w1 bs) as [w2 b]. cbn [fst snd] in *.
    set (next := xcount w2 a + 1).
    destruct (xpair_alloc a w2 (mkXc (XStream d (XsBuf b)) (Some a) next)) as (K3 & R3 & L3); [|exact R2|].
    { intros _. simpl. split; repeat constructor; auto. rewrite Ec. exact L1. }
    destruct (xalloc w2 (mkXc (XStream d (XsBuf b)) (Some a) next)) as [w3 l]. cbn [fst snd] in *.
    apply xspec_alloc; [exact R|]. intros _.
    destruct (xsetcache_ok a w3 next l (fun _ => L3) R3) as [K4 R4].
    destruct (xsetroot_ok a (xsetcache w3 a next l) r l) as [K5 R5]; auto.
    { intros _. pose proof (xkeeps_len _ _ _ _ K4). lia. }
    { pose proof (xk_ndocs _ _ _ _ K1). pose proof (xk_ndocs _ _ _ _ K2). pose proof (xk_ndocs _ _ _ _ K3). pose proof (xk_ndocs _ _ _ _ K4). lia. }
    split; [|exact R5]. eapply xkeeps_trans; [exact K1|]. eapply xkeeps_trans; [exact K2|]. eapply xkeeps_trans; [exact K3|].
    eapply xkeeps_trans; [exact K4|exact K5].
  - (* XoReplaceData *)
    destruct (xeval false a w h) as [[[w1 t] c]|] eqn:E; [|apply xspec_refl; exact R].
    destruct (xeval_own a w h w1 t c R E) as (K1 & R1 & L1).
    destruct (xval w1 t) eqn:Ev; try (apply xspec_refl; exact R).
    destruct (xshared w1 a t) eqn:G; [apply xspec_refl; exact R|].
    destruct (xballoc_pair a w1 bs R1) as (K2 & R2 & L2 & _ & Ec & _).
    destruct (xballoc w1 bs) as [w2 b]. cbn [fst snd] in *.
    assert (Hd : (dict < length (xw_cells w1))%nat).
    { pose proof (xval_kids w1 t R1) as K. rewrite Ev in K. simpl in K. inversion K; auto. }
    destruct (xsetval_ok a w2 t (XStream dict (XsBuf b))) as [K3 R3]; [|exact R2|].
    { intros _. simpl. split; repeat constructor; auto. rewrite Ec. exact Hd. }
    exists (eq t). split; [|split; [exact R3|]].
    + eapply xkeeps_trans; [eapply xkeeps_weaken; [|exact K1]; intros ? []|].
      eapply xkeeps_trans; [eapply xkeeps_weaken; [|exact K2]; intros ? []|exact K3].
    + intros p l Hp Hin <-.
      assert (Ep : xparty_cells w1 p = xparty_cells w p).
      { apply (xparty_cells_keeps xnone a w w1 p R K1 Hp). intros ? _ []. }
      apply (xshared_false_not_in w1 a t p R1 G Hp). rewrite Ep. exact Hin.
  - (* XoCopy *)
    destruct (xalive w a && xalive w s && negb (Nat.eqb s a) && xroot_ok a r) eqn:G; [|apply xspec_refl; exact R].
    apply andb_true_iff in G. destruct G as [G G4]. apply andb_true_iff in G. destruct G as [G _].
    apply andb_true_iff in G. destruct G as [G1 _]. apply xalive_lt in G1.
    destruct (xeval false s w h) as [[[w1 t] c]|] eqn:E; [|apply xspec_refl; exact R].
    pose proof (xeval_ok false s a w h R) as H1. rewrite E in H1. destruct H1 as [O1 L1]. destruct (O1 R) as [K1 R1]. specialize (L1 R).
    match goal with |- context [if ?g then (w, IrSkip) else _] => destruct g end; [apply xspec_refl; exact R|].
    destruct (xdoc w1 a) as [dva|] eqn:Ea; [|apply xspec_refl; exact R].
    destruct (negb (xcopyable w1 t)); [apply xspec_refl; exact R|].
    assert (Ha1 : (a < length (xw_docs w1))%nat). { pose proof (xk_ndocs _ _ _ _ K1). lia. }
    destruct (xcmap_get (xd_cmap dva) s (xog w1 t)) as [l|] eqn:Ec.
    + cbn [fst]. apply xspec_alloc; [exact R|]. intros _.
      assert (Hl : (l < length (xw_cells w1))%nat).
      { apply xcmap_get_in in Ec. pose proof (xr_cmap w1 R1 a dva Ea) as F. rewrite Forall_forall in F. apply (F _ Ec). }
      destruct (xsetroot_ok a w1 r l (fun _ => Hl) G4 Ha1 R1) as [K2 R2].
      split; [eapply xkeeps_trans; eauto|exact R2].
    + (* the tail shared by both kinds of copy: register the new object *)
      assert (Tail : forall w3 l next, xkeeps xnone a w w3 -> xinr w3 -> (l < length (xw_cells w3))%nat ->
                xstep_spec a w (xsetroot (xsetcmap (xsetcache w3 a next l) a s (xog w1 t) l) r a l)).
      { intros w3 l next K3 R3 L3. apply xspec_alloc; [exact R|]. intros _.
        destruct (xsetcache_ok a w3 next l (fun _ => L3) R3) as [K4 R4].
        assert (L4 : (l < length (xw_cells (xsetcache w3 a next l)))%nat) by (pose proof (xkeeps_len _ _ _ _ K4); lia).
        destruct (xsetcmap_ok a (xsetcache w3 a next l) s (xog w1 t) l (fun _ => L4) R4) as [K5 R5].
        destruct (xsetroot_ok a (xsetcmap (xsetcache w3 a next l) a s (xog w1 t) l) r l) as [K6 R6]; auto.
        { intros _. pose proof (xkeeps_len _ _ _ _ K5). lia. }
        { pose proof (xk_ndocs _ _ _ _ K3). pose proof (xk_ndocs _ _ _ _ K4). pose proof (xk_ndocs _ _ _ _ K5). lia. }
        split; [|exact R6]. eapply xkeeps_trans; [exact K3|]. eapply xkeeps_trans; [exact K4|]. eapply xkeeps_trans; [exact K5|exact K6]. }
      assert (Plain : forall next, xstep_spec a w (fst (let (w3, l) := xclone xfuel (Some a) next w1 t in
                                   (xsetroot (xsetcmap (xsetcache w3 a next l) a s (xog w1 t) l) r a l, IrOk)))).
      { intros next. destruct (xclone_ok a xfuel (Some a) next w1 t R1) as (K3 & R3 & L3).
        destruct (xclone xfuel (Some a) next w1 t) as [w3 l]. cbn [fst snd] in *.
        apply Tail; auto. eapply xkeeps_trans; eauto. }
      destruct (xval w1 t) eqn:Ev; try apply Plain.
      (* a stream *)
      set (imm := xd_imm match xdoc w1 s with Some dvs => dvs | None => xdoc0 end && negb (xis_buf src)).
      assert (Himm : exists w2 src2, (if imm then let (w2, b) := xballoc w1 (xdata w1 src) in (xsetval w2 t (XStream dict (XsBuf b)), XsBuf b)
                                      else (w1, src)) = (w2, src2) /\ xkeeps xnone a w1 w2 /\ xinr w2 /\
                                     (xinr w2 -> Forall (fun b => (b < length (xw_bufs w2))%nat) (xbuf_of (XStream 0 src2))) /\
                                     (dict < length (xw_cells w2))%nat).
      { assert (Hdd : (dict < length (xw_cells w1))%nat).
        { pose proof (xval_kids w1 t R1) as K. rewrite Ev in K. simpl in K. inversion K; auto. }
        destruct imm.
        - destruct (xballoc_pair a w1 (xdata w1 src) R1) as (K2 & R2 & L2 & Eb & Ecells & _ & Enth).
          destruct (xballoc w1 (xdata w1 src)) as [w2 b] eqn:Eba. cbn [fst snd] in *.
          assert (Ev2 : xval w2 t = XStream dict src). { unfold xval, xget. rewrite Ecells. exact Ev. }
          assert (Hdata : xdata w2 src = xdata w1 src).
          { destruct src; try reflexivity. simpl. inversion Eba; subst. simpl. apply app_nth1.
            pose proof (xr_bufs w1 R1 t) as F. unfold xval in Ev. destruct (xget w1 t) as [c0|] eqn:Eg; [|discriminate].
            specialize (F c0 eq_refl). rewrite Ev in F. simpl in F. inversion F; auto. }
          destruct (xsetval_same_data a w2 t dict src b Ev2 L2) as [K3 R3]; [congruence|exact R2|].
          exists (xsetval w2 t (XStream dict (XsBuf b))), (XsBuf b). split; [reflexivity|].
          split; [eapply xkeeps_trans; eauto|]. split; [exact R3|]. split.
          + intros _. simpl. repeat constructor. unfold xsetval. destruct (xget w2 t); exact L2.
          + pose proof (xkeeps_len _ _ _ _ K3). rewrite <- Ecells in Hdd. lia.
        - exists w1, src. split; [reflexivity|]. split; [apply xkeeps_refl|]. split; [exact R1|]. split; [|exact Hdd].
          intros _. unfold xval in Ev. destruct (xget w1 t) as [c0|] eqn:Eg; [|discriminate].
          pose proof (xr_bufs w1 R1 t c0 Eg) as F. rewrite Ev in F. exact F. }
      destruct Himm as (w2 & src2 & Eq & K2 & R2 & Hb2 & Hd2). fold imm. rewrite Eq.
      destruct (xclone_ok a xfuel (Some a) 0 w2 dict R2) as (K3 & R3 & L3).
      destruct (xclone xfuel (Some a) 0 w2 dict) as [w3 dc]. cbn [fst snd] in *.
      set (next := xcount w3 a + 1).
      set (src3 := match src2 with XsBuf b => XsBuf b | XsFile bs => XsProv bs | XsProv bs => XsProv bs end).
      destruct (xpair_alloc a w3 (mkXc (XStream dc src3) (Some a) next)) as (K5 & R5 & L5); [|exact R3|].
      { intros _. simpl. split; [repeat constructor; exact L3|].
        specialize (Hb2 R2). unfold src3. destruct src2; simpl in *; [constructor| |constructor].
        inversion Hb2; subst. constructor; [|constructor].
        pose proof (xk_nbufs _ _ _ _ K3). lia. }
      destruct (xalloc w3 (mkXc (XStream dc src3) (Some a) next)) as [w5 l]. cbn [fst snd] in *.
      apply Tail; auto. eapply xkeeps_trans; [exact K1|]. eapply xkeeps_trans; [exact K2|]. eapply xkeeps_trans; [exact K3|exact K5].
  - (* XoGetData *)
    destruct (xeval false a w h) as [[[w1 t] c]|] eqn:E; [|apply xspec_refl; exact R].
    destruct (xeval_own a w h w1 t c R E) as (K1 & R1 & L1).
    destruct (xval w1 t) eqn:Ev; try (apply xspec_refl; exact R).
    destruct (xballoc_pair a w1 (xdata w1 src) R1) as (K2 & R2 & L2 & _).
    destruct (xballoc w1 (xdata w1 src)) as [w2 b]. cbn [fst snd] in *.
    apply xspec_alloc; [exact R|]. intros _.
    destruct (xsetheld_ok a w2 br (mkXh false b false) (fun _ => L2) R2) as [K3 R3].
    split; [|exact R3]. eapply xkeeps_trans; [exact K1|]. eapply xkeeps_trans; [exact K2|exact K3].
  - (* XoMutate *)
    destruct (negb (Nat.eqb a 0)); [apply xspec_refl; exact R|].
    destruct (imap_get (xw_held w) br) as [hb|] eqn:E; [|apply xspec_refl; exact R].
    destruct (xh_given hb) eqn:Eg; [apply xspec_refl; exact R|].
    destruct (xh_opaque hb); [apply xspec_refl; exact R|].
    destruct (Nat.ltb pos (length (nth (xh_buf hb) (xw_bufs w) []))); [|apply xspec_refl; exact R]. cbn [fst].
    apply xspec_alloc; [exact R|]. apply xbset_ok.
    apply imap_get_in in E. apply (xb_private w B br hb E Eg).
  - (* XoGive *)
    destruct (xeval false a w h) as [[[w1 t] c]|] eqn:E; [|apply xspec_refl; exact R].
    destruct (xeval_own a w h w1 t c R E) as (K1 & R1 & L1).
    destruct (xval w1 t) eqn:Ev; try (apply xspec_refl; exact R).
    destruct (imap_get (xw_held w1) br) as [hb|] eqn:Eh; [|apply xspec_refl; exact R].
    destruct (xshared w1 a t) eqn:G; [apply xspec_refl; exact R|]. cbn [orb].
    destruct (xh_given hb || xh_opaque hb); [apply xspec_refl; exact R|]. cbn [fst].
    assert (Hd : (dict < length (xw_cells w1))%nat).
    { pose proof (xval_kids w1 t R1) as K. rewrite Ev in K. simpl in K. inversion K; auto. }
    assert (Hb : (xh_buf hb < length (xw_bufs w1))%nat).
    { apply imap_get_in in Eh. pose proof (xr_held w1 R1) as F. rewrite Forall_forall in F. apply (F _ Eh). }
    apply (xspec_target a w w1 _ t R K1 R1 G). intros _.
    destruct (xsetval_ok a w1 t (XStream dict (XsBuf (xh_buf hb)))) as [K2 R2]; [|exact R1|].
    { intros _. simpl. split; repeat constructor; auto. }
    destruct (xsetheld_ok a (xsetval w1 t (XStream dict (XsBuf (xh_buf hb)))) br (mkXh true (xh_buf hb) false)) as [K3 R3]; [|exact R2|].
    { intros _. unfold xsetval. destruct (xget w1 t); exact Hb. }
    split; [eapply xkeeps_trans; [exact K2|eapply xkeeps_weaken; [|exact K3]; intros ? []]|exact R3].
  - (* XoWriteBuf *)
    destruct (xalive w a); [|apply xspec_refl; exact R].
    destruct (xballoc_pair a w [] R) as (K2 & R2 & L2 & _).
    destruct (xballoc w []) as [w2 b]. cbn [fst snd] in *.
    apply xspec_alloc; [exact R|]. intros _.
    destruct (xsetheld_ok a w2 br (mkXh false b true) (fun _ => L2) R2) as [K3 R3].
    split; [|exact R3]. eapply xkeeps_trans; [exact K2|exact K3].
Qed.

(* ================================================================== the theorems *)
Definition xwf (w : hxworld) : Prop := xinr w /\ xbinv w.

(* frame property for storage that several parties can reach: in a world whose documents keep their indirect objects
   to themselves ([xsep_b], preserved by every operation: hx_sep_preserved), an operation of party a - in-place edits,
   makeIndirectObject, replaceStreamData, copyForeignObject FROM any document, getRawStreamData / getStreamData,
   QPDFWriter, ~QPDF, and the program (party 0) writing into a Buffer the library handed out - leaves everything a
   caller can see of every OTHER party unchanged: the objects of its document (streams: dictionary and data) and every
   handle obtained from it.  In particular destroying a document does not change the direct values it shares with
   other documents or with variables of the program, and copying from a document does not change it. *)
Lemma hx_frame_other_parties_lemma : forall (w : hxworld) (a p : nat) (op : xop),
  xwf w -> xsep_b w = true -> p <> a -> xobs (fst (xstep a w op)) p = xobs w p.
Proof.
  intros w a p op [R B] Sp Hp. destruct (xstep_spec_ok a w op R B Sp) as (Wr & K & R' & Hd).
  apply (xframe_core Wr a w _ p R K Hp). intros l Hl. apply (Hd p l Hp Hl).
Qed.

(* every index of every world reached keeps pointing at something *)
Lemma hx_ranges_preserved_lemma : forall (w : hxworld) (a : nat) (op : xop),
  xwf w -> xsep_b w = true -> xinr (fst (xstep a w op)).
Proof. intros w a op [R B] Sp. destruct (xstep_spec_ok a w op R B Sp) as (Wr & K & R' & Hd). exact R'. Qed.
