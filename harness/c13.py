# C13 - page-tree and object-copy APIs vs a plain list model.
# Proof: Props/Properties_C13.v (list refinement and invariant of the page operations on the model of
# QPDF_pages.cc; memo / monotonicity / frame / homomorphism properties of the foreign copier model).
# Tie: harness/drv_pages.cc executes operation sequences through the public API on two documents and
# prints, after every step, the result, the raw /Pages tree, a hash (or dump) of every object of both
# documents and optionally getAllPages / findPage; the extracted model (Struct/PgModel.v) runs the same
# concrete sequence and must print the same; the extracted list specification (Struct/PgSpec.v) is
# compared with what the implementation shows (tree leaves, /Count, /Parent, getAllPages, findPage,
# write + re-read).
import itertools, json, os, re
import common, pdfgen
from pdfgen import Doc, D, N, Ref, Stream

ASSUMPTIONS = [
    "documents are generated with generation 0 everywhere, direct /Kids arrays, no dangling references; values are null/integer/name/reference/array/dictionary and unfiltered streams (strings, reals, booleans are not used)",
    "stream /Length is not compared (the stream code adds it when data is first read); stream data of a copy is compared as bytes",
    "warnings are not compared, only results, exceptions by class (QPDFExc / runtime_error / logic_error) and the complete object state",
    "the list specification is evaluated on histories whose operands are pages, page-like dictionaries or unrelated objects; operations that damage the tree directly (replaceObject/swapObjects on /Pages nodes or the catalog, a page replaced by a non-dictionary) are compared model-vs-implementation only and the specification resumes after updateAllPagesCache",
    "getAllPages() handing out a reference that user code mutates is outside (DESIGN C13)",
    "ext part: PgxModel.pgx_reread treats QPDFWriter as the identity on the object graph (C01's subject) and compares /Count and the marker list of the re-read file, not its warnings; the leaf function pgx_doc_leaves is compared with the driver's raw tree walk only where that walk meets dictionaries (otherwise both must refuse)",
]

# ---------------------------------------------------------------- documents

def ser_model(o):
    """qpdf unparse style, the syntax ocaml/h_pages.ml reads"""
    if o is None:
        return "null"
    if isinstance(o, int) and not isinstance(o, bool):
        return str(o)
    if isinstance(o, pdfgen.Name):
        return "/" + o.b.decode()
    if isinstance(o, Ref):
        return "%d 0 R" % o.n
    if isinstance(o, list):
        return "[ " + "".join(ser_model(x) + " " for x in o) + "]"
    if isinstance(o, dict):
        return "<< " + "".join("/%s %s " % (k.decode(), ser_model(v)) for k, v in sorted(o.items())) + ">>"
    raise TypeError(type(o))


def model_text(doc):
    out = ["root:%d" % doc.trailer[b"Root"].n]
    for n in sorted(doc.objects):
        o = doc.objects[n]
        if isinstance(o, Stream):
            out.append("%d:S%s#%s" % (n, ser_model(o.d), o.data.hex() if o.data else "-"))
        else:
            out.append("%d:%s" % (n, ser_model(o)))
    return "\n".join(out)


def page_dict(parent, mk, contents=None, font=None, full=True):
    pg = D(Type=N("Page"), Parent=parent, Mk=mk)
    if contents is not None:
        pg[b"Contents"] = contents
    if full:
        pg[b"MediaBox"] = [0, 0, 100 + mk, 100]
        pg[b"Resources"] = D(Font=D(F1=font)) if font is not None else {}
    return pg


def add_extras(d, first_page, pages_root):
    """object graph with sharing, cycles, an array object, a stream, references to a page and to /Pages"""
    x = d.add(None)
    y = d.add(None)
    z = d.add(None)
    s = d.add(Stream(D(Ref=y), b"stream-data"))
    nul = d.add(None)           # an indirect null
    d.objects[x.n] = D(A=y, B=y, Self=x, Arr=[y, z, None, 5, N("Nm"), nul], Pg=first_page, Par=pages_root, Str=s, Nul=nul,
                       Dir=D(Type=N("Pages"), In=y), Deep=D(L1=D(L2=[D(L3=y)])))
    d.objects[y.n] = D(Back=x, V=7)
    d.objects[z.n] = [y, x, [z]]
    d.objects[1][b"Extra"] = x
    return x


def doc_flat(n, base, annots=True, extras=True, shared_res=False):
    d = Doc()
    d.add(None)
    d.add(None)
    font = d.add(D(Type=N("Font"), BaseFont=N("Helv")))
    res = d.add(D(Font=D(F1=font))) if shared_res else None
    refs = []
    for k in range(n):
        cs = d.add(Stream({}, b"(%d) Tj" % (base + k)))
        pg = page_dict(Ref(2), base + k, cs, font)
        if res is not None and k % 2 == 0:
            pg[b"Resources"] = res
        refs.append(d.add(pg))
    if annots:
        for k, r in enumerate(refs):
            a = d.add(D(Type=N("Annot"), P=r, Dest=[refs[(k + 1) % n], N("Fit")]))
            d.objects[r.n][b"Annots"] = [a]
    d.objects[2] = D(Type=N("Pages"), Count=n, Kids=list(refs))
    d.objects[1] = D(Type=N("Catalog"), Pages=Ref(2))
    d.trailer = {b"Root": Ref(1)}
    if extras:
        add_extras(d, refs[0] if refs else Ref(2), Ref(2))
    return d


def doc_nested(base, variant=0):
    """root -> [n1 -> [p,p,p], p, n2 -> [n3 -> [p,p], p]] with inherited attributes on every level"""
    d = Doc()
    d.add(None)
    d.add(None)
    font = d.add(D(Type=N("Font"), BaseFont=N("Helv")))
    resobj = d.add(D(Font=D(F1=font)))
    n1, n2, n3 = d.add(None), d.add(None), d.add(None)
    mk = [base]

    def page(parent, full):
        cs = d.add(Stream({}, b"(%d) Tj" % mk[0]))
        pg = page_dict(parent, mk[0], cs, font, full=full)
        mk[0] += 1
        return d.add(pg)
    k1 = [page(n1, False) for _ in range(3)]
    pm = page(Ref(2), False)
    k3 = [page(n3, False) for _ in range(2)]
    p2 = page(n2, variant == 1)
    d.objects[n1.n] = D(Type=N("Pages"), Parent=Ref(2), Count=3, Kids=k1, Rotate=90, Resources=(resobj if variant != 2 else D(Font=D(F1=font))))
    d.objects[n3.n] = D(Type=N("Pages"), Parent=n2, Count=2, Kids=k3, MediaBox=[0, 0, 50, 50])
    d.objects[n2.n] = D(Type=N("Pages"), Parent=Ref(2), Count=3, Kids=[n3, p2], CropBox=[1, 1, 9, 9], Resources=resobj)
    d.objects[k1[1].n][b"Rotate"] = 180          # page value hides the ancestor's
    root = D(Type=N("Pages"), Count=7, Kids=[n1, pm, n2], MediaBox=[0, 0, 612, 792], Resources=D(Font=D(F1=font)))
    if variant == 2:
        root[b"Rotate"] = 270
        root[b"Foo"] = 1
        d.objects[n2.n][b"Bar"] = N("Skipped")
    d.objects[2] = root
    d.objects[1] = D(Type=N("Catalog"), Pages=Ref(2))
    d.trailer = {b"Root": Ref(1)}
    add_extras(d, k1[0], n3)
    return d


def doc_shared(base, across=False):
    """a page object referenced twice (same node, or two different nodes)"""
    d = doc_flat(3, base, annots=False)
    p = d.objects[2][b"Kids"]
    if not across:
        d.objects[2][b"Kids"] = [p[0], p[1], p[0], p[2], p[1]]
        d.objects[2][b"Count"] = 5
    else:
        node = d.add(D(Type=N("Pages"), Parent=Ref(2), Count=2, Kids=[p[0], p[2]]))
        d.objects[2][b"Kids"] = [p[0], p[1], node]
        d.objects[2][b"Count"] = 4
    return d


def doc_sharedn(base, variant=0):
    """one page object that is a kid of two (variant 1: three) DIFFERENT /Pages nodes whose inherited attributes differ"""
    d = Doc()
    d.add(None)
    d.add(None)
    font = d.add(D(Type=N("Font"), BaseFont=N("Helv")))
    n1, n2 = d.add(None), d.add(None)

    def page(parent, mk):
        cs = d.add(Stream({}, b"(%d) Tj" % mk))
        return d.add(page_dict(parent, mk, cs, font, full=False))
    pa, ps, pb = page(n1, base), page(n1, base + 1), page(n2, base + 2)
    d.objects[n1.n] = D(Type=N("Pages"), Parent=Ref(2), Count=2, Kids=[pa, ps], Rotate=90, MediaBox=[0, 0, 50, 50])
    d.objects[n2.n] = D(Type=N("Pages"), Parent=Ref(2), Count=2, Kids=[ps, pb], Rotate=270, CropBox=[1, 1, 9, 9])
    kids = [n1, n2] + ([ps] if variant == 1 else [])
    d.objects[2] = D(Type=N("Pages"), Count=4 + (1 if variant == 1 else 0), Kids=kids, MediaBox=[0, 0, 612, 792], Resources=D(Font=D(F1=font)))
    d.objects[1] = D(Type=N("Catalog"), Pages=Ref(2))
    d.trailer = {b"Root": Ref(1)}
    add_extras(d, pa, n2)
    return d


def doc_direct(base):
    """direct page dictionaries inside /Kids"""
    d = doc_flat(2, base, annots=False)
    p = d.objects[2][b"Kids"]
    d.objects[2][b"Kids"] = [p[0], page_dict(Ref(2), base + 7, None, None), p[1], page_dict(Ref(2), base + 8, None, None, full=False)]
    d.objects[2][b"Count"] = 4
    return d


def doc_sloppy(base):
    """pages without /Type, /MediaBox, /Resources, with a non-array /Annots; /Pages node without /Type"""
    d = doc_flat(4, base, annots=False)
    p = d.objects[2][b"Kids"]
    del d.objects[p[0].n][b"Type"]
    del d.objects[p[1].n][b"MediaBox"]
    del d.objects[p[2].n][b"Resources"]
    d.objects[p[3].n][b"Annots"] = 5
    d.objects[p[3].n][b"Type"] = N("Pag")
    d.objects[p[1].n][b"MediaBox"] = [0, 0, 1]
    del d.objects[2][b"Type"]
    return d


def doc_rootup(base, to_page=False):
    """catalog /Pages points below the root of the tree"""
    d = doc_nested(base)
    d.objects[1][b"Pages"] = d.objects[2][b"Kids"][1] if to_page else d.objects[2][b"Kids"][2]
    return d


def doc_badkids(base):
    """non-dictionary kids: null, integer, reference to a stream / to an integer object"""
    d = doc_flat(3, base, annots=False)
    p = d.objects[2][b"Kids"]
    io = d.add(12)
    cs = d.objects[p[0].n][b"Contents"]
    d.objects[2][b"Kids"] = [p[0], io, p[1], cs, p[2]]
    d.objects[2][b"Count"] = 5
    return d


def doc_loop(base):
    d = doc_nested(base)
    kids = d.objects[2][b"Kids"]
    d.objects[kids[2].n][b"Kids"].append(Ref(2))
    return d


def doc_empty():
    return doc_flat(0, 0, annots=False)


FAMILIES = {
    # name: (builder, spec_ok)
    "flat3": (lambda b: doc_flat(3, b), True),
    "flat4r": (lambda b: doc_flat(4, b, shared_res=True), True),
    "flat1": (lambda b: doc_flat(1, b), True),
    "flat8": (lambda b: doc_flat(8, b), True),
    "nested0": (lambda b: doc_nested(b, 0), True),
    "nested1": (lambda b: doc_nested(b, 1), True),
    "nested2": (lambda b: doc_nested(b, 2), True),
    "shared": (lambda b: doc_shared(b), True),
    "sharedx": (lambda b: doc_shared(b, True), True),
    "sharedn": (lambda b: doc_sharedn(b), True),
    "sharedn3": (lambda b: doc_sharedn(b, 1), True),
    "direct": (lambda b: doc_direct(b), True),
    "sloppy": (lambda b: doc_sloppy(b), True),
    "empty": (lambda b: doc_empty(), True),
    "rootup": (lambda b: doc_rootup(b), False),
    "rootpg": (lambda b: doc_rootup(b, True), False),
    "badkids": (lambda b: doc_badkids(b), False),
    "loop": (lambda b: doc_loop(b), False),
}


# ---------------------------------------------------------------- extension (c13full): unusual trees, random object graphs
import random as _random


def doc_wrongcount(base, delta, nested=False):
    """a tree whose ROOT /Count is wrong (nothing else is)"""
    d = doc_nested(base) if nested else doc_flat(3, base)
    d.objects[2][b"Count"] = d.objects[2][b"Count"] + delta
    return d


def doc_innercount(base):
    """interior /Count values wrong, the root's right"""
    d = doc_nested(base)
    kids = d.objects[2][b"Kids"]
    d.objects[kids[0].n][b"Count"] = 7
    d.objects[kids[2].n][b"Count"] = 1
    return d


def doc_rtree(seed, base):
    """random page tree: nesting up to 3 levels, empty nodes, a page listed again under another node, direct page
    dictionaries, missing /Type, wrong interior /Count, inheritable attributes on any level"""
    r = _random.Random(seed)
    d = Doc()
    d.add(None)
    d.add(None)
    font = d.add(D(Type=N("Font"), BaseFont=N("Helv")))
    mk = [base]
    pages = []

    def page(parent):
        cs = d.add(Stream({}, b"(%d) Tj" % mk[0]))
        pg = page_dict(parent, mk[0], cs, font, full=r.random() < 0.4)
        if r.random() < 0.15:
            del pg[b"Type"]
        if r.random() < 0.2:
            pg[b"Rotate"] = r.choice([0, 90, 180])
        mk[0] += 1
        ref = d.add(pg)
        pages.append(ref)
        return ref

    def node(ref, parent, depth):
        kids, nleaves = [], 0
        for _ in range(r.randrange(0 if depth else 1, 4)):
            x = r.random()
            if depth < 2 and x < 0.3:
                sub = d.add(None)
                nleaves += node(sub, ref, depth + 1)
                kids.append(sub)
            elif x < 0.4 and pages:
                kids.append(r.choice(pages))
                nleaves += 1
            elif x < 0.5:
                kids.append(page_dict(ref, mk[0], None, None, full=r.random() < 0.5))
                mk[0] += 1
                nleaves += 1
            else:
                kids.append(page(ref))
                nleaves += 1
        nd = D(Type=N("Pages"), Count=nleaves, Kids=kids)
        if parent is not None:
            nd[b"Parent"] = parent
            if r.random() < 0.25:
                nd[b"Count"] = max(0, nleaves + r.choice([-1, 1, 5]))
        if r.random() < 0.15:
            del nd[b"Type"]
        for key, val in ((b"Rotate", r.choice([90, 270])), (b"MediaBox", [0, 0, 50 + depth, 50]), (b"CropBox", [1, 1, 9, 9]),
                         (b"Resources", D(Font=D(F1=font)))):
            if r.random() < 0.35:
                nd[key] = val
        d.objects[ref.n] = nd
        return nleaves
    node(Ref(2), None, 0)
    d.objects[1] = D(Type=N("Catalog"), Pages=Ref(2))
    d.trailer = {b"Root": Ref(1)}
    add_extras(d, pages[0] if pages else Ref(2), Ref(2))
    return d


def doc_rgraph(seed, base):
    """three pages and a random object graph: sharing, cycles, references to pages, to the /Pages node, to null objects,
    streams whose dictionaries point back into the graph, nested direct containers, a direct dictionary of /Type /Pages"""
    r = _random.Random(seed)
    d = doc_flat(3, base, annots=r.random() < 0.5, extras=False)
    pages = list(d.objects[2][b"Kids"])
    refs = [d.add(None) for _ in range(r.randrange(5, 12))]

    def val(depth, in_dict=False):
        x = r.random()
        if x < 0.45:
            return r.choice(refs)
        if x < 0.55:
            return r.choice(pages)
        if x < 0.60:
            return Ref(2)
        if x < 0.68:
            return r.randrange(100)
        if x < 0.72 and not in_dict:
            return None
        if x < 0.78:
            return N("Nm%d" % r.randrange(3))
        if depth < 2 and x < 0.9:
            return [val(depth + 1) for _ in range(r.randrange(0, 4))]
        if depth < 2:
            dd = {}
            for k in range(r.randrange(0, 4)):
                dd[b"K%d" % k] = val(depth + 1, True)
            if r.random() < 0.1:
                dd[b"Type"] = N("Pages")
            return dd
        return r.randrange(100)
    for ref in refs:
        x = r.random()
        if x < 0.12:
            d.objects[ref.n] = None
        elif x < 0.3:
            d.objects[ref.n] = Stream({b"K%d" % k: val(1, True) for k in range(r.randrange(0, 3))}, b"data-%d" % ref.n)
        elif x < 0.5:
            d.objects[ref.n] = [val(1) for _ in range(r.randrange(0, 5))]
        elif x < 0.55:
            d.objects[ref.n] = r.randrange(50)
        else:
            dd = {b"K%d" % k: val(1, True) for k in range(r.randrange(1, 5))}
            if r.random() < 0.3:
                dd[b"Mk"] = 500 + ref.n
            d.objects[ref.n] = dd
    d.objects[1][b"Extra"] = refs[0]
    d.objects[pages[0].n][b"G"] = r.choice(refs)
    return d


def doc_junk(base, kind, delta):
    """a flat tree whose /Kids also holds entries that are no pages: a direct null, a reference to an integer object, a
    reference to a null object; /Count = number of real pages + delta"""
    d = doc_flat(3, base, annots=False)
    p = d.objects[2][b"Kids"]
    junk = {"n": None, "i": d.add(12), "z": d.add(None)}[kind]
    d.objects[2][b"Kids"] = [p[0], junk, p[1], p[2]] if kind != "z" else [junk, p[0], p[1], junk, p[2]]
    d.objects[2][b"Count"] = 3 + delta
    return d


WRONGCOUNT = ("wcp", "wcm", "wcnp", "wcnm", "jnm")
JUNK_LARGE = ("jn1", "ji1")        # /Count counts the non-page entry: repaired by the first getAllPages (observation level >= 1)
FAMILIES.update({
    "wcp": (lambda b: doc_wrongcount(b, 1), True),
    "wcm": (lambda b: doc_wrongcount(b, -1), True),
    "wcnp": (lambda b: doc_wrongcount(b, 2, True), True),
    "wcnm": (lambda b: doc_wrongcount(b, -3, True), True),
    "innerc": (lambda b: doc_innercount(b), True),
    "jn0": (lambda b: doc_junk(b, "n", 0), True),
    "ji0": (lambda b: doc_junk(b, "i", 0), True),
    "jz0": (lambda b: doc_junk(b, "z", 0), True),
    "jn1": (lambda b: doc_junk(b, "n", 1), True),
    "ji1": (lambda b: doc_junk(b, "i", 1), True),
    "jnm": (lambda b: doc_junk(b, "n", -1), True),
})
BASE_FAMILIES = [f for f in FAMILIES if f not in WRONGCOUNT and f != "innerc" and not f.startswith("j")]   # what the original generators draw from

_doc_cache = {}


def get_doc(fam, base):
    key = (fam, base)
    if key not in _doc_cache:
        d = FAMILIES[fam][0](base)
        data, _ = pdfgen.write_classic(d)
        _doc_cache[key] = (data.hex(), model_text(d).encode().hex())
    return _doc_cache[key]


# ---------------------------------------------------------------- operations

def hx(s):
    return s.encode().hex()


def page_val(m):
    return "<< /Type /Page /MediaBox [ 0 0 %d %d ] /Resources << >> /Mk %d >>" % (m, m, m)


def gen_ops(rng, length, hostile=False):
    """symbolic operation sequence (driver resolves @l/@o/@n against its current state)"""
    ops = []
    mkc = [900]

    def obj(pagey=0.75):
        r = rng.random()
        if r < pagey:
            return "@l%d" % rng.randrange(12)
        if r < pagey + 0.12:
            return "@n%d" % rng.randrange(4)
        return "@o%d" % rng.randrange(40)
    for _ in range(length):
        d = rng.randrange(2)
        s = d if rng.random() < 0.55 else 1 - d
        if rng.random() < 0.12:
            # in-place edits through handles: a direct value of a page (after a re-insertion the copy must not follow), or
            # the root /Kids array itself (then updateAllPagesCache, now or later)
            r = rng.random()
            mkc[0] += 1
            if r < 0.3:
                ops.append("mb,%d,%s,%d,%d" % (d, obj(0.9), rng.randrange(5), mkc[0]))
            elif r < 0.55:
                ops.append("rk,%d,%s,%d,%d" % (d, obj(0.9), rng.randrange(3), mkc[0]))
            elif r < 0.7:
                ops.append("na,%d,%s,%d" % (d, obj(0.9), mkc[0]))
            elif r < 0.85:
                ops.append("kn,%d,%d" % (d, rng.randrange(5)))
                if rng.random() < 0.6:
                    ops.append("uc,%d" % d)
            else:
                ops.append("ks,%d,%d,%d" % (d, rng.randrange(5), rng.randrange(5)))
                if rng.random() < 0.6:
                    ops.append("uc,%d" % d)
            continue
        k = rng.random()
        if k < 0.16:
            ops.append("%s,%d,%d,%s,%d" % (rng.choice(["ap", "hp"]), d, s, obj(), rng.randrange(2)))
        elif k < 0.22:
            mkc[0] += 1
            ops.append("an,%d,%d,%d" % (d, rng.randrange(2), mkc[0]))
        elif k < 0.36:
            rd = d if rng.random() < 0.93 else 1 - d
            ops.append("%s,%d,%d,%s,%d,%d,%s" % (rng.choice(["aa", "ha"]), d, s, obj(), rng.randrange(2), rd, obj(0.9)))
        elif k < 0.50:
            sd = d if rng.random() < 0.93 else 1 - d
            ops.append("%s,%d,%d,%s" % (rng.choice(["rm", "hr"]), d, sd, obj(0.85)))
        elif k < 0.55:
            ops.append("sc,%d,%s" % (d, obj(0.8)))
        elif k < 0.67:
            ops.append("cf,%d,%d,%s" % (d, 1 - d if rng.random() < 0.93 else d, obj(0.35)))
        elif k < 0.73:
            mkc[0] += 1
            if hostile and rng.random() < 0.5:
                v = rng.choice(["null", "7", "<< /Foo 1 >>", "[ 1 2 ]", "<< /Type /Pages /Kids [ ] /Count 0 >>"])
            else:
                v = page_val(mkc[0])
            ops.append("rp,%d,%s,%s" % (d, obj(0.8) if not hostile else obj(0.5), hx(v)))
        elif k < 0.77:
            ops.append("sw,%d,%s,%s" % (d, obj(0.85) if not hostile else obj(0.5), obj(0.6)))
        elif k < 0.79:
            # replaceObject with an indirect handle (invalid): stream of another object, the stream itself, dictionary, ...
            r = rng.random()
            sd = d if rng.random() < 0.85 else 1 - d
            if r < 0.35:
                ops.append("ri,%d,%s,%d,@s%d" % (d, obj(0.7), sd, rng.randrange(8)))
            elif r < 0.5:
                st = "@s%d" % rng.randrange(8)
                ops.append("ri,%d,%s,%d,%s" % (d, st, sd, st))
            elif r < 0.9:
                ops.append("ri,%d,%s,%d,%s" % (d, obj(0.6), sd, obj(0.4)))
            else:
                ops.append("rr,%d,%s" % (d, obj(0.7)))
        elif k < 0.85:
            ops.append("uc,%d" % d)
        elif k < 0.89:
            ops.append("gp,%d" % d)
        elif k < 0.94:
            ops.append("fp,%d,%s" % (d, obj(0.8)))
        elif k < 0.97:
            ops.append("pi,%d" % d)
        elif k < 0.985:
            ops.append("av,%d,%d,%s" % (d, rng.randrange(2), hx(rng.choice(["5", "null", "[ 1 ]", "<< /Mk 77 >>", "/Name"]))))
        else:
            ops.append("mi,%d,%s" % (d, hx(rng.choice(["<< /Mk 55 /Type /Page >>", "[ 1 2 ]", "9"]))))
    return ops


def small_alphabet(tier):
    """exhaustive part: operations of document 0 with operands from both documents"""
    a = []
    for f in (0, 1):
        a.append("ap,0,0,@l0,%d" % f)          # re-insert a page that is already there
        a.append("ap,0,1,@l1,%d" % f)          # a page of the other document
    a.append("hp,0,1,@l0,0")
    a.append("an,0,1,901")
    a.append("aa,0,0,@l1,1,0,@l0")
    a.append("aa,0,1,@l0,0,0,@l2")
    a.append("aa,0,0,@n0,0,0,@n1")              # reference page that may not be a page
    a.append("rm,0,0,@l0")
    a.append("rm,0,0,@l2")
    a.append("rm,0,0,@n0")                      # removed / copied / non-page object
    a.append("sc,0,@l1")
    a.append("cf,0,1,@l0")
    a.append("cf,0,1,@o12")
    a.append("cf,1,0,@l1")
    a.append("rp,0,@l1,%s" % hx(page_val(902)))
    a.append("ri,0,@l1,0,@s1")                  # page replaced by the contents stream of another page: invalid
    a.append("ri,0,@s0,0,@s0")                  # the one indirect form the code admits: the stream itself
    a.append("ri,0,@l0,0,@l2")                  # indirect dictionary
    a.append("sw,0,@l0,@l2")
    a.append("sw,0,@l1,@n0")
    a.append("uc,0")
    a.append("gp,0")
    a.append("fp,0,@n0")
    a.append("pi,1")
    a.append("ap,1,0,@l0,0")
    a.append("rm,1,1,@l1")
    a.append("mb,0,@l0,2,777")                  # in-place edit of the first page's /MediaBox (after a re-insertion: of the copy)
    a.append("rk,0,@l1,3,778")                  # ... of the second page's /Resources
    if tier != "quick":
        a.append("ha,0,1,@l2,1,0,@l1")
        a.append("hr,0,0,@l1")
        a.append("ap,0,0,@n0,0")
        a.append("aa,1,0,@l2,0,1,@l0")
        a.append("uc,1")
    return a


CORPUS = [
    # (famA, famB, flags, ops) - fixed histories run first (past findings and corner cases)
    ("flat3", "flat3", "1w", ["av,0,0,%s" % hx("5")]),                               # F1a (fixed by 53c36690): a non-dictionary must not become a page
    ("flat3", "flat3", "1w", ["ap,0,0,2,0"]),                                        # F1a: nor the /Pages node itself
    ("flat3", "flat3", "1w", ["av,0,0,%s" % hx("null")]),                            # F1: a null still is accepted
    ("flat3", "flat3", "1w", ["rm,0,1,@l1"]),                                        # F2 (fixed by 87382fd8): a foreign handle must not identify a local page by number
    ("flat3", "flat3", "1w", ["aa,0,0,@l0,1,1,@l2"]),                                # F2
    ("flat3", "flat3", "1w", ["ri,0,@l1,0,@s2", "uc,0"]),                              # seeded C13-3: indirect stream of another object must be rejected
    ("flat3", "flat3", "1w", ["ri,0,@s0,0,@s0"]),                                    # F4: the stream itself: accepted, the stream is lost
    ("flat3", "flat3", "1w", ["ri,0,4,1,4"]),                                        # F5: stream of the other document with the same number
    ("flat3", "flat3", "1w", ["rr,0,@l1", "ri,0,@l0,0,@l2", "ri,0,@l0,0,@o16", "ri,0,@l0,1,@l0"]),
    ("sharedn", "flat3", "2w", ["gp,0", "rm,0,0,@l1", "ap,1,0,@l1,0"]),               # seeded C13-4: a page under two different /Pages nodes
    ("sharedn3", "sharedn", "1w", ["fp,0,@l0", "ap,0,0,@l4,1", "ap,1,0,@l1,0", "rm,0,0,@l2"]),
    ("flat3", "nested0", "2w", ["ap,0,1,@l4,0", "ap,0,1,@l4,1", "cf,0,1,@l0", "ap,0,1,@l0,0", "rm,0,0,@l0", "ap,0,0,@n0,1"]),
    ("nested1", "flat3", "0w", ["rm,0,0,@l3", "uc,0", "ap,0,0,@l0,1", "sc,0,@l2", "aa,0,0,@n0,0,0,@l1"]),
    ("shared", "sharedx", "1w", ["rm,0,0,@l0", "ap,1,0,@l0,1", "rm,1,1,@l3"]),
    ("empty", "flat1", "1w", ["ap,0,1,@l0,0", "rm,0,0,@l0", "ap,0,1,@l0,1", "uc,0", "rm,0,0,@l0", "gp,0"]),
    # re-inserted pages are values of their own (seeded C13-5): local page twice, the same foreign page twice, edit either copy
    ("flat3", "flat3", "1w", ["ap,0,0,@l0,0", "mb,0,@l3,2,777", "rk,0,@l0,1,778", "na,0,@l3,779"]),
    ("flat3", "flat4r", "0w", ["ap,0,1,@l1,0", "ap,0,1,@l1,1", "mb,0,@l0,1,777", "rk,0,@l4,2,778"]),
    ("nested1", "flat3", "2w", ["aa,0,0,@l2,1,0,@l2", "rk,0,@l2,0,777", "mb,0,@l3,0,778"]),
    # non-page /Kids entries are repaired ONCE (seeded C13-6): refresh again later, with and without further direct edits
    ("jn0", "flat3", "1w", ["uc,0", "fp,0,@l1", "uc,0", "ap,0,0,@l0,1"]),
    ("ji0", "jz0", "0w", ["gp,0", "ks,0,0,2", "uc,0", "fp,0,@l0", "ap,0,0,@l1,0", "kn,1,1", "uc,1", "rm,1,1,@l0"]),
    ("jn1", "flat3", "1w", ["an,0,0,901", "kn,0,0", "uc,0", "fp,0,@l0", "uc,0", "gp,0"]),
    ("flat3", "nested0", "1w", ["kn,0,1", "gp,1", "uc,0", "uc,0", "rm,0,0,@l0", "ks,1,0,2", "uc,1", "fp,1,@l0"]),
]


# ---------------------------------------------------------------- running

def make_lines(cases, concrete=None):
    """cases: list of dicts(fa, fb, ba, bb, flags, ops).  Returns list of chunks; every chunk registers the
    templates it needs and then runs its cases.  concrete: per-case op lists replacing case['ops']"""
    lines = []
    for idx, c in enumerate(cases):
        ops = concrete[idx] if concrete is not None else c["ops"]
        lines.append("pgrun %s %s.%d %s.%d %s" % (c["flags"], c["fa"], c["ba"], c["fb"], c["bb"], ";".join(ops) if ops else "-"))
    return lines


def run_cases(exe, cases, concrete=None, workers=4):
    lines = make_lines(cases, concrete)
    if not lines:
        return []
    n = max(1, min(400, (len(lines) + workers - 1) // workers))
    chunks = []
    for i in range(0, len(lines), n):
        need = []
        for c in cases[i:i + n]:
            for fam, b in ((c["fa"], c["ba"]), (c["fb"], c["bb"])):
                if (fam, b) not in need:
                    need.append((fam, b))
        hdr = ["pgdoc %s.%d %s %s" % (fam, b, get_doc(fam, b)[0], get_doc(fam, b)[1]) for fam, b in need]
        chunks.append((hdr, lines[i:i + n]))

    def work(ch):
        hdr, ls = ch
        return run_capped(exe, hdr, ls)
    res = common.par_map(work, chunks, workers=workers)
    out = []
    for r in res:
        out.extend(r)
    return out


MEM_KB = 3000000       # address-space cap of one driver / runner process
BATCH_TIMEOUT = 600


def run_once(exe, lines, timeout):
    """one process under a memory cap and a timeout; returns the complete output lines it produced"""
    import subprocess
    try:
        p = subprocess.run(["bash", "-c", "ulimit -s 100000 2>/dev/null; ulimit -v %d; exec %s" % (MEM_KB, exe)],
                           input=("\n".join(lines) + "\n").encode(), stdout=subprocess.PIPE, stderr=subprocess.PIPE, timeout=timeout)
        out, rc = p.stdout, p.returncode
    except subprocess.TimeoutExpired as e:
        out, rc = e.stdout or b"", "timeout"
    ls = out.decode("latin-1").split("\n")
    if ls and ls[-1] == "":
        ls.pop()
    elif ls:
        ls.pop()        # incomplete last line
    return ls, rc


def run_capped(exe, hdr, lines, timeout=None):
    """run a batch; if the process dies (memory cap, timeout, crash) bisect to the single case that kills it and
    give that case the output '?crashed ...' - every other case still gets its result"""
    timeout = timeout or BATCH_TIMEOUT
    ls, rc = run_once(exe, hdr + lines, timeout)
    if len(ls) == len(hdr) + len(lines):
        return ls[len(hdr):]
    if len(lines) == 1:
        return ["?crashed rc=%s (memory cap %d kB, timeout %ds)" % (rc, MEM_KB, timeout)]
    mid = len(lines) // 2
    t2 = max(30, timeout // 2)
    return run_capped(exe, hdr, lines[:mid], t2) + run_capped(exe, hdr, lines[mid:], t2)


def parse_steps(line):
    steps = []
    for st in line.split("|"):
        f = {}
        for p in st.split(" "):
            if "=" in p:
                k, v = p.split("=", 1)
                f[k] = v
        steps.append(f)
    return steps


def tree_info(t):
    """'<pagesid>:<count>:<leaf>,...' -> dict(root, count, ids, marks, parents_ok, raw)"""
    try:
        root, count, rest = t.split(":", 2)
    except ValueError:
        return None
    ids, marks, rots, par_ok, weird, junk, junk_direct, junk_ids = [], [], [], True, False, 0, 0, []
    for leaf in rest.split(","):
        if not leaf:
            continue
        parts = leaf.split("^")
        if len(parts) == 2 and parts[1] == "x":
            junk += 1               # a /Kids entry that is no dictionary: not a page (the cache drops it with a warning)
            junk_direct += parts[0] == "d"
            if parts[0] != "d":
                junk_ids.append(int(parts[0]))
            continue
        if len(parts) != 5:
            weird = True
            continue
        i, par, actual, mk, rot = parts
        ids.append(int(i) if i != "d" else 0)
        marks.append(int(mk) if mk != "?" else -1)
        rots.append(int(rot))
        if par != actual:
            par_ok = False
    return {"root": root, "count": count, "ids": ids, "marks": marks, "rots": rots, "par_ok": par_ok, "weird": weird, "junk": junk, "junk_direct": junk_direct, "junk_ids": junk_ids}


def kinds(k):
    m = {}
    for e in k.split(","):
        if e:
            i, mk, kind = e.split("^")
            m[int(i)] = (int(mk) if mk != "?" else -1, kind)
    return m


def plist(p):
    """'id^mk,...' -> (ids, marks) or None when it is an error class"""
    if p.startswith("E:") or p.startswith("?"):
        return None
    ids, marks = [], []
    for e in p.split(","):
        if e:
            i, mk = e.split("^")
            ids.append(int(i))
            marks.append(int(mk) if mk != "?" else -1)
    return ids, marks


class Stop(Exception):
    pass


def translate(op, L, K, J=((), ())):
    """concrete operation + pre-state (leaf ids L[d], dictionary kinds K[d]) -> (sop text, signature if the call is
    invalid, expectation on the result).  Raises Stop when the operation leaves the domain of the list specification."""
    o = op[0]

    def once(d, i):
        c = L[d].count(i)
        if c > 1:
            raise Stop("operand occurs twice in the tree")
        return c == 1

    def pagelike(s, i):
        return i in K[s] and K[s][i][1] == "n"

    def why_not(s, i):
        if i not in K[s]:
            return "nondict"          # operands are always existing objects (the driver resolves them against the state)
        return {"P": "pages-node", "C": "catalog", "z": "null"}.get(K[s][i][1], "?")

    def mk(s, i):
        return K[s][i][0]
    if o in ("ap", "hp"):
        d, s, i, f = int(op[1]), int(op[2]), int(op[3]), int(op[4])
        if not pagelike(s, i):
            return "x", "C13:insert-non-page:" + why_not(s, i), None
        return "i,%d,%d,%d" % (d, 0 if f else len(L[d]), mk(s, i)), None, "ok"
    if o == "an":
        d, f, m = int(op[1]), int(op[2]), int(op[3])
        return "i,%d,%d,%d" % (d, 0 if f else len(L[d]), m), None, "ok"
    if o == "av":
        d, f = int(op[1]), int(op[2])
        txt = bytes.fromhex(op[3]).decode()
        if not txt.startswith("<<"):
            return "x", "C13:insert-non-page:" + ("null" if txt.strip() == "null" else "nondict"), None
        m = re.search(r"/Mk (\d+)", txt)
        return "i,%d,%d,%d" % (d, 0 if f else len(L[d]), int(m.group(1)) if m else -1), None, "ok"
    if o in ("aa", "ha"):
        d, s, i, b, rd, r = int(op[1]), int(op[2]), int(op[3]), int(op[4]), int(op[5]), int(op[6])
        if rd != d:
            return "x", "C13:foreign-handle-by-number:addPageAt", None
        if r not in L[d]:
            return "x", None, None
        if not pagelike(s, i):
            return "x", "C13:insert-non-page:" + why_not(s, i), None
        return "i,%d,%d,%d" % (d, L[d].index(r) + (0 if b else 1), mk(s, i)), None, "ok"
    if o in ("rm", "hr"):
        d, s, i = int(op[1]), int(op[2]), int(op[3])
        if s != d:
            return "x", "C13:foreign-handle-by-number:removePage", None
        if i not in L[d]:
            return "x", None, None
        return "r,%d,%d" % (d, L[d].index(i)), None, "ok"
    if o == "sc":
        return "n", None, "any"
    if o == "cf":
        d, s = int(op[1]), int(op[2])
        if s == d:
            return "x", None, None
        return "n", None, "ok"
    if o == "rp":
        d, i = int(op[1]), int(op[2])
        txt = bytes.fromhex(op[3]).decode()
        if i in L[d]:
            once(d, i)
            if not txt.startswith("<<") or "/Kids" in txt:
                raise Stop("page replaced by a non-page")
            m = re.search(r"/Mk (\d+)", txt)
            return "s,%d,%d,%d" % (d, L[d].index(i), int(m.group(1)) if m else -1), None, "ok"
        if i in K[d] and K[d][i][1] in "PC":
            raise Stop("tree node replaced")
        if i in J[d]:
            raise Stop("an object that /Kids lists (not a page) replaced")
        return "n", None, "ok"
    if o == "ri":
        # replaceObject with an indirect handle: "The object handle passed in must be a direct object" (QPDF.hh)
        d, i, sd, j = int(op[1]), int(op[2]), int(op[3]), int(op[4])
        kind = K[sd][j][1] if j in K[sd] else "other"
        if kind == "s":
            kind = ("self-stream" if sd == d else "foreign-stream-same-number") if j == i else "other-stream"
        else:
            kind = {"n": "dictionary", "P": "dictionary", "C": "dictionary", "z": "null-object"}.get(kind, "other")
        return "x", "C13:replace-indirect:" + kind, None
    if o == "rr":
        return "x", "C13:replace-indirect:reserved", None
    if o == "sw":
        d, i, j = int(op[1]), int(op[2]), int(op[3])
        if i == j:
            return "n", None, "ok"
        ini, inj = i in L[d], j in L[d]
        for x in (i, j):
            if x in K[d] and K[d][x][1] in "PC":
                raise Stop("tree node swapped")
            if x in J[d]:
                raise Stop("an object that /Kids lists (not a page) swapped")
        if ini and inj:
            once(d, i)
            once(d, j)
            return "w,%d,%d,%d" % (d, L[d].index(i), L[d].index(j)), None, "ok"
        if ini or inj:
            a, b = (i, j) if ini else (j, i)
            once(d, a)
            if not pagelike(d, b):
                raise Stop("page swapped with a non-page")
            return "s,%d,%d,%d" % (d, L[d].index(a), mk(d, b)), None, "ok"
        return "n", None, "ok"
    if o == "fp":
        d, i = int(op[1]), int(op[2])
        if i not in L[d]:
            return "x", None, None
        return "n", None, "ok:%d" % L[d].index(i)
    if o in ("uc", "gp", "pi", "mi"):
        return "n", None, "ok"
    if o in ("mb", "rk", "na"):
        # an in-place edit of a value held by an object: no page list changes (check_values judges the page VALUES)
        d, i = int(op[1]), int(op[2])
        if i in K[d] and K[d][i][1] in "PC":
            raise Stop("tree node edited in place")
        return "n", None, "any"
    raise Stop("unknown op")


def spec_plan(case, steps):
    """first pass: sops for every step (until the history leaves the specification's domain)"""
    plan = []
    t0 = [tree_info(x) for x in steps[0]["t"].split("/")]
    if any(t is None or t["weird"] for t in t0):
        return None
    copied = False                # some object has been copied between the documents
    taint = [False, False]        # replaceObject/swapObjects after a copy: "if you mutate an object that has already been
    #                               copied and try to copy it again, it won't work" (QPDF.hh) - the specification stops there
    dirty = [None, None]          # length of the specification's list when /Kids of that document was edited directly
    skip = {}                     # plan index -> documents whose observations are not judged at that step
    t0[0]["_skip"] = skip
    for i in range(1, len(steps) - 1):
        pre, cur = steps[i - 1], steps[i]
        ts = [tree_info(x) for x in pre["t"].split("/")]
        if any(t is None for t in ts):
            break
        L = [t["ids"] for t in ts]
        K = [kinds(x) for x in pre["k"].split("/")]
        op = cur["o"].split(",")
        try:
            foreign = (op[0] in ("ap", "hp", "aa", "ha", "cf") and op[1] != op[2])
            if foreign and (taint[0] or taint[1]):
                raise Stop("copy after a copied object was modified directly")
            if op[0] in ("rp", "sw", "mb", "rk", "na") and copied:
                taint[int(op[1])] = True
            if foreign:
                copied = True
            if op[0] in ("kn", "ks"):
                # "If a user touches anything about the /Pages structure outside of these calls ... they can call
                # updatePagesCache() to bring things back in sync": the list of that document is judged again after it
                d = int(op[1])
                if cur.get("r") == "ok" and dirty[d] is None:
                    dirty[d] = len(L[d])
                skip[len(plan)] = set(k for k in (0, 1) if dirty[k] is not None)
                plan.append(("n", None, "any"))
                continue
            if any(x is not None for x in dirty):
                docs = set(int(x) for x in ([op[1]] + ([op[2]] if op[0] in ("ap", "hp", "aa", "ha", "rm", "hr", "cf") else []) +
                                           ([op[5]] if op[0] in ("aa", "ha") else []) + ([op[3]] if op[0] == "ri" else [])))
                d = int(op[1])
                if op[0] == "uc" and dirty[d] is not None:
                    # back in sync: the list is what the tree shows now (dictionary leaves in order)
                    cur_t = tree_info(pre["t"].split("/")[d])
                    if cur_t is None or cur_t["weird"]:
                        raise Stop("tree damaged beyond non-page entries")
                    sops = ["r,%d,0" % d] * dirty[d] + ["i,%d,%d,%d" % (d, k, m) for k, m in enumerate(cur_t["marks"])] + ["n"]
                    dirty[d] = None
                    skip[len(plan)] = set(k for k in (0, 1) if dirty[k] is not None)
                    plan.append((";".join(sops), None, "ok"))
                    continue
                if any(dirty[k] is not None for k in docs):
                    raise Stop("call on a document whose /Kids was edited directly and not refreshed")
                skip[len(plan)] = set(k for k in (0, 1) if dirty[k] is not None)
            sop, sig, expect = translate(op, L, K, [t["junk_ids"] for t in ts])
        except Stop as e:
            plan.append(("stop", str(e), None))
            break
        except (ValueError, IndexError, KeyError) as e:
            plan.append(("stop", "untranslatable %r" % (e,), None))
            break
        plan.append((sop, sig, expect))
    if any(x is not None for x in dirty) and not (plan and plan[-1][0] == "stop"):
        plan.append(("stop", "history ends with an unrefreshed direct edit of /Kids", None))
    return t0, plan


def wrongcount_sig(case, why):
    """known finding C13-F6: a wrong ROOT /Count is only repaired when an invalid kid is found as well.  Signature for the
    violations that follow from it on a document generated with a wrong root /Count: the first flattening call raises
    runtime_error, /Count stays wrong (also in the written file), addPage(last) uses /Count as the position"""
    if case["fa"] in WRONGCOUNT or case["fb"] in WRONGCOUNT:
        if re.search(r"/Count|valid call raised E:rt|tree leaves|getAllPages|write \+ re-read|final tree", why):
            return "C13:wrong-root-count"
    return ""


FLATTENING = ("ap", "hp", "an", "av", "aa", "ha", "rm", "hr", "fp")


def nonpage_kid_sig(why, pre, op):
    """known findings C13-F7 / C13-F8: what a /Kids entry that is not a page makes qpdf do (judged from the raw tree BEFORE the call)"""
    if not why.startswith("valid call raised E:qexc") or not op or not op[0]:
        return ""
    t = tree_info(pre["t"].split("/")[int(op[1])])
    if t is None or not t["junk"]:
        return ""
    if op[0] in FLATTENING:
        return "C13:junk-kids-first-flatten"
    if op[0] in ("uc", "gp", "pi") and t["junk_direct"]:
        return "C13:refresh-ownerless-null"
    return ""


def check_spec(chk, case, steps, t0, plan, spec_out, stats):
    """second pass: compare what the implementation shows with the list specification"""
    res = spec_out.split("|") if spec_out else []
    desc = describe(case, steps)
    parent_dirty = [False, False]     # a page object was replaced/swapped directly and no updateAllPagesCache followed
    sloppy_page = [False, False]      # a page object was replaced/swapped, or something without page attributes was inserted:
    #                                   the re-read may then warn about what the caller put there
    for d, fam in enumerate((case["fa"], case["fb"])):
        if fam in ("sloppy", "direct", "shared", "sharedx", "sharedn", "sharedn3") or fam.startswith("rt"):
            sloppy_page[d] = True
    # effective /Rotate of every position (own value or inherited): a second plain list, maintained here; None = unknown
    rots = [list(t["rots"]) for t in t0]
    cf_done = [False, False]
    skipmap = t0[0].get("_skip", {})
    ridx = -1                         # index into the specification's results (a refresh after a direct edit is several list operations)
    for i, (sop, sig, expect) in enumerate(plan):
        skipd = skipmap.get(i, ())
        if sop != "stop":
            ridx += len(sop.split(";"))
        if sop != "stop":
            opf = steps[i + 1].get("o", "").split(",")
            if opf[0] in ("rp", "sw"):
                sloppy_page[int(opf[1])] = True       # whatever was replaced may be referenced by a page
                if sop != "n":
                    parent_dirty[int(opf[1])] = True
            elif opf[0] in ("mb", "rk", "na", "kn", "ks"):
                sloppy_page[int(opf[1])] = True       # the caller put integers into page attributes / nulls into /Kids
            elif ";" in sop:
                parent_dirty[int(opf[1])] = False
            elif sop.startswith("i,") and opf[0] != "an":
                # what is inserted is a page of one of the documents (then it has the page attributes) or just some dictionary
                pre_t = [tree_info(x) for x in steps[i]["t"].split("/")]
                if opf[0] == "av" or sop.endswith(",-1") or pre_t[int(opf[2])] is None or int(opf[3]) not in pre_t[int(opf[2])]["ids"] \
                        or sloppy_page[int(opf[2])]:
                    sloppy_page[int(opf[1])] = True
            elif opf[0] == "uc":
                parent_dirty[int(opf[1])] = False
            elif opf[0] == "cf":
                # a page copied with copyForeignObject keeps no inherited attributes; if it is added as a page later the
                # memoised copy is used ("not going to use them as pages", QPDF.hh) and the re-read warns about it
                sloppy_page[int(opf[1])] = True
                cf_done[int(opf[1])] = True
        if sop == "stop":
            stats["spec_stopped"] += 1
            return
        cur = steps[i + 1]
        if "x" in cur:
            # the dump could not read some stream's data: reported by the stream pass of run(); nothing more to compare
            stats["spec_stopped"] += 1
            return
        la, lb, must_raise = res[ridx].split("/")
        want = [[int(x) for x in la.split(",") if x], [int(x) for x in lb.split(",") if x]]
        r = cur.get("r", "")
        raised = r.startswith("E:")
        ts = [tree_info(x) for x in cur["t"].split("/")]
        why = None
        # the rotation list follows the same list operation (only when the call did what the specification says)
        opf = cur.get("o", "").split(",")
        if ";" in sop:
            # back in sync after a direct edit: inherited attributes of the positions are unknown from here
            dd = int(opf[1])
            rots[dd] = [None] * len(want[dd])
            sloppy_page[dd] = True
        elif must_raise == "0" and not raised:
            f = sop.split(",")
            if f[0] == "i":
                r_new = None
                if opf[0] in ("ap", "hp", "aa", "ha") and not (opf[1] != opf[2] and cf_done[int(opf[1])]):
                    # (after a copyForeignObject into this document a page may come from the memo, without inherited attributes)
                    pre_t = [tree_info(x) for x in steps[i]["t"].split("/")]
                    sdoc, sid = int(opf[2]), int(opf[3])
                    if pre_t[sdoc] is not None and sid in pre_t[sdoc]["ids"] and len(rots[sdoc]) == len(pre_t[sdoc]["ids"]):
                        r_new = rots[sdoc][pre_t[sdoc]["ids"].index(sid)]
                elif opf[0] == "an":
                    r_new = 0
                rots[int(f[1])].insert(int(f[2]), r_new)
            elif f[0] == "r":
                del rots[int(f[1])][int(f[2])]
            elif f[0] == "s":
                rots[int(f[1])][int(f[2])] = None
            elif f[0] == "w":
                dd, a, b = int(f[1]), int(f[2]), int(f[3])
                rots[dd][a], rots[dd][b] = None, None     # own values move with the contents, inherited ones stay with the position
        if must_raise == "1" and not raised:
            why = "invalid call did not raise"
        elif must_raise == "1" and opf[0] == "ri" and (cur.get("h"), cur.get("d")) != (steps[i].get("h"), steps[i].get("d")):
            why = "rejected replaceObject call changed the documents"
        elif must_raise == "0" and raised and expect != "any":
            why = "valid call raised " + r
        elif expect and expect.startswith("ok:") and r != expect:
            why = "findPage returned %s, the list says %s" % (r, expect)
        else:
            for d in (0, 1):
                if d in skipd:
                    continue
                t = ts[d]
                if t is None or t["weird"]:
                    why = "document %d: /Pages tree is no longer a tree of dictionaries" % d
                elif t["marks"] != want[d]:
                    why = "document %d: tree leaves %s, list model %s" % (d, t["marks"], want[d])
                elif t["count"] != str(len(want[d])):
                    why = "document %d: /Count %s, list length %d" % (d, t["count"], len(want[d]))
                if why:
                    break
            if not why:
                for d in (0, 1):
                    if d in skipd:
                        continue
                    got = ts[d]["rots"]
                    if len(got) == len(rots[d]) and any(a is not None and a != b for a, b in zip(rots[d], got)):
                        why = "document %d: effective /Rotate of the pages %s, expected %s (inherited attributes are not those of the position)" % (d, got, rots[d])
                        break
            if not why and "p" in cur:
                for d, p in enumerate(cur["p"].split("/")):
                    if d in skipd:
                        continue
                    pl = plist(p)
                    if pl is None or pl[1] != want[d]:
                        why = "document %d: getAllPages %s, list model %s" % (d, p, want[d])
                        break
                    if len(set(pl[0])) != len(pl[0]):
                        why = "document %d: getAllPages lists the same page object at two positions: %s" % (d, p)
                        break
                    if pl[0] != ts[d]["ids"] and 0 not in ts[d]["ids"]:
                        # before the first repair the same object may be listed twice; then ids legitimately differ
                        if len(set(ts[d]["ids"])) == len(ts[d]["ids"]):
                            why = "document %d: getAllPages objects %s, tree leaves %s" % (d, pl[0], ts[d]["ids"])
                            break
            if not why and "f" in cur:
                for d, f in enumerate(cur["f"].split("/")):
                    if d in skipd:
                        continue
                    if f != "".join("%d," % k for k in range(len(want[d]))):
                        why = "document %d: findPage of the pages gives %s" % (d, f)
                        break
            if not why and cur["o"].split(",")[0] == "gp" and not raised:
                d = int(cur["o"].split(",")[1])
                pl = plist(r[3:])
                if pl is None or pl[1] != want[d]:
                    why = "getAllPages result %s, list model %s" % (r, want[d])
        if why:
            wsig = wrongcount_sig(case, why) or nonpage_kid_sig(why, steps[i], opf)
            chk.violation({"kind": "property-fails-on-implementation", "part": "list-spec", "case": desc, "step": i + 1,
                           "operation": cur.get("o"), "why": why, "specification": res[ridx], "implementation": {k: cur.get(k) for k in ("r", "t", "p", "f")},
                           "minimal_history": concrete_ops(steps)[:i + 1],
                           "replay": replay_line(case, steps)}, signature=(sig or "") if why == "invalid call did not raise" else wsig)
            stats["spec_viol"] += 1
            if sig and why == "invalid call did not raise":
                stats["known_sig"][sig] = stats["known_sig"].get(sig, 0) + 1
            elif wsig:
                stats["known_sig"][wsig] = stats["known_sig"].get(wsig, 0) + 1
            return
        stats["spec_steps"] += 1
    if len(plan) != len(steps) - 2:
        return
    # the whole history was inside the specification: final observations and write + re-read
    fin = steps[-1]
    want = [[int(x) for x in l.split(",") if x] for l in res[-1].split("/")[:2]] if res else [t["marks"] for t in t0]
    why = None
    for d in (0, 1):
        pl = plist(fin["P"].split("/")[d])
        if pl is None or pl[1] != want[d]:
            why = "final getAllPages of document %d: %s, list model %s" % (d, fin["P"].split("/")[d], want[d])
        elif len(set(pl[0])) != len(pl[0]):
            why = "final getAllPages of document %d lists the same page object at two positions: %s" % (d, fin["P"].split("/")[d])
        elif fin["F"].split("/")[d] != "".join("%d," % k for k in range(len(want[d]))):
            why = "final findPage of document %d: %s" % (d, fin["F"].split("/")[d])
        else:
            t = tree_info(fin["t"].split("/")[d])
            if t is None or t["marks"] != want[d] or t["count"] != str(len(want[d])) or t["ids"] != pl[0]:
                why = "final tree of document %d: %s" % (d, fin["t"].split("/")[d])
            elif not t["par_ok"] and not parent_dirty[d]:
                why = "final /Parent pointers of document %d do not name the node that lists the page: %s" % (d, fin["t"].split("/")[d])
        if not why and "W" in fin:
            w = fin["W"].split("/")[d]
            exp = "%d:%s:w0" % (len(want[d]), "".join("%d," % m if m >= 0 else "?," for m in want[d]))
            if sloppy_page[d]:
                w, exp = w.rsplit(":", 1)[0], exp.rsplit(":", 1)[0]
            if w != exp:
                why = "write + re-read of document %d gives %s, expected %s" % (d, w, exp)
        if why:
            break
    if why:
        wsig = wrongcount_sig(case, why)
        chk.violation({"kind": "property-fails-on-implementation", "part": "list-spec-final", "case": desc, "why": why,
                       "implementation": {k: fin.get(k) for k in ("P", "F", "t", "W")}, "replay": replay_line(case, steps)}, signature=wsig)
        stats["spec_viol"] += 1
        if wsig:
            stats["known_sig"][wsig] = stats["known_sig"].get(wsig, 0) + 1
    else:
        stats["spec_complete"] += 1



# ---------------------------------------------------------------- copy oracle (graph isomorphism), independent of the model
# Written from the documentation of copyForeignObject (QPDF.hh): the copy is deep, "object structure will be preserved ...
# including circular references", "shared objects will not be copied multiple times", references to pages that are not the
# copied object itself "will be replaced with nulls" (here: a reserved null object, or the page's earlier copy), /Pages nodes
# are never copied, the source is not changed, nothing that existed in the destination is changed.

def parse_dump(text):
    objs = {}
    for line in text.split("\n"):
        if not line:
            continue
        i, rest = line.split(":", 1)
        if rest.startswith("S"):
            d, data = rest[1:].rsplit("#", 1)
            objs[int(i)] = ("s", parse_val(d), data)
        else:
            objs[int(i)] = parse_val(rest)
    return objs


def parse_val(txt):
    toks = txt.split()
    pos = [0]

    def val():
        t = toks[pos[0]]
        if t == "<<":
            pos[0] += 1
            d = {}
            while toks[pos[0]] != ">>":
                k = toks[pos[0]]
                pos[0] += 1
                d[k] = val()
            pos[0] += 1
            return d
        if t == "[":
            pos[0] += 1
            l = []
            while toks[pos[0]] != "]":
                l.append(val())
            pos[0] += 1
            return l
        if t == "null":
            pos[0] += 1
            return None
        if t.startswith("/"):
            pos[0] += 1
            return ("n", t)
        if re.fullmatch(r"-?\d+", t):
            if pos[0] + 2 < len(toks) + 0 and pos[0] + 2 <= len(toks) - 1 and toks[pos[0] + 2] == "R" and re.fullmatch(r"\d+", toks[pos[0] + 1]):
                pos[0] += 3
                return ("r", int(t))
            pos[0] += 1
            return int(t)
        pos[0] += 1
        return ("?", t)
    return val()


def copy_iso(src, dst, a0, b0, fresh):
    """None if the objects reachable from b0 in dst are a faithful copy of those reachable from a0 in src; else a reason.
    Only objects made by this call (fresh) are looked into: an object copied by an earlier call is reused as it is now
    ("the QPDF object keeps a record of what has already been copied")"""
    if b0 not in fresh:
        return None
    fwd, bwd, queue = {a0: b0}, {b0: a0}, [(a0, b0)]

    def typ(o):
        return o.get("/Type") if isinstance(o, dict) else None

    def cmp(vs, vd, in_array, where):
        if isinstance(vs, tuple) and vs[0] == "r":
            a = vs[1]
            sa = src.get(a)
            if isinstance(sa, dict) and typ(sa) == ("n", "/Pages"):
                return None if vd is None else "%s: reference to a /Pages node was not replaced by null" % where
            if sa is None and not in_array:
                return None if vd is None else "%s: reference to a null object kept as a key" % where
            if isinstance(sa, dict) and typ(sa) == ("n", "/Page") and a != a0:
                if vd is None and not in_array:
                    return None       # reference to the reserved null object: the dump leaves such keys out
                if not (isinstance(vd, tuple) and vd[0] == "r"):
                    return "%s: reference to page %d became %r" % (where, a, vd)
                b = vd[1]
                db = dst.get(b)
                if db is None or (b not in fresh and isinstance(db, dict) and db.get("/Mk") == sa.get("/Mk")):
                    return None
                return "%s: page %d behind a page boundary was copied or replaced by something else (%d)" % (where, a, b)
            if not (isinstance(vd, tuple) and vd[0] == "r"):
                return "%s: reference %d became %r" % (where, a, vd)
            b = vd[1]
            if fwd.get(a, b) != b or bwd.get(b, a) != a:
                return "%s: sharing not preserved (%d -> %d, but %s / %s)" % (where, a, b, fwd.get(a), bwd.get(b))
            if a not in fwd:
                fwd[a], bwd[b] = b, a
                if b in fresh:
                    queue.append((a, b))
            return None
        if isinstance(vs, list):
            if not isinstance(vd, list) or len(vd) != len(vs):
                return "%s: array %r became %r" % (where, vs, vd)
            for k, (x, y) in enumerate(zip(vs, vd)):
                r = cmp(x, y, True, "%s[%d]" % (where, k))
                if r:
                    return r
            return None
        if isinstance(vs, dict):
            if not isinstance(vd, dict):
                return "%s: dictionary became %r" % (where, vd)
            for k in vd:
                if k not in vs:
                    return "%s: key %s appeared" % (where, k)
            for k, x in vs.items():
                r = cmp(x, vd.get(k), False, where + k)
                if r:
                    return r
            return None
        return None if vs == vd else "%s: %r became %r" % (where, vs, vd)
    while queue:
        a, b = queue.pop()
        sa, db = src.get(a), dst.get(b)
        if isinstance(sa, tuple) and sa[0] == "s":
            if not (isinstance(db, tuple) and db[0] == "s"):
                return "stream %d copied as non-stream %d" % (a, b)
            if sa[2] != db[2]:
                return "stream %d -> %d: data differs" % (a, b)
            r = cmp(sa[1], db[1], False, "stream %d -> %d " % (a, b))
        else:
            r = cmp(sa, db, False, "object %d -> %d " % (a, b))
        if r:
            return r
    return None


CLEAN = ("flat3", "flat4r", "flat1", "flat8", "nested0", "nested1", "nested2", "empty")


def check_copies(chk, case, steps, stats):
    """copy oracle on a history run with full dumps"""
    dirty = False
    for i in range(1, len(steps) - 1):
        cur, pre = steps[i], steps[i - 1]
        op = cur.get("o", "").split(",")
        if op[0] in ("rp", "sw", "av", "mi", "mb", "rk", "na", "kn", "ks") or "x" in cur:
            dirty = True          # objects changed behind the copier's memo: the documentation excludes this
        if dirty or op[0] != "cf" or not cur.get("r", "").startswith("ok:") or "d" not in cur or "d" not in pre:
            continue
        d, s_, a0 = int(op[1]), int(op[2]), int(op[3])
        if s_ == d:
            continue
        hx2 = lambda x: bytes.fromhex(x if x != "-" else "").decode("latin-1")
        pre_d = [parse_dump(hx2(x)) for x in pre["d"].split("/")]
        post_d = [parse_dump(hx2(x)) for x in cur["d"].split("/")]
        why = None
        fam_s = case["fa"] if s_ == 0 else case["fb"]
        if fam_s in CLEAN and pre_d[s_] != post_d[s_]:
            why = "copyForeignObject changed the source document"
        if not why:
            was_null = set(j for j, v in pre_d[d].items() if v is None)

            def strip(v):
                # the dump leaves out keys whose value is a reference to a null object: a reserved null that this call
                # fills makes such a key appear although the object that holds it is unchanged
                if isinstance(v, dict):
                    return {k: strip(x) for k, x in v.items() if not (isinstance(x, tuple) and x[0] == "r" and (x[1] in was_null or x[1] not in pre_d[d]))}
                if isinstance(v, list):
                    return [strip(x) for x in v]
                if isinstance(v, tuple) and v[0] == "s":
                    return ("s", strip(v[1]), v[2])
                return v
            for j, v in pre_d[d].items():
                if v is not None and strip(post_d[d].get(j)) != strip(v):
                    why = "copyForeignObject changed object %d that existed in the destination" % j
                    break
        if not why and not cur["r"].startswith("ok:direct"):
            fresh = set(j for j, v in post_d[d].items() if j not in pre_d[d] or (pre_d[d][j] is None and v is not None))
            why = copy_iso(post_d[s_], post_d[d], a0, int(cur["r"][3:]), fresh)
        stats["copies_checked"] = stats.get("copies_checked", 0) + 1
        if why:
            chk.violation({"kind": "property-fails-on-implementation", "part": "copy-oracle", "case": describe(case, steps), "step": i,
                           "operation": cur.get("o"), "why": why, "minimal_history": concrete_ops(steps)[:i], "replay": replay_line(case, steps)})
            stats["spec_viol"] += 1
            return


def leafvals(q):
    """'id^hash,...' -> {id: hash} (direct leaves 'd' are left out)"""
    m = {}
    for e in q.split(","):
        if e and "^" in e:
            i, h = e.split("^")
            if i != "d":
                m[int(i)] = h
    return m


def check_values(chk, case, steps, stats):
    """pages are independent values (ISO 32000-1 7.7.3.3: each page object is a dictionary of its own; QPDF.hh addPage: 'if the
    page is already in the pages tree, a shallow copy is made' - a copy, not an alias): an in-place edit of a value held by ONE
    object (setArrayItem on its /MediaBox, replaceKey in its /Resources, appendItem to its /Annots) may change the dictionary
    of that page only.  Judged on what the driver's raw walk shows of every leaf before and after the call."""
    for k in range(1, len(steps) - 1):
        cur, pre = steps[k], steps[k - 1]
        op = cur.get("o", "").split(",")
        r = cur.get("r", "")
        if op[0] not in ("mb", "rk", "na") or not r.startswith("ok") or r == "ok:skip" or "q" not in cur or "q" not in pre:
            continue
        # the edited container is a direct value of object i ("ok"), or the indirect object the attribute names ("ok:<id>")
        d, i = int(op[1]), (int(op[2]) if r == "ok" else int(r[3:]))
        stats["value_frames"] = stats.get("value_frames", 0) + 1
        for dd, (qa, qb) in enumerate(zip(pre["q"].split("/"), cur["q"].split("/"))):
            a, b = leafvals(qa), leafvals(qb)
            for j in a:
                if j in b and a[j] != b[j] and (dd, j) != (d, i):
                    chk.violation({"kind": "property-fails-on-implementation", "part": "page-values", "case": describe(case, steps), "step": k,
                                   "operation": cur.get("o"),
                                   "why": "the in-place edit of a direct value of object %d of document %d changed the dictionary of page object %d of document %d: "
                                          "two entries of the page list share a value" % (i, d, j, dd),
                                   "minimal_history": concrete_ops(steps)[:k], "replay": replay_line(case, steps)})
                    stats["spec_viol"] += 1
                    return


def concrete_ops(steps):
    return [st["o"] for st in steps[1:-1] if "o" in st]


def describe(case, steps=None):
    d = {"documents": [case["fa"], case["fb"]], "bases": [case["ba"], case["bb"]], "flags": case["flags"], "ops": case["ops"]}
    if steps is not None:
        d["concrete_ops"] = concrete_ops(steps)
    return d


def replay_line(case, steps):
    return "pgrun %s %s.%d %s.%d %s" % (case["flags"].replace("v", "") + "v", case["fa"], case["ba"], case["fb"], case["bb"], ";".join(concrete_ops(steps)) or "-")


CMP_KEYS = ("r", "h", "p", "f", "P", "F", "d")


def compare_model(case, isteps, msteps):
    """-> (index of first differing step or None, unmodelled?)"""
    for i, (a, b) in enumerate(zip(isteps, msteps)):
        if any("E:unm" in b.get(k, "") for k in ("r", "p", "f", "P", "F")):
            return None, True
        if "x" in a and (a.get("h") != b.get("h") or a.get("d") != b.get("d")):
            # a stream whose data source is a stream of the other document that was itself a copy and has been replaced
            # or made unreadable since (chains of copies keep a handle to the source stream): outside the model
            return None, False
        for k in CMP_KEYS:
            if k in b and a.get(k) != b.get(k):
                return i, False
        if a.get("o", "").startswith("ri,") and a.get("r") == "ok":
            # an accepted replaceObject(og, stream og) leaves an object that is a reference to itself (known finding F4); the
            # model follows the call itself, not what later calls do with such an object
            return None, False
    if len(isteps) != len(msteps):
        return min(len(isteps), len(msteps)) - 1, False
    return None, False


def gen_cases(chk):
    """generator of histories (lazily: the thorough tier enumerates several hundred thousand)"""
    rng = chk.rng
    quick = chk.tier == "quick"
    for fa, fb, flags, ops in CORPUS:
        yield {"fa": fa, "fb": fb, "ba": 10, "bb": 20, "flags": flags, "ops": ops, "part": "corpus"}
    # exhaustive: every sequence over the small alphabet up to the length bound, 2 documents x 3-4 pages
    alpha = small_alphabet(chk.tier)
    maxlen = 3 if quick else 4
    pairs = [("flat3", "nested0", maxlen)] if quick else [("flat3", "nested0", maxlen), ("nested1", "flat4r", maxlen - 1)]
    for fa, fb, ml in pairs:
        for L in range(1, ml + 1):
            for seq in itertools.product(alpha, repeat=L):
                yield {"fa": fa, "fb": fb, "ba": 10, "bb": 20, "flags": "0" if L == ml else "1", "ops": list(seq), "part": "exhaustive"}
    # one more level, sampled
    n_s = 3000 if quick else 60000
    for _ in range(n_s):
        fa, fb = rng.choice([("flat3", "nested0"), ("flat4r", "flat3"), ("nested1", "flat3"), ("shared", "flat3"), ("sharedn", "flat3"), ("sharedn3", "sharedx")])
        yield {"fa": fa, "fb": fb, "ba": 10, "bb": 20, "flags": rng.choice("012") + "w" * (rng.random() < 0.2) + "v" * (rng.random() < 0.2),
               "ops": [rng.choice(alpha) for _ in range(maxlen + 1 + rng.randrange(2))], "part": "exhaustive-sampled"}
    # random long histories over all families
    n_r = 1500 if quick else 20000
    fams = list(BASE_FAMILIES)
    ok_fams = [f for f in fams if FAMILIES[f][1]]
    for k in range(n_r):
        hostile = rng.random() < 0.25
        pool = fams if hostile else ok_fams
        fa, fb = rng.choice(pool), rng.choice(pool)
        yield {"fa": fa, "fb": fb, "ba": 10, "bb": 40, "flags": rng.choice("0012") + ("w" if rng.random() < 0.3 else "") + ("v" if rng.random() < 0.3 else ""),
               "ops": gen_ops(rng, rng.choice([8, 20, 60]) if not quick else rng.choice([6, 15, 40]), hostile=hostile),
               "part": "random-hostile" if hostile else "random"}


def build_cases(chk):
    return list(gen_cases(chk))


def run_batch(chk, cases, agg):
    """one batch of histories: implementation, model, specification, oracles; counters are accumulated in agg"""
    drv = os.path.join(common.DRV, "drv")
    runner = os.path.join(common.EXTRACT, "model_runner")
    stats = agg["stats"]
    all_cases = cases
    impl = run_cases(drv, cases)
    isteps = [parse_steps(l) for l in impl]
    # a history on which the implementation dies (stack overflow, memory cap, timeout): find the shortest dying prefix; it is
    # a violation unless the history had already left the domain of the specification (direct damage to the tree without
    # updateAllPagesCache: pushInheritedAttributesToPageInternal recurses without loop detection on a stale cache)
    aborted = [i for i, l in enumerate(impl) if l.startswith("?crashed")]
    for i in aborted:
        c = cases[i]
        ops = c["ops"]
        lo, n = 0, len(ops)          # prefix of length lo survives, prefix of length n dies
        while n - lo > 1:
            k = (lo + n) // 2
            if run_cases(drv, [dict(c, ops=ops[:k])], workers=1)[0].startswith("?crashed"):
                n = k
            else:
                lo = k
        pre = run_cases(drv, [dict(c, ops=ops[:n - 1])], workers=1)[0]
        psteps = parse_steps(pre)
        inside = FAMILIES[c["fa"]][1] and FAMILIES[c["fb"]][1]
        last_conc = None
        if inside:
            pl = spec_plan(c, psteps)
            inside = pl is not None and not any(p[0] == "stop" for p in pl[1])
            if inside and n - 1 < len(ops):
                # the dying operation itself: translate it against the last pre-state
                one = run_cases(drv, [dict(c, ops=ops[:n - 1], flags=c["flags"])], workers=1)[0]
                st = parse_steps(one)
                ts = [tree_info(x) for x in st[-1]["t"].split("/")]
                last = ops[n - 1]
                if "@" not in last and all(t is not None for t in ts):
                    try:
                        translate(last.split(","), [t["ids"] for t in ts], [kinds(x) for x in st[-2]["k"].split("/")] if len(st) > 1 else [{}, {}])
                    except Stop:
                        inside = False
                    except Exception:
                        pass
                else:
                    inside = False     # symbolic operand: cannot be judged without running it
        if inside:
            chk.violation({"kind": "property-fails-on-implementation", "part": "abort", "case": describe(c), "why": "the implementation dies (stack overflow / memory cap / timeout) instead of returning or raising",
                           "shortest_dying_prefix": ops[:n], "concrete_prefix": concrete_ops(psteps), "output": impl[i][:200]}, signature="C13:abort")
        else:
            agg["aborted_outside"] += 1
    broken = [i for i, l in enumerate(impl) if (l.startswith("?") and not l.startswith("?crashed")) or l.startswith("!")]
    if broken:
        i = broken[0]
        chk.violation({"kind": "broken-tie-infrastructure", "what": "driver failed on a case", "case": describe(cases[i]), "output": impl[i][:500]}, no_input=True)
        return False
    if aborted:
        keep = [i for i in range(len(cases)) if i not in set(aborted)]
        cases = [cases[i] for i in keep]
        impl = [impl[i] for i in keep]
        isteps = [isteps[i] for i in keep]
    conc = [concrete_ops(s) for s in isteps]
    model = run_cases(runner, cases, concrete=conc)
    msteps = [parse_steps(l) for l in model]

    # ---- specification
    plans = {}
    slines, sidx = [], []
    for i, c in enumerate(cases):
        if not (FAMILIES[c["fa"]][1] and FAMILIES[c["fb"]][1]):
            continue
        pl = spec_plan(c, isteps[i])
        if pl is None:
            continue
        t0, plan = pl
        plans[i] = (t0, plan)
        sops = [p[0] for p in plan if p[0] != "stop"]
        slines.append("pgspec %s %s %s" % (",".join(map(str, t0[0]["marks"])) or "-", ",".join(map(str, t0[1]["marks"])) or "-", ";".join(sops) or "-"))
        sidx.append(i)
    sout = common.run_lines(runner, slines, shards=4)
    for i, o in zip(sidx, sout):
        t0, plan = plans[i]
        check_spec(chk, cases[i], isteps[i], t0, plan, o, stats)

    # ---- copy oracle on the histories that were run with full dumps
    for i, c in enumerate(cases):
        if "v" in c["flags"]:
            check_copies(chk, c, isteps[i], stats)

    # ---- pages are independent values (all histories)
    for i, c in enumerate(cases):
        check_values(chk, c, isteps[i], stats)

    # ---- stream data of every object must stay readable (all histories, also outside the list specification)
    for i, c in enumerate(cases):
        for k, st in enumerate(isteps[i]):
            if "g" in st.get("x", ""):
                op = st.get("o", "final").split(",")[0]
                sig = "C13:swap-copied-stream:" + op
                of = st.get("o", "").split(",")
                if op == "ri" and len(of) >= 5 and of[2] == of[4]:
                    # replaceObject(og, <a stream with the same object number>): the recorded findings C13-F5 (a stream of the OTHER
                    # document) and C13-F4 (the stream itself) seen through this oracle - the copied stream's provider is lost
                    sig = "C13:replace-indirect:" + ("foreign-stream-same-number" if of[1] != of[3] else "self-stream")
                chk.violation({"kind": "property-fails-on-implementation", "part": "stream-data", "case": describe(c, isteps[i]), "step": k, "operation": st.get("o"),
                               "why": "after this call the data of a stream that was copied from the other document can no longer be produced "
                                      "(getRawStreamData throws 'error getting raw stream data'); writing the document fails",
                               "replay": replay_line(c, isteps[i])}, signature=sig)
                stats["known_sig"][sig] = stats["known_sig"].get(sig, 0) + 1
                stats["spec_viol"] += 1
                break

    # ---- model vs implementation
    tie = []
    nontriv = agg["nontriv"]
    kinds_count = agg["kinds"]
    for i, c in enumerate(cases):
        d, unm = compare_model(c, isteps[i], msteps[i])
        if unm:
            stats["unmodelled"] += 1
        if d is not None:
            tie.append((i, d))
        changed = any(st.get("r", "").startswith("ok") and st.get("o", "").split(",")[0] in ("ap", "hp", "an", "aa", "ha", "rm", "hr", "cf", "sw", "rp")
                      for st in isteps[i][1:-1])
        if changed:
            nontriv.setdefault(c["part"], set()).add(hash((c["fa"], c["fb"], tuple(conc[i]))))
        for st in isteps[i][1:-1]:
            key = st.get("o", "?").split(",")[0] + ":" + st.get("r", "?").split(":")[0 if st.get("r", "").startswith("ok") else 1]
            kinds_count[key] = kinds_count.get(key, 0) + 1
    if tie and agg["tie"] is None:
        i, d = tie[0]
        agg["tie"] = {"kind": "correspondence-broken", "correspondence": "corr:C13:pages-copier-model",
                      "first_case": describe(cases[i], isteps[i]), "first_differing_step": d,
                      "implementation": {k: isteps[i][d].get(k) for k in CMP_KEYS + ("o", "t")}, "model": {k: msteps[i][d].get(k) for k in CMP_KEYS},
                      "replay": replay_line(cases[i], isteps[i]),
                      "note": "the model of QPDF_pages.cc / Foreign::Copier and the implementation print different results or object states"}
    agg["ties"] += len(tie)
    if agg.get("post") is not None:
        agg["post"](chk, cases, impl, isteps, msteps, conc, agg)
    for c in all_cases:
        agg["parts"][c["part"]] = agg["parts"].get(c["part"], 0) + 1
        if len(agg["samples"].setdefault(c["part"], [])) < 2:
            agg["samples"][c["part"]].append(describe(c))
    return True



# ---------------------------------------------------------------- extension part (c13full)
W_OK = re.compile(r"-?\d+:[0-9,?-]*")


def ext_gen(chk):
    """histories aimed at what the strengthened theorems quantify over: documents whose tree the page cache has to
    repair (random trees, wrong root /Count, wrong interior /Count), random object graphs for the copier, every
    operation kind mixed, write + re-read at the end of every history"""
    rng = chk.rng
    quick = chk.tier == "quick"
    new = ["wcp", "wcm", "wcnp", "wcnm", "jnm", "innerc", "jn0", "ji0", "jz0", "jn1", "ji1"]
    for kind, builder, n in (("rt", doc_rtree, 5 if quick else 16), ("rg", doc_rgraph, 5 if quick else 16)):
        for _ in range(n):
            seed = rng.randrange(1 << 30)
            name = "%s%d" % (kind, seed)
            FAMILIES[name] = ((lambda b, s=seed, f=builder: f(s, b)), True)
            new.append(name)
    old = [f for f in BASE_FAMILIES if FAMILIES[f][1]]
    wc = [f for f in new if f in WRONGCOUNT]
    rest = [f for f in new if f not in WRONGCOUNT]
    for _ in range(420 if quick else 8000):
        fa = rng.choice(wc) if rng.random() < 0.15 else rng.choice(rest)
        fb = rng.choice(rest) if rng.random() < 0.5 else rng.choice(old)
        if rng.random() < 0.5:
            fa, fb = fb, fa
        ops = gen_ops(rng, rng.choice([3, 8, 20]))
        if rng.random() < 0.3:
            # copies of several objects of the same source, then the page that refers to them (memo, placeholders)
            d = rng.randrange(2)
            pre = ["cf,%d,%d,@o%d" % (d, 1 - d, rng.randrange(40)) for _ in range(rng.randrange(1, 4))]
            ops = pre + ["ap,%d,%d,@l%d,%d" % (d, 1 - d, rng.randrange(4), rng.randrange(2))] + ops
        flags = rng.choice("012") + "w" + ("v" if rng.random() < 0.25 else "")
        if fa in JUNK_LARGE or fb in JUNK_LARGE or ((fa[0] == "j" or fb[0] == "j") and rng.random() < 0.8):
            flags = rng.choice("12") + flags[1:]      # (with level 0 the first flattening call meets known finding C13-F7)
        if (fa[0] == "j" or fb[0] == "j") and rng.random() < 0.5:
            # refresh the cache again, later, also after direct edits of /Kids
            d = 0 if fa[0] == "j" else 1
            extra = rng.choice([["uc,%d" % d], ["ks,%d,%d,%d" % (d, rng.randrange(4), rng.randrange(4)), "uc,%d" % d],
                                ["kn,%d,%d" % (d, rng.randrange(4)), "uc,%d" % d], ["gp,%d" % d, "uc,%d" % d, "fp,%d,@l0" % d]])
            k = rng.randrange(len(ops) + 1)
            ops = ops[:k] + extra + ops[k:]
        part = "ext-wrongcount" if (fa in WRONGCOUNT or fb in WRONGCOUNT) else ("ext-graph" if (fa.startswith("rg") or fb.startswith("rg")) else "ext-tree")
        yield {"fa": fa, "fb": fb, "ba": 10, "bb": 40, "flags": flags, "ops": ops, "part": part}


def ext_post(chk, cases, impl, isteps, msteps, conc, agg):
    """second tie: the extracted specification function pgx_doc_leaves (evaluated on the model's state) must show the leaves
    the driver's raw walk of the real tree shows after every step, and the model's pgx_reread must be what write + re-read
    through QPDFWriter / a fresh QPDF shows"""
    runner = os.path.join(common.EXTRACT, "model_runner")
    x = agg["ext"]
    idx, lines, need = [], [], []
    for i, c in enumerate(cases):
        if any("E:unm" in st.get(k, "") for st in msteps[i] for k in ("r", "p", "f", "P", "F")):
            continue
        if any("x" in st or (st.get("o", "").startswith("ri,") and st.get("r") == "ok") for st in isteps[i]):
            continue
        idx.append(i)
        lines.append("pgxrun %s %s.%d %s.%d %s" % (c["flags"].replace("v", "").replace("w", ""), c["fa"], c["ba"], c["fb"], c["bb"], ";".join(conc[i]) or "-"))
        for fam, b in ((c["fa"], c["ba"]), (c["fb"], c["bb"])):
            if (fam, b) not in need:
                need.append((fam, b))
    if not lines:
        return
    hdr = ["pgdoc %s.%d %s %s" % (fam, b, get_doc(fam, b)[0], get_doc(fam, b)[1]) for fam, b in need]
    n = (len(lines) + 3) // 4
    outs = common.par_map(lambda ch: run_capped(runner, hdr, ch), [lines[k:k + n] for k in range(0, len(lines), n)], workers=4)
    out = [o for part in outs for o in part]
    for i, o in zip(idx, out):
        c, st = cases[i], isteps[i]
        parts = o.split("|")
        if o.startswith("?") or len(parts) != len(st):
            x["diff"].append({"what": "runner output", "case": describe(c, st), "output": o[:300]})
            continue
        for k, (a, b) in enumerate(zip(st[:-1], parts[:-1])):
            ts = [tree_info(t) for t in a["t"].split("/")]
            b, _, fl = b.partition(" F=")
            ml = b[2:].split("/")
            x["states"] += 2
            x["states_flat"] += fl.count("1")
            x["states_nested"] += fl.count("n")

            for d in (0, 1):
                exp = "x" if (ts[d] is None or ts[d]["weird"] or ts[d]["junk"]) else "".join(("%d," % m) if m >= 0 else "?," for m in ts[d]["marks"])
                x["leaf_steps"] += 1
                if exp != ml[d]:
                    x["diff"].append({"what": "leaves", "case": describe(c, st), "step": k, "document": d, "implementation_tree": a["t"], "pgx_doc_leaves": ml[d]})
        raw = impl[i]
        if " W=" in raw:
            iw = raw.split(" W=", 1)[1]
            ma, mb = re.match(r"^(-?\d+:[0-9,?-]*):w\d+/", iw), re.search(r"/(-?\d+:[0-9,?-]*):w\d+$", iw)
            got = (ma.group(1) if ma else "E") + "/" + (mb.group(1) if mb else "E")
            x["rereads"] += 1
            if "E" in got:
                x["reread_errors"] += 1
            if parts[-1] != "W=" + got:
                x["diff"].append({"what": "reread", "case": describe(c, st), "implementation": iw[:300], "pgx_reread": parts[-1], "replay": replay_line(c, st)})


def run_ext(chk, agg):
    agg["ext"] = {"diff": [], "leaf_steps": 0, "rereads": 0, "reread_errors": 0, "states": 0, "states_flat": 0, "states_nested": 0, "fam_flat": {}}
    agg["post"] = ext_post
    ok = run_batch(chk, list(ext_gen(chk)), agg)
    agg["post"] = None
    x = agg["ext"]
    # every family as read (no call made yet): inside which theorem's hypothesis?
    runner = os.path.join(common.EXTRACT, "model_runner")
    fams = sorted(FAMILIES)
    hdr = ["pgdoc %s.10 %s %s" % (f, get_doc(f, 10)[0], get_doc(f, 10)[1]) for f in fams]
    for f, o in zip(fams, run_capped(runner, hdr, ["pgxflat %s.10" % f for f in fams])):
        x["fam_flat"].setdefault(f if f[:2] not in ("rt", "rg") else f[:2] + "*", set()).add(o)
    chk.cov["parts"]["ext"] = {"leaf_observations_compared": x["leaf_steps"], "rereads_compared": x["rereads"], "rereads_that_raise": x["reread_errors"],
                               "differences": len(x["diff"]),
                               # domain of the unrestricted theorems (pgx_flat_chk, sound by flat_check_sound): measured on the explored states
                               "document_states_seen": x["states"], "document_states_inside_theorem_domain": x["states_flat"],
                               # pgn_wf_chk (sound by nested_check_sound): well-formed nested trees as read, domain of first_flatten_nested
                               "document_states_nested_wellformed_as_read": x["states_nested"],
                               "families_flat_as_read": sorted(f for f, v in x["fam_flat"].items() if v == {"1"}),
                               "families_nested_wellformed_as_read": sorted(f for f, v in x["fam_flat"].items() if v == {"n"}),
                               "families_mixed_or_outside": {f: sorted(v) for f, v in sorted(x["fam_flat"].items()) if v not in ({"1"}, {"n"})}}
    if x["diff"] and ok:
        chk.violation({"kind": "correspondence-broken", "correspondence": "corr:C13:pgx-leaves-reread", "first": x["diff"][0], "differing": len(x["diff"]),
                       "note": "the extracted pgx_doc_leaves / pgx_reread disagree with the raw tree walk / write + re-read of the implementation"}, no_input=True)
    return ok


def case_batches(chk, size=25000):
    g = gen_cases(chk)
    while True:
        batch = list(itertools.islice(g, size))
        if not batch:
            return
        yield batch


def run(chk):
    chk.cov["rule"] = ("histories of page/object-copy API calls on two documents: every sequence over a %d-operation alphabet up to the length bound "
                       "(operands resolved against the current state: k-th leaf, recent object, other document), one more level sampled, random long histories "
                       "over %d document families (flat, nested with inherited attributes, shared kids, direct kids, sloppy, empty, misplaced root, non-dictionary kids, loops); "
                       "non-trivial = history with at least one successful change of a page list or a foreign copy, distinct by (documents, concrete operations)"
                       % (len(small_alphabet(chk.tier)), len(FAMILIES)))
    agg = {"stats": {"spec_steps": 0, "spec_stopped": 0, "spec_viol": 0, "spec_complete": 0, "known_sig": {}, "unmodelled": 0},
           "nontriv": {}, "kinds": {}, "parts": {}, "samples": {}, "tie": None, "ties": 0, "aborted_outside": 0}
    for batch in case_batches(chk):
        if not run_batch(chk, batch, agg):
            return
        if len(chk.violations) > 2000:
            break                     # enough failing inputs have been collected
    if not run_ext(chk, agg):
        return
    stats = agg["stats"]
    total = sum(agg["parts"].values())
    if agg["tie"] is not None:
        spec_bad = stats["spec_viol"] - sum(stats["known_sig"].values())
        if spec_bad == 0:
            chk.violation(dict(agg["tie"], differing_cases=agg["ties"]), no_input=True)
    for p, n in agg["parts"].items():
        chk.count(p, n, agg["nontriv"].get(p, ()), samples=agg["samples"].get(p, []))
    chk.cov["parts"]["steps"] = {"operation:result": dict(sorted(agg["kinds"].items())),
                                 "spec_steps_checked": stats["spec_steps"], "histories_fully_inside_spec": stats["spec_complete"],
                                 "histories_leaving_spec_domain": stats["spec_stopped"], "unmodelled_cases": stats["unmodelled"],
                                 "known_finding_hits": stats["known_sig"], "model_differences": agg["ties"],
                                 "implementation_aborted_after_direct_tree_damage": agg["aborted_outside"],
                                 "stream_source_disturbed": stats.get("stream_source_disturbed", 0),
                                 "copies_checked_by_isomorphism_oracle": stats.get("copies_checked", 0)}
    if stats["unmodelled"] * 5 > max(1, total):
        chk.violation({"kind": "correspondence-broken", "correspondence": "corr:C13:pages-copier-model",
                       "note": "more than 20%% of the histories reach a situation the model does not cover (%d of %d)" % (stats["unmodelled"], total)}, no_input=True)
    if chk.tier != "quick":
        # independent re-check of the compiled proofs and their axiom list
        rc, out = common.sh("timeout 1500 coqchk -o -silent -Q . QV QV.Props.Properties_C13", cwd=common.COQ)
        txt = out.decode("utf-8", "replace")
        chk.cov["parts"]["coqchk"] = {"exit": rc, "output_tail": txt[-600:]}
        if rc != 0:
            chk.violation({"kind": "proof-obligation-no-longer-checks", "property": "C13", "theorem": "coqchk QV.Props.Properties_C13", "coqc_output": txt[-3000:]}, no_input=True)


def replay(chk, rep):
    """re-run the recorded history on both sides with full object dumps"""
    drv = os.path.join(common.DRV, "drv")
    runner = os.path.join(common.EXTRACT, "model_runner")
    case = rep.get("case") or rep.get("first_case")
    if not case:
        print(json.dumps(rep, indent=1))
        return 0
    for k in ("kind", "part", "why", "operation", "step", "minimal_history", "specification"):
        if k in rep:
            print("%s: %s" % (k, rep[k]))
    c = {"fa": case["documents"][0], "fb": case["documents"][1], "ba": case["bases"][0], "bb": case["bases"][1],
         "flags": case["flags"].replace("v", "") + "v", "ops": case.get("concrete_ops") or case["ops"]}
    impl = run_cases(drv, [c])[0]
    model = run_cases(runner, [c], concrete=[concrete_ops(parse_steps(impl))])[0]
    rc = 0
    for k, (a, b) in enumerate(zip(parse_steps(impl), parse_steps(model))):
        print("step %d %s: implementation r=%s p=%s | model r=%s p=%s" % (k, a.get("o", ""), a.get("r"), a.get("p", a.get("P")), b.get("r"), b.get("p", b.get("P"))))
        for key in ("d",):
            if key in a and key in b and a[key] != b[key]:
                rc = 1
                for x, y, nm in zip(a[key].split("/"), b[key].split("/"), "AB"):
                    tx = bytes.fromhex(x if x != "-" else "").decode("latin-1").split("\n")
                    ty = bytes.fromhex(y if y != "-" else "").decode("latin-1").split("\n")
                    for u, v in itertools.zip_longest(tx, ty, fillvalue=""):
                        if u != v:
                            print("   %s impl : %s\n   %s model: %s" % (nm, u, nm, v))
    return rc
