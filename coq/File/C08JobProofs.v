(* C08 - proofs about (a) the exit status of jobs with several input files (File/RecoverJob.v against
   File/RecoverJobSpec.v) and (b) the catalog found by a reconstruction when no trailer survives
   (File/Recover.v rc_last_catalog / rc_reconstruct against File/RecoverJobSpec.v and File/RecoverSpec.v). *)
From QV Require Import Base.Bytes File.StrictSyntax File.Recover File.RecoverSpec File.RecoverJob File.RecoverJobSpec File.C08Proofs.
From Coq Require Import Sorting.Sorted.
Local Open Scope N_scope.

(* ================================================================== (a) jobs *)

Lemma rj_name_eqb_eq a b : rj_name_eqb a b = true <-> a = b.
Proof. apply list_eqb_N_eq. Qed.

Lemma rj_clear_gen fs : forall a, fold_left (fun acc f => acc || rj_warn f) fs a = a || existsb rj_warn fs.
Proof.
  induction fs as [|f fs IH]; intros a; simpl; [rewrite orb_false_r; reflexivity|].
  rewrite IH, orb_assoc. reflexivity.
Qed.

Lemma rj_clear_any fs : rj_clear fs = existsb rj_warn fs.
Proof. unfold rj_clear. rewrite rj_clear_gen. reflexivity. Qed.

Lemma rj_flag_loop_any fs : forall w, rj_flag_loop fs w = w || existsb rj_warn fs.
Proof.
  unfold rj_flag_loop. induction fs as [|f fs IH]; intros w; simpl; [rewrite orb_false_r; reflexivity|].
  rewrite IH. destruct (rj_warn f), w; reflexivity.
Qed.

Lemma rj_insert_in f g : forall m, In g (rj_map_insert f m) -> g = f \/ In g m.
Proof.
  induction m as [|h m IH]; simpl; intros H.
  - destruct H as [<-|[]]. left; reflexivity.
  - destruct (rj_name_eqb (rj_name f) (rj_name h)); [right; exact H|].
    destruct (rj_name_ltb (rj_name f) (rj_name h)).
    + destruct H as [<-|H]; [left; reflexivity | right; exact H].
    + destruct H as [<-|H]; [right; left; reflexivity|].
      destruct (IH H) as [->|H']; [left; reflexivity | right; right; exact H'].
Qed.

Lemma rj_insert_keeps f g : forall m, In g m -> In g (rj_map_insert f m).
Proof.
  induction m as [|h m IH]; simpl; intros H; [destruct H|].
  destruct (rj_name_eqb (rj_name f) (rj_name h)); [exact H|].
  destruct (rj_name_ltb (rj_name f) (rj_name h)); [right; exact H|].
  destruct H as [<-|H]; [left; reflexivity | right; apply IH; exact H].
Qed.

Lemma rj_insert_name f : forall m, exists g, In g (rj_map_insert f m) /\ rj_name g = rj_name f.
Proof.
  induction m as [|h m IH]; simpl.
  - exists f. split; [left; reflexivity | reflexivity].
  - destruct (rj_name_eqb (rj_name f) (rj_name h)) eqn:E.
    + apply rj_name_eqb_eq in E. exists h. split; [left; reflexivity | symmetry; exact E].
    + destruct (rj_name_ltb (rj_name f) (rj_name h)).
      * exists f. split; [left; reflexivity | reflexivity].
      * destruct IH as [g [Hg Hn]]. exists g. split; [right; exact Hg | exact Hn].
Qed.

Lemma rj_fold_sub g : forall ps m,
  In g (fold_left (fun m f => rj_map_insert f m) ps m) -> In g m \/ In g ps.
Proof.
  induction ps as [|p ps IH]; simpl; intros m H; [left; exact H|].
  destruct (IH _ H) as [H1|H1]; [|right; right; exact H1].
  destruct (rj_insert_in _ _ _ H1) as [->|H2]; [right; left; reflexivity | left; exact H2].
Qed.

Lemma rj_fold_keeps g : forall ps m,
  In g m -> In g (fold_left (fun m f => rj_map_insert f m) ps m).
Proof.
  induction ps as [|p ps IH]; simpl; intros m H; [exact H|].
  apply IH. apply rj_insert_keeps. exact H.
Qed.

Lemma rj_fold_cover f : forall ps m,
  In f m \/ In f ps ->
  exists g, In g (fold_left (fun m f => rj_map_insert f m) ps m) /\ rj_name g = rj_name f.
Proof.
  induction ps as [|p ps IH]; simpl; intros m H.
  - destruct H as [H|[]]. exists f. split; [exact H | reflexivity].
  - destruct H as [H|[->|H]].
    + apply IH. left. apply rj_insert_keeps. exact H.
    + destruct (rj_insert_name f m) as [g [Hg Hn]].
      exists g. split; [apply rj_fold_keeps; exact Hg | exact Hn].
    + apply IH. right. exact H.
Qed.

Lemma rj_files_sub j g : In g (rj_files j) -> In g (rj_opt (rj_main j)) \/ In g (rj_pages j).
Proof. unfold rj_files. apply rj_fold_sub. Qed.

Lemma rj_files_cover j f : In f (rj_opt (rj_main j)) \/ In f (rj_pages j) ->
  exists g, In g (rj_files j) /\ rj_name g = rj_name f.
Proof. unfold rj_files. apply rj_fold_cover. Qed.

Lemma rjs_in_main j f : In f (rj_opt (rj_main j)) -> In f (rjs_inputs j).
Proof. unfold rjs_inputs. intros H. rewrite !in_app_iff. tauto. Qed.
Lemma rjs_in_pages j f : In f (rj_pages j) -> In f (rjs_inputs j).
Proof. unfold rjs_inputs. intros H. rewrite !in_app_iff. tauto. Qed.

(* the map of input files, walked in name order without the main input, says the same as the list of files as
   they were named - for any question that depends on the file only *)
Lemma rj_secondary_any (P : rj_file -> bool) j :
  rjs_wf j ->
  (forall f g, rj_fatal f = rj_fatal g -> rj_warn f = rj_warn g -> rj_name f = rj_name g -> P f = P g) ->
  existsb P (rj_opt (rj_main j)) || existsb P (rj_secondary j) =
  existsb P (rj_opt (rj_main j)) || existsb P (rj_pages j).
Proof.
  intros Hwf HP. apply Bool.eq_iff_eq_true. rewrite !orb_true_iff, !existsb_exists. split.
  - intros [H|[x [Hx Px]]]; [left; exact H|].
    unfold rj_secondary in Hx. apply filter_In in Hx. destruct Hx as [Hx _].
    destruct (rj_files_sub _ _ Hx) as [H|H]; [left | right]; exists x; split; assumption.
  - intros H.
    assert (Hx : exists x, (In x (rj_opt (rj_main j)) \/ In x (rj_pages j)) /\ P x = true).
    { destruct H as [[x [H1 H2]]|[x [H1 H2]]]; exists x; split; auto. }
    destruct Hx as [x [Hx Px]].
    destruct (rj_files_cover j x Hx) as [g [Hg Hn]].
    assert (Hgi : In g (rjs_inputs j)).
    { destruct (rj_files_sub _ _ Hg); [apply rjs_in_main | apply rjs_in_pages]; assumption. }
    assert (Hxi : In x (rjs_inputs j)).
    { destruct Hx; [apply rjs_in_main | apply rjs_in_pages]; assumption. }
    destruct (Hwf g x Hgi Hxi Hn) as [Hf Hw].
    assert (Pg : P g = true) by (rewrite (HP g x Hf Hw Hn); exact Px).
    destruct (rj_is_main j g) eqn:M.
    + left. unfold rj_is_main in M. destruct (rj_main j) as [mn|] eqn:Em; [|discriminate].
      apply rj_name_eqb_eq in M. exists mn. split; [left; reflexivity|].
      assert (Hmi : In mn (rjs_inputs j)) by (apply rjs_in_main; rewrite Em; left; reflexivity).
      destruct (Hwf g mn Hgi Hmi M) as [Hf' Hw'].
      rewrite <- (HP g mn Hf' Hw' M). exact Pg.
    + right. exists g. split; [|exact Pg]. unfold rj_secondary. apply filter_In. split; [exact Hg|].
      rewrite M. reflexivity.
Qed.

(* the exit status of the model, without any reference to names, maps or orders: it is the specification's *)
Lemma job_exit_characterised_lemma : forall j : rj_job,
  rjs_wf j ->
  rj_exit j = if existsb rj_fatal (rjs_inputs j) then 2
              else if existsb rj_warn (rjs_inputs j) then 3
              else 0.
Proof.
  intros j Hwf. unfold rj_exit, rjs_inputs.
  rewrite rj_clear_any, !rj_flag_loop_any, !existsb_app.
  assert (KF := rj_secondary_any rj_fatal j Hwf (fun f g Hf _ _ => Hf)).
  assert (KW := rj_secondary_any rj_warn j Hwf (fun f g _ Hw _ => Hw)).
  destruct (existsb rj_fatal (rj_opt (rj_main j))), (existsb rj_fatal (rj_secondary j)),
           (existsb rj_fatal (rj_pages j)); simpl in KF; try discriminate KF;
  destruct (existsb rj_warn (rj_opt (rj_main j))), (existsb rj_warn (rj_secondary j)),
           (existsb rj_warn (rj_pages j)); simpl in KW; try discriminate KW;
  destruct (existsb rj_fatal (rj_uo j)), (existsb rj_fatal (rj_attach j)), (existsb rj_fatal (rj_opt (rj_enc j))),
           (existsb rj_warn (rj_uo j)), (existsb rj_warn (rj_attach j)), (existsb rj_warn (rj_opt (rj_enc j))); reflexivity.
Qed.

(* the model meets the specification for every job (since /repo d4bc1464 without an exception for the
   --copy-encryption role) *)
Lemma job_exit_meets_spec_lemma : forall j : rj_job, rjs_wf j -> rj_exit j = rjs_exit j.
Proof. intros j Hwf. rewrite job_exit_characterised_lemma by exact Hwf. reflexivity. Qed.

(* damage_never_exit0 for jobs: whatever the reader detected in any file the job reads - main input, --pages,
   --overlay, --underlay, --copy-attachments-from, --copy-encryption -, an exception or a warning, the job does not
   end with status 0, whatever the names of the files are and in whatever order they were given *)
Lemma job_damage_never_exit0_lemma : forall (j : rj_job) (f : rj_file),
  rjs_wf j -> In f (rjs_inputs j) ->
  (rj_fatal f = true \/ rj_warn f = true) -> rj_exit j <> 0.
Proof.
  intros j f Hwf Hin Hd. rewrite job_exit_characterised_lemma by exact Hwf.
  destruct (existsb rj_fatal (rjs_inputs j)) eqn:F; [discriminate|].
  destruct Hd as [Hd|Hd].
  - assert (X : existsb rj_fatal (rjs_inputs j) = true) by (apply existsb_exists; exists f; split; assumption).
    congruence.
  - assert (X : existsb rj_warn (rjs_inputs j) = true) by (apply existsb_exists; exists f; split; assumption).
    rewrite X. discriminate.
Qed.

Lemma rj_existsb_same (P : rj_file -> bool) a b : (forall f, In f a <-> In f b) -> existsb P a = existsb P b.
Proof.
  intros H. apply Bool.eq_iff_eq_true. rewrite !existsb_exists.
  split; intros [x [Hx Px]]; exists x; (split; [apply H; exact Hx | exact Px]).
Qed.

(* the exit status does not depend on the order in which the files are named (nor, as names only enter through
   rjs_wf, on what they are called) *)
Lemma job_exit_order_independent_lemma : forall j j' : rj_job,
  rjs_wf j -> rjs_wf j' -> rjs_same_files j j' -> rj_exit j = rj_exit j'.
Proof.
  intros j j' Hwf Hwf' [Hm [He [Hp [Hu Ha]]]].
  rewrite !job_exit_characterised_lemma by assumption. unfold rjs_inputs.
  rewrite !existsb_app, Hm, He.
  rewrite (rj_existsb_same rj_fatal _ _ Hp), (rj_existsb_same rj_fatal _ _ Hu), (rj_existsb_same rj_fatal _ _ Ha),
          (rj_existsb_same rj_warn _ _ Hp), (rj_existsb_same rj_warn _ _ Hu), (rj_existsb_same rj_warn _ _ Ha).
  reflexivity.
Qed.

(* the warnings of the file given to --copy-encryption count (former finding C08-F16, repaired in /repo d4bc1464):
   whatever else the job does, a --copy-encryption file that was repaired with warnings makes the status 3 unless some
   file is unreadable (then 2) *)
Lemma job_copy_encryption_counted_lemma : forall (j : rj_job) (e : rj_file),
  rjs_wf j -> rj_enc j = Some e -> rj_warn e = true ->
  rj_exit j = if existsb rj_fatal (rjs_inputs j) then 2 else 3.
Proof.
  intros j e Hwf He Hw. rewrite job_exit_characterised_lemma by exact Hwf.
  assert (X : existsb rj_warn (rjs_inputs j) = true).
  { apply existsb_exists. exists e. split; [|exact Hw]. unfold rjs_inputs. rewrite He. left. reflexivity. }
  rewrite X. reflexivity.
Qed.

(* pinned regression on the witness of the former refutation (job_copy_encryption_silent_refuted: model and qpdf 0,
   specification 3): main input `m` read cleanly, --copy-encryption file `e` repaired with warnings - status 3 now,
   2 for an unreadable file in that role, and 3 as before for the same damaged file in any other role *)
Lemma job_copy_encryption_regression_lemma :
  let m := mkRjFile [109] false false in
  let e := mkRjFile [101] false true in
  let j := mkRjJob (Some m) [] [] [] (Some e) in
  rjs_wf j /\ rjs_exit j = 3 /\ rj_exit j = 3 /\
  rj_exit (mkRjJob (Some m) [] [] [] (Some (mkRjFile [101] true false))) = 2 /\
  rj_exit (mkRjJob (Some m) [e] [] [] None) = 3 /\ rj_exit (mkRjJob (Some m) [] [e] [] None) = 3 /\
  rj_exit (mkRjJob (Some m) [] [] [e] None) = 3 /\ rj_exit (mkRjJob (Some e) [m] [] [] None) = 3.
Proof.
  simpl. split.
  - intros f g Hf Hg Hn. simpl in Hf, Hg.
    destruct Hf as [<-|[<-|[]]], Hg as [<-|[<-|[]]]; simpl in Hn; try discriminate Hn; split; reflexivity.
  - vm_compute. repeat split.
Qed.

(* ================================================================== (b) the catalog when no trailer survives *)

Lemma lc_split file len : forall t best res,
  rc_last_catalog file len t best = res ->
  (rsc_no_catalog file len t /\ res = best) \/
  (exists og off t1 t2, t = t1 ++ (og, off) :: t2 /\ rc_is_catalog file len off = true /\
                        rsc_no_catalog file len t2 /\ res = Some og).
Proof.
  induction t as [|[k v] r IH]; simpl; intros best res H.
  - left. split; [intros og off []|symmetry; exact H].
  - destruct (IH _ _ H) as [[Hn Hr]|[og [off [t1 [t2 [Ht [Hc [Hn Hr]]]]]]]].
    + destruct (rc_is_catalog file len v) eqn:C.
      * right. exists k, v, [], r. repeat split; assumption.
      * left. split; [|exact Hr]. intros og off [E|Hin]; [injection E as <- <-; exact C | eapply Hn; exact Hin].
    + right. exists og, off, ((k, v) :: t1), t2. rewrite Ht. repeat split; assumption.
Qed.

Lemma sorted_app_lt (t1 : rc_table) x t2 :
  og_sorted (t1 ++ x :: t2) -> forall e, In e t1 -> rc_og_ltb (fst e) (fst x) = true.
Proof.
  induction t1 as [|a t1 IH]; simpl; intros Hs e He; [destruct He|].
  inversion Hs as [|? ? Hs' Hall]; subst. destruct He as [<-|He].
  - rewrite Forall_forall in Hall. apply Hall. apply in_app_iff. right. left. reflexivity.
  - apply IH; assumption.
Qed.

Lemma og_ltb_irrefl a : rc_og_ltb a a = false.
Proof. apply og_ltb_irrefl_eq. apply og_eqb_refl. Qed.

(* the fallback of reconstruct_xref ("try the one with the highest object id"): over the table - a std::map, so
   sorted by id - it returns exactly the catalog entry with the highest id, and nothing iff no entry is a catalog *)
Lemma catalog_fallback_highest_lemma : forall (file : list N) (len : N) (t : rc_table) (og : rc_og),
  og_sorted t ->
  (rc_last_catalog file len t None = Some og <-> rsc_is_highest file len t og).
Proof.
  intros file len t og Hs.
  assert (Fwd : forall og0, rc_last_catalog file len t None = Some og0 -> rsc_is_highest file len t og0).
  { intros og0 H. destruct (lc_split file len t None _ H) as [[_ Hr]|[og1 [off [t1 [t2 [Ht [Hc [Hn Hr]]]]]]]]; [discriminate|].
    injection Hr as <-. split.
    - exists off. split; [rewrite Ht; apply in_app_iff; right; left; reflexivity | exact Hc].
    - intros og' off' Hin Hc'. rewrite Ht in Hin. apply in_app_iff in Hin. destruct Hin as [Hin|[E|Hin]].
      + right. rewrite Ht in Hs. apply (sorted_app_lt _ _ _ Hs (og', off') Hin).
      + injection E as <- <-. left. reflexivity.
      + rewrite (Hn _ _ Hin) in Hc'. discriminate. }
  split; [apply Fwd|].
  intros [[off [Hin Hc]] Hmax].
  destruct (rc_last_catalog file len t None) as [og2|] eqn:E.
  - destruct (Fwd og2 eq_refl) as [[off2 [Hin2 Hc2]] Hmax2].
    destruct (Hmax _ _ Hin2 Hc2) as [->|L1]; [reflexivity|].
    destruct (Hmax2 _ _ Hin Hc) as [->|L2]; [reflexivity|].
    pose proof (og_ltb_trans _ _ _ L1 L2) as L. rewrite og_ltb_irrefl in L. discriminate.
  - destruct (lc_split file len t None _ E) as [[Hn _]|[? [? [? [? [_ [_ [_ Hr]]]]]]]]; [|discriminate].
    rewrite (Hn _ _ Hin) in Hc. discriminate.
Qed.

Lemma catalog_fallback_none_lemma : forall (file : list N) (len : N) (t : rc_table),
  rc_last_catalog file len t None = None <-> rsc_no_catalog file len t.
Proof.
  intros file len t. split.
  - intros H. destruct (lc_split file len t None _ H) as [[Hn _]|[? [? [? [? [_ [_ [_ Hr]]]]]]]]; [exact Hn | discriminate].
  - intros Hn. destruct (rc_last_catalog file len t None) as [og|] eqn:E; [|reflexivity].
    destruct (lc_split file len t None _ E) as [[_ Hr]|[og1 [off [t1 [t2 [Ht [Hc _]]]]]]]; [discriminate|].
    rewrite (Hn og1 off) in Hc; [discriminate|]. rewrite Ht. apply in_app_iff. right. left. reflexivity.
Qed.

Lemma insert_all_sorted maxid : forall l t, og_sorted t -> og_sorted (rc_insert_all maxid [] l t).
Proof.
  induction l as [|[[o g] a] l IH]; simpl; intros t Hs; [exact Hs|].
  apply IH. apply insert_sorted. exact Hs.
Qed.

Lemma recon_table_sorted maxid evs : og_sorted (rc_recon_table maxid [] evs).
Proof. unfold rc_recon_table. apply insert_all_sorted. constructor. Qed.

Lemma lookup_in k v : forall t, rc_lookup k t = Some v -> In (k, v) t.
Proof.
  induction t as [|[k' v'] t IH]; simpl; intros H; [discriminate|].
  destruct (rc_og_eqb k k') eqn:E.
  - apply og_eqb_eq in E. injection H as <-. subst k'. left. reflexivity.
  - right. apply IH. exact H.
Qed.

Lemma in_lookup k v : forall t, og_sorted t -> In (k, v) t -> rc_lookup k t = Some v.
Proof.
  induction t as [|[k' v'] t IH]; simpl; intros Hs Hin; [destruct Hin|].
  inversion Hs as [|? ? Hs' Hall]; subst.
  destruct Hin as [E|Hin].
  - injection E as -> ->. rewrite og_eqb_refl. reflexivity.
  - destruct (rc_og_eqb k k') eqn:E.
    + apply og_eqb_eq in E. subst k'. rewrite Forall_forall in Hall.
      pose proof (Hall _ Hin) as L. simpl in L. rewrite og_ltb_irrefl in L. discriminate.
    + apply IH; assumption.
Qed.

(* without a trailer candidate in the file, without a trailer read before and without a cross-reference stream among
   the objects found, the root of a reconstruction is the fallback's answer over the reconstructed table *)
Lemma recon_root_without_trailer_lemma : forall (maxid : Z) (file : list N) (len : N) (deleted : list Z),
  rc_trailer_pos (rc_scan_events file) = [] ->
  rc_xs_trailer file len (rc_recon_table maxid deleted (rc_scan_events file)) = None ->
  r_root (rc_reconstruct maxid file len deleted None) =
  rc_last_catalog file len (rc_recon_table maxid deleted (rc_scan_events file)) None.
Proof.
  intros maxid file len deleted H Hx. unfold rc_reconstruct. rewrite H. simpl. rewrite Hx. reflexivity.
Qed.

(* "finds the catalog" when no trailer survives: over a written file whose bodies satisfy no_lookalike and whose
   tail holds no trailer keyword, with no cross-reference stream among its objects, if the current catalog `cur` (last definition at `off`) has a higher id than every
   other object whose last definition is a catalog - which is what an incremental update that takes a fresh object
   number for its catalog produces - the reconstruction's /Root is `cur` *)
Lemma recon_finds_current_catalog_lemma :
  forall (pre : list N) (objs : list rs_obj) (tail : list N) (maxid : Z) (cur : Z * Z) (off : N),
  rs_blank pre = true -> objs <> [] ->
  Forall (fun o => rs_wf_obj o = true) objs -> rs_tail_quiet tail = true ->
  rc_trailer_pos (rc_scan_events (rs_write pre objs tail)) = [] ->
  rc_xs_trailer (rs_write pre objs tail) (rc_len (rs_write pre objs tail))
                (rc_recon_table maxid [] (rc_scan_events (rs_write pre objs tail))) = None ->
  rs_valid_id maxid cur = true ->
  rs_last_def cur (rs_offsets (N.of_nat (length pre)) objs) None = Some off ->
  rc_is_catalog (rs_write pre objs tail) (rc_len (rs_write pre objs tail)) off = true ->
  (forall (k : Z * Z) (a : N), rs_valid_id maxid k = true ->
     rs_last_def k (rs_offsets (N.of_nat (length pre)) objs) None = Some a ->
     rc_is_catalog (rs_write pre objs tail) (rc_len (rs_write pre objs tail)) a = true ->
     k = cur \/ rc_og_ltb k cur = true) ->
  r_root (rc_reconstruct maxid (rs_write pre objs tail) (rc_len (rs_write pre objs tail)) [] None) = Some cur.
Proof.
  intros pre objs tail maxid cur off Hb Hne Hwf Hq Htr Hxs Hv Hdef Hcat Hmax.
  rewrite recon_root_without_trailer_lemma by assumption.
  apply catalog_fallback_highest_lemma; [apply recon_table_sorted|].
  pose proof (recon_table_spec_lemma pre objs tail maxid) as Spec.
  split.
  - exists off. split; [|exact Hcat]. apply lookup_in.
    rewrite (Spec cur Hb Hne Hwf Hq), Hv. exact Hdef.
  - intros og' off' Hin Hc'.
    apply in_lookup in Hin; [|apply recon_table_sorted].
    rewrite (Spec og' Hb Hne Hwf Hq) in Hin.
    destruct (rs_valid_id maxid og') eqn:V; [|discriminate].
    apply (Hmax og' off' V Hin Hc').
Qed.

(* witnesses: two files without xref section, trailer and startxref (only the %%EOF line is left), each with two
   /Type /Catalog objects.  hi: first revision 1 (catalog) 2 3, the update adds 4 = the new catalog (with
   /PageLayout).  lo: first revision 2 3 4 (catalog), the update adds 1 = the new catalog. *)
Definition c08c_hi_objs : list rs_obj :=
  [ mkObj [49] [48] ([60; 60; 32; 47; 84; 121; 112; 101; 32; 47; 67; 97; 116; 97; 108; 111; 103; 32; 47; 80; 97; 103; 101; 115; 32; 50; 32; 48; 32; 82; 32; 62; 62] ++ c08_endobj);
    mkObj [50] [48] ([60; 60; 32; 47; 84; 121; 112; 101; 32; 47; 80; 97; 103; 101; 115; 32; 47; 67; 111; 117; 110; 116; 32; 49; 32; 47; 75; 105; 100; 115; 32; 91; 32; 51; 32; 48; 32; 82; 32; 93; 32; 62; 62] ++ c08_endobj);
    mkObj [51] [48] ([60; 60; 32; 47; 84; 121; 112; 101; 32; 47; 80; 97; 103; 101; 32; 47; 80; 97; 114; 101; 110; 116; 32; 50; 32; 48; 32; 82; 32; 62; 62] ++ c08_endobj);
    mkObj [52] [48] ([60; 60; 32; 47; 84; 121; 112; 101; 32; 47; 67; 97; 116; 97; 108; 111; 103; 32; 47; 80; 97; 103; 101; 115; 32; 50; 32; 48; 32; 82; 32; 47; 80; 97; 103; 101; 76; 97; 121; 111; 117; 116; 32; 47; 79; 110; 101; 67; 111; 108; 117; 109; 110; 32; 62; 62] ++ c08_endobj) ].
Definition c08c_lo_objs : list rs_obj :=
  [ mkObj [50] [48] ([60; 60; 32; 47; 84; 121; 112; 101; 32; 47; 80; 97; 103; 101; 115; 32; 47; 67; 111; 117; 110; 116; 32; 49; 32; 47; 75; 105; 100; 115; 32; 91; 32; 51; 32; 48; 32; 82; 32; 93; 32; 62; 62] ++ c08_endobj);
    mkObj [51] [48] ([60; 60; 32; 47; 84; 121; 112; 101; 32; 47; 80; 97; 103; 101; 32; 47; 80; 97; 114; 101; 110; 116; 32; 50; 32; 48; 32; 82; 32; 62; 62] ++ c08_endobj);
    mkObj [52] [48] ([60; 60; 32; 47; 84; 121; 112; 101; 32; 47; 67; 97; 116; 97; 108; 111; 103; 32; 47; 80; 97; 103; 101; 115; 32; 50; 32; 48; 32; 82; 32; 62; 62] ++ c08_endobj);
    mkObj [49] [48] ([60; 60; 32; 47; 84; 121; 112; 101; 32; 47; 67; 97; 116; 97; 108; 111; 103; 32; 47; 80; 97; 103; 101; 115; 32; 50; 32; 48; 32; 82; 32; 47; 80; 97; 103; 101; 76; 97; 121; 111; 117; 116; 32; 47; 79; 110; 101; 67; 111; 108; 117; 109; 110; 32; 62; 62] ++ c08_endobj) ].
Definition c08c_tail : list N := [37; 37; 69; 79; 70; 10].
Definition c08c_hi : list N := rs_write c08_pre c08c_hi_objs c08c_tail.
Definition c08c_lo : list N := rs_write c08_pre c08c_lo_objs c08c_tail.

(* the update took a HIGHER number for its catalog: the reconstruction finds it (4 0), status 3 *)
Lemma recon_finds_current_catalog_instance_lemma :
  rs_blank c08_pre = true /\ forallb rs_wf_obj c08c_hi_objs = true /\ rs_tail_quiet c08c_tail = true /\
  rc_trailer_pos (rc_scan_events c08c_hi) = [] /\
  rs_last_def (4, 0)%Z (rs_offsets 9 c08c_hi_objs) None = Some 164 /\
  r_root (rc_view true c08c_hi) = Some (4, 0)%Z /\ rc_exit_code (rc_view true c08c_hi) = 3 /\
  rc_exit_code (rc_view false c08c_hi) = 2.
Proof. vm_compute. repeat split. Qed.

(* "finds the catalog" without the id hypothesis is FALSE on the faithful model and on qpdf itself (known finding
   C08-F14): the update took the LOWER, free number 1 for its catalog (last definition at offset 164, with
   /PageLayout); every hypothesis of recon_finds_current_catalog but the last one holds, and the reconstruction's
   /Root is 4 0 - the superseded catalog of the first revision -, status 3 *)
Lemma recon_finds_current_catalog_refuted_lemma :
  rs_blank c08_pre = true /\ forallb rs_wf_obj c08c_lo_objs = true /\ rs_tail_quiet c08c_tail = true /\
  rc_trailer_pos (rc_scan_events c08c_lo) = [] /\
  rs_last_def (1, 0)%Z (rs_offsets 9 c08c_lo_objs) None = Some 164 /\
  rc_is_catalog c08c_lo (rc_len c08c_lo) 164 = true /\
  r_root (rc_view true c08c_lo) = Some (4, 0)%Z /\ rc_exit_code (rc_view true c08c_lo) = 3.
Proof. vm_compute. repeat split. Qed.
