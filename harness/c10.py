# C10 - success is reported only when the complete output was written.
# Proof: Props/Properties_C10.v (stdio contract of the glibc-shaped stream model for every buffer size, data and
# fault oracle; for the repaired sinks exit 0/3 implies every output complete, a failed output operation implies
# exit 2 with a message; exit status = diagnostics; the pinned sinks refuted with a witness).
# Tie: the real qpdf binary under harness/shim_fault.c (LD_PRELOAD): for each scenario the fault-free run gives the
# write calls (the scenario of the model), then for every operation number k the k-th output operation is made to
# fail at kernel level (/dev/full dup2'ed over the descriptor), plus fopen/rename failures, a disk that stays full,
# and RLIMIT_FSIZE sweeps; (exit status, error class, bytes of every output file, the stdio calls qpdf made and
# their results) are compared with the extracted model, and the extracted specification is evaluated on what the
# binary did.  This file is also the library of harness/c11.py.
import fcntl, hashlib, json, os, re, shutil, subprocess
import common, pdfgen
from common import hexs

ASSUMPTIONS = [
    "the stream model is glibc 2.36 libio as read (buffer reset after a failed flush, fwrite's return values, line mode); it is "
    "validated by the same runs (every stdio return value and every file size of every faulted run is predicted by it) but is "
    "environment, not qpdf",
    "libstdc++ 12: std::cout is a stdio_sync_filebuf over stdout (fwrite/fflush through the PLT), ostream::write sets badbit on a "
    "short sputn, ostream::flush calls pubsync whatever the state, ios_base::Init's destructor flushes cout at exit",
    "persistent faults (a full device stays full, RLIMIT_FSIZE stays) come from the LD_PRELOAD shim; transient faults (exactly one "
    "write(2) fails with EINTR/EIO/ENOSPC, the following ones succeed) from harness/ptrace_inject.c (PTRACE_SYSCALL, x86_64) when "
    "ptrace is permitted (coverage.ptrace_permitted); data the kernel accepted and lost later, and fsync semantics, are outside",
    "which checks the tree performs (pinned / repaired by proposed_fixes/D2_output_errors.diff) is inferred from the runs: the "
    "model must agree with the binary on EVERY case under one of the two check vectors",
    "files-processed: what a file gives when read (warnings when opened, embedded files, a stream that fails to decode) is known from how it was built and is "
    "the input of the job model; the part also checks that the WARNING lines printed are the ones the files were built to give",
]

SHIM = os.path.join(common.BUILD, "shim_fault.so")
WORKERS = min(4, common.NPROC)


PTI = os.path.join(common.BUILD, "ptrace_inject")
PTRACE_OK = [None]
ERRNOS = {"eintr": 4, "eio": 5, "enospc": 28}


def build_injector():
    """the ptrace-based transient-fault injector; PTRACE_OK[0] says whether ptrace is permitted here"""
    src = os.path.join(common.VERIF, "harness", "ptrace_inject.c")
    with common.Lock("shim"):
        if common._newer(PTI, [src]):
            rc, out = common.sh(["gcc", "-O1", "-o", PTI, src], timeout=300)
            if rc != 0:
                raise common.InfraError("injector: harness/ptrace_inject.c does not compile", out.decode("utf-8", "replace")[-2000:])
    log = os.path.join(common.BUILD, "ptrace_probe.%d.log" % os.getpid())
    p = subprocess.run([PTI, "0", "4", "/nonexistent", log, "-", "--", "/bin/true"], stdout=subprocess.DEVNULL, stderr=subprocess.DEVNULL, timeout=60)
    PTRACE_OK[0] = p.returncode == 0 and "EXIT 0" in open(log).read()
    os.remove(log)
    return PTRACE_OK[0]


EXIT_ROUNDS = [2]


def probe_exit_rounds():
    """how many times the C++ runtime flushes cout/wcout at exit (counted on a three-line program under the shim)"""
    src = os.path.join(common.BUILD, "probe_cout.cc")
    exe = os.path.join(common.BUILD, "probe_cout")
    with common.Lock("shim"):
        if not os.path.exists(exe):
            open(src, "w").write('#include <iostream>\nint main() { std::cout.write("abc\\n", 4); return 0; }\n')
            rc, out = common.sh(["g++", "-O1", "-o", exe, src], timeout=300)
            if rc != 0:
                raise common.InfraError("probe: cannot compile the cout probe", out.decode("utf-8", "replace")[-1000:])
    log = os.path.join(common.BUILD, "probe_cout.%d.log" % os.getpid())
    if os.path.exists(log):
        os.remove(log)
    subprocess.run([exe], stdout=subprocess.DEVNULL, env=dict(os.environ, LD_PRELOAD=SHIM, QV_SHIM_STDOUT="1", QV_SHIM_LOG=log), timeout=60)
    n = sum(1 for l in open(log) if " fflush " in l)
    os.remove(log)
    EXIT_ROUNDS[0] = max(1, n // 2)
    return EXIT_ROUNDS[0]


def build_shim():
    src = os.path.join(common.VERIF, "harness", "shim_fault.c")
    with common.Lock("shim"):
        if common._newer(SHIM, [src]):
            rc, out = common.sh(["gcc", "-O1", "-shared", "-fPIC", "-o", SHIM, src, "-ldl"], timeout=300)
            if rc != 0:
                raise common.InfraError("shim: harness/shim_fault.c does not compile", out.decode("utf-8", "replace")[-2000:])
    return SHIM


# ------------------------------------------------------------------ inputs

def make_inputs(wd, rng, tier, nrandom):
    """name -> (path, has_warnings, has_attachment)"""
    inputs = {}

    def doc(npages, stream_len, seed_tag):
        d = pdfgen.page_doc(npages, marker="Q")
        if stream_len:
            r = __import__("random").Random("c10/%s/%d" % (seed_tag, stream_len))
            d.add(pdfgen.Stream({}, bytes(r.randrange(256) for _ in range(stream_len))))
            d.objects[1][b"Extra"] = pdfgen.Ref(max(d.objects))
        data, _ = pdfgen.write_classic(d)
        return data

    def put(name, data, warn=False):
        p = os.path.join(wd, "in-%s.pdf" % name)
        open(p, "wb").write(data)
        inputs[name] = {"path": p, "warn": warn, "att": False}
        return p

    put("small", doc(1, 0, "small"))
    put("big", doc(3, 9000, "big"))
    # a wrong startxref: qpdf reconstructs the xref table and warns -> exit status 3 on success
    bigw = doc(2, 5000, "warn")
    bigw = re.sub(rb"startxref\n\d+\n", b"startxref\n7\n", bigw)
    put("warn", bigw, warn=True)
    # warnings that arise only WHILE WRITING: xref and trailer intact, one stream's /Length too small (same number of
    # digits, so no offset moves); qpdf opens it silently and warns when QPDFWriter reads the stream
    dl = pdfgen.page_doc(2, marker="Q")
    rl = __import__("random").Random("c10/late")
    dl.add(pdfgen.Stream({}, bytes(rl.randrange(256) for _ in range(5000))))
    dl.objects[1][b"Extra"] = pdfgen.Ref(max(dl.objects))
    late, _ = pdfgen.write_classic(dl)
    assert late.count(b"/Length 5000") == 1
    put("wlate", late.replace(b"/Length 5000", b"/Length 4000"), warn=True)
    # a multi-block output: eight incompressible streams, so that stdio flushes many times
    dm = pdfgen.page_doc(2, marker="Q")
    rm_ = __import__("random").Random("c10/multi")
    refs = [dm.add(pdfgen.Stream({}, bytes(rm_.randrange(256) for _ in range(3300 + 37 * k)))) for k in range(8)]
    dm.objects[1][b"Extra"] = list(refs)
    put("multi", pdfgen.write_classic(dm)[0])
    # secondary files for --pages / --overlay: the damaged one sorts before the clean one
    shutil.copy(inputs["warn"]["path"], os.path.join(wd, "a-damaged.pdf"))
    shutil.copy(inputs["small"]["path"], os.path.join(wd, "z-clean.pdf"))
    for i in range(nrandom):
        put("rnd%d" % i, doc(rng.randint(1, 4), rng.choice([0, 3000, 4096, 7000, 8192, 12000]) + rng.randint(0, 900), "rnd%d" % i))
    # attachment (prepared with the binary under test, fault-free)
    att = os.path.join(wd, "att.bin")
    r = __import__("random").Random("c10/att")
    open(att, "wb").write(bytes(r.randrange(256) for _ in range(6000)) + b"line\nline2\n" * 40 + b"tail without newline")
    ap = os.path.join(wd, "in-att.pdf")
    rc, so, se = common.run_qpdf(["--static-id", inputs["small"]["path"], "--add-attachment", att, "--key=att", "--", ap])
    if rc != 0:
        raise common.InfraError("cannot prepare the attachment input with the binary under test", se.decode("latin-1")[-500:])
    inputs["att"] = {"path": ap, "warn": False, "att": True}
    # the same file with a wrong startxref: a damaged file that HAS embedded files (a-damaged.pdf has none)
    ad = open(ap, "rb").read()
    if len(re.findall(rb"startxref\n\d+\n", ad)) != 1:
        raise common.InfraError("the attachment input is not written with a classic xref table", ad[-200:].decode("latin-1"))
    open(os.path.join(wd, "a-damaged-att.pdf"), "wb").write(re.sub(rb"startxref\n\d+\n", b"startxref\n7\n", ad))
    # structurally intact, but the second page's content stream does not inflate: qpdf opens it silently and warns when
    # (and only when) a writer decodes the stream (--qdf, --stream-data=uncompress)
    dd = pdfgen.page_doc(2, marker="Q")
    good = __import__("zlib").compress(b"BT /F1 12 Tf 72 720 Td (Q2) Tj ET\n" * 30)
    dd.objects[6] = pdfgen.Stream({b"Filter": pdfgen.Name(b"FlateDecode")}, good[:20] + bytes([good[20] ^ 0xff, good[21] ^ 0x55]) + good[22:])
    open(os.path.join(wd, "w-decode.pdf"), "wb").write(pdfgen.write_classic(dd)[0])
    return inputs


# kind: W writer to a file, S split, J json + stream files, O std::cout, R replace-input
SCENARIOS = {
    "plain": ("W", lambda i, d: ["--static-id", i, d + "/out.pdf"]),
    "linearize": ("W", lambda i, d: ["--static-id", "--linearize", i, d + "/out.pdf"]),
    "qdf": ("W", lambda i, d: ["--static-id", "--qdf", i, d + "/out.pdf"]),
    "split": ("S", lambda i, d: ["--static-id", "--split-pages", i, d + "/out-%d.pdf"]),
    "json": ("J", lambda i, d: ["--json-output", "--json-stream-data=file", i, d + "/out.json"]),
    "attach": ("O", lambda i, d: ["--show-attachment=att", i]),
    "stdout": ("O", lambda i, d: ["--static-id", i, "-"]),
    "jsonstdout": ("O", lambda i, d: ["--json-output", i, "-"]),
    "replace": ("R", lambda i, d: ["--static-id", "--replace-input", d + "/outrep.pdf"]),
    # --deterministic-id: the MD5 pipeline's Popper calls finish() on the file sink from a destructor
    "plain-did": ("W", lambda i, d: ["--deterministic-id", i, d + "/out.pdf"]),
    "linearize-did": ("W", lambda i, d: ["--deterministic-id", "--linearize", i, d + "/out.pdf"]),
    "qdf-did": ("W", lambda i, d: ["--deterministic-id", "--qdf", i, d + "/out.pdf"]),
    "split-did": ("S", lambda i, d: ["--deterministic-id", "--split-pages", i, d + "/out-%d.pdf"]),
    "replace-did": ("R", lambda i, d: ["--deterministic-id", "--replace-input", d + "/outrep.pdf"]),
    # several input files: the warnings of every file count
    "pages": ("W", lambda i, d: ["--static-id", i, "--pages", _sib(i, "a-damaged.pdf"), "1", _sib(i, "z-clean.pdf"), "1", "--", d + "/out.pdf"]),
    "pagesempty": ("W", lambda i, d: ["--static-id", "--empty", "--pages", _sib(i, "a-damaged.pdf"), "1", _sib(i, "z-clean.pdf"), "1", "--", d + "/out.pdf"]),
    "overlay": ("W", lambda i, d: ["--static-id", i, "--overlay", _sib(i, "a-damaged.pdf"), "--", d + "/out.pdf"]),
    "underlay": ("W", lambda i, d: ["--static-id", i, "--underlay", _sib(i, "a-damaged.pdf"), "--", d + "/out.pdf"]),
}
# jobs whose warnings come from a file other than the primary input
SCEN_WARNS = {"pages", "pagesempty", "overlay", "underlay"}


def _sib(i, name):
    return os.path.join(os.path.dirname(i), name)


# ------------------------------------------------------------------ one run of the real binary

class Run:
    pass


DIRMARK = b"\x00<directory>"     # what Run.files holds for a name that is a directory


def run_binary(rundir, scen, inp, fault, keep=False, extra_args=(), tail_args=(), pre=None):
    """fault: 'none' | 'full@k' | 'disk@k' | 'fail@k' | 'killb@k' | 'killa@k' | 'cap@L'
    tail_args: appended to the command line; pre: what the directory holds before the run besides the input
    ({relative name: bytes, or None for a directory, or a list of names for a directory with those (empty) files})"""
    kind, mkargs = SCENARIOS[scen]
    shutil.rmtree(rundir, ignore_errors=True)
    os.makedirs(rundir)
    if kind == "R":
        shutil.copy(inp["path"], os.path.join(rundir, "outrep.pdf"))
    for rel, content in (pre or {}).items():
        if content is None or isinstance(content, list):
            os.makedirs(os.path.join(rundir, rel))
            for sub in content or []:
                open(os.path.join(rundir, rel, sub), "wb").close()
        else:
            with open(os.path.join(rundir, rel), "wb") as f:
                f.write(content)
    argv = list(extra_args) + mkargs(inp["path"], ".") + list(tail_args)    # relative output names: the JSON output embeds them
    env = dict(os.environ)
    env.pop("QPDF_CRYPTO_PROVIDER", None)
    r_fd, w_fd = os.pipe()
    try:
        fcntl.fcntl(w_fd, 1031, 1 << 20)  # F_SETPIPE_SZ
    except OSError:
        pass
    env.update({"LD_PRELOAD": SHIM, "QV_SHIM_MATCH": "./out", "QV_SHIM_LOGFD": str(w_fd)})
    if kind == "O":
        env["QV_SHIM_STDOUT"] = "1"
    cmd = [common.QPDF] + argv
    plog = None
    if fault != "none" and fault.split("@")[0] in ERRNOS:
        # exactly one write(2) on the outputs fails; LD_PRELOAD is set by the tracer for the tracee only
        m, v = fault.split("@")
        plog = os.path.join(rundir, "ptrace.log")
        cmd = [PTI, v, str(ERRNOS[m]), "./out", plog, env.pop("LD_PRELOAD"), "--"] + cmd
    elif fault != "none":
        m, v = fault.split("@")
        if m == "cap":
            env["QV_SHIM_FSIZE"] = v
        else:
            env["QV_SHIM_K"] = v
            env["QV_SHIM_MODE"] = {"full": "full", "disk": "diskfull", "fail": "fail", "killb": "killb", "killa": "killa"}[m]
    so_path = os.path.join(rundir, "out.stdout")
    with open(so_path, "wb") as so:
        try:
            p = subprocess.run(cmd, stdout=so, stderr=subprocess.PIPE, env=env, pass_fds=(w_fd,), timeout=120, cwd=rundir)
            rc, se = p.returncode, p.stderr
        except subprocess.TimeoutExpired:
            rc, se = -999, b"timeout"
    os.close(w_fd)
    chunks = []
    while True:
        b = os.read(r_fd, 1 << 16)
        if not b:
            break
        chunks.append(b)
    os.close(r_fd)
    res = Run()
    if plog is not None:
        pl = open(plog).read() if os.path.exists(plog) else ""
        m_ = re.search(r"SIGNAL (\d+)", pl)
        if m_:
            rc = -int(m_.group(1))
        res.kernel_writes = len(re.findall(r"^W ", pl, re.M))
    if rc == -6:
        rc = 134       # SIGABRT (std::terminate): the status a shell reports
    res.rc = rc
    res.stderr = se
    res.log = b"".join(chunks).decode("latin-1")
    res.files = {}
    for fn in os.listdir(rundir):
        if fn.startswith("out") and (fn != "out.stdout" or kind == "O"):     # (ptrace.log does not start with "out")
            if os.path.isdir(os.path.join(rundir, fn)):
                res.files[fn] = DIRMARK + ",".join(sorted(os.listdir(os.path.join(rundir, fn)))).encode()
                continue
            with open(os.path.join(rundir, fn), "rb") as f:
                res.files["<stdout>" if fn == "out.stdout" else fn] = f.read()
    res.argv = ["qpdf"] + [os.path.basename(a) if a == inp["path"] else a for a in argv]
    if not keep:
        shutil.rmtree(rundir, ignore_errors=True)
    return res


def parse_log(log, rundir, names, assign=False):
    """shim log -> (event tokens in the model's spelling, number of operations, failing-operation kinds)"""
    evs, nops, fails = [], 0, []

    def nid(path):
        rel = path[2:] if path.startswith("./") else path
        if rel not in names:
            if assign:
                names[rel] = max([v for v in names.values()] + [0]) + 1
            else:
                return 99
        return names[rel]
    for line in log.split("\n"):
        if not line:
            continue
        parts = line.split(" ")
        n, op = int(parts[0]), parts[1]
        nops = max(nops, n)
        if op in ("KILLB", "KILLA"):
            continue
        name, arg, ret, err = parts[3], int(parts[4]), int(parts[5]), int(parts[6])
        pm = lambda b: "+" if b else "-"
        if op == "fopen":
            evs.append("o%d%s" % (nid(name), pm(ret == 1)))
            if ret != 1:
                fails.append("fopen")
        elif op == "fwrite":
            evs.append("w%d:%d:%d" % (nid(name), arg, ret))
            if ret == 0 and arg > 0:
                fails.append("fwrite-zero")
            elif ret < arg:
                fails.append("fwrite-short")
            elif err != 0:
                fails.append("fwrite-silent")
        elif op == "fflush":
            evs.append("f%d%s" % (nid(name), pm(ret == 0)))
            if ret != 0:
                fails.append("fflush")
        elif op == "fclose":
            evs.append("c%d%s" % (nid(name), pm(ret == 0)))
            if ret != 0:
                fails.append("fclose")
        elif op == "rename":
            a, b = name.split(">")
            evs.append("r%d>%d%s" % (nid(a), nid(b), pm(ret == 0)))
            if ret != 0:
                fails.append("rename")
        elif op in ("unlink", "remove"):
            evs.append("u%d%s" % (nid(name), pm(ret == 0)))
            if ret != 0:
                fails.append("unlink")
    return evs, nops, fails


def diag_of_stderr(se):
    """stderr -> the model's diagnostic classes, in order"""
    out = []
    for line in se.decode("latin-1").split("\n"):
        if "operation succeeded with warnings" in line:
            out.append("W")
        elif "terminate called" in line:
            out.append("T")
        elif "there are warnings; original file kept in" in line:
            out.append("K")
        elif "unable to delete original file" in line:
            out.append("U")
        elif line.startswith("qpdf: ") or re.match(r"^\S*qpdf: ", line):
            if re.search(r"qpdf: open ", line):
                out.append("Eopen")
            elif "Pl_StdioFile::write" in line:
                out.append("Ewrite")
            elif "Pl_StdioFile::finish" in line:
                out.append("Eflush")
            elif re.search(r"qpdf: close ", line):
                out.append("Eclose")
            elif re.search(r"qpdf: rename ", line):
                out.append("Erename")
            elif "standard output" in line and "error" in line or "Pl_OStream" in line:
                out.append("Estdout")
            else:
                out.append("Eother")
    return out


def md5(b):
    return hashlib.md5(b).hexdigest()


def obs_string(res, rundir, names):
    """the binary's observation in the format of ocaml/h_sys.ml (without the error-flag column)"""
    evs, nops, fails = parse_log(res.log, rundir, names)
    ex = "K" if res.rc == -9 else str(res.rc)
    diags = ",".join(diag_of_stderr(res.stderr)) or "-"
    files = []
    for rel, i in sorted(names.items(), key=lambda kv: kv[1]):
        if rel in res.files:
            files.append("%d:%d:%s" % (i, len(res.files[rel]), md5(res.files[rel])))
    for rel in res.files:
        if rel not in names:
            files.append("99:%d:%s" % (len(res.files[rel]), md5(res.files[rel])))
    return "%s|%s|%s|%d|%s" % (ex, diags, ",".join(files) or "-", nops, md5(" ".join(evs).encode())), evs, fails


def model_fields(s):
    """model output 'exit|diag|files|nops|trace' -> comparable string (diag names and error flags dropped) and the flags"""
    ex, diags, files, nops, tr = s.split("|")
    d2 = ",".join(re.sub(r":\d+$", "", x) for x in diags.split(",")) if diags != "-" else "-"
    f2, flags = [], {}
    if files != "-":
        for f in files.split(","):
            i, ln, h, e = f.split(":")
            f2.append("%s:%s:%s" % (i, ln, h))
            flags[int(i)] = e
    return "%s|%s|%s|%s|%s" % (ex, d2, ",".join(f2) or "-", nops, tr), flags


# ------------------------------------------------------------------ scenario of the model from the fault-free run

class Scenario:
    pass


def lens_str(lens):
    return ",".join(map(str, lens)) if lens else "-"


def build_scenario(scen, inp, ref, rundir, repaired_shape):
    """ref: fault-free Run. Returns Scenario with .spec(vec) -> model scenario string (vec: checks vector), .names, .nops, .ops"""
    kind = SCENARIOS[scen][0]
    sc = Scenario()
    sc.kind, sc.scen = kind, scen
    names = {"<stdout>": 0}
    if kind == "R":
        names["outrep.pdf"] = 1
        names["outrep.pdf.~qpdf-orig" + ("" if inp["warn"] else "#")] = 2
        names["outrep.pdf.~qpdf-temp#"] = 3
    evs, nops, fails = parse_log(ref.log, rundir, names, assign=True)
    sc.names, sc.nops, sc.ref_evs = names, nops, evs
    rev = {v: k for k, v in names.items()}
    # per stream: list of fwrite lengths in order; global order of sessions
    order, lens, nflush = [], {}, {}
    items = []   # for J: ('C', len) / ('F', id)
    main = None
    for e in evs:
        m = re.match(r"o(\d+)", e)
        if m:
            i = int(m.group(1))
            order.append(i)
            lens[i] = []
            if main is None:
                main = i
            elif kind == "J":
                items.append(("O", i))
            continue
        m = re.match(r"w(\d+):(\d+):(\d+)", e)
        if m:
            i = int(m.group(1))
            lens.setdefault(i, []).append(int(m.group(2)))
            if kind == "J":
                items.append(("C", int(m.group(2))) if i == main else ("D", (i, int(m.group(2)))))
            continue
        m = re.match(r"f(\d+)", e)
        if m:
            nflush[int(m.group(1))] = nflush.get(int(m.group(1)), 0) + 1
            continue
        m = re.match(r"c(\d+)", e)
        if m and kind == "J" and int(m.group(1)) != main:
            items.append(("E", int(m.group(1))))

    def data(i):
        return ref.files.get(rev[i], b"")
    sc.intended = {}
    for i in lens:
        if kind == "R" and i == 3:
            sc.intended[1] = data(1)     # the new file ends up under the input name
        else:
            sc.intended[i] = data(i)
    sc.orig = open(inp["path"], "rb").read() if kind == "R" else b""
    sc.new = ref.files.get("outrep.pdf", b"") if kind == "R" else b""

    def spec(vec):
        repaired = vec[5] == "1"     # ck_stdout: realmain's own fflush(stdout) is one more call
        if kind == "W":
            i = order[0]
            return "W!%d!%s!%s" % (i, lens_str(lens[i]), hexs(data(i)))
        if kind == "S":
            return "S!" + "!".join("%d!%s!%s" % (i, lens_str(lens[i]), hexs(data(i))) for i in order)
        if kind == "J":
            out, pos, spos = [], 0, {}
            md = data(main)
            for t, v in items:
                if t == "C":
                    out.append("C~" + hexs(md[pos:pos + v]))
                    pos += v
                elif t == "O":
                    out.append("O~%d" % v)
                    spos[v] = 0
                elif t == "D":
                    i, ln = v
                    out.append("D~%d~%s" % (i, hexs(data(i)[spos[i]:spos[i] + ln])))
                    spos[i] += ln
                else:
                    out.append("E~%d" % v)
            return "J!%d!%s" % (main, "!".join(out))
        if kind == "O":
            # stdout: writes and cerr-tie flushes in order; after the last write: Pl_OStream::finish calls (their number is
            # the scenario's, taken from a run without warnings), cerr insertions of the closing messages, realmain's check
            # when repaired, and the runtime's flushes at exit
            last_w = max([k for k, e in enumerate(evs) if e.startswith("w0:")] + [-1])
            its, pos = [], 0
            d0 = data(0)
            for e in evs[:last_w + 1]:
                m = re.match(r"w0:(\d+):", e)
                if m:
                    its.append("C~" + hexs(d0[pos:pos + int(m.group(1))]))
                    pos += int(m.group(1))
                elif e.startswith("f0"):
                    its.append("T")
            trailing = sum(1 for e in evs[last_w + 1:] if e.startswith("f0"))
            # - 2: QPDFLogger::Members::~Members after main has returned (cout.flush(), and cerr.flush() flushing the tied cout)
            rest = trailing - 2 * EXIT_ROUNDS[0] - 2 - (1 if repaired else 0)
            nfin = (sc.nonwarn_trailing - 2 * EXIT_ROUNDS[0] - 2 - (1 if repaired else 0)) if sc.nonwarn_trailing is not None else rest
            nfin = max(0, min(nfin, rest))
            return "O!%d!%d!%d!%s" % (nfin, max(0, rest - nfin), 1 if scen == "attach" else 0, "!".join(its) or "T")
        if kind == "R":
            return "R!1!2!3!%s!%s" % (lens_str(lens.get(3, [])), hexs(sc.new))
    sc.spec = spec
    # --deterministic-id: finish() calls on the (first) file sink that precede Writer::write's own
    first_file = [i for i in order if not (kind == "R" and i != 3)][:1]
    sc.pops = max(0, nflush.get(first_file[0], 1) - 1) if (first_file and kind in "WSR") else 0
    # stdout scenarios on inputs with warnings: trailing flush count of the same scenario on an input without
    # warnings (set by evaluate): the difference is the cerr insertions of the closing messages
    sc.nonwarn_trailing = None
    if kind == "O":
        last_w = max([k for k, e in enumerate(evs) if e.startswith("w0:")] + [-1])
        sc.trailing_flushes = sum(1 for e in evs[last_w + 1:] if e.startswith("f0"))
    sc.op_kinds = [e[0] for e in evs]
    return sc


def faults_for(sc, chk, kinds=("full", "fail", "disk", "cap"), limit=None):
    rng = chk.rng
    n = sc.nops
    out = []
    ks = list(range(1, n + 1))
    if limit and n > limit:
        # every operation that is not a plain write, its neighbours, and a random sample of the writes
        special = set()
        for idx, k in enumerate(sc.op_kinds):
            if k != "w":
                special.update([idx, idx + 1, idx + 2])
        special = [k for k in sorted(special) if 1 <= k <= n]
        rest = [k for k in ks if k not in set(special)]
        ks = sorted(set(special + rng.sample(rest, max(0, min(len(rest), limit - len(special))))))
    if "full" in kinds:
        out += ["full@%d" % k for k in ks]
    if "fail" in kinds:
        out += ["fail@%d" % (i + 1) for i, k in enumerate(sc.op_kinds) if k in "oru"]
    if "disk" in kinds:
        nd = 10 if chk.tier == "quick" else 60
        out += ["disk@%d" % k for k in sorted(set([1, 2, n] + [rng.randint(1, n) for _ in range(nd)]))]
    if "cap" in kinds:
        size = max([len(v) for v in sc.intended.values()] + [1])
        steps = 12 if chk.tier == "quick" else 64
        caps = set([0, 1, size - 1, size, size + 1, 4095, 4096, 4097, 8192])
        caps.update(int(size * i / steps) for i in range(steps + 1))
        out += ["cap@%d" % c for c in sorted(c for c in caps if 0 <= c <= size + 1)]
    for m in ERRNOS:
        if m in kinds:
            out += ["%s@%d" % (m, k) for k in range(1, getattr(sc, "kernel_writes", 0) + 1)]
    if "killb" in kinds:
        out += ["killb@%d" % k for k in ks]
    if "killa" in kinds:
        out += ["killa@%d" % k for k in ks]
    return out


PINNED, REPAIRED, REPAIRED_D2 = "0000000", "1111111", "1111110"
CHECK_NAMES = ["Pl_StdioFile::finish", "Writer::write fclose", "writeJSONStreamFile fclose", "writeJSON finish+close", "Pl_OStream::finish", "realmain stdout",
               "Popper destructor does not throw"]


def vec_name(vec):
    if vec == PINNED:
        return "pinned (results of fflush/fclose/stream state not looked at)"
    if vec == REPAIRED:
        return "repaired (D2_output_errors.diff + D2b_no_throw_in_popper.diff)"
    if vec == REPAIRED_D2:
        return "D2 repaired (c4309d60); a throwing finish() inside the Popper destructor still ends in std::terminate (D2b not applied)"
    return "partially repaired: checked = " + ", ".join(n for n, b in zip(CHECK_NAMES, vec) if b == "1")


def model_fault(f):
    m = f.split("@")[0]
    return "once@" + f.split("@")[1] if m in ERRNOS else f


def model_lines(sc, inp, faults, B, vec, verbose=False, wx0=False):
    return "%s %s %d %d %d %d %d %s %s %s" % ("c10trace" if verbose else "c10run", vec, B, EXIT_ROUNDS[0], sc.pops,
                                               1 if inp["warn"] else 0, 1 if wx0 else 0, sc.spec(vec), hexs(sc.orig), ",".join(map(model_fault, faults)))


# ------------------------------------------------------------------ the property on what the binary did

def spec_line(sc, inp, res, fails, wx0=False):
    """arguments of the extracted specification predicate c10_obs_ok for one run of the binary"""
    diags = diag_of_stderr(res.stderr)
    warned = ("W" in diags) or (b"WARNING: " in res.stderr)
    errmsg = any(d.startswith("E") for d in diags)
    rev = {v: k for k, v in sc.names.items()}
    complete = all(res.files.get(rev[i]) == want for i, want in sc.intended.items())
    failure = any(f != "unlink" for f in fails)
    ex = res.rc if res.rc >= 0 else 255
    return "c10obs %d %d %d %d %d %d" % (ex, warned, errmsg, complete, failure, 1 if wx0 else 0), complete


def surface(fails, fault, kind="W"):
    fs = [f for f in fails if f != "unlink"]
    if kind == "O":    # std::cout: a zero count is just a short count (nothing throws on it)
        fs = ["fwrite-short" if f == "fwrite-zero" else f for f in fs]
    if "fwrite-zero" in fs:
        return "fwrite-zero"
    if not fs:
        return "no-failing-call"
    return fs[0]


# ------------------------------------------------------------------ the check

def run_group(chk, runner, wd, scen, iname, inp, B, limit, kinds=("full", "fail", "disk", "cap"), pid="C10"):
    """one scenario x one input: fault-free run, scenario, all faults on the binary, both model variants.
    Returns dict with everything the verdict needs."""
    if scen in SCEN_WARNS:
        inp = dict(inp, warn=True)
    rd0 = os.path.join(wd, "%s-%s-ref" % (scen, iname))
    ref = run_binary(rd0, scen, inp, "none")
    g = {"scen": scen, "input": iname, "ref": ref, "rundir0": rd0, "inp": inp}
    if ref.rc not in (0, 3):
        g["broken"] = "fault-free run exits %d: %s" % (ref.rc, ref.stderr.decode("latin-1")[-300:])
        return g
    # (an exit status that does not match the warnings printed is left to the specification, which sees this run as fault 'none')
    if scen in SCEN_WARNS:
        # the model's `warn` is QPDFJob's m->warnings at the end of the job; whether the warnings of a secondary file reach
        # it is not the sinks' business: taken from the closing message, and the specification judges exit status
        # against the WARNING lines actually printed
        inp = dict(inp, warn=b"operation succeeded with warnings" in ref.stderr)
        g["inp"] = inp
    sc = build_scenario(scen, inp, ref, rd0, False)
    g["sc"] = sc
    if any(m in kinds for m in ERRNOS):
        if not PTRACE_OK[0]:
            kinds = tuple(k for k in kinds if k not in ERRNOS)
        else:   # how many write(2) calls the output gets: a run under the tracer that injects nothing
            sc.kernel_writes = run_binary(os.path.join(wd, "%s-%s-count" % (scen, iname)), scen, inp, "eintr@0").kernel_writes
    faults = ["none"] + faults_for(sc, chk, kinds, limit)
    g["faults"] = faults

    def one(j):
        rd = os.path.join(wd, "%s-%s-%d" % (scen, iname, j))
        r = run_binary(rd, scen, inp, faults[j])
        o, evs, fails = obs_string(r, rd, sc.names)
        sl, complete = spec_line(sc, inp, r, fails)
        return (o, evs, fails, sl, complete, r.rc, r.stderr[-300:].decode("latin-1"), r.argv, {k: len(v) for k, v in r.files.items()},
                r.files if SCENARIOS[scen][0] == "R" else None)
    g["impl"] = common.par_map(one, range(len(faults)), workers=WORKERS)
    return g


def evaluate(chk, runner, groups, B, pid="C10"):
    """model (both check vectors) and specification on all groups; verdict"""
    lines = []
    base = {}
    for g in groups:
        if "sc" in g and g["sc"].kind == "O" and not g["inp"]["warn"]:
            base.setdefault(g["scen"], g["sc"].trailing_flushes)
    for g in groups:
        if "sc" in g and g["sc"].kind == "O" and g["inp"]["warn"]:
            g["sc"].nonwarn_trailing = base.get(g["scen"])
    slines = [x[3] for g in groups if "sc" in g for x in g["impl"]]
    sout = iter(common.run_lines(runner, slines))
    total = 0
    for g in groups:
        if "sc" in g:
            g["specv"] = [next(sout) for _ in g["impl"]]
            g["model"] = {}
            total += len(g["impl"])
    diffs = {}

    def run_vectors(vecs, kinds=None, copy_from=None):
        sel = [g for g in groups if "sc" in g and (kinds is None or g["sc"].kind in kinds)]
        lines = [model_lines(g["sc"], g["inp"], g["faults"], B, v) for g in sel for v in vecs]
        mout = common.run_lines(runner, lines, shards=1) if len(lines) < 3 else common.par_map(lambda l: common.run_lines(runner, [l])[0], lines, workers=WORKERS)
        mi = 0
        for v in vecs:
            diffs[v] = [d for d in diffs.get(copy_from, []) if d[0] not in sel] if copy_from else []
        for g in sel:
            for v in vecs:
                outs = mout[mi].split(" ")
                mi += 1
                if len(outs) != len(g["faults"]):
                    raise common.InfraError("model runner failed on %s/%s: %s" % (g["scen"], g["input"], mout[mi - 1][:300]))
                g["model"][v] = outs
                for j, o in enumerate(outs):
                    cmpo, flags = model_fields(o)
                    if cmpo != g["impl"][j][0]:
                        diffs[v].append((g, j, cmpo))
    run_vectors([PINNED, REPAIRED, REPAIRED_D2])
    if min(len(d) for d in diffs.values()) > 0:
        # neither the pinned nor the fully repaired sinks: is it a tree that performs some of the checks?  Greedy search,
        # one check at a time, re-running only the scenario kinds that the check can influence.
        kinds_of = ["WSJR", "WSR", "J", "J", "O", "O", "WSR"]
        base = min([PINNED, REPAIRED, REPAIRED_D2], key=lambda v: len(diffs[v]))
        for _ in range(2):
            for i in range(7):
                cand = base[:i] + ("0" if base[i] == "1" else "1") + base[i + 1:]
                if cand in diffs:
                    continue
                run_vectors([cand], kinds=kinds_of[i], copy_from=base)
                if len(diffs[cand]) < len(diffs[base]):
                    base = cand
            if not diffs[base]:
                break
    variant = min(sorted(diffs), key=lambda v: (len(diffs[v]), v != REPAIRED, v != REPAIRED_D2, v != PINNED, v))
    return variant, diffs, total


def report(chk, runner, groups, variant, diffs, B, pid="C10", sigprefix="C10"):
    nviol = 0
    for g in groups:
        if "broken" in g:
            chk.violation({"kind": "correspondence-broken", "correspondence": "corr:%s:fault-free-run" % pid, "scenario": g["scen"],
                           "input": g["input"], "why": g["broken"]}, no_input=True)
            continue
        for j, (x, sv) in enumerate(zip(g["impl"], g["specv"])):
            if sv != "ok":
                fault = g["faults"][j]
                sig = "%s:%s:%s:exit%d:%s" % (sigprefix, g["scen"], fault.split("@")[0], x[5], surface(x[2], fault, g["sc"].kind))
                chk.violation({"kind": "property-fails-on-implementation", "part": g["scen"], "why": sv,
                               "case": {"argv": x[7], "input": g["input"], "fault": fault,
                                        "fault_meaning": "k-th output operation (fopen/fwrite/fflush/fclose/rename/unlink on the outputs) meets a full device; "
                                                         "cap@L = RLIMIT_FSIZE L bytes; see harness/shim_fault.c"},
                               "exit": x[5], "stderr": x[6], "output_sizes": x[8],
                               "expected_sizes": {k: len(v) for k, v in g["ref"].files.items()},
                               "failing_calls": x[2][:6], "signature": sig,
                               "replay": {"scenario": g["scen"], "input": g["input"], "fault": fault}}, signature=sig)
                sigs = chk.cov.setdefault("specification_violations_by_signature", {})
                sigs[sig] = sigs.get(sig, 0) + 1
                nviol += 1
    if diffs[variant]:
        g, j, cmpo = diffs[variant][0]
        # show the two traces of the first differing case
        vline = model_lines(g["sc"], g["inp"], [g["faults"][j]], B, variant, verbose=True)
        vout = common.run_lines(runner, [vline])[0]
        chk.violation({"kind": "correspondence-broken", "correspondence": "corr:%s:%s" % (pid, g["scen"]),
                       "differing_cases": len(diffs[variant]), "differing_cases_by_checks_vector": {v: len(d) for v, d in sorted(diffs.items(), key=lambda kv: len(kv[1]))[:6]},
                       "check_vector_assumed": vec_name(variant),
                       "first_case": {"argv": g["impl"][j][7], "input": g["input"], "fault": g["faults"][j]},
                       "implementation": g["impl"][j][0], "model": cmpo,
                       "implementation_calls": " ".join(g["impl"][j][1])[-1500:], "model_calls": vout.split("|")[-1].replace("_", " ")[-1500:],
                       "note": "exit status / diagnostics / file bytes / stdio calls of the binary differ from the model of the sinks"},
                      no_input=True)
    return nviol



# ------------------------------------------------------------------ "the files it processed" (Sys/JobWarnModel.v)

def files_processed_jobs(inputs):
    """(name, argv, model descriptor) - descriptor: main late pages uo attach enc split decode wx0 in the spelling of
    ocaml/h_sys.ml c10jexit; a file is two digits: warns-when-opened, has-embedded-files"""
    p = inputs["small"]["path"]
    F = {"00": c10sib(p, "z-clean.pdf"), "01": c10sib(p, "in-att.pdf"), "10": c10sib(p, "a-damaged.pdf"), "11": c10sib(p, "a-damaged-att.pdf")}
    LATE = c10sib(p, "w-decode.pdf")
    jobs = []

    def job(name, main="00", late=False, pages=(), dot=True, uo=(), attach=(), enc=None, split=False, decode=False, wx0=False, uokind="--overlay"):
        argv = ["--static-id"]
        argv.append("--empty" if main is None else (LATE if late else F[main]))
        if pages:
            argv += ["--pages"] + (["."] if dot and main is not None else [])
            for f in pages:
                argv += [F[f], "1"]
            argv.append("--")
        for f in uo:
            argv += [uokind, F[f], "--"]
        for i, f in enumerate(attach):
            argv += ["--copy-attachments-from", F[f], "--prefix=s%d-" % i, "--"]
        if enc:
            argv.append("--copy-encryption=" + F[enc])
        if decode:
            argv.append("--qdf")
        if wx0:
            argv.append("--warning-exit-0")
        argv += ["--split-pages", "out-%d.pdf"] if split else ["out.pdf"]
        desc = "%s %d %s %s %s %s %d %d %d" % ("-" if main is None else main, 1 if late else 0, ",".join(pages) or "-", ",".join(uo) or "-",
                                              ",".join(attach) or "-", enc or "-", 1 if split else 0, 1 if decode else 0, 1 if wx0 else 0)
        roles = []
        if main is not None and main[0] == "1":
            roles.append("main")
        if late and decode:
            roles.append("main(decode-failure)")
        if any(f[0] == "1" for f in pages):
            roles.append("pages")
        if any(f[0] == "1" for f in uo):
            roles.append(uokind[2:])
        for f in attach:
            if f[0] == "1":
                r = "copy-attachments-from(%s)" % ("with-embedded-files" if f[1] == "1" else "no-embedded-files")
                if r not in roles:
                    roles.append(r)
        if enc and enc[0] == "1":
            roles.append("copy-encryption")
        cls = "+".join((["split-pages"] if split else []) + (roles or ["all-clean"]))
        jobs.append({"name": name, "argv": argv, "desc": desc, "class": cls, "wx0": wx0})

    for split in (False, True):
        sfx = "/split" if split else ""
        job("all-clean" + sfx, split=split)
        job("main" + sfx, main="10", split=split)
        job("main-att" + sfx, main="11", split=split)
        job("pages" + sfx, pages=("10",), split=split)
        job("pages-only" + sfx, pages=("10",), dot=False, split=split)
        job("pages-empty" + sfx, main=None, pages=("10", "00"), split=split)
        job("pages-second" + sfx, pages=("00", "10"), split=split)
        job("overlay" + sfx, uo=("10",), split=split)
        job("underlay" + sfx, uo=("10",), uokind="--underlay", split=split)
        job("attach-with" + sfx, attach=("11",), split=split)
        job("attach-without" + sfx, attach=("10",), split=split)
        job("enc" + sfx, enc="10", split=split)
    # --copy-attachments-from: every position of a damaged source among clean ones, with and without embedded files
    for srcs in (("01", "10"), ("10", "01"), ("01", "11"), ("11", "01"), ("10", "11"), ("11", "10"), ("00", "10"), ("10", "00"), ("10", "10"),
                 ("01", "00"), ("00", "01"), ("01", "10", "01"), ("00", "10", "01")):
        job("attach:" + "/".join(srcs), attach=srcs)
    job("attach-without-on-att-main", main="01", attach=("10",))
    job("attach-with-on-att-main", main="01", attach=("11",))
    job("attach-clean-without", attach=("00",))
    job("attach-clean-with", attach=("01",))
    # several files in one role: the damaged one first, last, in the middle
    for fs in (("00", "10"), ("10", "00"), ("00", "10", "00")):
        job("overlay:" + "/".join(fs), uo=fs)
        job("underlay:" + "/".join(fs), uo=fs, uokind="--underlay")
        job("pages:" + "/".join(fs), pages=fs)
        job("pages-empty:" + "/".join(fs), main=None, pages=fs)
    # two roles, one damaged
    job("pages+attach-without", pages=("00",), attach=("10",))
    job("overlay+attach-without", uo=("00",), attach=("10",))
    job("enc+attach-without", enc="00", attach=("10",))
    job("pages-damaged+attach-clean", pages=("10",), attach=("01",))
    job("enc-damaged+pages", pages=("00",), enc="10")
    job("enc-clean", enc="00")
    job("overlay-clean", uo=("00",))
    job("pages-clean", pages=("00",))
    # --warning-exit-0
    for kw in ({"main": "10"}, {"pages": ("10",)}, {"uo": ("10",)}, {"attach": ("10",)}, {"attach": ("11",)}, {"enc": "10"}, {}):
        job("wx0:" + (",".join(sorted(kw)) or "clean"), wx0=True, **kw)
    # a stream that fails to decode: warnings only when the writer decodes
    for split in (False, True):
        for decode in (False, True):
            job("decode-failure%s%s" % ("/split" if split else "", "/qdf" if decode else ""), late=True, split=split, decode=decode)
    job("decode-failure/qdf/wx0", late=True, decode=True, wx0=True)
    job("decode-failure/qdf+attach-without", late=True, decode=True, attach=("10",))
    # the same file in the other roles: where such warnings are recorded is not modelled; the clause on the run is judged all the same
    for name, args in (("pages", [F["00"], "--pages", LATE, "1-z", "--"]), ("pages-self-and", [F["00"], "--pages", ".", LATE, "1-z", "--"]),
                       ("pages-empty", ["--empty", "--pages", LATE, "1-z", "--"]), ("overlay", [F["00"], "--overlay", LATE, "--from=2", "--"]),
                       ("underlay", [F["00"], "--underlay", LATE, "--from=2", "--"])):
        for split in (False, True):
            jobs.append({"name": "decode-failure-in-%s%s/qdf" % (name, "/split" if split else ""),
                         "argv": ["--static-id"] + args + ["--qdf"] + (["--split-pages", "out-%d.pdf"] if split else ["out.pdf"]),
                         "desc": None, "class": ("split-pages+" if split else "") + name.split("-")[0] + "(decode-failure)", "wx0": False})
    return jobs


def c10sib(i, name):
    return os.path.join(os.path.dirname(i), name)


def files_processed_part(chk, runner, wd, inputs):
    """C10, first sentence, over the roles a file can have in a job: WARNING lines are never followed by exit status 0; the
    exit status equals the extracted model's and the extracted role-free specification's"""
    jobs = files_processed_jobs(inputs)

    def one(j):
        rd = os.path.join(wd, "fp-%d" % j)
        os.makedirs(rd)
        rc, so, se = common.run_qpdf(jobs[j]["argv"], cwd=rd)
        outs = sorted(os.listdir(rd))
        shutil.rmtree(rd, ignore_errors=True)
        return rc, se, outs
    impl = common.par_map(one, range(len(jobs)), workers=WORKERS)
    mout = iter(common.run_lines(runner, ["c10jexit " + j["desc"] for j in jobs if j["desc"]]))
    mout = [next(mout) if j["desc"] else None for j in jobs]
    slines = ["c10jobs %d %d %d" % (rc if rc >= 0 else 255, 1 if b"WARNING: " in se else 0, 1 if j["wx0"] else 0) for j, (rc, se, outs) in zip(jobs, impl)]
    sout = common.run_lines(runner, slines)
    nontriv, diffs, dist = set(), [], {}
    for j, (rc, se, outs), mo, sv in zip(jobs, impl, mout, sout):
        wl = b"WARNING: " in se
        m_exit, s_exit, reported = (int(x) for x in mo.split(" ")) if mo else (rc, None, 1 if wl else 0)
        argv = ["qpdf"] + [os.path.basename(a) if a.startswith(wd) else a.replace(wd + "/", "") for a in j["argv"]]
        key = "%s/exit%d" % (j["class"], rc)
        dist[key] = dist.get(key, 0) + 1
        if wl or j["class"] != "all-clean":
            nontriv.add(j["name"])
        if sv != "ok":
            sig = "C10:files-processed:%s:exit%d" % (j["class"], rc)
            chk.violation({"kind": "property-fails-on-implementation", "part": "files-processed", "why": sv,
                           "case": {"argv": argv, "job": j["name"], "files": "z-clean.pdf / in-att.pdf: intact (without / with an embedded file); a-damaged.pdf / a-damaged-att.pdf: "
                                    "wrong startxref, qpdf reconstructs the xref table with warnings (without / with an embedded file); w-decode.pdf: a content stream that does not inflate"},
                           "exit": rc, "stderr": se.decode("latin-1")[-600:], "warning_lines_on_stderr": wl, "outputs": outs,
                           "exit_status_of_the_model": m_exit, "exit_status_of_the_specification": s_exit, "signature": sig,
                           "replay": {"part": "files-processed", "job": j["name"]}}, signature=sig)
            sigs = chk.cov.setdefault("specification_violations_by_signature", {})
            sigs[sig] = sigs.get(sig, 0) + 1
        if rc != m_exit or (1 if wl else 0) != reported:
            diffs.append((j, argv, rc, wl, m_exit, reported))
    if diffs:
        j, argv, rc, wl, m_exit, reported = diffs[0]
        chk.violation({"kind": "correspondence-broken", "correspondence": "corr:C10:files-processed", "differing_cases": len(diffs),
                       "first_case": {"argv": argv, "job": j["name"], "model_arguments": j["desc"]},
                       "implementation": {"exit": rc, "warning_lines": wl}, "model": {"exit": m_exit, "warning_reported": bool(reported)},
                       "all": [d[0]["name"] for d in diffs][:20],
                       "note": "the exit status of the binary differs from Sys/JobWarnModel.v c10j_exit (QPDFJob's warning accounting), or the files do not "
                               "give the warnings they were built to give"}, no_input=True)
    chk.count("files-processed", len(jobs), nontriv, [{"argv": ["qpdf"] + [os.path.basename(a) for a in jobs[k]["argv"]], "exit": impl[k][0]} for k in (3, len(jobs) // 2)])
    chk.cov["parts"]["files-processed"]["distribution"] = dist
    chk.cov["parts"]["files-processed"]["model_differences"] = len(diffs)

def run_coqchk(chk, pid):
    """thorough tier: independent re-check of the compiled property file and its axiom list"""
    with common.Lock("coq"):
        rc, out = common.sh(["timeout", "1800", "coqchk", "-o", "-silent", "-Q", common.COQ, "QV", "QV.Props.Properties_%s" % pid], cwd=common.VERIF)
    txt = out.decode("utf-8", "replace")
    ok = rc == 0 and "* Axioms: <none>" in txt
    chk.cov["coqchk"] = {"ok": ok, "summary": " ".join(txt[-600:].split())}
    if not ok:
        chk.violation({"kind": "proof-obligation-no-longer-checks", "property": pid, "theorem": "(coqchk)", "coqchk_output": txt[-3000:]}, no_input=True)


def run(chk):
    runner = os.path.join(common.EXTRACT, "model_runner")
    build_shim()
    probe_exit_rounds()
    if chk.tier == "thorough":
        run_coqchk(chk, "C10")
    wd = common.workdir("C10")
    B = os.stat(wd).st_blksize
    quick = chk.tier == "quick"
    inputs = make_inputs(wd, chk.rng, chk.tier, 0 if quick else 12)
    ALL = ("full", "fail", "disk", "cap")
    limit = 110 if quick else None
    plan = []      # (scenario, input, fault kinds, limit)
    scens = ["plain", "linearize", "qdf", "split", "json", "stdout", "jsonstdout", "replace"]
    special = ("att", "wlate", "multi")
    for iname, inp in inputs.items():
        if iname in special:
            continue
        for s in scens:
            if quick and iname == "small" and s in ("linearize", "qdf", "jsonstdout"):
                continue
            if quick and iname == "warn" and s in ("linearize", "qdf", "split", "jsonstdout"):
                continue
            plan.append((s, iname, ALL, limit))
    plan.append(("attach", "att", ALL, limit))
    # --deterministic-id variants of the writer scenarios
    for s in ("plain-did", "linearize-did", "qdf-did", "split-did", "replace-did"):
        for iname in (["big"] if quick else [n for n in inputs if n not in special]):
            plan.append((s, iname, ("full", "cap") if quick else ALL, 50 if quick else None))
    # warnings that arise while writing
    for s in ("plain", "stdout", "replace"):
        plan.append((s, "wlate", ("full", "fail"), 25 if quick else None))
    # several input files: exit status against the diagnostics printed
    for s in ("pages", "pagesempty", "overlay", "underlay"):
        plan.append((s, "small", ("full",), 6 if quick else 60))
        if not quick:
            plan.append((s, "big", ("full",), 60))
    # exactly one write(2) fails (EINTR / EIO / ENOSPC), the following ones succeed: every write of a multi-block output
    have_ptrace = build_injector()
    chk.cov["ptrace_permitted"] = bool(have_ptrace)
    if have_ptrace:
        for s in ("plain", "replace", "plain-did") + (() if quick else ("linearize", "qdf", "replace-did")):
            plan.append((s, "multi", tuple(ERRNOS), None))
    groups = []
    for s, iname, kinds, lim in plan:
        groups.append(run_group(chk, runner, wd, s, iname, inputs[iname], B, lim, kinds=kinds))
    variant, diffs, total = evaluate(chk, runner, groups, B)
    report(chk, runner, groups, variant, diffs, B)
    # the first sentence of the property over every role a file can have in a job
    files_processed_part(chk, runner, wd, inputs)
    # /dev/full as the output path, no interposition at all
    rc, so, se = common.run_qpdf(["--static-id", inputs["big"]["path"], "/dev/full"])
    if rc in (0, 3):
        chk.violation({"kind": "property-fails-on-implementation", "part": "devfull", "case": {"argv": ["qpdf", "--static-id", "in-big.pdf", "/dev/full"]},
                       "exit": rc, "why": "every write to the output failed with ENOSPC and qpdf reported success"},
                      signature="C10:plain:devfull:exit%d:fflush" % rc)
    # coverage
    nontriv = set()
    dist = {}
    for g in groups:
        if "sc" not in g:
            continue
        for j, x in enumerate(g["impl"]):
            f = g["faults"][j]
            if x[2]:
                nontriv.add((g["scen"], g["input"], f))
            key = "%s/exit%s" % (f.split("@")[0], x[5])
            dist[key] = dist.get(key, 0) + 1
    samples = []
    for g in groups[:3]:
        if "sc" in g and len(g["impl"]) > 2:
            j = len(g["impl"]) // 2
            samples.append({"argv": g["impl"][j][7], "fault": g["faults"][j], "exit": g["impl"][j][5], "observation": g["impl"][j][0]})
    chk.count("faulted-runs", total + 1, nontriv, samples)
    chk.cov["parts"]["faulted-runs"]["distribution"] = dist
    chk.cov["parts"]["faulted-runs"]["scenario_x_input"] = ["%s/%s:%d ops" % (g["scen"], g["input"], g["sc"].nops) for g in groups if "sc" in g]
    chk.cov["check_vector_observed"] = vec_name(variant)
    chk.cov["stdio_buffer_size"] = B
    chk.cov["rule"] = ("for each scenario x input the fault-free run under the shim gives the write calls; then one run of the real binary per fault: "
                       "full@k for every operation number k (quick: every non-write operation, its neighbours and a sample of the writes, at most %s per group), "
                       "fail@k at every fopen/rename/unlink, disk@k (device stays full) on a sample, cap@L = RLIMIT_FSIZE sweep; each run is compared with the "
                       "extracted model on exit status, diagnostic classes, bytes of every output file and the complete sequence of stdio calls with results, and "
                       "the extracted specification c10_obs_ok is evaluated on the binary's run; non-trivial = a run in which at least one output call actually "
                       "failed at kernel level, distinct by (scenario, input, fault). Part files-processed: 84 jobs without faults - a damaged file (wrong startxref) in "
                       "every role (main, --pages, --overlay, --underlay, --copy-attachments-from with / without embedded files, --copy-encryption), first / last / between "
                       "intact files, two roles at once, with --split-pages and --warning-exit-0, and a file with a stream that does not inflate (with / without --qdf, every role): "
                       "exit status = extracted c10j_exit (Sys/JobWarnModel.v) where the job is in the model's domain, and the extracted c10j_obs_ok on every run") % (limit or "all")
    shutil.rmtree(wd, ignore_errors=True)


def replay(chk, rep):
    print(json.dumps(rep, indent=1))
    r = rep.get("replay") or rep.get("case", {}).get("replay")
    if not r:
        return 0
    build_shim()
    wd = common.workdir("C10-replay")
    inputs = make_inputs(wd, chk.rng, chk.tier, 0)
    if r.get("part") == "files-processed":
        j = [x for x in files_processed_jobs(inputs) if x["name"] == r["job"]][0]
        rd = os.path.join(wd, "replay")
        os.makedirs(rd)
        rc, so, se = common.run_qpdf(j["argv"], cwd=rd)
        print("argv", j["argv"], "\nexit", rc, "\nstderr", se.decode("latin-1")[-800:], "\noutputs", sorted(os.listdir(rd)))
        return 0
    if r["input"] not in inputs:
        print("input %s is a random input of the thorough tier; rerun the tier with the same VERIF_SEED" % r["input"])
        return 0
    pre = None
    if r.get("pre"):
        orig = open(inputs[r["input"]]["path"], "rb").read()
        pre = {n: (orig if v == "<same-as-input>" else (bytes.fromhex(v) if isinstance(v, str) else v)) for n, v in r["pre"].items()}
    res = run_binary(os.path.join(wd, "replay"), r["scenario"], inputs[r["input"]], r["fault"], keep=True, tail_args=r.get("tail", ()), pre=pre)
    print("argv", res.argv, "initial directory", {n: ("directory" if not isinstance(v, bytes) else "%d bytes md5 %s" % (len(v), md5(v))) for n, v in (pre or {}).items()})
    print("exit", res.rc, "stderr", res.stderr.decode("latin-1")[-400:], "files", {k: ("directory" if v.startswith(DIRMARK) else "%d bytes md5 %s" % (len(v), md5(v))) for k, v in res.files.items()})
    print(res.log[-1500:])
    return 0
