#!/usr/bin/env python3
# Translator (source -> Gallina) for property C19: reads the GENERATED option tables of qpdf
#   $VERIF_REPO/libqpdf/qpdf/auto_job_init.hh       (argv tables: addBare/addRequiredParameter/...)
#   $VERIF_REPO/libqpdf/qpdf/auto_job_json_init.hh  (JSON handler tree: pushKey/addBare/addParameter/...)
#   $VERIF_REPO/libqpdf/qpdf/auto_job_schema.hh     (job JSON schema)
#   $VERIF_REPO/job.yml                              (the declaration all three are generated from)
# and writes coq/Gen/JobTables.v (argv_table, json_table, schema_table, yml_options, yml_json).
# Line-oriented: every statement of the generated headers must have one of the shapes listed in
# STATEMENT SHAPES below; anything else makes the translator fail loudly (the check then reports a broken
# tie, not a property violation).  Re-run on every check by common.gen_translated().
# The same parse is used by harness/c19.py (import translate_job_tables; parse_all()) so that the option sets the
# generator draws are the tables the theorems are computed over.
import json, os, re, sys

VERIF = os.path.dirname(os.path.dirname(os.path.abspath(__file__)))
REPO = os.environ.get("VERIF_REPO", "/repo")


class Shape(Exception):
    pass


def rd(rel):
    p = os.path.join(REPO, rel)
    if not os.path.exists(p):
        raise Shape("missing source file " + p)
    return open(p, encoding="utf-8").read()


CHOICES_RE = re.compile(r'^static char const\* (\w+)_choices\[\] = \{(.*), 0\};$')
CFG_BARE = r'\[this\]\(\)\s*\{\s*(?P<obj>c_\w+)->(?P<meth>\w+)\(\);\s*\}'
CFG_PARAM = r'\[this\]\(std::string const& (?P<v>\w)\)\s*\{\s*(?P<obj>c_\w+)->(?P<meth>\w+)\((?P=v)\);\s*\}'


def parse_choices(line, choices):
    m = CHOICES_RE.match(line)
    if not m:
        return False
    vals = re.findall(r'"([^"]*)"', m.group(2))
    if "{" + ", ".join('"%s"' % v for v in vals) != "{" + m.group(2):
        raise Shape("choices line not understood: " + line)
    choices[m.group(1)] = vals
    return True


def parse_argv_init():
    """-> (choices, entries) entries: dict(table, flag, kind, choices(list), choices_name, target=('config',obj,meth)|('manual',name))"""
    src = rd("libqpdf/qpdf/auto_job_init.hh")
    choices, entries = {}, []
    table = None
    lines = src.split("\n")
    i = 0
    # the two binder lambdas at the top (3 lines each)
    skip_prefix = ("//", "auto b = [this]", "auto p = [this]", "return QPDFArgParser::bind", "};")
    for line in lines:
        s = line.strip()
        if not s or s.startswith(skip_prefix):
            continue
        if parse_choices(s, choices):
            continue
        if not s.startswith("this->ap."):
            raise Shape("auto_job_init.hh: unexpected line: " + s)
        st = s[len("this->ap."):]
        m = re.match(r'^select(Help|Main)OptionTable\(\);$', st)
        if m:
            table = m.group(1).lower()
            continue
        m = re.match(r'^registerOptionTable\("([^"]+)", b\(&ArgParser::(\w+)\)\);$', st)
        if m:
            table = m.group(1)
            entries.append(dict(table=table, flag="--", kind="end", choices=[], choices_name="", target=("manual", m.group(2))))
            continue
        m = re.match(r'^addPositional\(p\(&ArgParser::(\w+)\)\);$', st)
        if m:
            entries.append(dict(table=table, flag="", kind="positional", choices=[], choices_name="", target=("manual", m.group(1))))
            continue
        m = re.match(r'^addBare\("([^"]+)", b\(&ArgParser::(\w+)\)\);$', st)
        if m:
            entries.append(dict(table=table, flag=m.group(1), kind="bare", choices=[], choices_name="", target=("manual", m.group(2))))
            continue
        m = re.match(r'^addBare\("([^"]+)", ' + CFG_BARE + r'\);$', st)
        if m:
            entries.append(dict(table=table, flag=m.group(1), kind="bare", choices=[], choices_name="", target=("config", m.group("obj"), m.group("meth"))))
            continue
        m = re.match(r'^addRequiredParameter\("([^"]+)", p\(&ArgParser::(\w+)\), "([^"]*)"\);$', st)
        if m:
            entries.append(dict(table=table, flag=m.group(1), kind="param", choices=[], choices_name="", target=("manual", m.group(2))))
            continue
        m = re.match(r'^addRequiredParameter\("([^"]+)", ' + CFG_PARAM + r', "([^"]*)"\);$', st)
        if m:
            entries.append(dict(table=table, flag=m.group(1), kind="param", choices=[], choices_name="", target=("config", m.group("obj"), m.group("meth"))))
            continue
        m = re.match(r'^addOptionalParameter\("([^"]+)", ' + CFG_PARAM + r'\);$', st)
        if m:
            entries.append(dict(table=table, flag=m.group(1), kind="optparam", choices=[], choices_name="", target=("config", m.group("obj"), m.group("meth"))))
            continue
        m = re.match(r'^addChoices\("([^"]+)", p\(&ArgParser::(\w+)\), (true|false), (\w+)_choices\);$', st)
        if m:
            if m.group(4) not in choices:
                raise Shape("unknown choices table " + m.group(4))
            entries.append(dict(table=table, flag=m.group(1), kind="choices" if m.group(3) == "true" else "optchoices",
                                choices=choices[m.group(4)], choices_name=m.group(4), target=("manual", m.group(2))))
            continue
        m = re.match(r'^addChoices\("([^"]+)", ' + CFG_PARAM + r', (?P<req>true|false), (?P<cn>\w+)_choices\);$', st)
        if m:
            if m.group("cn") not in choices:
                raise Shape("unknown choices table " + m.group("cn"))
            entries.append(dict(table=table, flag=m.group(1), kind="choices" if m.group("req") == "true" else "optchoices",
                                choices=choices[m.group("cn")], choices_name=m.group("cn"), target=("config", m.group("obj"), m.group("meth"))))
            continue
        raise Shape("auto_job_init.hh: statement shape not understood: " + s)
    if not entries:
        raise Shape("auto_job_init.hh: no entries")
    return choices, entries


def parse_json_init():
    """-> (choices, entries) entries: dict(path(list; '[]' = array level), kind in bare/param/choices/optchoices/manual/dict/array/none,
    choices, choices_name, target)"""
    src = rd("libqpdf/qpdf/auto_job_json_init.hh")
    choices, entries = {}, []
    stack = []          # path components; each pushKey / beginArray pushes one
    has_handler = []    # per stack level: did the level get any handler
    for line in src.split("\n"):
        s = line.strip()
        if not s or s.startswith("//"):
            continue
        if parse_choices(s, choices):
            continue
        m = re.match(r'^pushKey\("([^"]+)"\);$', s)
        if m:
            stack.append(m.group(1))
            has_handler.append(False)
            continue
        m = re.match(r'^popHandler\(\); // (key|array): (\S+)$', s)
        if m:
            if not stack:
                raise Shape("auto_job_json_init.hh: popHandler on empty stack")
            if m.group(1) == "key":
                if stack[-1] != m.group(2):
                    raise Shape("auto_job_json_init.hh: popHandler comment %s does not match key %s" % (m.group(2), stack[-1]))
                if not has_handler[-1]:
                    entries.append(dict(path=list(stack), kind="none", choices=[], choices_name="", target=("manual", "")))
            else:
                if stack[-1] != "[]":
                    raise Shape("auto_job_json_init.hh: popHandler array comment but top is " + stack[-1])
            stack.pop()
            has_handler.pop()
            continue
        if not stack:
            raise Shape("auto_job_json_init.hh: handler outside any key: " + s)
        has_handler[-1] = True
        m = re.match(r'^addBare\(' + CFG_BARE + r'\);$', s)
        if m:
            entries.append(dict(path=list(stack), kind="bare", choices=[], choices_name="", target=("config", m.group("obj"), m.group("meth"))))
            continue
        m = re.match(r'^addParameter\(' + CFG_PARAM + r'\);$', s)
        if m:
            entries.append(dict(path=list(stack), kind="param", choices=[], choices_name="", target=("config", m.group("obj"), m.group("meth"))))
            continue
        m = re.match(r'^addChoices\((\w+)_choices, (true|false), ' + CFG_PARAM + r'\);$', s)
        if m:
            if m.group(1) not in choices:
                raise Shape("unknown choices table " + m.group(1))
            entries.append(dict(path=list(stack), kind="choices" if m.group(2) == "true" else "optchoices",
                                choices=choices[m.group(1)], choices_name=m.group(1), target=("config", m.group("obj"), m.group("meth"))))
            continue
        m = re.match(r'^(setup\w+)\(\);$', s)
        if m:
            entries.append(dict(path=list(stack), kind="manual", choices=[], choices_name="", target=("manual", m.group(1))))
            continue
        m = re.match(r'^begin(Dict|Array)\(bindJSON\(&Handlers::(\w+)\), bindBare\(&Handlers::(\w+)\)\); // (\S+)$', s)
        if m:
            entries.append(dict(path=list(stack), kind=m.group(1).lower(), choices=[], choices_name="",
                                target=("manual", m.group(2)), end=m.group(3)))
            if m.group(1) == "Array":
                stack.append("[]")
                has_handler.append(False)
            continue
        raise Shape("auto_job_json_init.hh: statement shape not understood: " + s)
    if stack:
        raise Shape("auto_job_json_init.hh: unbalanced pushKey/popHandler")
    return choices, entries


def parse_schema():
    src = rd("libqpdf/qpdf/auto_job_schema.hh")
    m = re.match(r'^static constexpr char const\* JOB_SCHEMA_DATA = R"\((.*)\)";\s*$', src, re.S)
    if not m:
        raise Shape("auto_job_schema.hh: not a single raw string constant")
    try:
        j = json.loads(m.group(1))
    except Exception as e:
        raise Shape("auto_job_schema.hh: schema is not JSON: %s" % e)
    out = []

    def walk(node, path):
        if isinstance(node, dict):
            if path:
                out.append((list(path), "dict"))
            for k, v in node.items():
                walk(v, path + [k])
        elif isinstance(node, list):
            if len(node) != 1:
                raise Shape("schema array with %d members at %s" % (len(node), path))
            out.append((list(path), "array"))
            walk(node[0], path + ["[]"])
        elif isinstance(node, str):
            out.append((list(path), "string"))
        elif node is None:
            out.append((list(path), "null"))
        else:
            raise Shape("schema node of unexpected type at %s" % path)
    walk(j, [])
    return out, j


def camel(s):
    """the manual: 'flags camel-cased': foo-bar-baz -> fooBarBaz"""
    parts = s.split("-")
    return parts[0] + "".join(p[:1].upper() + p[1:] for p in parts[1:])


def parse_yml():
    try:
        import yaml
    except ImportError:
        raise Shape("python module yaml is needed to read job.yml")
    y = yaml.safe_load(rd("job.yml"))
    if not isinstance(y, dict) or set(y) != {"choices", "options", "json"}:
        raise Shape("job.yml: top-level keys are not choices/options/json")
    ychoices = {k: [str(x) for x in v] for k, v in y["choices"].items()}
    opts = []
    tables = {}
    for t in y["options"]:
        name = t["table"]
        tables[name] = dict(config=t.get("config", ""), prefix=t.get("prefix", ""), positional=bool(t.get("positional", False)),
                            manual=list(t.get("manual", [])), triggers=list(t.get("triggers", [])))
        known = {"table", "config", "prefix", "positional", "manual", "triggers", "config_prefix", "bare", "optional_parameter",
                 "file_parameter", "required_parameter", "required_choices", "optional_choices"}
        if set(t) - known:
            raise Shape("job.yml: unknown table keys %s" % (set(t) - known))
        for f in t.get("bare", []):
            opts.append(dict(table=name, flag=f, kind="bare", choices_name=""))
        for f in t.get("optional_parameter", []):
            opts.append(dict(table=name, flag=f, kind="optparam", choices_name=""))
        for f in t.get("file_parameter", {}):
            opts.append(dict(table=name, flag=f, kind="param", choices_name=""))
        for f in t.get("required_parameter", {}):
            opts.append(dict(table=name, flag=f, kind="param", choices_name=""))
        for f, c in t.get("required_choices", {}).items():
            opts.append(dict(table=name, flag=f, kind="choices", choices_name=c))
        for f, c in t.get("optional_choices", {}).items():
            opts.append(dict(table=name, flag=f, kind="optchoices", choices_name=c))
    for o in opts:
        o["manual"] = o["flag"] in tables[o["table"]]["manual"]
    prefix_to_table = {v["prefix"]: k for k, v in tables.items() if v["prefix"]}
    # json section: path (camelCased keys) -> declared (table prefix or '', flag) ; '_x' = no flag ; '__x' = flag without json
    yjson = []

    def walk(node, path):
        if isinstance(node, dict):
            for k, v in node.items():
                k = str(k)
                if k.startswith("__"):
                    yjson.append((path + [camel(k[2:])], "nojson", "", k[2:]))
                    continue
                if k.startswith("_"):
                    key, tbl, flag, how = k[1:], "", "", "named"
                elif "." in k:
                    pre, flag = k.split(".", 1)
                    tbl = "main" if pre == "main" else prefix_to_table.get(pre)
                    if tbl is None:
                        raise Shape("job.yml json: unknown table prefix in " + k)
                    key, how = flag, "flag"
                else:
                    key, tbl, flag, how = k, "", k, "flag"
                p = path + [camel(key)]
                yjson.append((p, how, tbl, flag))
                if isinstance(v, (dict, list)):
                    walk(v, p)
        elif isinstance(node, list):
            if len(node) != 1:
                raise Shape("job.yml json: array with %d members" % len(node))
            if isinstance(node[0], dict):
                walk(node[0], path + ["[]"])
    walk(y["json"], [])
    return ychoices, tables, opts, yjson


# ------------------------------------------------------------------ footprints of the Config methods (which calls can fail to commute)
CFG_CLASSES = {"Config": "c_main", "CopyAttConfig": "c_copy_att", "AttConfig": "c_att", "PagesConfig": "c_pages", "UOConfig": "c_uo",
               "EncConfig": "c_enc", "GlobalConfig": "c_global"}
# helper calls whose effect is not visible as an assignment in QPDFJob_config.cc (read from QPDFJob.cc / global.cc by hand; trusted)
HELPER_EFFECTS = {
    "inputs.infile_name": (["inputs.infile_name_", "inputs.files", "inputs.selections"], ["inputs.infile_name_", "inputs.files", "inputs.selections"]),
    "inputs.new_selection": (["inputs.infile_name_", "inputs.files", "inputs.selections"], ["inputs.files", "inputs.selections"]),
    "global::Options.default_limits": (["global.parser_max_errors_set", "global.parser_max_container_size_damaged_set", "global.max_stream_filters_set"],
                                       ["global.default_limits", "global.parser_max_errors", "global.parser_max_container_size_damaged", "global.max_stream_filters"]),
    "global::Limits.parser_max_errors": ([], ["global.parser_max_errors", "global.parser_max_errors_set"]),
    "global::Limits.parser_max_nesting": ([], ["global.parser_max_nesting"]),
    "global::Limits.max_stream_filters": ([], ["global.max_stream_filters", "global.max_stream_filters_set"]),
}
METHOD_EFFECTS = {   # by-reference outputs and calls into QPDFJob.cc
    ("c_main", "showObject"): ([], ["show_trailer", "show_obj", "show_gen"]),
    ("c_main", "rotate"): ([], ["rotations"]),
    ("c_main", "jobJsonFile"): (["*"], ["*"]),
    ("c_global", "parserMaxContainerSize"): ([], ["global.parser_max_container_size"]),
    ("c_global", "parserMaxContainerSizeDamaged"): ([], ["global.parser_max_container_size_damaged", "global.parser_max_container_size_damaged_set"]),
    ("c_pages", "range"): (["inputs.selections"], ["inputs.selections"]),
    ("c_pages", "password"): (["inputs.selections", "inputs.files"], ["inputs.selections", "inputs.files"]),
}


def parse_writer_config():
    """Writer::Config / Doc::Config setters: name -> (reads, writes[(member, tag)]) with nested setter calls expanded"""
    hdr = rd("libqpdf/qpdf/QPDFWriter_private.hh")
    cc = rd("libqpdf/QPDFWriter.cc")
    m = re.search(r"class Config\n\s*\{(.*?)\n\s*\}; // class Writer::Config", hdr, re.S)
    body = m.group(1) if m else ""
    fields = set(re.findall(r"^\s+(?:std::string|bool|int|qpdf_\w+)\s+(\w+_)(?:\{[^}]*\})?;", body, re.M))

    defs = {}
    for mm in re.finditer(r"^\s+(\w+)\(([^)]*)\)(?: const)?\n\s+\{\n(.*?)\n            \}", body, re.S | re.M):
        defs.setdefault((mm.group(1), bool(mm.group(2).strip())), mm.group(3))
    for mm in re.finditer(r"^Config::(\w+)\(([^)]*)\)\n\{\n(.*?)\n\}\n", cc, re.S | re.M):
        defs[(mm.group(1), bool(mm.group(2).strip()))] = mm.group(3)
    setters = {n for (n, has) in defs if has}
    raw = {}
    for (n, has), b in defs.items():
        writes = []
        for w in re.finditer(r"\b(\w+_)\s*=\s*([^;]+);", b):
            if w.group(1) in fields:
                v = w.group(2).strip()
                writes.append((w.group(1), "T" if v == "true" else "F" if v == "false" else "?"))
        wnames = {w for w, _ in writes}
        reads = [f for f in set(re.findall(r"\b(\w+_)\b", b)) if f in fields and (f not in wnames or re.search(r"[!(|&,]\s*" + f + r"\b|\b" + f + r"\s*[|&)]", b))]
        calls = [c for c in re.findall(r"\b(\w+)\((?!\))", b) if c in setters and c != n]
        raw[(n, has)] = (set(reads), writes, calls)
    out = {}

    def closure(key, seen):
        r, w, calls = raw[key]
        r, w = set(r), list(w)
        for c in calls:
            if (c, True) in raw and c not in seen:
                r2, w2 = closure((c, True), seen | {c})
                r |= r2
                w += w2
        return r, w
    for key in raw:
        out[key] = closure(key, {key[0]})
    return out


def parse_config_footprints():
    src = rd("libqpdf/QPDFJob_config.cc")
    wcfg = parse_writer_config()
    res = {}
    for m in re.finditer(r"^QPDFJob::(\w+)::(\w+)\(([^)]*)\)\n\{\n(.*?)\n\}\n", src, re.S | re.M):
        cls, name, params, body = m.groups()
        if cls not in CFG_CLASSES or name == cls:
            continue
        obj = CFG_CLASSES[cls]
        arity = 0 if not params.strip() else params.count(",") + 1
        reads, writes = set(), []
        occ = [(mm.group(1), body[mm.end():mm.end() + 60]) for mm in re.finditer(r"(?:config->)?o\.m->((?:\w+(?:\.|->))*\w+)", body)]
        occ += [(mm.group(1) + "." + mm.group(2), body[mm.end():mm.end() + 60]) for mm in re.finditer(r"\b(att|caf)\.(\w+)", body)]
        occ += [("global::" + mm.group(1) + "." + mm.group(2), body[mm.end() - 1:mm.end() + 60]) for mm in re.finditer(r"global::(\w+)::(\w+)\(", body)]
        for p, rest in occ:
            if p in HELPER_EFFECTS:
                r, w = HELPER_EFFECTS[p]
                reads |= set(r)
                writes += [(x, "?") for x in w]
                continue
            if p == "infile_name":
                reads.add("inputs.infile_name_")
                continue
            mm = re.match(r"^(w_cfg|d_cfg)\.(\w+)$", p)
            if mm:
                has = not rest.startswith("()")
                if mm.group(1) == "d_cfg":
                    (writes.append(("d_cfg." + mm.group(2), "T" if rest.startswith("(true)") else "?")) if has else reads.add("d_cfg." + mm.group(2)))
                    continue
                key = (mm.group(2), has)
                if key not in wcfg:
                    # a setter/getter the header parse did not find: one opaque member (read and written)
                    reads.add("w_cfg." + mm.group(2) + "()")
                    if has:
                        writes.append(("w_cfg." + mm.group(2) + "()", "?"))
                    continue
                r, w = wcfg[key]
                reads |= {"w_cfg." + x for x in r}
                writes += [("w_cfg." + x, t) for x, t in w]
                continue
            mm = re.match(r"^(.*)\.(push_back|insert|emplace_back|clear)$", p)
            if mm:
                writes.append((mm.group(1), "?"))
                continue
            mm = re.match(r"^(.*)\.(empty|size|contains|back)$", p)
            if mm:
                reads.add(mm.group(1))
                continue
            ms = re.match(r"^\s*(\|?=)(?!=)\s*([^;]*);", rest)
            if ms:
                v = ms.group(2).strip()
                writes.append((p, "T" if v == "true" else "F" if v == "false" else "?"))
                if ms.group(1) == "|=":
                    reads.add(p)
                continue
            reads.add(p)
        if (obj, name) in METHOD_EFFECTS:
            r, w = METHOD_EFFECTS[(obj, name)]
            reads |= set(r)
            writes += [(x, "?") for x in w]
        key = (obj, name, arity)
        if key in res:     # overloads (collate(), collate(x)): union
            reads |= set(res[key][0])
            writes += res[key][1]
        # several assignments to one field in one body (if/else chains): the tag is kept only when they all agree
        wt = {}
        for f, t in writes:
            wt[f] = t if f not in wt or wt[f] == t else "?"
        res[key] = (sorted(reads), sorted(wt.items()))
    # calls of one Config method from another of the same class (jsonOutput calls json(parameter); collate() calls collate(""))
    bodies = {}
    for m in re.finditer(r"^QPDFJob::(\w+)::(\w+)\(([^)]*)\)\n\{\n(.*?)\n\}\n", src, re.S | re.M):
        cls, name, params, body = m.groups()
        if cls in CFG_CLASSES and name != cls:
            bodies.setdefault((CFG_CLASSES[cls], name), []).append(body)
    names_by_obj = {}
    for (obj, name, ar) in res:
        names_by_obj.setdefault(obj, set()).add(name)
    for _ in range(3):
        for (obj, name, ar) in list(res):
            for body in bodies.get((obj, name), []):
                for callee in set(re.findall(r"(?<![\w>.:])(\w+)\(", body)):
                    if callee != name and callee in names_by_obj[obj]:
                        for (o2, n2, a2), (r2, w2) in list(res.items()):
                            if o2 == obj and n2 == callee:
                                r, w = res[(obj, name, ar)]
                                wt = dict(w)
                                for f, t in w2:
                                    wt[f] = t if f not in wt or wt[f] == t else "?"
                                res[(obj, name, ar)] = (sorted(set(r) | set(r2)), sorted(wt.items()))
    # methods with the same (obj, name) but different arity are merged: the front ends bind names
    merged = {}
    for (obj, name, ar), (r, w) in res.items():
        k = (obj, name)
        if k in merged:
            r = sorted(set(r) | set(merged[k][0]))
            wt = dict(merged[k][1])
            for f, t in w:
                wt[f] = t if f not in wt or wt[f] == t else "?"
            w = sorted(wt.items())
        merged[k] = (r, w)
    return merged     # completeness is decided by theorem footprints_cover_tables


def parse_all():
    ac, argv = parse_argv_init()
    jc, jsn = parse_json_init()
    schema, schema_json = parse_schema()
    ychoices, ytables, yopts, yjson = parse_yml()
    return dict(argv_choices=ac, argv=argv, json_choices=jc, json=jsn, schema=schema, schema_json=schema_json,
                yml_choices=ychoices, yml_tables=ytables, yml_options=yopts, yml_json=yjson, footprints=parse_config_footprints())


# ------------------------------------------------------------------ Gallina output

def bs(s):
    b = s.encode("utf-8")
    return "(*%s*) [%s]" % (s.replace("*)", "* )"), ";".join(str(x) for x in b))


def blist(l):
    return "[" + "; ".join(bs(x) for x in l) + "]"


KIND = {"bare": "KBare", "param": "KParam", "optparam": "KOptParam", "choices": "KChoices", "optchoices": "KOptChoices",
        "positional": "KPositional", "end": "KEnd"}


def tgt(t):
    if t[0] == "config":
        return "TConfig %s %s" % (bs(t[1]), bs(t[2]))
    return "TManual %s" % bs(t[1])


def emit(d):
    o = []
    o.append("(* GENERATED by harness/translate_job_tables.py from %s/{libqpdf/qpdf/auto_job_init.hh, auto_job_json_init.hh,\n"
             "   auto_job_schema.hh, job.yml}. Do not edit: rewritten on every check run. Strings are byte lists (readable form in\n"
             "   the comment in front of each). *)" % REPO)
    o.append("From Coq Require Import List NArith.\nFrom QV Require Import Sys.JobTypes.\nImport ListNotations.\nOpen Scope N_scope.\n")
    o.append("Definition argv_table : list aentry := [")
    o.append(";\n".join("  mk_aentry %s %s %s %s (%s)" % (bs(e["table"]), bs(e["flag"]), KIND[e["kind"]], blist(e["choices"]), tgt(e["target"]))
                        for e in d["argv"]))
    o.append("].\n")
    o.append("Definition json_table : list jentry := [")
    rows = []
    for e in d["json"]:
        k = {"bare": "JScalar KBare", "param": "JScalar KParam", "choices": "JScalar KChoices", "optchoices": "JScalar KOptChoices",
             "manual": "JManual", "dict": "JDict", "array": "JArray", "none": "JNone"}[e["kind"]]
        rows.append("  mk_jentry %s (%s) %s (%s)" % (blist(e["path"]), k, blist(e["choices"]), tgt(e["target"])))
    o.append(";\n".join(rows))
    o.append("].\n")
    o.append("Definition schema_table : list (list bstr * snode) := [")
    o.append(";\n".join("  (%s, %s)" % (blist(p), {"string": "SString", "dict": "SDict", "array": "SArray", "null": "SNull"}[t])
                        for p, t in d["schema"]))
    o.append("].\n")
    o.append("(* job.yml, options: (table, flag, kind, choices, declared manual) *)")
    o.append("Definition yml_options : list (bstr * bstr * okind * list bstr * bool) := [")
    rows = []
    for e in d["yml_options"]:
        ch = d["yml_choices"].get(e["choices_name"], []) if e["choices_name"] else []
        if e["choices_name"] and e["choices_name"] not in d["yml_choices"]:
            raise Shape("job.yml: unknown choices " + e["choices_name"])
        rows.append("  (%s, %s, %s, %s, %s)" % (bs(e["table"]), bs(e["flag"]), KIND[e["kind"]], blist(ch), "true" if e["manual"] else "false"))
    o.append(";\n".join(rows))
    o.append("].\n")
    o.append("(* job.yml, json section: (path with camelCased keys, how, table ('' = not qualified), flag) ; how: 0 = bound to a flag,\n"
             "   1 = named key without flag (leading _), 2 = flag deliberately without JSON form (leading __) *)")
    o.append("Definition yml_json : list (list bstr * N * bstr * bstr) := [")
    o.append(";\n".join("  (%s, %d, %s, %s)" % (blist(p), {"flag": 0, "named": 1, "nojson": 2}[how], bs(tbl), bs(flag))
                        for p, how, tbl, flag in d["yml_json"]))
    o.append("].\n")
    o.append("(* QPDFJob_config.cc (+ Writer::Config setters): per Config method the members it reads and the members it writes; a write carries\n"
             "   the constant it stores when every assignment in the body stores that same constant (1 = true, 2 = false, 0 = anything else) *)")
    o.append("Definition config_footprints : list (bstr * bstr * list bstr * list (bstr * N)) := [")
    o.append(";\n".join("  (%s, %s, %s, [%s])" % (bs(obj), bs(name), blist(r), "; ".join("(%s, %d)" % (bs(f), {"T": 1, "F": 2, "?": 0}[t]) for f, t in w))
                        for (obj, name), (r, w) in sorted(d["footprints"].items())))
    o.append("].")
    return "\n".join(o) + "\n"


FAILED_MARK = os.path.join(VERIF, "_build", "gen", "job_tables.failed")


def main():
    """On a source shape the translator does not understand: the reason is written to _build/gen/job_tables.failed, which makes
    `./check C19` report a broken tie; an existing coq/Gen/JobTables.v is left in place so that the other properties' checks (which share
    the Coq build and the extraction) are not disturbed."""
    gdir = os.path.join(VERIF, "coq", "Gen")
    p = os.path.join(gdir, "JobTables.v")
    os.makedirs(os.path.dirname(FAILED_MARK), exist_ok=True)
    try:
        d = parse_all()
        txt = emit(d)
    except Exception as e:
        msg = "translate_job_tables: %s: %s" % (type(e).__name__, e)
        print(msg)
        with open(FAILED_MARK, "w") as f:
            f.write(msg + "\n")
        return 0 if os.path.exists(p) else 1
    if os.path.exists(FAILED_MARK):
        os.remove(FAILED_MARK)
    # dispatch table for the driver's replay of Config calls (harness/drv_job.cc includes it): one line per Config method the tables bind
    disp = set()
    for e in d["argv"] + d["json"]:
        t = e["target"]
        if t[0] == "config":
            disp.add((t[1], t[2], 0 if e["kind"] == "bare" else 1))
    inc = "// GENERATED by harness/translate_job_tables.py from the option tables of qpdf: Config methods bound by argv or job JSON.\n" + \
          "".join("D%d(%s, %s)\n" % (a, o, m) for o, m, a in sorted(disp))
    ip = os.path.join(VERIF, "harness", "gen_job_dispatch.inc")
    if not os.path.exists(ip) or open(ip).read() != inc:
        with open(ip, "w") as f:
            f.write(inc)
        os.utime(os.path.join(VERIF, "harness", "drv_job.cc"))   # the driver is rebuilt by the next common.build_drv()
    os.makedirs(gdir, exist_ok=True)
    if not os.path.exists(p) or open(p).read() != txt:
        with open(p, "w") as f:
            f.write(txt)
    return 0


if __name__ == "__main__":
    sys.exit(main())
