From QV Require Import Base.Bytes File.StrictSyntax File.ReadStrict File.WriterArith File.C02Proofs.
From QV Require Import Obj.Queue Obj.WriterModel Obj.WmPrinters Obj.WriterModelXS Obj.C01RoundtripProofs Obj.C01FileProofs.
From QV Require Import File.C02ProofsXS File.C02ProofsXS2.
From Coq Require Import Lia.
Local Open Scope N_scope.

Definition xp_k_N : list N := [78].
Definition xp_k_First : list N := [70; 105; 114; 115; 116].
Definition xp_objstm_dict (L n f : N) : obj :=
  ODict [(xs_k_Type, OName n_ObjStm); (k_Length, OInt (Z.of_N L)); (xp_k_N, OInt (Z.of_N n)); (xp_k_First, OInt (Z.of_N f))].

Lemma xp_objstm_dict_text : forall objs ren L n f,
  unparse wm_unparse_string wm_unparse_name objs ren (xp_objstm_dict L n f)
  = xs_s_objstm_open ++ dec_of_N L ++ xs_s_N ++ dec_of_N n ++ xs_s_First ++ dec_of_N f ++ [32; 62; 62].
Proof.
  intros objs ren L n f. unfold xp_objstm_dict. cbn [unparse flat_map is_null_val snd fst]. rewrite !dec_of_Z_of_N.
  change (wm_unparse_name xs_k_Type) with [47; 84; 121; 112; 101].
  change (wm_unparse_name n_ObjStm) with [47; 79; 98; 106; 83; 116; 109].
  change (wm_unparse_name k_Length) with [47; 76; 101; 110; 103; 116; 104].
  change (wm_unparse_name xp_k_N) with [47; 78].
  change (wm_unparse_name xp_k_First) with [47; 70; 105; 114; 115; 116].
  unfold xs_s_objstm_open, xs_s_N, xs_s_First, sp. rewrite ?app_nil_r.
  repeat (rewrite <- app_assoc || (progress cbn [app])). reflexivity.
Qed.

(* The emitted object-stream object, wherever it stands in a file: the strict reader's indirect-object parser returns the
   stream's number, generation 0, the dictionary /Type /ObjStm /Length /N /First with the written values, the data at the
   recorded position with EXACTLY the written /Length, and ends where the next object starts. *)
Lemma xs_objstm_object_parses_lemma : forall d k fuel total file off len_of tail,
  let objs := d_objects d in
  let L := xs_L d in
  let data := xs_ostm_data wm_unparse_string wm_unparse_name objs (xs_l_plan L) (xs_l_ren L) k in
  at_off file off = xs_ostm_object wm_unparse_string wm_unparse_name objs (xs_l_plan L) (xs_l_ren L) (xs_l_sren L) k ++ tail ->
  (length (xs_ostm_object wm_unparse_string wm_unparse_name objs (xs_l_plan L) (xs_l_ren L) (xs_l_sren L) k) < fuel)%nat ->
  parse_indirect fuel total file off len_of
  = inl (Some {| so_num := xs_l_sren L k; so_gen := 0; so_where := XInUse off 0;
                 so_val := SpDict [(n_Type, SpName n_ObjStm); (n_Length, SpInt (Z.of_N (N.of_nat (length data))));
                                   (n_N, SpInt (Z.of_N (N.of_nat (length (xs_members (xs_l_plan L) k)))));
                                   (n_First, SpInt (Z.of_N (xs_ostm_first wm_unparse_string wm_unparse_name objs (xs_l_plan L) (xs_l_ren L) k)))];
                 so_stream := Some (offset_of total (data ++ s_endstream_kw ++ s_endobj ++ tail), N.of_nat (length data));
                 so_end := offset_of total tail |}).
Proof.
  intros d k fuel total file off len_of tail objs L data Hat Hfuel.
  set (p := xs_l_plan L) in *. set (ren := xs_l_ren L) in *.
  set (n := N.of_nat (length (xs_members p k))).
  set (f := xs_ostm_first wm_unparse_string wm_unparse_name objs p ren k).
  set (o' := xp_objstm_dict (N.of_nat (length data)) n f).
  assert (Hobj : xs_ostm_object wm_unparse_string wm_unparse_name objs p ren (xs_l_sren L) k
                 = obj_header (xs_l_sren L k) ++ unparse wm_unparse_string wm_unparse_name objs (fun _ => 1) o'
                   ++ s_stream_kw ++ data ++ s_endstream_kw ++ s_endobj).
  { unfold xs_ostm_object, o'. rewrite xp_objstm_dict_text. fold data. fold n. fold f.
    unfold xs_s_dict_stream, s_stream_kw, xs_s_endstream, s_endstream_kw. rewrite <- !app_assoc. reflexivity. }
  apply (parse_indirect_emitted_stream fuel total file off len_of (xs_l_sren L k) objs (fun _ => 1) o').
  - rewrite Hat, Hobj, <- !app_assoc. reflexivity.
  - unfold o', xp_objstm_dict. cbn. repeat split; try (intros [H | H]; try discriminate; try contradiction; lia);
      repeat constructor.
  - intros id. lia.
  - intros z H. discriminate.
  - rewrite Hobj, !app_length in Hfuel. lia.
  - reflexivity.
  - reflexivity.
Qed.

(* ---------- an indirect stream object whose dictionary text is given with its parse, data optionally followed by LF ---------- *)
Lemma xp_parse_indirect_stream : forall fuel total file off len_of k T dct data (nl : bool) tail,
  let NL := if nl then [10] else [] in
  at_off file off = obj_header k ++ T ++ s_stream_kw ++ data ++ NL ++ s_endstream_kw ++ s_endobj ++ tail ->
  parse_obj fuel (T ++ s_stream_kw ++ data ++ NL ++ s_endstream_kw ++ s_endobj ++ tail)
    = Some (SpDict dct, s_stream_kw ++ data ++ NL ++ s_endstream_kw ++ s_endobj ++ tail) ->
  dict_get dct n_Length = Some (SpInt (Z.of_N (N.of_nat (length data)))) ->
  parse_indirect fuel total file off len_of
  = inl (Some {| so_num := k; so_gen := 0; so_where := XInUse off 0; so_val := SpDict dct;
                 so_stream := Some (offset_of total (data ++ NL ++ s_endstream_kw ++ s_endobj ++ tail), N.of_nat (length data));
                 so_end := offset_of total tail |}).
Proof.
  intros fuel total file off len_of k T dct data nl tail NL Hat Hp Hlen.
  set (D := data ++ NL ++ s_endstream_kw ++ s_endobj ++ tail) in *.
  set (E := 10 :: 115 :: 116 :: 114 :: 101 :: 97 :: 109 :: 10 :: D).
  assert (Hs : at_off file off = dec_of_N k ++ 32 :: 48 :: 32 :: 111 :: 98 :: 106 :: 10 :: T ++ E).
  { rewrite Hat. unfold obj_header, s_stream_kw. rewrite <- app_assoc. reflexivity. }
  assert (Hnt : next_tok (at_off file off) = Some (StInt (Z.of_N k), 32 :: 48 :: 32 :: 111 :: 98 :: 106 :: 10 :: T ++ E)).
  { rewrite Hs. apply next_tok_dec_of_N. left. reflexivity. }
  destruct (dec_of_N_head k) as [c [t [Hk Hc]]].
  assert (Hhd : at_off file off = c :: t ++ 32 :: 48 :: 32 :: 111 :: 98 :: 106 :: 10 :: T ++ E).
  { rewrite Hs, Hk. reflexivity. }
  unfold parse_indirect. cbv zeta.
  rewrite Hhd at 1. cbv iota beta. rewrite Hc. cbn [negb].
  rewrite Hnt, next_tok_sp0, next_tok_obj.
  change (negb (beq k_obj k_obj)) with false. cbv iota.
  rewrite parse_obj_nl.
  change (s_stream_kw ++ D) with E in Hp. rewrite Hp.
  unfold E at 1. rewrite next_tok_stream.
  change (beq k_stream k_endobj) with false. change (beq k_stream k_stream) with true. cbv iota.
  rewrite Hlen.
  replace (0 <=? Z.of_N (N.of_nat (length data)))%Z with true by (symmetry; apply Z.leb_le; lia).
  cbv iota. rewrite N2Z.id, Nat2N.id.
  replace (N.of_nat (length D) <? N.of_nat (length data)) with false
    by (symmetry; apply N.ltb_ge; unfold D; rewrite app_length; lia).
  cbv iota.
  assert (Hsk : skipn (length data) D = NL ++ s_endstream_kw ++ s_endobj ++ tail).
  { unfold D. rewrite skipn_app, skipn_all, Nat.sub_diag. reflexivity. }
  rewrite Hsk.
  assert (Heol : match eol (NL ++ s_endstream_kw ++ s_endobj ++ tail) with Some a => a | None => NL ++ s_endstream_kw ++ s_endobj ++ tail end
                 = s_endstream_kw ++ s_endobj ++ tail) by (unfold NL; destruct nl; reflexivity).
  rewrite Heol.
  change (expect k_endstream (s_endstream_kw ++ s_endobj ++ tail)) with (Some (s_endobj ++ tail)). cbv iota.
  change (s_endobj ++ tail) with (10 :: 101 :: 110 :: 100 :: 111 :: 98 :: 106 :: 10 :: tail).
  rewrite next_tok_endobj.
  change (beq k_endobj k_endobj) with true. cbv iota.
  change (eol (10 :: tail)) with (Some tail). cbv iota.
  rewrite N2Z.id. reflexivity.
Qed.

(* ---------- the cross-reference stream object ---------- *)
Definition xp_k_W : list N := [87].
Definition xp_sub (size : N) (kv : list N * obj) : list N * obj :=
  if beqb (fst kv) k_Size then (fst kv, OInt (Z.of_N size)) else kv.
Definition xp_xref_entries (d : doc) (len f1 f2 size : N) : list (list N * obj) :=
  [(xs_k_Type, OName n_XRef); (k_Length, OInt (Z.of_N len)); (xp_k_W, OArr [OInt 1; OInt (Z.of_N f1); OInt (Z.of_N f2)])]
  ++ map (xp_sub size) (d_trailer d).

Lemma xp_trailer_text : forall objs ren size (l : list (list N * obj)),
  (forall kv, In kv l -> beqb (fst kv) k_Size = true -> is_null_val objs (snd kv) = false) ->
  flat_map (fun kv => if is_null_val objs (snd kv) then [] else
                      sp ++ WUN (fst kv) ++ sp ++ (if beqb (fst kv) k_Size then dec_of_N size else unparse WUS WUN objs ren (snd kv))) l
  = flat_map (gd WUS WUN objs ren) (map (xp_sub size) l).
Proof.
  induction l as [|kv t IH]; intros H; [reflexivity|]. cbn [flat_map map]. rewrite IH by (intros x Hx; apply H; right; exact Hx).
  f_equal. unfold gd, xp_sub. destruct (beqb (fst kv) k_Size) eqn:E.
  - rewrite (H kv (or_introl eq_refl) E). cbn [fst snd is_null_val unparse]. rewrite dec_of_Z_of_N. reflexivity.
  - reflexivity.
Qed.

Definition xp_xref_data (L : xs_layout) : list N :=
  flat_map (xs_enc_entry (N.to_nat (xs_l_f1 L)) (N.to_nat (xs_l_f2 L))) (xs_l_entries L).

Lemma xp_xref_object_text : forall d (L : xs_layout),
  (forall kv, In kv (d_trailer d) -> beqb (fst kv) k_Size = true -> is_null_val (d_objects d) (snd kv) = false) ->
  xs_xref_object WUS WUN d L
  = obj_header (xs_l_xref_id L)
    ++ ([60; 60] ++ flat_map (gd WUS WUN (d_objects d) (xs_l_ren L))
                             (xp_xref_entries d (N.of_nat (length (xp_xref_data L))) (xs_l_f1 L) (xs_l_f2 L) (xs_l_xref_id L + 1))
        ++ [32; 47; 73; 68; 32; 91] ++ hexstr (d_id1 d) ++ hexstr (d_id2 d) ++ [93] ++ [32; 62; 62])
    ++ s_stream_kw ++ xp_xref_data L ++ [10] ++ s_endstream_kw ++ s_endobj.
Proof.
  intros d L H. unfold xs_xref_object, xp_xref_entries. fold (xp_xref_data L). rewrite flat_map_app.
  rewrite (xp_trailer_text (d_objects d) (xs_l_ren L) (xs_l_xref_id L + 1) (d_trailer d) H).
  cbn [flat_map]. unfold gd. cbn [is_null_val snd fst unparse flat_map]. rewrite !dec_of_Z_of_N.
  change (wm_unparse_name xs_k_Type) with [47; 84; 121; 112; 101].
  change (wm_unparse_name n_XRef) with [47; 88; 82; 101; 102].
  change (wm_unparse_name k_Length) with [47; 76; 101; 110; 103; 116; 104].
  change (wm_unparse_name xp_k_W) with [47; 87].
  change (dec_of_Z 1) with [49].
  unfold xs_s_xref_open, xs_s_W, xs_s_stream, xs_s_nl_endstream, s_stream_kw, s_endstream_kw, sp. rewrite ?app_nil_r.
  repeat (rewrite <- app_assoc || (progress cbn [app])). reflexivity.
Qed.

Lemma xp_trailer_refs_roots : forall d r zs size,
  NoDup (map fst (d_trailer d)) ->
  find (fun kv => beqb (fst kv) k_Root) (d_trailer d) = Some (k_Root, ORef r) ->
  find (fun kv => beqb (fst kv) k_Size) (d_trailer d) = Some (k_Size, OInt zs) ->
  forall x, In x (refs_of (d_objects d) (ODict (map (xp_sub size) (d_trailer d)))) -> In x (roots_of d).
Proof.
  intros d r zs size Hnd Hroot Hsize x Hx. cbn [refs_of] in Hx. apply in_flat_map in Hx.
  destruct Hx as [kv' [Hkv' Hx]]. apply in_map_iff in Hkv'.
  destruct Hkv' as [kv [<- Hkv]]. unfold xp_sub in Hx.
  destruct (beqb (fst kv) k_Size) eqn:Es; [cbn [snd is_null_val refs_of] in Hx; destruct Hx|].
  destruct (is_null_val (d_objects d) (snd kv)) eqn:En; [destruct Hx|].
  destruct (beqb (fst kv) k_Root) eqn:Er.
  - apply beqb_eq in Er. destruct kv as [k v]. cbn [fst snd] in *. subst k.
    pose proof (find_some _ _ Hroot) as [Hr _].
    rewrite (nodup_key_unique _ _ _ _ _ _ Hnd Hkv Hr) in Hx.
    unfold roots_of. rewrite Hroot. apply in_or_app. left. exact Hx.
  - unfold roots_of. apply in_or_app. right. apply in_flat_map. exists kv. split; [exact Hkv|].
    rewrite Er, En. exact Hx.
Qed.

Definition xp_id_entry (d : doc) : list N * pobj := ([73; 68], SpArr [SpStr (d_id1 d); SpStr (d_id2 d)]).

(* the dictionary the strict reader obtains from the emitted cross-reference stream object *)
Definition xp_xref_dict (d : doc) : list (list N * pobj) :=
  let L := xs_L d in
  pdict (d_objects d) (xs_l_ren L)
        (xp_xref_entries d (N.of_nat (length (xp_xref_data L))) (xs_l_f1 L) (xs_l_f2 L) (xs_l_xref_id L + 1))
  ++ [xp_id_entry d].

(* The emitted cross-reference stream object: the strict reader's indirect-object parser returns its number, generation 0,
   the dictionary (/Type /XRef, /Length, /W [1 f1 f2], the trailer entries with /Size substituted, /ID), the data at the
   recorded position with exactly the written /Length (the LF before endstream is not counted), and the end of the object. *)
Lemma xs_xref_object_parses_lemma : forall d fuel total file off len_of tail, wf_doc d ->
  let L := xs_L d in
  at_off file off = xs_xref_object wm_unparse_string wm_unparse_name d L ++ tail ->
  (length (xs_xref_object wm_unparse_string wm_unparse_name d L) + 8 < fuel)%nat ->
  parse_indirect fuel total file off len_of
  = inl (Some {| so_num := xs_l_xref_id L; so_gen := 0; so_where := XInUse off 0; so_val := SpDict (xp_xref_dict d);
                 so_stream := Some (offset_of total (xp_xref_data L ++ [10] ++ s_endstream_kw ++ s_endobj ++ tail),
                                    N.of_nat (length (xp_xref_data L)));
                 so_end := offset_of total tail |}).
Proof.
  intros d fuel total file off len_of tail W L Hat Hfuel.
  destruct W as [Hc Hobjs Htr Hst Hsb Hver [Hid1 Hid2] [r [ir [Hroot [Hfr Hnn]]]] [zs Hsize] [Hnd [Hnoid Hdk]] Hnoprev Hnoxs].
  set (objs := d_objects d) in *. set (ren := xs_l_ren L).
  set (len := N.of_nat (length (xp_xref_data L))).
  set (ents := xp_xref_entries d len (xs_l_f1 L) (xs_l_f2 L) (xs_l_xref_id L + 1)).
  assert (Hsz : forall kv, In kv (d_trailer d) -> beqb (fst kv) k_Size = true -> is_null_val objs (snd kv) = false).
  { intros [k v] Hin Hk. cbn [fst snd] in *. apply beqb_eq in Hk. subst k.
    apply find_some in Hsize. destruct Hsize as [Hs _]. rewrite (nodup_key_unique _ _ _ _ _ _ Hnd Hin Hs). reflexivity. }
  pose proof (xp_xref_object_text d L Hsz) as Htxt. fold len in Htxt. fold ents in Htxt. fold ren in Htxt. fold objs in Htxt.
  (* positive renumbering on the printed references *)
  set (ren' := fun x => if ren x =? 0 then 1 else ren x).
  assert (Hext : forall x, In x (refs_of objs (ODict ents)) -> ren x = ren' x).
  { intros x Hx. assert (Hr : In x (roots_of d)).
    { unfold ents, xp_xref_entries in Hx. rewrite refs_of_dict_app in Hx. apply in_app_or in Hx. destruct Hx as [Hx | Hx].
      - cbn in Hx. contradiction.
      - apply (xp_trailer_refs_roots d r zs _ Hnd Hroot Hsize x Hx). }
    pose proof (xq_roots_numbered d x Hr) as Hp. unfold ren'. unfold ren, L. rewrite xs_L_eq. cbn [xs_l_ren].
    destruct (xs_renf d x =? 0) eqn:E; [apply N.eqb_eq in E; lia | reflexivity]. }
  destruct (ren_ext WUS WUN objs ren ren' (ODict ents) Hext) as [HU HP].
  assert (HG : flat_map (gd WUS WUN objs ren) ents = flat_map (gd WUS WUN objs ren') ents).
  { apply (dict_flat_inj (gd WUS WUN objs ren) (gd WUS WUN objs ren') ents). exact HU. }
  assert (HPd : pdict objs ren ents = pdict objs ren' ents).
  { change (SpDict (pdict objs ren ents) = SpDict (pdict objs ren' ents)) in HP. congruence. }
  assert (Hwf : Forall (wf_entry) ents).
  { unfold ents, xp_xref_entries. apply Forall_app. split.
    - repeat constructor; cbn; try (intros [H | H]; try discriminate; try contradiction; lia); try lia;
        try (repeat (intros [H|H]; [discriminate H|]); contradiction).
    - apply wf_dict in Htr. rewrite Forall_forall in Htr |- *. intros kv Hkv. apply in_map_iff in Hkv.
      destruct Hkv as [kv0 [<- Hkv0]]. specialize (Htr kv0 Hkv0). unfold xp_sub.
      destruct (beqb (fst kv0) k_Size); [split; [exact (proj1 Htr) | exact I] | exact Htr]. }
  set (T := [60; 60] ++ flat_map (gd WUS WUN objs ren) ents
            ++ [32; 47; 73; 68; 32; 91] ++ hexstr (d_id1 d) ++ hexstr (d_id2 d) ++ [93] ++ [32; 62; 62]) in *.
  set (data := xp_xref_data L) in *.
  assert (Hd : xp_xref_dict d = pdict objs ren ents ++ [xp_id_entry d]) by reflexivity.
  rewrite Hd.
  apply (xp_parse_indirect_stream fuel total file off len_of (xs_l_xref_id L) T _ data true tail).
  - cbv zeta. rewrite Hat, Htxt, <- !app_assoc. reflexivity.
  - cbv zeta. set (R := [115; 116; 114; 101; 97; 109; 10] ++ data ++ [10] ++ s_endstream_kw ++ s_endobj ++ tail).
    assert (ER : s_stream_kw ++ data ++ [10] ++ s_endstream_kw ++ s_endobj ++ tail = 10 :: R) by reflexivity.
    rewrite ER.
    assert (ET : T ++ 10 :: R = 60 :: 60 :: flat_map (gd WUS WUN objs ren') ents
                                ++ [32; 47; 73; 68; 32; 91] ++ hexstr (d_id1 d) ++ hexstr (d_id2 d) ++ [93] ++ [32; 62; 62; 10] ++ R).
    { unfold T. rewrite HG. repeat (rewrite <- app_assoc || (progress cbn [app])). reflexivity. }
    rewrite ET. rewrite <- parse_obj_sp. rewrite HPd.
    destruct fuel as [|f]; [lia|].
    unfold xp_id_entry.
    apply (trailer_dict_parses objs ren').
    + intros id. unfold ren'. destruct (ren id =? 0) eqn:E; [lia | apply N.eqb_neq in E; lia].
    + exact Hwf.
    + exact Hid1.
    + exact Hid2.
    + rewrite <- HG. rewrite Htxt in Hfuel. unfold T in Hfuel. rewrite !app_length in Hfuel. cbn [length] in Hfuel. lia.
  - unfold ents, xp_xref_entries. cbn [app pdict is_null_val snd fst to_pobj dict_get].
    change (beq n_Length xs_k_Type) with false. change (beq n_Length k_Length) with true. cbv iota. reflexivity.
Qed.
