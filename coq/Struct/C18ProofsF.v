(* C18 proofs, part 7: consequences of the attachment-job specification used as oracle for the CLI. *)
From QV Require Import Base.Bytes Struct.NNTreeModel Struct.NNTreeSpec Struct.AttachSpec Struct.C18Proofs Struct.C18ProofsD.
Local Open Scope Z_scope.

Lemma a_has_ins : forall k rid m, a_has k (sm_insert akey nn_scmp k rid m) = true.
Proof.
  intros. unfold a_has. rewrite (sm_at_insert_same akey nn_scmp nn_scmp_antisym). reflexivity.
Qed.

(* --add-attachment --replace: afterwards the key holds the new record *)
Lemma att_add_replace_lookup_lemma : forall k rid m m',
  att_job [] [(true, k, rid)] [] m = AttOk m' -> sm_at akey nn_scmp k m' = Some (k, rid).
Proof.
  intros k rid m m' H. unfold att_job in H. simpl in H. injection H as <-.
  apply (sm_at_insert_same akey nn_scmp nn_scmp_antisym).
Qed.

(* --add-attachment without --replace on an existing key is refused and names the key; so is the second
   of two additions of one new key in the same invocation *)
Lemma att_add_collision_refused_lemma : forall k r1 r2 m,
  (a_has k m = true -> att_job [] [(false, k, r1)] [] m = AttRefused [k]) /\
  (a_has k m = false -> att_job [] [(false, k, r1); (false, k, r2)] [] m = AttRefused [k]).
Proof.
  intros k r1 r2 m. split; intros H; unfold att_job; simpl; rewrite H; simpl.
  - reflexivity.
  - rewrite a_has_ins. reflexivity.
Qed.

(* two --copy-attachments-from sources of one invocation that carry the same (prefixed) key collide with
   EACH OTHER even when the destination does not have the key *)
Lemma att_copy_sources_collide_lemma : forall p k r1 r2 m,
  a_has (p ++ k) m = false ->
  att_job [] [] [(p, [(k, r1)]); (p, [(k, r2)])] m = AttRefused [p ++ k].
Proof.
  intros p k r1 r2 m H. unfold att_job. simpl. rewrite H. simpl. rewrite a_has_ins. reflexivity.
Qed.
