(* C03, object layer: simulation between the ISO object grammar (Obj/SynSpec.v, as the small-step machine of
   Obj/SynMachine.v) and the parser model (Obj/ParseModel.v): container stack, two-slot integer buffer for
   "n g R", driven by the tokenizer model through the lexical completeness theorem. *)
From QV Require Import Base.Bytes Lex.TokModel Lex.LexSpec Lex.TokInterp Lex.LexRun Lex.LexProofs Obj.SynSpec Obj.SynMachine Obj.ParseModel.
Local Open Scope N_scope.

(* ---- the model's objects as readings of the specification's ---- *)
Inductive R_obj : mobj -> sobj -> Prop :=
| Ro_null : R_obj MoNull SyNull
| Ro_bool b : R_obj (MoBool b) (SyBool b)
| Ro_int z : R_obj (MoInt z) (SyInt z)
| Ro_real t m k : real_of_text t = (m, k) -> R_obj (MoReal t) (SyReal m k)
| Ro_str s : R_obj (MoStr s) (SyStr s)
| Ro_name n : R_obj (MoName (47 :: n)) (SyName n)
| Ro_arr l l' : Forall2 R_obj l l' -> R_obj (MoArr l) (SyArr l')
| Ro_dict d acc : R_dict d acc -> R_obj (MoDict d) (SyDict (rev acc))
| Ro_ref i g : R_obj (MoRef i g) (SyRef i g)
(* d is the std::map obtained by inserting the entries acc (newest first), every key once *)
with R_dict : list (list N * mobj) -> list (list N * sobj) -> Prop :=
| Rd_nil : R_dict [] []
| Rd_put d acc k v sv : R_dict d acc -> R_obj v sv -> has_key k acc = false ->
                        R_dict (fst (map_put (47 :: k) v d)) ((k, sv) :: acc).

Lemma list_eqb_sym a b : list_eqb N.eqb a b = list_eqb N.eqb b a.
Proof.
  destruct (list_eqb N.eqb a b) eqn:E; destruct (list_eqb N.eqb b a) eqn:E2; try reflexivity.
  - apply list_eqb_N_eq in E. subst. assert (list_eqb N.eqb b b = true) by (apply list_eqb_N_eq; reflexivity). congruence.
  - apply list_eqb_N_eq in E2. subst. assert (list_eqb N.eqb a a = true) by (apply list_eqb_N_eq; reflexivity). congruence.
Qed.

Lemma map_has_put k' k v d : map_has k' (fst (map_put k v d)) = list_eqb N.eqb k' k || map_has k' d.
Proof.
  induction d as [|[k2 v2] d IH]; cbn [map_put fst map_has].
  - rewrite Bool.orb_false_r. reflexivity.
  - destruct (list_eqb N.eqb k k2) eqn:E.
    + cbn [fst map_has]. apply list_eqb_N_eq in E. subst k2. destruct (list_eqb N.eqb k' k); reflexivity.
    + destruct (bytes_ltb k k2).
      * cbn [fst map_has]. reflexivity.
      * destruct (map_put k v d) as [r ins] eqn:Ep. cbn [fst map_has] in *. rewrite IH.
        destruct (list_eqb N.eqb k' k), (list_eqb N.eqb k' k2); reflexivity.
Qed.

Lemma map_put_inserted k v d : map_has k d = false -> snd (map_put k v d) = true.
Proof.
  induction d as [|[k2 v2] d IH]; cbn [map_put snd map_has]; [reflexivity|].
  intros H. apply Bool.orb_false_iff in H. destruct H as [H1 H2]. rewrite H1.
  destruct (bytes_ltb k k2); [reflexivity|]. specialize (IH H2). destruct (map_put k v d). exact IH.
Qed.

Lemma R_dict_has d acc : R_dict d acc -> forall k, map_has (47 :: k) d = has_key k acc.
Proof.
  induction 1 as [|d acc k0 v sv Hd IH Hv Hk]; intros k; [reflexivity|].
  rewrite map_has_put. cbn [has_key]. rewrite IH. f_equal.
Qed.

(* ---- frames ---- *)
Definition Rframe (sf : sframe) (f : pframe) : Prop :=
  match sf with
  | SFArr acc => pf_state f = PF_array /\ Forall2 R_obj (pf_olist f) acc /\ pf_dict f = []
  | SFDictK acc => pf_state f = PF_dict_key /\ pf_olist f = [] /\ R_dict (pf_dict f) acc
  | SFDictV acc k => pf_state f = PF_dict_value /\ pf_olist f = [] /\ R_dict (pf_dict f) acc /\
                     pf_key f = 47 :: k /\ has_key k acc = false
  end.

Definition Rstack (s : list sframe) (ms : list pframe) : Prop := Forall2 Rframe s ms.

Definition fsize (f : pframe) : N := len (pf_olist f) + len (pf_dict f).
Definition ssize (ms : list pframe) : N := fold_right (fun f a => fsize f + a) 0 ms.

Lemma R_dict_len d acc : R_dict d acc -> len d = len acc.
Proof.
  induction 1 as [|d acc k0 v sv Hd IH Hv Hk]; [reflexivity|].
  assert (Hh : map_has (47 :: k0) d = false) by (rewrite (R_dict_has d acc Hd); exact Hk).
  clear Hv. unfold len in *. cbn [length]. rewrite Nat2N.inj_succ, <- IH. clear IH Hd Hk.
  induction d as [|[k2 v2] d IHd]; [reflexivity|].
  cbn [map_has] in Hh. apply Bool.orb_false_iff in Hh. destruct Hh as [H1 H2].
  cbn [map_put]. rewrite H1. destruct (bytes_ltb (47 :: k0) k2); [cbn; lia|].
  specialize (IHd H2). destruct (map_put (47 :: k0) v d) as [r ins]. cbn [fst length] in *. lia.
Qed.

(* adding a value to the top frame, in a value position, without hitting a duplicate *)
Lemma add_obj_value sf s f ms p isn v sv :
  ps_stack p = f :: ms -> Rframe sf f -> Rstack s ms -> R_obj v sv ->
  (match sf with SFDictK _ => False | _ => True end) ->
  exists f', add_obj false isn v p = (set_stack (f' :: ms) p, false) /\
             fsize f' = fsize f + 1 /\
             match deliver sv (sf :: s) [] with
             | SNext (sf' :: _) _ => Rframe sf' f'
             | _ => False
             end.
Proof.
  intros Hst Hf Hs Hv Hpos. unfold add_obj, cur_frame, set_frame. rewrite Hst.
  destruct sf as [acc|acc|acc k]; [|contradiction|].
  - destruct Hf as (H1 & H2 & H3). rewrite H1. cbn [deliver].
    eexists. split; [reflexivity|]. split.
    + unfold fsize. destruct isn; cbn [pf_olist pf_dict]; unfold len; cbn [length]; lia.
    + destruct isn; cbn; repeat split; try assumption; constructor; assumption.
  - destruct Hf as (H1 & H2 & H3 & H4 & H5). rewrite H1, H4.
    assert (Hh : map_has (47 :: k) (pf_dict f) = false) by (rewrite (R_dict_has _ _ H3); exact H5).
    pose proof (map_put_inserted (47 :: k) v (pf_dict f) Hh) as Hins.
    destruct (map_put (47 :: k) v (pf_dict f)) as [d' ins] eqn:Ep. cbn [snd] in Hins. subst ins.
    cbn [deliver]. eexists. split; [reflexivity|]. split.
    + unfold fsize. pose proof (R_dict_len _ _ (Rd_put _ _ k v sv H3 Hv H5)) as L. rewrite Ep in L. cbn [fst] in L.
      pose proof (R_dict_len _ _ H3) as L0.
      destruct isn; cbn [pf_olist pf_dict]; rewrite H2; unfold len in *; cbn [length] in *; lia.
    + pose proof (Rd_put _ _ k v sv H3 Hv H5) as Hd. rewrite Ep in Hd. cbn [fst] in Hd.
      destruct isn; cbn; repeat split; assumption.
Qed.

(* ---- pending integers (the two-slot buffer) ---- *)
Definition pend (p : pstate) : list Z :=
  if ps_int_count p =? 0 then []
  else if ps_int_count p =? 1 then [int_slot p 1]
  else [int_slot p (ps_int_count p - 1); int_slot p (ps_int_count p)].

Definition is_open (t : ptoken) : bool := match t with PArrOpen | PDictOpen => true | _ => false end.
Definition opens (ts : list ptoken) : N := len (filter is_open ts).

Definition in_ll (z : Z) : bool := ((-9223372036854775808 <=? z) && (z <=? 9223372036854775807))%Z.
Definition ints_ok (ts : list ptoken) : Prop :=
  Forall (fun t => match t with PInt z => in_ll z = true | _ => True end) ts.
Fixpoint refs_ok (ts : list ptoken) : bool :=
  match ts with
  | [] => true
  | PInt n :: r =>
      match r with
      | PInt g :: PKeyword w :: _ => if list_eqb N.eqb w kw_R then (n <=? 2147483647)%Z && (g <? 65535)%Z else true
      | _ => true
      end && refs_ok r
  | _ :: r => refs_ok r
  end.

Lemma refs_ok_tail t ts : refs_ok (t :: ts) = true -> refs_ok ts = true.
Proof. destruct t; cbn [refs_ok]; try (intros H; exact H). intros H. apply andb_true_iff in H. tauto. Qed.

Record Inv (s : list sframe) (ts : list ptoken) (p : pstate) : Prop := mkInv {
  inv_stack : Rstack s (ps_stack p);
  inv_warn : ps_warn p = [];
  inv_bad : ps_bad p = 0%Z;
  inv_size : ssize (ps_stack p) + len (pend p) + len ts < 4294967295;
  inv_nest : len (ps_stack p) + opens ts <= 500 }.

(* a run of integer tokens alone never completes an object *)
Lemma sm_ints_stuck : forall l s o ts', sm_done (SNext s (map PInt l)) o ts' -> False.
Proof.
  induction l as [|a l IH]; intros s o ts' H; inversion H as [|? ? ? ? H1]; subst; clear H.
  - destruct s as [|[acc|acc|acc k] s']; cbn in H1; inversion H1.
  - destruct s as [|[acc|acc|acc k] s']; cbn [map sm_step] in H1; try (inversion H1; fail).
    + destruct l as [|b [|c l']]; cbn [map sm_value deliver] in H1; eapply IH; exact H1.
    + destruct l as [|b [|c l']]; cbn [map sm_value deliver] in H1; eapply IH; exact H1.
Qed.

(* ---- what tok_interp = Some _ says about the model token ---- *)
Lemma interp_inv tok pt : tok_interp tok = Some pt ->
  tok_err tok = TE_none /\
  match pt with
  | PArrOpen => tok_type tok = TT_array_open
  | PArrClose => tok_type tok = TT_array_close
  | PDictOpen => tok_type tok = TT_dict_open
  | PDictClose => tok_type tok = TT_dict_close
  | PBraceOpen => tok_type tok = TT_brace_open
  | PBraceClose => tok_type tok = TT_brace_close
  | PInt z => tok_type tok = TT_integer /\ int_of_text (tok_value tok) = z
  | PReal m k => tok_type tok = TT_real /\ real_of_text (tok_value tok) = (m, k)
  | PStr s => tok_type tok = TT_string /\ tok_value tok = s
  | PName n => tok_type tok = TT_name /\ tok_value tok = 47 :: n
  | PBool b => tok_type tok = TT_bool /\ list_eqb N.eqb (tok_value tok) str_true = b
  | PNull => tok_type tok = TT_null
  | PKeyword w => tok_type tok = TT_word /\ tok_value tok = w
  end.
Proof.
  intros H. pose proof H as H0. unfold tok_interp in H.
  destruct (tok_err tok) eqn:Ee; cbn [terr_is_none negb] in H; try discriminate. split; [reflexivity|].
  destruct (tok_type tok) eqn:Et; try discriminate; try (injection H as <-; auto; fail).
  - destruct (tok_value tok) as [|c n]; [discriminate|]. destruct (c =? 47) eqn:Ec; [|discriminate].
    apply N.eqb_eq in Ec. subst c. injection H as <-. auto.
  - destruct (real_of_text (tok_value tok)) as [m k]. injection H as <-. auto.
Qed.

Ltac Zify.zify_post_hook ::= Z.to_euclidean_division_equations.

Lemma par_succ n : (n + 1) mod 2 = 1 - n mod 2.
Proof. lia. Qed.
Lemma par_pred n : 1 <= n -> (n - 1) mod 2 = 1 - n mod 2.
Proof. intros H. lia. Qed.

Lemma slot_par p c c' : c mod 2 = c' mod 2 -> int_slot p c = int_slot p c'.
Proof. unfold int_slot. intros ->. reflexivity. Qed.

Definition valpos (sf : sframe) : Prop := match sf with SFDictK _ => False | _ => True end.

Lemma deliver_sim sf s p v sv isn TS :
  Rstack (sf :: s) (ps_stack p) -> valpos sf -> R_obj v sv ->
  exists f ms f' sf', ps_stack p = f :: ms /\
    deliver sv (sf :: s) TS = SNext (sf' :: s) TS /\
    add_obj false isn v p = (set_stack (f' :: ms) p, false) /\
    Rstack (sf' :: s) (f' :: ms) /\ fsize f' = fsize f + 1.
Proof.
  intros Hst Hpos Hv. unfold Rstack in Hst. inversion Hst as [|? f ? ms Hf Hs Heq1 Heq2]. subst.
  symmetry in Heq2.
  destruct (add_obj_value sf s f ms p isn v sv Heq2 Hf Hs Hv) as (f' & Ha & Hsz & Hd).
  { destruct sf; try exact I. contradiction. }
  destruct sf as [acc|acc|acc k]; [|contradiction|]; cbn [deliver] in *.
  - exists f, ms, f', (SFArr (sv :: acc)). repeat split; try assumption. constructor; assumption.
  - exists f, ms, f', (SFDictK ((k, sv) :: acc)). repeat split; try assumption. constructor; assumption.
Qed.

Lemma ssize_cons f ms : ssize (f :: ms) = fsize f + ssize ms.
Proof. reflexivity. Qed.

(* ---- specification machine: committing a pending integer ---- *)
Definition not_ref_ahead (r : list ptoken) : Prop :=
  match r with PInt _ :: PKeyword w :: _ => list_eqb N.eqb w kw_R = false | _ => True end.

Lemma sm_commit s a r o ts' : sm_done (SNext s (PInt a :: r)) o ts' -> not_ref_ahead r ->
  exists sf s', s = sf :: s' /\ valpos sf /\ sm_done (deliver (SyInt a) s r) o ts'.
Proof.
  intros H Hn. inversion H as [|? ? ? ? H1]; subst; clear H.
  assert (Hv : sm_value s (PInt a :: r) = deliver (SyInt a) s r).
  { cbn [sm_value]. destruct r as [|t2 r2]; [reflexivity|]. destruct t2; try reflexivity.
    destruct r2 as [|t3 r3]; [reflexivity|]. destruct t3; try reflexivity.
    cbn in Hn. rewrite Hn. reflexivity. }
  destruct s as [|[acc|acc|acc k] s']; cbn [sm_step] in H1.
  - inversion H1.
  - rewrite Hv in H1. exists (SFArr acc), s'. repeat split; assumption.
  - inversion H1.
  - rewrite Hv in H1. exists (SFDictV acc k), s'. repeat split; assumption.
Qed.

Lemma sm_done_next_inv s ts o ts' : sm_done (SNext s ts) o ts' -> sm_done (sm_step s ts) o ts'.
Proof. intros H. inversion H; subst; assumption. Qed.

Lemma sm_done_fail o ts' : sm_done SFail o ts' -> False.
Proof. intros H. inversion H. Qed.

(* ---- model: committing a pending integer ---- *)
Lemma model_commit sf s p c a TS :
  Rstack (sf :: s) (ps_stack p) -> valpos sf -> int_slot p c = a ->
  exists f ms f' sf', ps_stack p = f :: ms /\
    deliver (SyInt a) (sf :: s) TS = SNext (sf' :: s) TS /\
    add_int false c p = (set_stack (f' :: ms) p, false) /\
    Rstack (sf' :: s) (f' :: ms) /\ fsize f' = fsize f + 1.
Proof.
  intros Hst Hpos Ha. unfold add_int. rewrite Ha. apply deliver_sim; try assumption. constructor.
Qed.

Lemma text_to_ll_ok s z : int_of_text s = z -> in_ll z = true -> text_to_ll s = Some z.
Proof.
  unfold int_of_text, text_to_ll, text_sign, in_ll. intros H R.
  destruct s as [|b r].
  - cbn in *. subst z. reflexivity.
  - destruct (b =? 45); [rewrite H, R; reflexivity|]. destruct (b =? 43); rewrite H, R; reflexivity.
Qed.

Record Inv2 (s : list sframe) (ts : list ptoken) (p : pstate) : Prop := mkInv2 {
  inv2_inv : Inv s ts p;
  inv2_ints : ints_ok (map PInt (pend p) ++ ts);
  inv2_refs : refs_ok (map PInt (pend p) ++ ts) = true }.

Definition step_ok (ts1 : list ptoken) (r : pstep) (o : sobj) (ts' : list ptoken) : Prop :=
  (exists s' p', r = PS_continue p' /\ Inv2 s' ts1 p' /\ sm_done (SNext s' (map PInt (pend p') ++ ts1)) o ts') \/
  (exists p' o', r = PS_return p' (Some o') /\ ps_warn p' = [] /\ R_obj o' o /\ ts' = ts1).

Lemma len_cons {A} (x : A) l : len (x :: l) = len l + 1.
Proof. unfold len. cbn [length]. lia. Qed.

Lemma opens_cons t ts : opens (t :: ts) = (if is_open t then 1 else 0) + opens ts.
Proof. unfold opens. cbn [filter]. destruct (is_open t); [rewrite len_cons; lia|lia]. Qed.

Lemma len_nil {A} : len (@nil A) = 0.
Proof. reflexivity. Qed.
Lemma pend0 stk i0 i1 b g m w : pend (mkPstate stk 0 i0 i1 b g m w) = [].
Proof. reflexivity. Qed.
Lemma pend1 stk i0 i1 b g m w : pend (mkPstate stk 1 i0 i1 b g m w) = [i1].
Proof. reflexivity. Qed.
Lemma pend2 stk ic i0 i1 b g m w : (ic =? 0) = false -> (ic =? 1) = false ->
  pend (mkPstate stk ic i0 i1 b g m w) =
  [int_slot (mkPstate stk ic i0 i1 b g m w) (ic - 1); int_slot (mkPstate stk ic i0 i1 b g m w) ic].
Proof. intros A B. unfold pend. cbn [ps_int_count]. rewrite A, B. reflexivity. Qed.
Global Opaque len.

Ltac pnorm := cbv beta iota zeta delta [set_counts set_ints set_stack pwarnp ps_stack ps_int_count ps_int0 ps_int1 ps_bad ps_good
  ps_max_bad ps_warn].

Lemma step_int s z ts1 p T o ts' :
  Inv2 s (PInt z :: ts1) p -> tok_interp T = Some (PInt z) ->
  sm_done (SNext s (map PInt (pend p) ++ PInt z :: ts1)) o ts' ->
  step_ok ts1 (remainder_step false false T p) o ts'.
Proof.
  intros [[Hst Hw Hb Hsz Hn] Hi Hr] HT Hd.
  destruct (interp_inv T _ HT) as (He & Hty & Hval).
  assert (Hz : in_ll z = true).
  { unfold ints_ok in Hi. apply Forall_app in Hi. destruct Hi as [_ Hi]. inversion Hi; subst. assumption. }
  pose proof (text_to_ll_ok _ _ Hval Hz) as Htl.
  destruct p as [stk ic i0 i1 bad good mx warn]. cbn [ps_stack ps_warn ps_bad] in *. subst warn bad.
  unfold remainder_step. pnorm.
  rewrite opens_cons in Hn. cbn [is_open] in Hn. rewrite len_cons in Hsz.
  destruct (ic =? 0) eqn:E0.
  - (* nothing pending *)
    apply N.eqb_eq in E0. subst ic. cbn [negb]. unfold remainder_switch. rewrite Hty, Htl.
    rewrite pend0 in *. cbn [map app] in *. rewrite len_nil in Hsz.
    left. exists s. eexists. split; [reflexivity|].
    pnorm.
    split; [split; [split|..]|]; pnorm; rewrite ?pend1; cbn [map app]; try assumption; try reflexivity.
    rewrite len_cons, len_nil. lia.
  - cbn [negb]. rewrite Hty.
    destruct (ic =? 1) eqn:E1.
    + (* one pending *)
      apply N.eqb_eq in E1. subst ic. change (2 <? 1 + 1) with false. cbv iota. pnorm. rewrite Htl.
      rewrite pend1 in *. cbn [map app] in *. rewrite len_cons, len_nil in Hsz.
      left. exists s. eexists. split; [reflexivity|].
      change (put_slot (1 + 1) z ?p) with (set_ints (ps_int_count p) z (ps_int1 p) p) at 1.
      unfold put_slot. change ((1 + 1) mod 2 =? 0) with true. cbv iota. pnorm. change (1 + 1) with 2.
      assert (Hp : forall stk b g m w, pend (mkPstate stk 2 z i1 b g m w) = [i1; z]) by reflexivity.
      split; [split; [split|..]|]; pnorm; rewrite ?Hp; cbn [map app]; try assumption; try reflexivity.
      rewrite !len_cons, len_nil. lia.
    + (* two pending: the older one is committed *)
      apply N.eqb_neq in E0, E1.
      replace (2 <? ic + 1) with true by (symmetry; apply N.ltb_lt; lia). cbv iota.
      rewrite pend2 in * by (apply N.eqb_neq; assumption).
      set (p1 := {| ps_stack := stk; ps_int_count := ic + 1; ps_int0 := i0; ps_int1 := i1; ps_bad := 0;
                    ps_good := (good + 1)%Z; ps_max_bad := mx; ps_warn := [] |}).
      set (a := int_slot {| ps_stack := stk; ps_int_count := ic; ps_int0 := i0; ps_int1 := i1; ps_bad := 0;
                            ps_good := good; ps_max_bad := mx; ps_warn := [] |} (ic - 1)) in *.
      set (b := int_slot {| ps_stack := stk; ps_int_count := ic; ps_int0 := i0; ps_int1 := i1; ps_bad := 0;
                            ps_good := good; ps_max_bad := mx; ps_warn := [] |} ic) in *.
      cbn [map app] in *.
      destruct (sm_commit _ _ _ _ _ Hd I) as (sf & s' & -> & Hpos & Hd1).
      assert (Ha : int_slot p1 (ic + 1) = a).
      { unfold a, int_slot, p1. cbn [ps_int0 ps_int1]. rewrite par_succ, par_pred by lia. reflexivity. }
      destruct (model_commit sf s' p1 (ic + 1) a (PInt b :: PInt z :: ts1) Hst Hpos Ha) as (f & ms & f' & sf' & Hstk & Hdel & Hadd & Hst' & Hfs).
      rewrite Hadd. rewrite Htl. rewrite Hdel in Hd1.
      left. exists (sf' :: s'). eexists. split; [reflexivity|].
      assert (Hpend : pend (put_slot (ic + 1) z (set_stack (f' :: ms) p1)) = [b; z]).
      { unfold pend, put_slot, set_stack, p1, set_ints. cbn [ps_int_count ps_int0 ps_int1 ps_stack ps_bad ps_good ps_max_bad ps_warn].
        assert (X : ic + 1 - 1 = ic) by lia.
        destruct ((ic + 1) mod 2 =? 0) eqn:Ep; cbn [ps_int_count];
          (replace (ic + 1 =? 0) with false by (symmetry; apply N.eqb_neq; lia));
          (replace (ic + 1 =? 1) with false by (symmetry; apply N.eqb_neq; lia));
          unfold int_slot; cbn [ps_int0 ps_int1]; rewrite X, Ep; unfold b, int_slot; cbn [ps_int0 ps_int1].
        - apply N.eqb_eq in Ep. rewrite par_succ in Ep. replace (ic mod 2 =? 0) with false by (symmetry; apply N.eqb_neq; lia). reflexivity.
        - apply N.eqb_neq in Ep. rewrite par_succ in Ep. replace (ic mod 2 =? 0) with true by (symmetry; apply N.eqb_eq; lia). reflexivity. }
      assert (Hstack : ps_stack (put_slot (ic + 1) z (set_stack (f' :: ms) p1)) = f' :: ms).
      { unfold put_slot. destruct ((ic + 1) mod 2 =? 0); reflexivity. }
      assert (Hwarn : ps_warn (put_slot (ic + 1) z (set_stack (f' :: ms) p1)) = [] /\ ps_bad (put_slot (ic + 1) z (set_stack (f' :: ms) p1)) = 0%Z).
      { unfold put_slot. destruct ((ic + 1) mod 2 =? 0); split; reflexivity. }
      unfold p1 in Hstk. cbn [ps_stack] in Hstk. subst stk.
      split; [split; [split|..]|]; rewrite ?Hpend, ?Hstack; cbn [map app]; try tauto;
        try (rewrite ?ssize_cons in *; rewrite ?len_cons, ?len_nil in *; lia);
        try (inversion Hi; assumption); try (apply refs_ok_tail in Hr; exact Hr).
Qed.

Definition plain_tok (x : ptoken) : Prop := match x with PInt _ | PKeyword _ => False | _ => True end.

Lemma not_ref_ahead_plain x r : plain_tok x -> not_ref_ahead (x :: r).
Proof. destruct x; cbn; auto; contradiction. Qed.
Lemma not_ref_ahead_int_plain b x r : plain_tok x -> not_ref_ahead (PInt b :: x :: r).
Proof. destruct x; cbn; auto; contradiction. Qed.

Lemma plain_type T x : tok_interp T = Some x -> plain_tok x ->
  tok_type T <> TT_integer /\ is_word_R T = false.
Proof.
  intros H Hp. destruct (interp_inv T x H) as (_ & Hx). unfold is_word_R.
  destruct x; try contradiction; cbn in Hx;
    first [ rewrite Hx; split; [discriminate|reflexivity]
          | rewrite (proj1 Hx); split; [discriminate|reflexivity] ].
Qed.

(* the pending integers are committed before a token that is neither an integer nor a keyword *)
Lemma flush_sim s x ts1 p T o ts' :
  Inv2 s (x :: ts1) p -> tok_interp T = Some x -> plain_tok x ->
  sm_done (SNext s (map PInt (pend p) ++ x :: ts1)) o ts' ->
  exists s1 p1, remainder_step false false T p = remainder_switch false false T p1 /\
                Inv2 s1 (x :: ts1) p1 /\ ps_int_count p1 = 0 /\ sm_done (SNext s1 (x :: ts1)) o ts'.
Proof.
  intros [[Hst Hw Hb Hsz Hn] Hi Hr] HT Hpl Hd.
  destruct (plain_type T x HT Hpl) as [Hty HR].
  destruct p as [stk ic i0 i1 bad good mx warn]. cbn [ps_stack ps_warn ps_bad] in *. subst warn bad.
  unfold remainder_step. pnorm.
  destruct (ic =? 0) eqn:E0.
  - apply N.eqb_eq in E0. subst ic. cbn [negb]. rewrite pend0 in *. cbn [map app] in *.
    exists s. eexists. split; [reflexivity|]. split; [|split; [reflexivity|exact Hd]].
    split; [split|..]; pnorm; rewrite ?pend0; cbn [map app]; try assumption; try reflexivity.
  - cbn [negb]. rewrite HR, Bool.andb_false_r.
    assert (Hm : forall (A : Type) (a b : A), match tok_type T with TT_integer => a | _ => b end = b).
    { intros A a0 b0. destruct (tok_type T); try reflexivity. contradiction. }
    rewrite Hm. clear Hm.
    destruct (ic =? 1) eqn:E1.
    + apply N.eqb_eq in E1. subst ic. change (1 <? 1) with false. cbv iota.
      rewrite pend1 in *. cbn [map app] in *.
      destruct (sm_commit _ _ _ _ _ Hd (not_ref_ahead_plain x ts1 Hpl)) as (sf & s' & -> & Hpos & Hd1).
      set (p1 := {| ps_stack := stk; ps_int_count := 1; ps_int0 := i0; ps_int1 := i1; ps_bad := 0;
                    ps_good := (good + 1)%Z; ps_max_bad := mx; ps_warn := [] |}).
      destruct (model_commit sf s' p1 1 i1 (x :: ts1) Hst Hpos eq_refl) as (f & ms & f' & sf' & Hstk & Hdel & Hadd & Hst' & Hfs).
      rewrite Hadd. cbv iota. rewrite Hdel in Hd1.
      unfold p1 in Hstk. cbn [ps_stack] in Hstk. subst stk.
      exists (sf' :: s'). eexists. split; [reflexivity|]. split; [|split; [reflexivity|exact Hd1]].
      unfold p1. pnorm.
      split; [split|..]; pnorm; rewrite ?pend0; cbn [map app]; try assumption; try reflexivity;
        try (rewrite ?ssize_cons in *; rewrite ?len_cons, ?len_nil in *; lia);
        try (inversion Hi; assumption); try (apply refs_ok_tail in Hr; exact Hr).
    + apply N.eqb_neq in E0, E1.
      replace (1 <? ic) with true by (symmetry; apply N.ltb_lt; lia). cbv iota.
      rewrite pend2 in * by (apply N.eqb_neq; assumption).
      set (p1 := {| ps_stack := stk; ps_int_count := ic; ps_int0 := i0; ps_int1 := i1; ps_bad := 0;
                    ps_good := (good + 1)%Z; ps_max_bad := mx; ps_warn := [] |}).
      set (a := int_slot {| ps_stack := stk; ps_int_count := ic; ps_int0 := i0; ps_int1 := i1; ps_bad := 0;
                            ps_good := good; ps_max_bad := mx; ps_warn := [] |} (ic - 1)) in *.
      set (b := int_slot {| ps_stack := stk; ps_int_count := ic; ps_int0 := i0; ps_int1 := i1; ps_bad := 0;
                            ps_good := good; ps_max_bad := mx; ps_warn := [] |} ic) in *.
      cbn [map app] in *.
      destruct (sm_commit _ _ _ _ _ Hd (not_ref_ahead_int_plain b x ts1 Hpl)) as (sf & s' & -> & Hpos & Hd1).
      destruct (model_commit sf s' p1 (ic - 1) a (PInt b :: x :: ts1) Hst Hpos eq_refl) as (f & ms & f' & sf' & Hstk & Hdel & Hadd & Hst' & Hfs).
      rewrite Hadd. cbv iota. rewrite Hdel in Hd1.
      destruct (sm_commit _ _ _ _ _ Hd1 (not_ref_ahead_plain x ts1 Hpl)) as (sf2 & s2 & Heq & Hpos2 & Hd2).
      injection Heq as <- <-.
      assert (Hst2 : Rstack (sf' :: s') (ps_stack (set_stack (f' :: ms) p1))) by exact Hst'.
      destruct (model_commit sf' s' (set_stack (f' :: ms) p1) ic b (x :: ts1) Hst2 Hpos2 eq_refl)
        as (f2 & ms2 & f2' & sf2' & Hstk2 & Hdel2 & Hadd2 & Hst2' & Hfs2).
      rewrite Hadd2. cbv iota. rewrite Hdel2 in Hd2.
      cbn [set_stack ps_stack] in Hstk2. injection Hstk2 as <- <-.
      unfold p1 in Hstk. cbn [ps_stack] in Hstk. subst stk.
      exists (sf2' :: s'). eexists. split; [reflexivity|]. split; [|split; [reflexivity|exact Hd2]].
      unfold p1. pnorm.
      split; [split|..]; pnorm; rewrite ?pend0; cbn [map app]; try assumption; try reflexivity;
        try (rewrite ?ssize_cons in *; rewrite ?len_cons, ?len_nil in *; lia);
        try (inversion Hi as [|? ? ? Hi2]; inversion Hi2; assumption);
        try (apply refs_ok_tail in Hr; apply refs_ok_tail in Hr; exact Hr).
Qed.

Lemma pend_ic0 p : ps_int_count p = 0 -> pend p = [].
Proof. intros H. unfold pend. rewrite H. reflexivity. Qed.

Lemma fsize_le_ssize f ms : fsize f <= ssize (f :: ms).
Proof. rewrite ssize_cons. lia. Qed.

(* delivering a value into the top frame: the model's add_obj / add_scalar *)
Lemma value_sim sf s' x ts1 p v sv isn o ts' :
  Inv2 (sf :: s') (x :: ts1) p -> ps_int_count p = 0 -> valpos sf -> R_obj v sv -> is_open x = false ->
  sm_done (deliver sv (sf :: s') ts1) o ts' ->
  step_ok ts1 (step_of (add_obj false isn v p)) o ts' /\ step_ok ts1 (add_scalar false v p) o ts'.
Proof.
  intros [[Hst Hw Hb Hsz Hn] Hi Hr] Hic Hpos Hv Hop Hd.
  destruct (deliver_sim sf s' p v sv isn ts1 Hst Hpos Hv) as (f & ms & f' & sf' & Hstk & Hdel & Hadd & Hst' & Hfs).
  rewrite Hdel in Hd. rewrite (pend_ic0 p Hic) in *. cbn [map app] in *. rewrite len_nil in Hsz.
  rewrite opens_cons, Hop in Hn. rewrite len_cons in Hsz.
  assert (Hok : step_ok ts1 (step_of (add_obj false isn v p)) o ts').
  { rewrite Hadd. cbn [step_of]. left. exists (sf' :: s'). eexists. split; [reflexivity|].
    assert (Hp0 : pend (set_stack (f' :: ms) p) = []) by (apply pend_ic0; exact Hic).
    split; [split; [split|..]|]; rewrite ?Hp0; cbn [map app]; cbn [set_stack ps_stack ps_warn ps_bad]; try assumption.
    - rewrite Hstk in Hsz. rewrite ssize_cons in *. rewrite len_nil. lia.
    - rewrite Hstk in Hn. rewrite len_cons in *. lia.
    - inversion Hi; assumption.
    - apply refs_ok_tail in Hr. exact Hr. }
  split; [exact Hok|].
  unfold add_scalar. rewrite Hb. cbn [Z.eqb negb orb].
  unfold cur_frame. rewrite Hstk.
  assert (Hlim : (parser_max_container <=? len (pf_olist f)) || (parser_max_container <=? len (pf_dict f)) = false).
  { rewrite Hstk in Hsz. pose proof (fsize_le_ssize f ms). unfold fsize in *. unfold parser_max_container.
    apply Bool.orb_false_iff. split; apply N.leb_gt; lia. }
  rewrite Hlim.
  (* add_obj with is_null = false behaves like with any flag except for the null counter *)
  destruct (deliver_sim sf s' p v sv false ts1 Hst Hpos Hv) as (f0 & ms0 & f0' & sf0' & Hstk0 & Hdel0 & Hadd0 & Hst0' & Hfs0).
  rewrite Hadd0. cbn [step_of]. rewrite Hstk in Hstk0. injection Hstk0 as <- <-.
  rewrite Hdel in Hdel0. injection Hdel0 as <-.
  left. exists (sf' :: s'). eexists. split; [reflexivity|].
  assert (Hp0 : pend (set_stack (f0' :: ms) p) = []) by (apply pend_ic0; exact Hic).
  split; [split; [split|..]|]; rewrite ?Hp0; cbn [map app]; cbn [set_stack ps_stack ps_warn ps_bad]; try assumption.
  - rewrite Hstk in Hsz. rewrite ssize_cons in *. rewrite len_nil. lia.
  - rewrite Hstk in Hn. rewrite len_cons in *. lia.
  - inversion Hi; assumption.
  - apply refs_ok_tail in Hr. exact Hr.
Qed.

Lemma Forall2_rev' {A B} (R : A -> B -> Prop) l l' : Forall2 R l l' -> Forall2 R (rev' l) (rev' l').
Proof.
  rewrite !rev'_rev. induction 1; cbn [rev]; [constructor|]. apply Forall2_app; [assumption|]. constructor; [assumption|constructor].
Qed.

(* closing a container *)
Lemma close_sim sf s' f ms x ts1 p v sv o ts' :
  Inv2 (sf :: s') (x :: ts1) p -> ps_int_count p = 0 -> ps_stack p = f :: ms -> R_obj v sv -> is_open x = false ->
  sm_done (deliver sv s' ts1) o ts' ->
  step_ok ts1 (close_container false v p) o ts'.
Proof.
  intros HI Hic Hstk Hv Hop Hd. pose proof HI as [[Hst Hw Hb Hsz Hn] Hi Hr].
  unfold close_container. rewrite Hstk.
  rewrite Hstk in Hst. inversion Hst as [|? ? ? ? Hf Hs']; subst.
  destruct s' as [|sf2 s''].
  - inversion Hs'; subst. cbn [deliver] in Hd. inversion Hd; subst.
    right. exists p, v. repeat split; assumption.
  - inversion Hs' as [|? f2 ? ms2 Hf2 Hs'']; subst.
    assert (Hpos2 : valpos sf2).
    { destruct sf2; try exact I. cbn [deliver] in Hd. inversion Hd. }
    assert (HI2 : Inv2 (sf2 :: s'') (x :: ts1) (set_stack (f2 :: ms2) p)).
    { assert (Hp0 : pend (set_stack (f2 :: ms2) p) = pend p) by reflexivity.
      split; [split|..]; rewrite ?Hp0; cbn [set_stack ps_stack ps_warn ps_bad]; try assumption.
      - rewrite Hstk, ssize_cons in Hsz. lia.
      - rewrite Hstk, len_cons in Hn. rewrite len_cons in *. lia. }
    destruct (value_sim sf2 s'' x ts1 (set_stack (f2 :: ms2) p) v sv false o ts' HI2 Hic Hpos2 Hv Hop Hd) as [Hok _].
    exact Hok.
Qed.

Ltac inv_close Hi Hr Hsz Hn :=
  try assumption;
  try (rewrite ?ssize_cons in *; unfold fsize in *; cbn [pf_olist pf_dict] in *;
       rewrite ?len_cons, ?(@len_nil Z), ?(@len_nil mobj), ?(@len_nil (list N * mobj)), ?opens_cons in *; cbn [is_open] in *; lia);
  try (inversion Hi; assumption); try (apply refs_ok_tail in Hr; exact Hr).

Lemma switch_sim s x ts1 p T o ts' :
  Inv2 s (x :: ts1) p -> ps_int_count p = 0 -> tok_interp T = Some x -> plain_tok x ->
  sm_done (SNext s (x :: ts1)) o ts' ->
  step_ok ts1 (remainder_switch false false T p) o ts'.
Proof.
  intros HI Hic HT Hpl Hd. pose proof HI as [[Hst Hw Hb Hsz Hn] Hi Hr].
  destruct (interp_inv T x HT) as (He & Hx).
  apply sm_done_next_inv in Hd.
  unfold remainder_switch.
  destruct s as [|sf s']; [cbn in Hd; inversion Hd|].
  pose proof Hst as Hst0. inversion Hst0 as [|? f ? ms Hf Hs' Heq1 Heq2]. subst. symmetry in Heq2.
  unfold cur_frame. rewrite Heq2. rewrite Heq2 in Hn, Hsz.
  rewrite (pend_ic0 p Hic) in *. cbn [map app] in *.
  destruct x; try contradiction; cbn [plain_tok] in *.
  - (* [ *)
    rewrite Hx.
    assert (Hv : sm_step (sf :: s') (PArrOpen :: ts1) = SNext (SFArr [] :: sf :: s') ts1 /\ valpos sf).
    { destruct sf; cbn [sm_step sm_value] in *; try (split; [reflexivity|exact I]). inversion Hd. }
    destruct Hv as [Hv Hpos]. rewrite Hv in Hd.
    rewrite opens_cons in Hn. cbn [is_open] in Hn.
    replace (parser_max_nesting <? len (f :: ms)) with false by (symmetry; apply N.ltb_ge; unfold parser_max_nesting; lia).
    left. exists (SFArr [] :: sf :: s'). eexists. split; [reflexivity|].
    assert (Hp0 : forall X, pend (set_stack X p) = []) by (intros; apply pend_ic0; exact Hic).
    split; [split; [split|..]|]; rewrite ?Hp0; cbn [map app]; cbn [set_stack ps_stack ps_warn ps_bad]; try assumption.
    all: inv_close Hi Hr Hsz Hn.
    constructor; [|rewrite <- Heq2; exact Hst]. cbn. repeat split; constructor.
  - (* ] *)
    rewrite Hx.
    destruct sf as [acc|acc|acc k]; cbn [sm_step sm_value] in Hd; try (inversion Hd; fail).
    destruct Hf as (Hfs & Hfo & Hfd). rewrite Hfs.
    apply (close_sim (SFArr acc) s' f ms PArrClose ts1 p _ (SyArr (rev' acc))); try assumption; try reflexivity.
    constructor. apply Forall2_rev'. exact Hfo.
  - (* << *)
    rewrite Hx.
    assert (Hv : sm_step (sf :: s') (PDictOpen :: ts1) = SNext (SFDictK [] :: sf :: s') ts1 /\ valpos sf).
    { destruct sf; cbn [sm_step sm_value] in *; try (split; [reflexivity|exact I]). inversion Hd. }
    destruct Hv as [Hv Hpos]. rewrite Hv in Hd.
    rewrite opens_cons in Hn. cbn [is_open] in Hn.
    replace (parser_max_nesting <? len (f :: ms)) with false by (symmetry; apply N.ltb_ge; unfold parser_max_nesting; lia).
    left. exists (SFDictK [] :: sf :: s'). eexists. split; [reflexivity|].
    assert (Hp0 : forall X, pend (set_stack X p) = []) by (intros; apply pend_ic0; exact Hic).
    split; [split; [split|..]|]; rewrite ?Hp0; cbn [map app]; cbn [set_stack ps_stack ps_warn ps_bad]; try assumption.
    all: inv_close Hi Hr Hsz Hn.
    constructor; [|rewrite <- Heq2; exact Hst]. cbn. repeat split; constructor.
  - (* >> *)
    rewrite Hx.
    destruct sf as [acc|acc|acc k]; cbn [sm_step sm_value] in Hd; try (inversion Hd; fail).
    destruct Hf as (Hfs & Hfo & Hfd). rewrite Hfs, Hfo.
    apply (close_sim (SFDictK acc) s' f ms PDictClose ts1 p _ (SyDict (rev' acc))); try assumption; try reflexivity.
    rewrite rev'_rev. constructor. exact Hfd.
  - (* { *) destruct sf; cbn [sm_step sm_value] in Hd; inversion Hd.
  - (* } *) destruct sf; cbn [sm_step sm_value] in Hd; inversion Hd.
  - (* real *)
    destruct Hx as [Hx Hrv]. rewrite Hx.
    assert (Hv : sm_step (sf :: s') (PReal mant scale :: ts1) = deliver (SyReal mant scale) (sf :: s') ts1 /\ valpos sf).
    { destruct sf; cbn [sm_step sm_value] in *; try (split; [reflexivity|exact I]). inversion Hd. }
    destruct Hv as [Hv Hpos]. rewrite Hv in Hd.
    apply (value_sim sf s' (PReal mant scale) ts1 p (MoReal (tok_value T)) (SyReal mant scale) false o ts'); try assumption; try reflexivity.
    constructor. exact Hrv.
  - (* string *)
    destruct Hx as [Hx Hsv]. rewrite Hx, Hsv.
    assert (Hv : sm_step (sf :: s') (PStr s :: ts1) = deliver (SyStr s) (sf :: s') ts1 /\ valpos sf).
    { destruct sf; cbn [sm_step sm_value] in *; try (split; [reflexivity|exact I]). inversion Hd. }
    destruct Hv as [Hv Hpos]. rewrite Hv in Hd.
    apply (value_sim sf s' (PStr s) ts1 p (MoStr s) (SyStr s) false o ts'); try assumption; try reflexivity. constructor.
  - (* name *)
    destruct Hx as [Hx Hnv]. rewrite Hx, Hnv.
    destruct sf as [acc|acc|acc k].
    + destruct Hf as (Hfs & _). rewrite Hfs. cbn [sm_step sm_value] in Hd.
      apply (value_sim (SFArr acc) s' (PName n) ts1 p (MoName (47 :: n)) (SyName n) false o ts'); try assumption; try reflexivity; try exact I. constructor.
    + destruct Hf as (Hfs & Hfo & Hfd). rewrite Hfs. cbn [sm_step] in Hd.
      destruct (has_key n acc) eqn:Hk; [inversion Hd|].
      left. exists (SFDictV acc n :: s'). eexists. split; [reflexivity|].
      unfold set_frame. rewrite Heq2.
      assert (Hp0 : forall X, pend (set_stack X p) = []) by (intros; apply pend_ic0; exact Hic).
      split; [split; [split|..]|]; rewrite ?Hp0; cbn [map app]; cbn [set_stack ps_stack ps_warn ps_bad]; try assumption.
      all: inv_close Hi Hr Hsz Hn.
      constructor; [|exact Hs']. cbn. repeat split; assumption.
    + destruct Hf as (Hfs & _). rewrite Hfs. cbn [sm_step sm_value] in Hd.
      apply (value_sim (SFDictV acc k) s' (PName n) ts1 p (MoName (47 :: n)) (SyName n) false o ts'); try assumption; try reflexivity; try exact I. constructor.
  - (* bool *)
    destruct Hx as [Hx Hbv]. rewrite Hx, Hbv.
    assert (Hv : sm_step (sf :: s') (PBool b :: ts1) = deliver (SyBool b) (sf :: s') ts1 /\ valpos sf).
    { destruct sf; cbn [sm_step sm_value] in *; try (split; [reflexivity|exact I]). inversion Hd. }
    destruct Hv as [Hv Hpos]. rewrite Hv in Hd.
    apply (value_sim sf s' (PBool b) ts1 p (MoBool b) (SyBool b) false o ts'); try assumption; try reflexivity. constructor.
  - (* null *)
    rewrite Hx.
    assert (Hv : sm_step (sf :: s') (PNull :: ts1) = deliver SyNull (sf :: s') ts1 /\ valpos sf).
    { destruct sf; cbn [sm_step sm_value] in *; try (split; [reflexivity|exact I]). inversion Hd. }
    destruct Hv as [Hv Hpos]. rewrite Hv in Hd.
    apply (value_sim sf s' PNull ts1 p MoNull SyNull true o ts'); try assumption; try reflexivity. constructor.
Qed.

Lemma sm_kw_fail s w r o ts' : sm_done (SNext s (PKeyword w :: r)) o ts' -> False.
Proof.
  intros H. apply sm_done_next_inv in H.
  destruct s as [|[acc|acc|acc k] s']; cbn [sm_step sm_value] in H; inversion H.
Qed.

Lemma step_kw s w ts1 p T o ts' :
  Inv2 s (PKeyword w :: ts1) p -> tok_interp T = Some (PKeyword w) ->
  sm_done (SNext s (map PInt (pend p) ++ PKeyword w :: ts1)) o ts' ->
  step_ok ts1 (remainder_step false false T p) o ts'.
Proof.
  intros [[Hst Hw Hb Hsz Hn] Hi Hr] HT Hd.
  destruct (interp_inv T _ HT) as (He & Hty & Hval).
  destruct p as [stk ic i0 i1 bad good mx warn]. cbn [ps_stack ps_warn ps_bad] in *. subst warn bad.
  destruct (ic =? 0) eqn:E0.
  { apply N.eqb_eq in E0. subst ic. rewrite pend0 in *. cbn [map app] in *. exfalso. eapply sm_kw_fail; exact Hd. }
  destruct (ic =? 1) eqn:E1.
  { apply N.eqb_eq in E1. subst ic. rewrite pend1 in *. cbn [map app] in *. exfalso.
    destruct (sm_commit _ _ _ _ _ Hd I) as (sf & s' & -> & Hpos & Hd1).
    destruct sf; try contradiction; cbn [deliver] in Hd1; eapply sm_kw_fail; exact Hd1. }
  rewrite pend2 in * by assumption.
  set (p0 := {| ps_stack := stk; ps_int_count := ic; ps_int0 := i0; ps_int1 := i1; ps_bad := 0;
                ps_good := good; ps_max_bad := mx; ps_warn := [] |}) in *.
  set (a := int_slot p0 (ic - 1)) in *. set (b := int_slot p0 ic) in *. cbn [map app] in *.
  destruct (list_eqb N.eqb w kw_R) eqn:ER.
  2:{ exfalso.
      assert (N1 : not_ref_ahead (PInt b :: PKeyword w :: ts1)) by (cbn; exact ER).
      destruct (sm_commit _ _ _ _ _ Hd N1) as (sf & s' & -> & Hpos & Hd1).
      assert (Hd2 : exists s2, sm_done (SNext s2 (PInt b :: PKeyword w :: ts1)) o ts').
      { destruct sf; try contradiction; cbn [deliver] in Hd1; eexists; exact Hd1. }
      destruct Hd2 as [s2 Hd2].
      destruct (sm_commit _ _ _ _ _ Hd2 I) as (sf3 & s3 & -> & Hpos3 & Hd3).
      destruct sf3; try contradiction; cbn [deliver] in Hd3; eapply sm_kw_fail; exact Hd3. }
  (* a b R *)
  apply sm_done_next_inv in Hd.
  assert (Hv : exists sf s', s = sf :: s' /\ valpos sf /\
               sm_done (if (0 <? a)%Z && (0 <=? b)%Z then deliver (SyRef a b) s ts1 else SFail) o ts').
  { destruct s as [|[acc|acc|acc k] s']; cbn [sm_step sm_value] in Hd; try (inversion Hd; fail);
      rewrite ER in Hd; eexists; eexists; (split; [reflexivity|split; [exact I|exact Hd]]). }
  destruct Hv as (sf & s' & -> & Hpos & Hd1).
  destruct ((0 <? a)%Z && (0 <=? b)%Z) eqn:Eval; [|inversion Hd1].
  apply andb_true_iff in Eval. destruct Eval as [Ea Eb]. apply Z.ltb_lt in Ea. apply Z.leb_le in Eb.
  cbn [refs_ok] in Hr. rewrite ER in Hr. apply andb_true_iff in Hr. destruct Hr as [Hr1 Hr].
  apply andb_true_iff in Hr1. destruct Hr1 as [Ra Rb]. apply Z.leb_le in Ra. apply Z.ltb_lt in Rb.
  apply N.eqb_neq in E0, E1. subst p0.
  unfold remainder_step. pnorm. cbn [negb].
  replace (ic =? 0) with false by (symmetry; apply N.eqb_neq; assumption). cbn [negb].
  assert (HR : is_word_R T = true) by (unfold is_word_R; rewrite Hty, Hval; exact ER).
  rewrite HR. replace (2 <=? ic) with true by (symmetry; apply N.leb_le; lia). cbn [andb].
  assert (Hm : forall (A : Type) (x y : A), match tok_type T with TT_integer => x | _ => y end = y) by (intros; rewrite Hty; reflexivity).
  rewrite Hm. clear Hm.
  set (p1 := {| ps_stack := stk; ps_int_count := ic; ps_int0 := i0; ps_int1 := i1; ps_bad := 0;
                ps_good := (good + 1)%Z; ps_max_bad := mx; ps_warn := [] |}).
  assert (Ha : int_slot p1 (ic - 1) = a) by reflexivity. assert (Hbb : int_slot p1 ic = b) by reflexivity.
  rewrite Ha, Hbb.
  unfold in_int_range.
  replace ((-2147483648 <=? a) && (a <=? 2147483647))%Z with true by (symmetry; apply andb_true_iff; split; apply Z.leb_le; lia).
  replace ((-2147483648 <=? b) && (b <=? 2147483647))%Z with true by (symmetry; apply andb_true_iff; split; apply Z.leb_le; lia).
  cbn [negb orb].
  replace (a <? 1)%Z with false by (symmetry; apply Z.ltb_ge; lia).
  replace (b <? 0)%Z with false by (symmetry; apply Z.ltb_ge; lia).
  replace (65535 <=? b)%Z with false by (symmetry; apply Z.leb_gt; lia). cbn [negb orb].
  destruct (deliver_sim sf s' p1 (MoRef a b) (SyRef a b) false ts1 Hst Hpos (Ro_ref a b)) as (f & ms & f' & sf' & Hstk & Hdel & Hadd & Hst' & Hfs).
  rewrite Hadd. rewrite Hdel in Hd1.
  unfold p1 in Hstk. cbn [ps_stack] in Hstk. subst stk.
  left. exists (sf' :: s'). eexists. split; [reflexivity|].
  unfold p1. pnorm. rewrite !len_cons in Hsz. rewrite opens_cons in Hn. cbn [is_open] in Hn.
  split; [split; [split|..]|]; pnorm; rewrite ?pend0; cbn [map app]; try assumption; try reflexivity;
    try (rewrite ?ssize_cons in *; rewrite ?len_cons, ?(@len_nil Z) in *; lia).
  inversion Hi as [|? ? ? Hi2]; inversion Hi2 as [|? ? ? Hi3]; inversion Hi3; assumption.
Qed.

Lemma step_sim s x ts1 p T o ts' :
  Inv2 s (x :: ts1) p -> tok_interp T = Some x ->
  sm_done (SNext s (map PInt (pend p) ++ x :: ts1)) o ts' ->
  step_ok ts1 (remainder_step false false T p) o ts'.
Proof.
  intros HI HT Hd.
  assert (Hc : (exists z, x = PInt z) \/ (exists w, x = PKeyword w) \/ plain_tok x).
  { destruct x; cbn; eauto. }
  destruct Hc as [[z ->]|[[w ->]|Hpl]].
  - eapply step_int; eassumption.
  - eapply step_kw; eassumption.
  - destruct (flush_sim s x ts1 p T o ts' HI HT Hpl Hd) as (s1 & p1 & Heq & HI1 & Hic & Hd1).
    rewrite Heq. eapply switch_sim; eassumption.
Qed.

(* ---- the byte level ---- *)
(* the tokens ts are read from inp one after the other by the specification lexer, leaving final; no token
   starts in a regular run containing a raw VT (finding D11) *)
Inductive good_chain : list N -> list ptoken -> list N -> Prop :=
| gc_nil inp : good_chain inp [] inp
| gc_cons inp tok rest ts final :
    bytes_ok inp -> spec_next inp = LexTok tok rest -> ~ In 11 (head_run inp) ->
    good_chain rest ts final -> good_chain inp (tok :: ts) final.

Lemma next_token_facts t inp pos t1 rest np last :
  t_state t <> TS_inline_image -> next_token 0 t inp pos = (t1, rest, np, last) ->
  t_incl_ign t1 = t_incl_ign t /\ t_state t1 <> TS_inline_image.
Proof.
  intros Hst Hn. destruct (next_token_run t inp pos Hst) as (np' & last' & Hr). rewrite Hn in Hr.
  injection Hr as H1 H2 _ _.
  assert (Hrun : run (tk_reset t) inp = (t1, rest)) by (rewrite H1, H2; apply surjective_pairing).
  destruct (run_facts _ _ _ _ Hrun) as (A & B & C & _). split.
  - rewrite A. reflexivity.
  - unfold is_ready in C. intros X. rewrite X in C. discriminate.
Qed.

Lemma tok_warn_none t1 p pt : tok_interp (tk_token t1) = Some pt -> tok_warn t1 p = p.
Proof.
  intros H. destruct (interp_inv _ _ H) as [He _]. unfold tok_warn.
  assert (X : tok_err (tk_token t1) = t_err t1) by (unfold tk_token; destruct (t_type t1); reflexivity).
  rewrite X in He. rewrite He. reflexivity.
Qed.

Lemma loop_sim : forall inp ts final, good_chain inp ts final ->
  forall s p t pos fuel o,
  Inv2 s ts p -> sm_done (SNext s (map PInt (pend p) ++ ts)) o [] -> (length ts <= fuel)%nat ->
  t_incl_ign t = false -> t_state t <> TS_inline_image ->
  exists o' t' pos', remainder_loop fuel false false p t inp pos = mkPresult (Some o') false [] t' final pos' /\ R_obj o' o.
Proof.
  induction 1 as [inp|inp tok rest ts final Hb Hs Hvt Hch IH]; intros s p t pos fuel o HI Hd Hf Hii Hst.
  - exfalso. rewrite app_nil_r in Hd. eapply sm_ints_stuck; exact Hd.
  - destruct fuel as [|f]; [cbn in Hf; lia|]. cbn [remainder_loop].
    destruct (next_token_complete_lemma inp tok rest t pos Hb Hii Hst Hs Hvt) as (t1 & np & last & Hn & Hi).
    rewrite Hn. rewrite (tok_warn_none t1 p tok Hi).
    destruct (next_token_facts t inp pos t1 rest np last Hst Hn) as [Hii1 Hst1]. rewrite Hii in Hii1.
    destruct (step_sim s tok ts p (tk_token t1) o [] HI Hi Hd) as [(s' & p' & Hr & HI' & Hd')|(p' & o' & Hr & Hw & Ho & Hts)].
    + rewrite Hr. apply (IH s' p' t1 np f o HI' Hd'); try assumption. cbn in Hf. lia.
    + rewrite Hr. subst ts. inversion Hch; subst. rewrite Hw. exists o', t1, np. split; [reflexivity|exact Ho].
Qed.

Lemma chain_len : forall inp ts final, good_chain inp ts final -> (length ts + length final <= length inp)%nat.
Proof.
  induction 1 as [inp|inp tok rest ts final Hb Hs Hvt Hch IH]; [cbn; lia|].
  assert (Hne : inp <> []) by (intros ->; discriminate).
  destruct (next_token_complete_lemma inp tok rest (tk_new true false) 0 Hb eq_refl ltac:(discriminate) Hs Hvt) as (t1 & np & last & Hn & _).
  pose proof (next_token_progress_lemma 0 (tk_new true false) inp 0 Hne ltac:(discriminate)) as Hp.
  rewrite Hn in Hp. cbn [fst snd] in Hp. cbn [length]. lia.
Qed.

(* parse_complete for arrays and dictionaries (with everything nested in them, including "n g R").
   Every text whose tokens - read by the ISO specification lexer, none starting in a regular run with a raw
   VT - form one array or dictionary for the ISO object grammar (Obj/SynSpec.syn_obj) is read by
   Parser::parse (model Obj/ParseModel.v: container stack, two-slot integer buffer) as the corresponding
   object (R_obj: same tree; integers by value, reals by their spelling's value, names without '/', a
   dictionary = the std::map built from exactly the specification's entries), WITHOUT ANY WARNING, and the
   input is left exactly after the closing bracket.  Range hypotheses (architectural limits): integer
   tokens within long long; object numbers <= 2^31-1 and generation numbers < 65535 in "n g R"; at most
   500 container openings (sufficient for nesting <= 499 = parser_max_nesting); fewer than 2^32-1 tokens. *)
Lemma parse_complete_container_lemma : forall inp tok0 toks final o t pos,
  good_chain inp (tok0 :: toks) final -> (tok0 = PArrOpen \/ tok0 = PDictOpen) ->
  syn_obj (Datatypes.S (length (tok0 :: toks))) (tok0 :: toks) = Some (o, []) ->
  ints_ok toks -> refs_ok toks = true -> opens (tok0 :: toks) <= 500 -> len (tok0 :: toks) < 4294967295 ->
  t_incl_ign t = false -> t_state t <> TS_inline_image ->
  exists o', pr_obj (parse_object false false t inp pos) = Some o' /\ R_obj o' o /\
             pr_warn (parse_object false false t inp pos) = [] /\
             pr_rest (parse_object false false t inp pos) = final.
Proof.
  intros inp tok0 toks final o t pos Hch H0 Hsyn Hi Hr Hop Hlen Hii Hst.
  inversion Hch as [|? ? rest ? ? Hb Hs Hvt Hch']; subst.
  destruct (next_token_complete_lemma inp tok0 rest t pos Hb Hii Hst Hs Hvt) as (t1 & np & last & Hn & Hint).
  destruct (next_token_facts t inp pos t1 rest np last Hst Hn) as [Hii1 Hst1]. rewrite Hii in Hii1.
  pose proof (chain_len _ _ _ Hch') as Hcl.
  unfold parse_object. rewrite Hn. rewrite (tok_warn_none t1 pstate0 tok0 Hint).
  destruct (interp_inv _ _ Hint) as (He & Hty).
  assert (Hd : forall s0, (tok0 = PArrOpen -> s0 = SFArr []) -> (tok0 = PDictOpen -> s0 = SFDictK []) ->
               sm_done (SNext [s0] toks) o []).
  { intros s0 HA HD.
    pose proof (syn_to_sm _ _ _ _ Hsyn [] o [] (smd_done o [])) as X.
    destruct H0 as [-> | ->]; cbn [sm_value] in X; [rewrite (HA eq_refl)|rewrite (HD eq_refl)]; exact X. }
  rewrite opens_cons in Hop. rewrite len_cons in Hlen.
  destruct H0 as [-> | ->]; rewrite Hty.
  - destruct (loop_sim rest toks final Hch' [SFArr []] (set_stack [mkFrame PF_array [] [] [] 0] pstate0) t1 np
                (length rest + 20)%nat o) as (o' & t' & pos' & Hl & Ho); try assumption.
    + assert (Hp0 : pend (set_stack [mkFrame PF_array [] [] [] 0] pstate0) = []) by reflexivity.
      split; [split|..]; rewrite ?Hp0; cbn [map app]; unfold pstate0, set_stack; cbn [ps_stack ps_warn ps_bad]; try reflexivity; try assumption;
        try (constructor; [|constructor]; cbn; repeat split; constructor);
        try (rewrite ?ssize_cons; unfold fsize; cbn [pf_olist pf_dict ssize fold_right is_open] in *;
             rewrite ?len_cons, ?(@len_nil Z), ?(@len_nil mobj), ?(@len_nil (list N * mobj)), ?(@len_nil pframe) in *; lia).
    + apply Hd; [reflexivity|discriminate].
    + lia.
    + rewrite Hl. cbn. exists o'. repeat split. exact Ho.
  - destruct (loop_sim rest toks final Hch' [SFDictK []] (set_stack [mkFrame PF_dict_key [] [] [] 0] pstate0) t1 np
                (length rest + 20)%nat o) as (o' & t' & pos' & Hl & Ho); try assumption.
    + assert (Hp0 : pend (set_stack [mkFrame PF_dict_key [] [] [] 0] pstate0) = []) by reflexivity.
      split; [split|..]; rewrite ?Hp0; cbn [map app]; unfold pstate0, set_stack; cbn [ps_stack ps_warn ps_bad]; try reflexivity; try assumption;
        try (constructor; [|constructor]; cbn; repeat split; constructor);
        try (rewrite ?ssize_cons; unfold fsize; cbn [pf_olist pf_dict ssize fold_right is_open] in *;
             rewrite ?len_cons, ?(@len_nil Z), ?(@len_nil mobj), ?(@len_nil (list N * mobj)), ?(@len_nil pframe) in *; lia).
    + apply Hd; [discriminate|reflexivity].
    + lia.
    + rewrite Hl. cbn. exists o'. repeat split. exact Ho.
Qed.
