# C15 - stream filters, predictors, crypto primitives vs independent references.
# Proof: Props/Properties_C15.v. Tie: the real Pl_* pipelines (drv filt) vs the extracted models, on
# the same (parameters, data, chunking) triples; the extracted reference codecs supply the
# independent encodings / decodings that decide the property on the implementation's side.
import itertools, os
import common
from common import hexs

ASSUMPTIONS = [
    "Flate (zlib) and DCT (libjpeg) are external and not modelled",
    "hash/cipher equality across crypto providers is observed by running the driver under QPDF_CRYPTO_PROVIDER=native/openssl/gnutls, not proved (OpenSSL/GnuTLS are external)",
    "lzw_decode_encode and the TIFF bit-path inversion are theorems about the models (C15ProofsL/M/T.v); the models are tied to Pl_LZWDecoder / Pl_TIFFPredictor by the differential runs only",
]


def chunkings(rng, data, k=None):
    """list of chunk lists for data; all splits when short, else k random ones"""
    n = len(data)
    if n <= 1:
        return [[data]]
    outs = []
    if n <= 6 and k is None:
        for mask in range(1 << (n - 1)):
            cs, start = [], 0
            for i in range(n - 1):
                if mask >> i & 1:
                    cs.append(data[start:i + 1])
                    start = i + 1
            cs.append(data[start:])
            outs.append(cs)
        return outs
    outs.append([data])
    for _ in range(k or 2):
        cuts = sorted(set(rng.randrange(0, n + 1) for _ in range(rng.randint(1, 6))))
        cs, start = [], 0
        for c in cuts:
            cs.append(data[start:c])
            start = c
        cs.append(data[start:])
        outs.append(cs)
    outs.append([bytes([b]) for b in data] if n <= 300 else [data[:1], data[1:]])
    return outs


def cstr(chunks):
    return ",".join(hexs(c) for c in chunks) if chunks else "_"


def rand_data(rng, n):
    kind = rng.random()
    if kind < 0.3:
        return bytes(rng.randrange(256) for _ in range(n))
    if kind < 0.55:   # runs
        out = bytearray()
        while len(out) < n:
            out += bytes([rng.randrange(256)]) * rng.choice([1, 1, 2, 3, 5, 127, 128, 129, 130, 300])
        return bytes(out[:n])
    if kind < 0.7:
        return bytes(n)
    if kind < 0.85:
        return bytes(rng.choice(b"abcab -\n") for _ in range(n))
    return bytes(rng.choice([0, 1, 127, 128, 129, 254, 255]) for _ in range(n))


class Batch:
    """collects (impl line, model line, meta) so both sides are run once"""

    def __init__(self):
        self.lines, self.meta = [], []

    def add(self, line, **meta):
        self.lines.append(line)
        self.meta.append(meta)


def run(chk):
    rng = chk.rng
    drv = os.path.join(common.DRV, "drv")
    runner = os.path.join(common.EXTRACT, "model_runner")
    quick = chk.tier == "quick"
    chk.cov["rule"] = ("(filter, parameters, data, chunking) cases: exhaustive data of length <= 2 for the byte-oriented decoders; reference-encoded "
                       "random/structured data of boundary lengths with all chunkings (length <= 6) or random chunkings; predictor sweep "
                       "{png,tiff} x {decode,encode} x bpc x colours x columns x row-boundary lengths; malformed stream; "
                       "non-trivial = non-empty output without error, distinct by (filter, params, data)")

    # ---------- part 1: exhaustive short inputs, model vs implementation ----------
    b = Batch()
    alld = [bytes([x]) for x in range(256)]
    for f in ("ahx", "a85", "rld", "b64d", "rle", "b64e"):
        b.add("filt %s - _" % f, f=f, d=b"")
        b.add("filt %s - -" % f, f=f, d=b"")
        for d in alld:
            b.add("filt %s - %s" % (f, hexs(d)), f=f, d=d)
    two = [bytes([x, y]) for x in range(256) for y in range(256)]
    for f in ("ahx", "a85", "rld", "b64d"):
        sel = two if (not quick or f in ("ahx", "a85")) else rng.sample(two, 6000)
        for d in sel:
            b.add("filt %s - %s" % (f, hexs(d)), f=f, d=d)
    for e in (0, 1):
        for d in (two if not quick else rng.sample(two, 4000)):
            b.add("filt lzw %d %s" % (e, hexs(d) + "," + hexs(bytes([rng.randrange(256)]))), f="lzw", d=d)
    impl = common.run_lines(drv, b.lines, shards=8)
    model = common.run_lines(runner, b.lines, shards=8)
    tie = [i for i in range(len(impl)) if impl[i] != model[i]]
    nontriv = set(b.lines[i] for i in range(len(impl)) if impl[i].endswith(" 0") and not impl[i].startswith("- "))
    chk.count("exhaustive-short", len(b.lines), nontriv, samples=[{"case": b.lines[1000], "impl": impl[1000]}])
    chk.cov["parts"]["exhaustive-short"]["exhaustive"] = True
    tie_total = [(b.lines[i], impl[i], model[i]) for i in tie]

    # ---------- part 2: reference encoders -> real decoders (property), all chunkings ----------
    lens = [0, 1, 2, 3, 4, 5, 6, 7, 8, 9, 15, 16, 17, 63, 64, 65, 127, 128, 129, 130, 255, 256, 257, 258, 300, 511, 1000]
    reps = 2 if quick else 12
    enc_jobs = []   # (ref line, filter, params, original)
    for _ in range(reps):
        for n in lens:
            d = rand_data(rng, n)
            style = ",".join("%s/%s/%s" % (rng.choice("lu"), hexs(bytes(rng.choice(b" \t\r\n\f\v") for _ in range(rng.choice([0, 0, 1, 2])))),
                                           hexs(bytes(rng.choice(b" \t\r\n\f\v") for _ in range(rng.choice([0, 0, 0, 1]))))) for _ in range(min(n, 40)))
            enc_jobs.append(("ref ahx_enc - %s %s" % (hexs(d), style or "u/-/-"), "ahx", "-", d))
            enc_jobs.append(("ref a85_enc - %s" % hexs(d), "a85", "-", d))
            enc_jobs.append(("ref rl_enc - %s" % hexs(d), "rld", "-", d))
            for e in (0, 1):
                enc_jobs.append(("ref lzw_enc %d %s" % (e, hexs(d)), "lzw", str(e), d))
    # LZW long inputs: cross 511/1023/2047 code-width changes and the 4096 table reset
    for n in ([600, 2500, 9000] if quick else [600, 1200, 2500, 5000, 9000, 9000, 20000]):
        for e in (0, 1):
            d = bytes(rng.randrange(256) for _ in range(n)) if rng.random() < 0.7 else rand_data(rng, n)
            enc_jobs.append(("ref lzw_enc %d %s" % (e, hexs(d)), "lzw", str(e), d))
    # LZW boundaries the proof of lzw_decode_encode splits on (C15ProofsL/M.v): inputs with more than 3838 distinct phrases
    # (the reference encoder must emit a clear-table code, both EarlyChange values), KwKwK chains (runs, short periods),
    # and lengths around the code-width changes 511/1023/2047 minus the EarlyChange delta
    for e in (0, 1):
        d = bytes(rng.randrange(256) for _ in range(7000 if quick else 16000))
        enc_jobs.append(("ref lzw_enc %d %s" % (e, hexs(d)), "lzw", str(e), d))
        d = bytes([rng.randrange(256)]) * 3000
        enc_jobs.append(("ref lzw_enc %d %s" % (e, hexs(d)), "lzw", str(e), d))
        per = bytes(rng.randrange(256) for _ in range(rng.choice([2, 3, 5])))
        d = (per * 2000)[:4000]
        enc_jobs.append(("ref lzw_enc %d %s" % (e, hexs(d)), "lzw", str(e), d))
        for n in (252, 253, 254, 255, 256, 257, 764, 765, 766, 767, 768, 769, 1788, 1789, 1790, 1791, 1792, 1793):
            d = bytes(rng.randrange(256) for _ in range(n + 60))   # random bytes: about one code per byte at the start
            enc_jobs.append(("ref lzw_enc %d %s" % (e, hexs(d[:n])), "lzw", str(e), d[:n]))
    encoded = common.run_lines(runner, [j[0] for j in enc_jobs], shards=4)
    b2 = Batch()
    for (line, f, ps, d), enc in zip(enc_jobs, encoded):
        if enc.startswith("?"):
            raise common.InfraError("reference encoder failed: %s -> %s" % (line[:80], enc))
        e = bytes.fromhex(enc) if enc != "-" else b""
        for cs in chunkings(rng, e, k=None if len(e) <= 6 else 2):
            b2.add("filt %s %s %s" % (f, ps, cstr(cs)), f=f, d=d, enc=e, chunks=len(cs))
    impl2 = common.run_lines(drv, b2.lines, shards=8)
    model2 = common.run_lines(runner, b2.lines, shards=8)
    nontriv = set()
    for i, m in enumerate(b2.meta):
        want = hexs(m["d"]) + " 0"
        if impl2[i] != want:
            chk.violation({"kind": "property-fails-on-implementation", "part": "decoder-inverts-reference-encoder", "filter": m["f"],
                           "case": b2.lines[i][:2000], "original": m["d"].hex()[:2000], "implementation": impl2[i][:2000], "model": model2[i][:2000],
                           "why": "real decoder does not return the data the independent reference encoder encoded"})
        elif impl2[i] != model2[i]:
            tie_total.append((b2.lines[i][:400], impl2[i][:400], model2[i][:400]))
        if m["d"]:
            nontriv.add((m["f"], m["d"]))
    chk.count("decoder-vs-reference-encoder", len(b2.lines), nontriv, samples=[{"case": b2.lines[5][:200], "impl": impl2[5][:100]}])

    # ---------- part 3: real encoders -> reference decoders ----------
    b3 = Batch()
    for _ in range(reps):
        for n in lens:
            d = rand_data(rng, n)
            for cs in chunkings(rng, d, k=None if n <= 5 else 2):
                b3.add("filt rle - %s" % cstr(cs), f="rle", d=d)
                b3.add("filt b64e - %s" % cstr(cs), f="b64e", d=d)
    impl3 = common.run_lines(drv, b3.lines, shards=8)
    model3 = common.run_lines(runner, b3.lines, shards=8)
    dec_lines = []
    for i, m in enumerate(b3.meta):
        o = impl3[i].split(" ")[0]
        dec_lines.append("ref %s - %s" % ("rl_dec" if m["f"] == "rle" else "b64_dec", o))
    decoded = common.run_lines(runner, dec_lines, shards=8)
    nontriv = set()
    for i, m in enumerate(b3.meta):
        if not impl3[i].endswith(" 0") or decoded[i] != hexs(m["d"]):
            chk.violation({"kind": "property-fails-on-implementation", "part": "encoder-inverted-by-reference-decoder", "filter": m["f"],
                           "case": b3.lines[i][:2000], "implementation": impl3[i][:2000], "reference_decoding": decoded[i][:2000],
                           "why": "independent reference decoder does not recover the input from the real encoder's output"})
        elif impl3[i] != model3[i]:
            tie_total.append((b3.lines[i][:400], impl3[i][:400], model3[i][:400]))
        if m["d"]:
            nontriv.add((m["f"], m["d"]))
    chk.count("encoder-vs-reference-decoder", len(b3.lines), nontriv, samples=[{"case": b3.lines[7][:200], "impl": impl3[7][:100]}])

    # ---------- part 4: predictors ----------
    b4 = Batch()
    ref_lines, ref_meta = [], []
    cols_range = range(1, 6) if quick else range(1, 10)
    for bpc in (1, 2, 4, 8, 16):
        for colors in (1, 2, 3, 4):
            for cols in cols_range:
                bpr = (cols * bpc * colors + 7) // 8
                ps = "%d,%d,%d" % (cols, colors, bpc)
                for n in sorted(set([0, 1, bpr - 1, bpr, bpr + 1, 2 * bpr, 2 * bpr + 1, 3 * bpr + 2])):
                    if n < 0:
                        continue
                    d = bytes(rng.randrange(256) for _ in range(n))
                    cs = rng.choice(chunkings(rng, d, k=1))
                    for f in ("pnge", "tiffe", "tiffd"):
                        b4.add("filt %s %s %s" % (f, ps, cstr(cs)), f=f, ps=ps, d=d)
                    # png decode input: rows of filter byte + data, filter types incl. invalid ones
                    rows = n // bpr if bpr else 0
                    raw = b"".join(bytes([rng.choice([0, 1, 2, 3, 4, 4, 3, 5, 255])]) + bytes(rng.randrange(256) for _ in range(bpr)) for _ in range(rows + 1))
                    raw = raw[:len(raw) - rng.choice([0, 0, 1, bpr])]
                    cs = rng.choice(chunkings(rng, raw, k=1))
                    b4.add("filt pngd %s %s" % (ps, cstr(cs)), f="pngd", ps=ps, d=raw)
                    # reference PNG encoding of whole rows (all five filter types) -> real decoder
                    if rows:
                        whole = d[:rows * bpr]
                        fts = ",".join(str(rng.randrange(5)) for _ in range(rows))
                        ref_lines.append("ref png_enc %s %s %s" % (ps, hexs(whole), fts))
                        ref_meta.append(("pngd", ps, whole))
                        if bpc == 8:
                            ref_lines.append("ref tiff8_enc %s %s" % (ps, hexs(whole)))
                            ref_meta.append(("tiffd", ps, whole))
    # parameters the constructors must refuse / boundary parameters
    for ps in ("0,1,8", "1,0,8", "1,1,3", "1,1,0", "1,1,32", "1,1,64", "1,1,65", "2,1,24", "3,2,12", "1,1,33", "70000,1,8", "3,300,16"):
        for f in ("pngd", "pnge", "tiffd", "tiffe"):
            d = bytes(rng.randrange(256) for _ in range(9))
            if ps.startswith("4294967295") or ps.startswith("1,4294967295"):
                d = b"\x01\x02"
            b4.add("filt %s %s %s" % (f, ps, hexs(d)), f=f, ps=ps, d=d)
    refenc = common.run_lines(runner, ref_lines, shards=8)
    ref_idx = {}
    for (f, ps, whole), enc in zip(ref_meta, refenc):
        e = bytes.fromhex(enc) if enc != "-" else b""
        cs = rng.choice(chunkings(rng, e, k=1))
        ref_idx[len(b4.lines)] = whole
        b4.add("filt %s %s %s" % (f, ps, cstr(cs)), f=f, ps=ps, d=e)
    impl4 = common.run_lines(drv, b4.lines, shards=8)
    model4 = common.run_lines(runner, b4.lines, shards=8)
    nontriv = set()
    # round trip through the real pair encode->decode (bit path of TIFF, where the independent reference is the 8-bit one only)
    rt_lines, rt_meta = [], []
    for i, m in enumerate(b4.meta):
        if i in ref_idx and impl4[i] != hexs(ref_idx[i]) + " 0":
            chk.violation({"kind": "property-fails-on-implementation", "part": "predictor-decoder-inverts-reference-encoder", "case": b4.lines[i][:1500],
                           "original": ref_idx[i].hex(), "implementation": impl4[i][:1500], "model": model4[i][:1500]})
        elif impl4[i] != model4[i]:
            bpc_ = int(m["ps"].split(",")[2])
            if impl4[i].endswith("logic") and m["f"].startswith("tiff") and bpc_ > 32 and model4[i].endswith(" 1") \
                    and impl4[i].split(" ")[0] == model4[i].split(" ")[0]:
                # bits_per_sample 33..64 passes the constructor and read_bits/write_bits throw std::out_of_range; inside
                # qpdf this is caught by pipeStreamData and reported as a decoding warning (probe: exit 3), the model
                # returns the error outcome at the same point. Out of the property's parameter range; classes agree.
                continue
            tie_total.append((b4.lines[i][:400], impl4[i][:400], model4[i][:400]))
        if impl4[i].endswith(" 0") and len(impl4[i]) > 3:
            nontriv.add(b4.lines[i])
        if m["f"] in ("tiffe", "pnge") and impl4[i].endswith(" 0"):
            o = impl4[i].split(" ")[0]
            if m["f"] == "tiffe":
                rt_lines.append("filt tiffd %s %s" % (m["ps"], o))
            else:
                rt_lines.append("ref png_dec_up %s %s" % (m["ps"], o))
            rt_meta.append((i, m))
    rt_impl = common.run_lines(drv, [l for l in rt_lines if l.startswith("filt")], shards=8)
    rt_ref = common.run_lines(runner, [l for l in rt_lines if l.startswith("ref")], shards=8)
    it_i, it_r = iter(rt_impl), iter(rt_ref)
    for l, (i, m) in zip(rt_lines, rt_meta):
        got = next(it_i).split(" ")[0] if l.startswith("filt") else next(it_r)
        cols, colors, bpc = map(int, m["ps"].split(","))
        bpr = (cols * bpc * colors + 7) // 8
        d = m["d"]
        padded = d + bytes((-len(d)) % bpr)
        gotb = bytes.fromhex(got) if got not in ("-", "") and not got.startswith("?") else b""
        if m["f"] == "tiffe" and (cols * bpc * colors) % 8:
            # unused padding bits at the end of each row are not required to survive
            keep = cols * bpc * colors
            def mask(x):
                out = bytearray(x)
                for r in range(0, len(out), bpr):
                    last = r + bpr - 1
                    if last < len(out):
                        out[last] &= (0xff << (8 * bpr - keep)) & 0xff
                return bytes(out)
            ok = mask(gotb) == mask(padded)
        else:
            ok = gotb == padded
        if not ok:
            chk.violation({"kind": "property-fails-on-implementation", "part": "encoder-roundtrip", "case": b4.lines[i][:1500], "decoded": got[:1500],
                           "expected": padded.hex()[:1500], "why": "encoder output is not inverted (PNG-up by the reference decoder, TIFF by the decoder) up to row padding"})
    chk.count("predictors", len(b4.lines) + len(rt_lines), nontriv, samples=[{"case": b4.lines[11][:200], "impl": impl4[11][:100]}])

    # ---------- part 4b: TIFF predictor 2, every sample width: independent reference codec (TiffBitsSpec.v) ----------
    # theorems tiffbits_decode_encode / tiffbits_encoder_is_ref / tiffbits_encoder_inverted (C15ProofsT.v) on the model;
    # here the same statements on the real Pl_TIFFPredictor: decoder(reference encoding of rows with arbitrary padding bits)
    # = rows with the unused bits at the end of each row cleared; reference decoder(real encoder output) = the same;
    # aimed at Columns*Colors*BitsPerComponent not a multiple of 8 (and multiples, where nothing may be lost)
    tb_jobs = []
    for bpc in (1, 2, 4, 16, 8, 3, 12, 31, 32):
        for colors in ((1, 2, 3, 4) if bpc in (1, 2, 4, 16) else (1, 3)):
            for cols in ((1, 2, 3, 4, 5, 7, 8, 9, 17) if (not quick or bpc in (1, 2, 4, 16)) else (1, 3, 5)):
                bpr = (cols * bpc * colors + 7) // 8
                for nrows in (1, 3):
                    kind = rng.random()
                    if kind < 0.6:
                        d = bytes(rng.randrange(256) for _ in range(bpr * nrows))
                    elif kind < 0.8:
                        d = bytes([0xff]) * (bpr * nrows)
                    else:
                        d = bytes(rng.choice([0, 0x80, 0x7f, 0xff, 1]) for _ in range(bpr * nrows))
                    tb_jobs.append(("%d,%d,%d" % (cols, colors, bpc), d, (cols * bpc * colors) % 8))
    tb_ref = common.run_lines(runner, [x for ps, d, _ in tb_jobs for x in ("tfb enc %s %s" % (ps, hexs(d)), "tfb clr %s %s" % (ps, hexs(d)))], shards=4)
    b4b = Batch()
    for k, (ps, d, rem) in enumerate(tb_jobs):
        enc, clr = tb_ref[2 * k], tb_ref[2 * k + 1]
        if enc.startswith("?") or clr.startswith("?"):
            raise common.InfraError("reference TIFF codec failed: %s -> %s %s" % (ps, enc, clr))
        e = bytes.fromhex(enc)
        b4b.add("filt tiffd %s %s" % (ps, cstr(rng.choice(chunkings(rng, e, k=1)))), f="tiffd", ps=ps, d=d, want=clr, rem=rem)
        b4b.add("filt tiffe %s %s" % (ps, cstr(rng.choice(chunkings(rng, d, k=1)))), f="tiffe", ps=ps, d=d, want=clr, rem=rem, enc=enc)
    impl4b = common.run_lines(drv, b4b.lines, shards=4)
    model4b = common.run_lines(runner, b4b.lines, shards=4)
    dec4b = common.run_lines(runner, ["tfb dec %s %s" % (m["ps"], impl4b[i].split(" ")[0]) if m["f"] == "tiffe" and impl4b[i].endswith(" 0") else "tfb clr 1,1,8 00"
                                      for i, m in enumerate(b4b.meta)], shards=4)
    encclr = common.run_lines(runner, ["tfb clr %s %s" % (m["ps"], m["enc"]) if m["f"] == "tiffe" else "tfb clr 1,1,8 00" for m in b4b.meta], shards=4)
    nontriv = set()
    for i, m in enumerate(b4b.meta):
        bad = None
        if m["f"] == "tiffd" and impl4b[i] != m["want"] + " 0":
            bad = ("predictor-decoder-inverts-reference-encoder", "real TIFF decoder does not return the rows (unused end-of-row bits cleared) that the independent reference encoder encoded")
        elif m["f"] == "tiffe" and (not impl4b[i].endswith(" 0") or dec4b[i] != m["want"]):
            bad = ("encoder-inverted-by-reference-decoder", "independent reference TIFF decoder does not recover the rows from the real encoder's output")
        elif m["f"] == "tiffe" and impl4b[i].split(" ")[0] != encclr[i]:
            bad = ("encoder-is-reference-encoding", "real TIFF encoder output differs from the reference differencing with zero padding bits")
        if bad:
            chk.violation({"kind": "property-fails-on-implementation", "part": bad[0], "filter": m["f"], "case": b4b.lines[i][:1500], "original": m["d"].hex()[:1500],
                           "implementation": impl4b[i][:1500], "expected": m["want"][:1500], "model": model4b[i][:1500], "why": bad[1]})
        elif impl4b[i] != model4b[i]:
            tie_total.append((b4b.lines[i][:400], impl4b[i][:400], model4b[i][:400]))
        if m["rem"]:
            nontriv.add(b4b.lines[i])
    chk.count("tiff-bitpath-reference", 4 * len(b4b.lines), nontriv, samples=[{"case": b4b.lines[3][:200], "impl": impl4b[3][:100]}])

    # ---------- part 4c: bytes after the EOD marker (a stream whose /Length also counts a trailing EOL, or junk) ----------
    # ISO 32000-1 7.4.2-7.4.5: '>' / '~>' / code 257 / length byte 128 end the data. Theorems a85_stops_at_eod (C15ProofsR.v);
    # for RunLength the statement is refuted on the faithful model (rld_stops_at_eod_refuted) = finding C15-F1-runlength-eod.
    ae_jobs = []
    tails = [b"\r\n", b"\n", b"\r", b" ", b"\x00", b"\x00A", b"\x80", b"\x01AB", b"\xfeZ", b"~>", b">", b"zzzz", b"\x80\x00A"]
    for n in (0, 1, 2, 3, 4, 5, 7, 8, 64, 127, 128, 129, 300):
        d = rand_data(rng, n)
        for f, ps, line in (("ahx", "-", "ref ahx_enc - %s u/-/-" % hexs(d)), ("a85", "-", "ref a85_enc - %s" % hexs(d)),
                            ("rld", "-", "ref rl_enc - %s" % hexs(d)), ("lzw", "0", "ref lzw_enc 0 %s" % hexs(d)), ("lzw", "1", "ref lzw_enc 1 %s" % hexs(d))):
            ae_jobs.append((line, f, ps, d))
    ae_enc = common.run_lines(runner, [j[0] for j in ae_jobs], shards=4)
    b4c = Batch()
    for (line, f, ps, d), enc in zip(ae_jobs, ae_enc):
        if enc.startswith("?"):
            raise common.InfraError("reference encoder failed: %s -> %s" % (line[:80], enc))
        e = bytes.fromhex(enc) if enc != "-" else b""
        for t in rng.sample(tails, 4) + [bytes(rng.randrange(256) for _ in range(rng.randint(1, 6)))]:
            b4c.add("filt %s %s %s" % (f, ps, cstr(rng.choice(chunkings(rng, e + t, k=1)))), f=f, d=d, tail=t)
    impl4c = common.run_lines(drv, b4c.lines, shards=4)
    model4c = common.run_lines(runner, b4c.lines, shards=4)
    nontriv = set()
    for i, m in enumerate(b4c.meta):
        if impl4c[i] != hexs(m["d"]) + " 0":
            chk.violation({"kind": "property-fails-on-implementation", "part": "data-after-eod", "filter": m["f"], "case": b4c.lines[i][:1500],
                           "original": m["d"].hex()[:1500], "tail_after_eod": m["tail"].hex(), "implementation": impl4c[i][:1500], "model": model4c[i][:1500],
                           "why": "the decoder does not stop at the EOD marker: bytes after it change the decoded data"},
                          signature="C15:%s-data-after-eod" % m["f"])
        if impl4c[i] != model4c[i]:
            tie_total.append((b4c.lines[i][:400], impl4c[i][:400], model4c[i][:400]))
        nontriv.add((m["f"], m["d"], m["tail"]))
    chk.count("data-after-eod", len(b4c.lines), nontriv, samples=[{"case": b4c.lines[2][:200], "impl": impl4c[2][:100]}])

    # ---------- part 5: malformed streams into every decoder (outcome class + bytes) ----------
    b5 = Batch()
    nmal = 3000 if quick else 60000
    for _ in range(nmal):
        f = rng.choice(["ahx", "a85", "rld", "b64d", "lzw", "lzw", "pngd", "tiffd"])
        n = rng.choice([1, 2, 3, 5, 8, 13, 40, 200])
        if f == "a85":
            d = bytes(rng.choice(b"!#$%&'()*+,-./0123456789uz~>v \n") for _ in range(n))
        elif f == "ahx":
            d = bytes(rng.choice(b"0123456789abcdefABCDEF >\ngG\x00") for _ in range(n))
        elif f == "b64d":
            d = bytes(rng.choice(b"ABCabc019+/-_= \n*") for _ in range(n))
        else:
            d = bytes(rng.randrange(256) for _ in range(n))
        ps = "-"
        if f == "lzw":
            ps = str(rng.randrange(2))
        elif f in ("pngd", "tiffd"):
            ps = "%d,%d,%d" % (rng.randint(1, 6), rng.randint(1, 4), rng.choice([1, 2, 4, 8, 16]))
        cs = rng.choice(chunkings(rng, d, k=1))
        b5.add("filt %s %s %s" % (f, ps, cstr(cs)), f=f)
    impl5 = common.run_lines(drv, b5.lines, shards=8)
    model5 = common.run_lines(runner, b5.lines, shards=8)
    kinds = {}
    for i in range(len(impl5)):
        k = b5.meta[i]["f"] + (":err" if impl5[i].endswith(" 1") else ":ok")
        kinds[k] = kinds.get(k, 0) + 1
        if impl5[i].endswith("logic"):
            chk.violation({"kind": "property-fails-on-implementation", "part": "malformed", "case": b5.lines[i], "implementation": impl5[i],
                           "why": "std::logic_error escaped a filter"})
        elif impl5[i] != model5[i]:
            tie_total.append((b5.lines[i][:400], impl5[i][:400], model5[i][:400]))
    chk.count("malformed", len(b5.lines), set(l for l, o in zip(b5.lines, impl5) if o.endswith(" 1")), samples=[{"case": b5.lines[3][:200], "impl": impl5[3][:100]}])
    chk.cov["parts"]["malformed"]["distribution"] = kinds

    # ---------- part 6: RC4 under every provider ----------
    lines6 = []
    for klen in (1, 2, 5, 16, 32, 255, 256):
        for n in (0, 1, 2, 15, 16, 17, 63, 64, 65, 255, 256, 257, 1000):
            lines6.append("rc4 %s %s" % (hexs(bytes(rng.randrange(256) for _ in range(klen))), hexs(bytes(rng.randrange(256) for _ in range(n)))))
    model6 = common.run_lines(runner, lines6)
    for prov in ("native", "openssl", "gnutls"):
        impl6 = common.run_lines(drv, lines6, env={"QPDF_CRYPTO_PROVIDER": prov})
        for l, a, m in zip(lines6, impl6, model6):
            if a != m:
                tie_total.append((prov + ": " + l[:300], a[:300], m[:300]))
    chk.count("rc4-providers", 3 * len(lines6), set(lines6), samples=[{"case": lines6[20][:120]}])

    if tie_total:
        chk.violation({"kind": "correspondence-broken", "correspondence": "corr:C15:filters", "differing_cases": len(tie_total),
                       "first_cases": [{"case": c, "implementation": a, "model": m} for c, a, m in tie_total[:5]],
                       "note": "model and implementation differ; no case found where the real codec disagrees with the independent reference"},
                      no_input=True)


def replay(chk, rep):
    import json
    print(json.dumps(rep, indent=1)[:4000])
    return 0
