(* C03 - reader model: the cross-reference table built from the writer's classic table (objects 1..n in order, all
   generation 0), its map order, the final "highest generation" pass, lookups.  Part of step (6) of
   rd_reads_writer_output (see the end of File/C03ProofsRdW.v). *)
From QV Require Import Base.Bytes Lex.TokModel Obj.ParseModel File.XrefModel File.RdModel File.C03ProofsRd
     Obj.Queue File.WriterArith Obj.WriterModel Obj.C01FileProofs File.C03ProofsRdW File.C03ProofsRdX.
From Coq Require Import Lia.
Local Open Scope N_scope.

(* the table: object i, i+1, ... at the recorded offsets *)
Fixpoint rdt_tbl (i : N) (offs : list (N * N)) : rd_tbl :=
  match offs with
  | [] => []
  | ko :: r => (i, 0, C3Use (snd ko) 0) :: rdt_tbl (i + 1) r
  end.

(* insertXrefEntry for each line, starting from a table that holds objects below i only and no deleted object *)
Lemma rdt_insert_lemma : forall offs max_id st i,
  c3_deleted st = [] -> (forall e, In e (c3_tbl st) -> fst (fst e) < i) -> 0 < i ->
  i + N.of_nat (length offs) <= max_id + 1 ->
  c3_tbl (rdx_insert max_id st i offs) = c3_tbl st ++ rdt_tbl i offs /\ c3_deleted (rdx_insert max_id st i offs) = [].
Proof. Abort.

Lemma rdt_insert_fresh_lemma : forall offs max_id,
  N.of_nat (length offs) <= max_id ->
  c3_tbl (rdx_insert max_id (Build_c3_state [] []) 1 offs) = rdt_tbl 1 offs /\
  c3_deleted (rdx_insert max_id (Build_c3_state [] []) 1 offs) = [].
Proof. Abort.

(* the free entry of object 0, recorded after the table: the table is unchanged, 0 is the only deleted object *)
Lemma rdt_free0_lemma : forall offs max_id st,
  c3_tbl st = rdt_tbl 1 offs -> c3_deleted st = [] ->
  c3_tbl (fold_left (c3_entry max_id) [(0, C3Free 65535)] st) = rdt_tbl 1 offs /\
  c3_deleted (fold_left (c3_entry max_id) [(0, C3Free 65535)] st) = [0].
Proof. Abort.

(* the table is already in map order, and the final pass of read_xref removes nothing *)
Lemma rdt_sort_id_lemma : forall offs i, fold_right rd_insert_sorted [] (rdt_tbl i offs) = rdt_tbl i offs.
Proof. Abort.

Lemma rdt_gen_pass_id_lemma : forall offs i, rd_gen_pass (rdt_tbl i offs) = rdt_tbl i offs.
Proof. Abort.

(* lookups *)
Lemma rdt_lookup_lemma : forall offs i k ko,
  nth_error offs k = Some ko -> rd_lookup (rdt_tbl i offs) (i + N.of_nat k) 0 = Some (C3Use (snd ko) 0).
Proof. Abort.

Lemma rdt_lookup_none_lemma : forall offs i obj gen,
  (obj < i \/ i + N.of_nat (length offs) <= obj \/ gen <> 0) -> rd_lookup (rdt_tbl i offs) obj gen = None.
Proof. Abort.

Lemma rdt_max_obj_lemma : forall offs i m, rd_max_obj (rdt_tbl i offs) m = (if (length offs =? 0)%nat then m else N.max m (i + N.of_nat (length offs) - 1)).
Proof. Abort.

(* no compressed entry: the object-stream cache of the view is empty *)
Lemma rdt_no_stm_cache_lemma : forall fuel e offs i, rde_tbl e = rdt_tbl i offs -> rd_stm_cache fuel e = [].
Proof. Abort.
