(* C03 - towards rd_reads_writer_output, continued: the reader model on the OUTPUT of the writer model
   (Obj/WriterModel.write_doc): header, explicit layout of every written object, readObjectAtOffset on every written
   non-stream container.  Steps (1a) and (3) of the list at the end of File/C03ProofsRdW.v. *)
From QV Require Import Base.Bytes Lex.TokModel Lex.LexSpec Lex.TokInterp Lex.LexRun Lex.LexProofs
     Obj.Unparse Obj.UnparseProofs Obj.SynSpec Obj.SynMachine Obj.ParseModel Obj.ParseProofs Obj.ParseSim
     Obj.Queue Obj.C01QueueProofs File.WriterArith Obj.WriterModel Obj.WmPrinters File.C02Proofs Obj.C01WriterProofs Obj.C01FileProofs
     File.XrefModel File.RdModel File.C03ProofsRd File.C03ProofsRdW.
From Coq Require Import Lia.
Local Open Scope N_scope.

Notation WOUT := (write_doc wm_unparse_string wm_unparse_name).

(* ------------------------------------------------------------------ (1a) findHeader on the writer's output *)
Lemma rd_writer_header_lemma : forall d a b,
  d_version d = [a; 46; b] -> is_digit a = true -> is_digit b = true ->
  rd_find_header 1024 (WOUT d) 0 = Some (0, [a; 46; b]).
Proof.
  intros d a b Hv Ha Hb.
  destruct (write_doc_shape wm_unparse_string wm_unparse_name d) as [tl Hshape].
  rewrite Hshape. set (X := concat _ ++ tl). rewrite Hv. unfold header. cbn [app].
  change 1024%nat with (S 1023). apply rd_find_header_here.
  assert (Ea : (a =? 10) || (a =? 13) = false /\ (b =? 10) || (b =? 13) = false).
  { unfold is_digit in Ha, Hb. apply andb_true_iff in Ha. apply andb_true_iff in Hb.
    destruct Ha as [A1 _]. destruct Hb as [B1 _]. apply N.leb_le in A1. apply N.leb_le in B1.
    split; apply orb_false_iff; split; apply N.eqb_neq; lia. }
  destruct Ea as [Ea Eb].
  cbn [rd_find_header]. change (rd_prefix rd_s_PDF (37 :: 80 :: 68 :: 70 :: 45 :: a :: 46 :: b :: 10 :: 37 :: 191 :: 247 :: 162 :: 254 :: 10 :: X)) with true.
  cbv iota.
  change 1024%nat with (S (S (S (S (S (S (S (S (S 1015))))))))). cbn [rd_line].
  change ((37 =? 10) || (37 =? 13)) with false. change ((80 =? 10) || (80 =? 13)) with false.
  change ((68 =? 10) || (68 =? 13)) with false. change ((70 =? 10) || (70 =? 13)) with false.
  change ((45 =? 10) || (45 =? 13)) with false. change ((46 =? 10) || (46 =? 13)) with false.
  change ((10 =? 10) || (10 =? 13)) with true. rewrite Ea, Eb. cbv iota. cbn [skipn].
  unfold rd_version. cbn [rd_span_digits]. rewrite Ha. change (is_digit 46) with false. cbv iota.
  cbn [rd_span_digits]. rewrite Hb. reflexivity.
Qed.

(* ------------------------------------------------------------------ (3) every written object, with what follows it *)
Lemma rw_offs_at : forall us un objs ren ids pos pre rest id,
  N.to_nat pos = length pre -> In id ids ->
  exists ids1 ids2 off,
    ids = ids1 ++ id :: ids2 /\
    In (ren id, off) (offs_of us un objs ren ids pos) /\
    N.to_nat off = (length pre + length (concat (map (chunk_of us un objs ren) ids1)))%nat /\
    skipn (N.to_nat off) (pre ++ concat (map (chunk_of us un objs ren) ids) ++ rest)
    = chunk_of us un objs ren id ++ concat (map (chunk_of us un objs ren) ids2) ++ rest.
Proof.
  intros us un objs ren. induction ids as [|a tl IH]; intros pos pre rest id Hpos Hin; [destruct Hin|].
  destruct Hin as [Heq | Hin].
  - subst a. exists [], tl, pos. split; [reflexivity|]. split; [left; reflexivity|]. split; [cbn; lia|].
    rewrite Hpos, skipn_app, skipn_all, Nat.sub_diag. cbn [app skipn map concat].
    rewrite <- app_assoc. reflexivity.
  - specialize (IH (pos + N.of_nat (length (chunk_of us un objs ren a))) (pre ++ chunk_of us un objs ren a) rest id).
    destruct IH as (ids1 & ids2 & off & H0 & H1 & H2 & H3); [|exact Hin|].
    + rewrite app_length, N2Nat.inj_add, Nat2N.id. lia.
    + exists (a :: ids1), ids2, off. split; [cbn [app]; rewrite H0; reflexivity|]. split; [right; exact H1|]. split.
      * rewrite H2. cbn [map concat]. rewrite !app_length. lia.
      * cbn [map concat]. rewrite <- !app_assoc in *. exact H3.
Qed.

(* the renumbering, made total and positive (it is only ever applied to written objects, where it is doc_ren) *)
Definition rw_ren (d : doc) (x : N) : N := if doc_ren d x =? 0 then 1 else doc_ren d x.
Lemma rw_ren_pos : forall d x, 0 < rw_ren d x.
Proof. intros d x. unfold rw_ren. destruct (doc_ren d x =? 0) eqn:E; [lia | apply N.eqb_neq in E; lia]. Qed.

Lemma rw_bytes_skipn : forall n (l : list N), bytes_ok l -> bytes_ok (skipn n l).
Proof.
  intros n l H. rewrite <- (firstn_skipn n l) in H. exact (bytes_ok_suffix _ _ H).
Qed.

Lemma rw_tail_head : forall d ids2 rest,
  (match rest with c :: _ => c_isspace c = false | [] => False end) ->
  match concat (map (w_chunk d) ids2) ++ rest with c :: _ => c_isspace c = false | [] => False end.
Proof.
  intros d [|a tl] rest H; [exact H|].
  cbn [map concat]. destruct (chunk_of_header wm_unparse_string wm_unparse_name (d_objects d) (doc_ren d) a) as [t Ht].
  unfold w_chunk. rewrite Ht. unfold obj_header. destruct (dec_of_N_head (doc_ren d a)) as (c & t' & Hk & Hc).
  rewrite Hk. cbn [app]. unfold is_digit in Hc. apply andb_true_iff in Hc. destruct Hc as [A1 A2].
  apply N.leb_le in A1. apply N.leb_le in A2. unfold c_isspace.
  apply orb_false_iff. split; [apply N.eqb_neq; lia|]. apply andb_false_iff. right. apply N.leb_gt. lia.
Qed.

(* readObjectAtOffset (model) on every written object that is not a stream and is an array or a dictionary of the
   bridge's class: at the offset recorded for it in the table it returns that object under its new number, generation
   0, with no warning. *)
Lemma rd_read_at_written_step : forall d e resolve id i,
  rde_file e = WOUT d -> bytes_ok (WOUT d) ->
  doc_closed d -> In id (w_ids d) -> find_obj (d_objects d) id = Some i -> i_stream i = None ->
  (Z.of_N (doc_ren d id) <= 2147483647)%Z ->
  rw_container (i_val i) -> rw_wf (i_val i) = true -> rw_nd (d_objects d) (i_val i) = true ->
  ints_ok (rd_toks (d_objects d) (rw_ren d) (i_val i)) -> refs_ok (rd_toks (d_objects d) (rw_ren d) (i_val i)) = true ->
  opens (rd_toks (d_objects d) (rw_ren d) (i_val i)) <= 500 -> len (rd_toks (d_objects d) (rw_ren d) (i_val i)) < 4294967295 ->
  exists off o',
    In (doc_ren d id, off) (w_offs d) /\
    rd_read_at e resolve false off (Some (doc_ren d id, 0))
    = RdrObj (Z.of_N (doc_ren d id)) 0 (mkRdObj (rd_fixrefs (rd_known e) o') None false) [] /\
    R_obj o' (rd_sy (d_objects d) (rw_ren d) (i_val i)).
Proof.
  intros d e resolve id i Hfile Hb Hc Hin Hf Hs Hmax Hcont W ND Hi Hr Ho Hl.
  pose proof (write_doc_layout_lemma d) as Hlay.
  destruct (rw_offs_at wm_unparse_string wm_unparse_name (d_objects d) (doc_ren d) (w_ids d)
              (N.of_nat (length (w_hdr d))) (w_hdr d) (w_xref d ++ w_trailer d ++ w_tail d) id (Nat2N.id _) Hin)
    as (ids1 & ids2 & off & Hids & Hoff & Hoffv & Hskip).
  assert (Hskip' : skipn (N.to_nat off) (WOUT d)
                   = w_chunk d id ++ concat (map (w_chunk d) ids2) ++ w_xref d ++ w_trailer d ++ w_tail d)
    by (rewrite Hlay; exact Hskip).
  clear Hskip. rename Hskip' into Hskip.
  assert (Hext : forall x, In x (refs_of (d_objects d) (i_val i)) -> doc_ren d x = rw_ren d x).
  { intros x Hx. pose proof (refs_ren_pos d id i x Hc Hin Hf Hs Hx) as Hp.
    unfold rw_ren. destruct (doc_ren d x =? 0) eqn:E; [apply N.eqb_eq in E; lia | reflexivity]. }
  destruct (ren_ext wm_unparse_string wm_unparse_name (d_objects d) (doc_ren d) (rw_ren d) (i_val i) Hext) as [HU _].
  assert (Hchunk : w_chunk d id = obj_header (doc_ren d id)
                     ++ unparse wm_unparse_string wm_unparse_name (d_objects d) (rw_ren d) (i_val i) ++ s_endobj).
  { unfold w_chunk, chunk_of. rewrite Hf. unfold emit_object. rewrite Hs, HU. reflexivity. }
  set (tail := concat (map (w_chunk d) ids2) ++ w_xref d ++ w_trailer d ++ w_tail d) in *.
  exists off.
  assert (Hat : rd_at (rde_file e) off = obj_header (doc_ren d id)
            ++ unparse wm_unparse_string wm_unparse_name (d_objects d) (rw_ren d) (i_val i) ++ s_endobj ++ tail).
  { unfold rd_at. rewrite Hfile, Hskip, Hchunk. rewrite <- !app_assoc. reflexivity. }
  assert (Hoff0 : off <> 0).
  { intros E0. rewrite E0 in Hoffv. cbn in Hoffv. unfold w_hdr, header in Hoffv. rewrite !app_length in Hoffv. cbn [length] in Hoffv. lia. }
  assert (Hbt : bytes_ok tail).
  { pose proof (rw_bytes_skipn (N.to_nat off) _ Hb) as H1. rewrite Hskip in H1.
    exact (bytes_ok_suffix _ _ H1). }
  assert (Hth : match tail with c :: _ => c_isspace c = false | [] => False end).
  { unfold tail. apply rw_tail_head. reflexivity. }
  destruct (rd_read_at_emitted_lemma e resolve (d_objects d) (rw_ren d) (doc_ren d id) (i_val i) tail off Hat Hoff0
              (written_ren_pos d id Hc Hin) Hmax (rw_ren_pos d) Hcont W ND Hi Hr Ho Hl Hbt Hth) as (o' & H1 & H2).
  exists o'. split; [exact Hoff|]. split; assumption.
Qed.
