(* C18 unbounded refinement, part A: list helpers, the zipper view of a tree along an iterator
   path (frames bottom-up: the model's reversed path), the /Limits invariant (every non-root node
   carries exactly the limits resetLimits would compute: lc), and the equivalence of the
   representation invariant tree_inv with the executable checker wf_code. *)
From Coq Require Import Sorting.Sorted.
From QV Require Import Base.Bytes Struct.NNTreeModel Struct.NNTreeSpec Struct.C18Proofs Struct.C18ProofsC.
Local Open Scope Z_scope.

Notation node := (nnode Z).
Notation zst := (nnst Z).
Notation zget := (nn_get Z).
Notation zupd := (nn_upd Z).
Notation zabs := (nn_abs Z).
Notation zmap := (smap Z).

(* ------------------------------------------------------------------ lists *)
Lemma c18_zlen_nonneg {A} (l : list A) : 0 <= nn_zlen l.
Proof. unfold nn_zlen. lia. Qed.
Lemma c18_zlen_app {A} (l1 l2 : list A) : nn_zlen (l1 ++ l2) = nn_zlen l1 + nn_zlen l2.
Proof. unfold nn_zlen. rewrite app_length. lia. Qed.
Lemma c18_zlen_cons {A} (x : A) (l : list A) : nn_zlen (x :: l) = 1 + nn_zlen l.
Proof. unfold nn_zlen. simpl length. lia. Qed.
Lemma c18_zlen_nil {A} : nn_zlen (@nil A) = 0.
Proof. reflexivity. Qed.
Lemma c18_to_nat_zlen {A} (l : list A) : Z.to_nat (nn_zlen l) = length l.
Proof. unfold nn_zlen. apply Nat2Z.id. Qed.

Lemma c18_znth_mid {A} (L R : list A) (a : A) : nn_znth (L ++ a :: R) (nn_zlen L) = Some a.
Proof.
  unfold nn_znth. pose proof (c18_zlen_nonneg L) as H.
  destruct (nn_zlen L <? 0) eqn:E; [apply Z.ltb_lt in E; lia|].
  rewrite c18_to_nat_zlen. rewrite nth_error_app2 by lia. rewrite Nat.sub_diag. reflexivity.
Qed.
Lemma c18_znth_nat {A} (l : list A) (i : nat) : nn_znth l (Z.of_nat i) = nth_error l i.
Proof.
  unfold nn_znth. destruct (Z.of_nat i <? 0) eqn:E; [apply Z.ltb_lt in E; lia|].
  rewrite Nat2Z.id. reflexivity.
Qed.
Lemma c18_znth_neg {A} (l : list A) (i : Z) : i < 0 -> nn_znth l i = None.
Proof. intros H. unfold nn_znth. apply Z.ltb_lt in H. rewrite H. reflexivity. Qed.
Lemma c18_znth_pos {A} (l : list A) (i : Z) : 0 <= i -> nn_znth l i = nth_error l (Z.to_nat i).
Proof. intros H. unfold nn_znth. destruct (i <? 0) eqn:E; [apply Z.ltb_lt in E; lia|reflexivity]. Qed.
Lemma c18_znth_beyond {A} (l : list A) (i : Z) : nn_zlen l <= i -> nn_znth l i = None.
Proof.
  intros H. pose proof (c18_zlen_nonneg l). rewrite c18_znth_pos by lia.
  apply nth_error_None. unfold nn_zlen in H. lia.
Qed.
Lemma c18_znth_split {A} (l : list A) (i : Z) (a : A) : nn_znth l i = Some a ->
  exists L R, l = L ++ a :: R /\ nn_zlen L = i.
Proof.
  intros H. pose proof (znth_nonneg _ _ _ H) as Hi. rewrite c18_znth_pos in H by exact Hi.
  apply nth_error_split in H. destruct H as (L & R & -> & HL).
  exists L, R. split; [reflexivity|]. unfold nn_zlen. lia.
Qed.

Lemma c18_upd_nth_mid {A} (L R : list A) (a : A) (f : A -> A) :
  nn_upd_nth (L ++ a :: R) (length L) f = L ++ f a :: R.
Proof. induction L as [|x L IH]; simpl; [reflexivity|]. rewrite IH. reflexivity. Qed.
Lemma c18_firstn_mid {A} (L R : list A) : firstn (length L) (L ++ R) = L.
Proof. rewrite firstn_app, Nat.sub_diag, firstn_all. simpl. apply app_nil_r. Qed.
Lemma c18_skipn_mid {A} (L R : list A) : skipn (length L) (L ++ R) = R.
Proof. rewrite skipn_app, Nat.sub_diag, skipn_all. reflexivity. Qed.
Lemma c18_skipn_mid_S {A} (L R : list A) (a : A) : skipn (S (length L)) (L ++ a :: R) = R.
Proof.
  replace (L ++ a :: R) with ((L ++ [a]) ++ R) by (rewrite <- app_assoc; reflexivity).
  replace (S (length L)) with (length (L ++ [a])) by (rewrite app_length; simpl; lia).
  apply c18_skipn_mid.
Qed.
Lemma c18_insert_at_mid {A} (L R : list A) (a b : A) :
  nn_insert_at (L ++ a :: R) (S (length L)) b = L ++ a :: b :: R.
Proof.
  unfold nn_insert_at.
  replace (L ++ a :: R) with ((L ++ [a]) ++ R) by (rewrite <- app_assoc; reflexivity).
  replace (S (length L)) with (length (L ++ [a])) by (rewrite app_length; simpl; lia).
  rewrite c18_firstn_mid, c18_skipn_mid. rewrite <- app_assoc. reflexivity.
Qed.
Lemma c18_erase_at_mid {A} (L R : list A) (a : A) : nn_erase_at (L ++ a :: R) (length L) = L ++ R.
Proof. unfold nn_erase_at. rewrite c18_firstn_mid, c18_skipn_mid_S. reflexivity. Qed.

Lemma c18_last_indep {A} (l : list A) (d d' : A) : l <> [] -> last l d = last l d'.
Proof.
  induction l as [|x l IH]; intros H; [congruence|]. destruct l as [|y l]; [reflexivity|].
  change (last (y :: l) d = last (y :: l) d'). apply IH. discriminate.
Qed.
Lemma c18_last_app {A} (l1 l2 : list A) (d : A) : l2 <> [] -> last (l1 ++ l2) d = last l2 d.
Proof.
  intros H. destruct (exists_last H) as (l' & a & ->).
  rewrite app_assoc, !last_last. reflexivity.
Qed.
Lemma c18_last_in {A} (l : list A) (d : A) : l <> [] -> In (last l d) l.
Proof.
  intros H. destruct (exists_last H) as (l' & a & ->). rewrite last_last.
  apply in_or_app. right. left. reflexivity.
Qed.
Lemma c18_hd_rev_last {A} (l : list A) (d : A) : l <> [] -> hd_error (rev l) = Some (last l d).
Proof.
  intros H. destruct (exists_last H) as (l' & a & ->). rewrite last_last, rev_app_distr. reflexivity.
Qed.
Lemma c18_last_flat_map {A B} (F : A -> list B) (l : list A) (d0 : A) (d : B) :
  l <> [] -> F (last l d0) <> [] -> last (flat_map F l) d = last (F (last l d0)) d.
Proof.
  intros H. destruct (exists_last H) as (l' & a & ->). rewrite last_last. intros Ha.
  rewrite flat_map_app. simpl. rewrite app_nil_r. apply c18_last_app. exact Ha.
Qed.

(* generic: an element of a concatenation of blocks lies in one block *)
Lemma c18_app_split {A} (X Y P : list A) (e : A) (Q : list A) : X ++ Y = P ++ e :: Q ->
  (exists Q', X = P ++ e :: Q' /\ Q = Q' ++ Y) \/ (exists P', P = X ++ P' /\ Y = P' ++ e :: Q).
Proof.
  revert P. induction X as [|x X IH]; intros P H; simpl in H.
  - right. exists P. split; [reflexivity|exact H].
  - destruct P as [|p P]; simpl in H.
    + injection H as -> HQ. left. exists X. split; [reflexivity|symmetry; exact HQ].
    + injection H as -> HQ. destruct (IH P HQ) as [(Q' & -> & ->)|(P' & -> & ->)].
      * left. exists Q'. split; reflexivity.
      * right. exists P'. split; reflexivity.
Qed.
Lemma c18_flat_split {A B} (F : A -> list B) (l : list A) (P : list B) (e : B) (Q : list B) :
  flat_map F l = P ++ e :: Q ->
  exists l1 x l2 P' Q', l = l1 ++ x :: l2 /\ F x = P' ++ e :: Q' /\
    P = flat_map F l1 ++ P' /\ Q = Q' ++ flat_map F l2.
Proof.
  revert P. induction l as [|x l IH]; intros P H; simpl in H.
  - destruct P; discriminate.
  - destruct (c18_app_split _ _ _ _ _ H) as [(Q' & Hx & ->)|(P' & -> & Hl)].
    + exists [], x, l, P, Q'. repeat split; assumption.
    + destruct (IH P' Hl) as (l1 & y & l2 & P2 & Q2 & -> & Hy & -> & ->).
      exists (x :: l1), y, l2, P2, Q2. repeat split; try assumption.
      simpl. rewrite app_assoc. reflexivity.
Qed.

(* ------------------------------------------------------------------ the zipper *)
Record frame := Fr { fr_lim : option (Z * Z); fr_L : list node; fr_R : list node }.
Definition fill (fr : frame) (a : node) : node := NInner (fr_lim fr) (fr_L fr ++ a :: fr_R fr).
(* frames bottom-up: the head is the parent of the hole *)
Fixpoint plug (a : node) (fs : list frame) : node :=
  match fs with [] => a | fr :: fs' => plug (fill fr a) fs' end.
Definition fidx (fr : frame) : Z := nn_zlen (fr_L fr).
Definition rzpath (fs : list frame) : list Z := map fidx fs.
Definition zpath (fs : list frame) : list Z := rev (rzpath fs).

Lemma zpath_cons : forall fr fs, zpath (fr :: fs) = zpath fs ++ [fidx fr].
Proof. reflexivity. Qed.
Lemma zpath_nil : zpath [] = [].
Proof. reflexivity. Qed.
Lemma zpath_app : forall fs1 fs2, zpath (fs1 ++ fs2) = zpath fs2 ++ zpath fs1.
Proof. intros. unfold zpath, rzpath. rewrite map_app, rev_app_distr. reflexivity. Qed.
Lemma zpath_length : forall fs, length (zpath fs) = length fs.
Proof. intros. unfold zpath, rzpath. rewrite rev_length, map_length. reflexivity. Qed.
Lemma plug_app : forall fs1 fs2 a, plug a (fs1 ++ fs2) = plug (plug a fs1) fs2.
Proof. induction fs1 as [|fr fs1 IH]; intros; simpl; [reflexivity|apply IH]. Qed.
Lemma rev'_rzpath : forall fs, rev' (rzpath fs) = zpath fs.
Proof. intros. apply rev'_rev. Qed.
Lemma rev'_zpath : forall fs, rev' (zpath fs) = rzpath fs.
Proof. intros. rewrite rev'_rev. unfold zpath. apply rev_involutive. Qed.

Lemma get_fill : forall fr a q, zget (fill fr a) (fidx fr :: q) = zget a q.
Proof. intros. unfold fill, fidx. cbn [nn_get]. rewrite c18_znth_mid. reflexivity. Qed.
Lemma get_plug_app : forall fs a q, zget (plug a fs) (zpath fs ++ q) = zget a q.
Proof.
  induction fs as [|fr fs IH]; intros a q; [reflexivity|].
  rewrite zpath_cons, <- app_assoc. simpl app. cbn [plug]. rewrite IH. apply get_fill.
Qed.
Lemma get_plug : forall fs a, zget (plug a fs) (zpath fs) = Some a.
Proof. intros. rewrite <- (app_nil_r (zpath fs)). rewrite get_plug_app. reflexivity. Qed.

Lemma upd_fill : forall fr a q f, zupd (fill fr a) (fidx fr :: q) f = fill fr (zupd a q f).
Proof.
  intros. unfold fill, fidx. cbn [nn_upd]. pose proof (c18_zlen_nonneg (fr_L fr)) as H.
  destruct (nn_zlen (fr_L fr) <? 0) eqn:E; [apply Z.ltb_lt in E; lia|].
  rewrite c18_to_nat_zlen, c18_upd_nth_mid. reflexivity.
Qed.
Lemma upd_plug_app : forall fs a q f, zupd (plug a fs) (zpath fs ++ q) f = plug (zupd a q f) fs.
Proof.
  induction fs as [|fr fs IH]; intros a q f; [reflexivity|].
  rewrite zpath_cons, <- app_assoc. simpl app. cbn [plug]. rewrite IH. rewrite upd_fill. reflexivity.
Qed.
Lemma upd_plug : forall fs a f, zupd (plug a fs) (zpath fs) f = plug (f a) fs.
Proof. intros. rewrite <- (app_nil_r (zpath fs)). rewrite upd_plug_app. reflexivity. Qed.

Lemma unplug : forall p root a, zget root p = Some a -> exists fs, root = plug a fs /\ p = zpath fs.
Proof.
  induction p as [|i p IH]; intros root a H.
  - simpl in H. injection H as ->. exists []. split; reflexivity.
  - cbn [nn_get] in H. destruct root as [l items|l kids]; [discriminate|].
    destruct (nn_znth kids i) as [k|] eqn:Ek; [|discriminate].
    destruct (c18_znth_split _ _ _ Ek) as (L & R & -> & HL).
    destruct (IH k a H) as (fs & -> & ->).
    exists (fs ++ [Fr l L R]). split.
    + rewrite plug_app. reflexivity.
    + rewrite zpath_app. simpl. unfold fidx. simpl. rewrite HL. reflexivity.
Qed.

(* firstn of a path that starts with zpath fs *)
Lemma firstn_zpath : forall fs q, firstn (length fs) (zpath fs ++ q) = zpath fs.
Proof. intros. rewrite <- (zpath_length fs). apply c18_firstn_mid. Qed.
Lemma firstn_zpath_tail : forall fr fs q,
  firstn (length fs) (zpath (fr :: fs) ++ q) = zpath fs.
Proof. intros. rewrite zpath_cons, <- app_assoc. apply firstn_zpath. Qed.
Lemma znth_zpath : forall fs q, nn_znth (zpath fs ++ q) (Z.of_nat (length fs)) = nn_znth q 0.
Proof.
  intros. rewrite c18_znth_nat. rewrite nth_error_app2 by (rewrite zpath_length; lia).
  rewrite zpath_length, Nat.sub_diag. destruct q; reflexivity.
Qed.

(* entries before / after the hole *)
Fixpoint zpre (fs : list frame) : zmap :=
  match fs with [] => [] | fr :: fs' => zpre fs' ++ flat_map zabs (fr_L fr) end.
Fixpoint zpost (fs : list frame) : zmap :=
  match fs with [] => [] | fr :: fs' => flat_map zabs (fr_R fr) ++ zpost fs' end.
Lemma abs_fill : forall fr a, zabs (fill fr a) = flat_map zabs (fr_L fr) ++ zabs a ++ flat_map zabs (fr_R fr).
Proof. intros. unfold fill. cbn [nn_abs]. rewrite flat_map_app. reflexivity. Qed.
Lemma abs_plug : forall fs a, zabs (plug a fs) = zpre fs ++ zabs a ++ zpost fs.
Proof.
  induction fs as [|fr fs IH]; intros a; simpl; [rewrite app_nil_r; reflexivity|].
  rewrite IH, abs_fill. rewrite <- !app_assoc. reflexivity.
Qed.
Lemma zpre_app : forall fs1 fs2, zpre (fs1 ++ fs2) = zpre fs2 ++ zpre fs1.
Proof.
  induction fs1 as [|fr fs1 IH]; intros; simpl; [rewrite app_nil_r; reflexivity|].
  rewrite IH, app_assoc. reflexivity.
Qed.
Lemma zpost_app : forall fs1 fs2, zpost (fs1 ++ fs2) = zpost fs1 ++ zpost fs2.
Proof.
  induction fs1 as [|fr fs1 IH]; intros; simpl; [reflexivity|]. rewrite IH, app_assoc. reflexivity.
Qed.

(* frames that differ only by their /Limits *)
Definition same_sibs (fs fs' : list frame) : Prop :=
  map fr_L fs = map fr_L fs' /\ map fr_R fs = map fr_R fs'.
Lemma same_sibs_refl : forall fs, same_sibs fs fs.
Proof. split; reflexivity. Qed.
Lemma same_sibs_trans : forall a b c, same_sibs a b -> same_sibs b c -> same_sibs a c.
Proof. intros a b c [H1 H2] [H3 H4]. split; congruence. Qed.
Lemma same_sibs_cons : forall l l' L R fs fs', same_sibs fs fs' -> same_sibs (Fr l L R :: fs) (Fr l' L R :: fs').
Proof. intros l l' L R fs fs' [H1 H2]. split; simpl; congruence. Qed.
Lemma same_sibs_inv : forall fr fs gs, same_sibs (fr :: fs) gs ->
  exists l' gs', gs = Fr l' (fr_L fr) (fr_R fr) :: gs' /\ same_sibs fs gs'.
Proof.
  intros fr fs gs [H1 H2]. destruct gs as [|[l' L' R'] gs']; [discriminate|]. simpl in *.
  injection H1 as HL H1. injection H2 as HR H2. subst. exists l', gs'. split; [reflexivity|split; assumption].
Qed.
Lemma same_sibs_length : forall fs fs', same_sibs fs fs' -> length fs = length fs'.
Proof. intros fs fs' [H _]. rewrite <- (map_length fr_L fs), H, map_length. reflexivity. Qed.
Lemma same_sibs_rzpath : forall fs fs', same_sibs fs fs' -> rzpath fs = rzpath fs'.
Proof.
  intros fs fs' [H _]. unfold rzpath, fidx.
  rewrite <- (map_map fr_L (fun L => nn_zlen L)), H, map_map. reflexivity.
Qed.
Lemma same_sibs_zpath : forall fs fs', same_sibs fs fs' -> zpath fs = zpath fs'.
Proof. intros. unfold zpath. f_equal. apply same_sibs_rzpath. assumption. Qed.
Lemma same_sibs_zpre : forall fs fs', same_sibs fs fs' -> zpre fs = zpre fs'.
Proof.
  induction fs as [|fr fs IH]; intros gs H.
  - destruct H as [H _]. destruct gs; [reflexivity|discriminate].
  - destruct (same_sibs_inv _ _ _ H) as (l' & gs' & -> & H'). simpl. rewrite (IH _ H'). reflexivity.
Qed.
Lemma same_sibs_zpost : forall fs fs', same_sibs fs fs' -> zpost fs = zpost fs'.
Proof.
  induction fs as [|fr fs IH]; intros gs H.
  - destruct H as [H _]. destruct gs; [reflexivity|discriminate].
  - destruct (same_sibs_inv _ _ _ H) as (l' & gs' & -> & H'). simpl. rewrite (IH _ H'). reflexivity.
Qed.

(* ------------------------------------------------------------------ /Limits exactness *)
Definition lo_hi (m : zmap) : option (Z * Z) :=
  match m with [] => None | (k0, _) :: _ => Some (k0, fst (last m (k0, 0))) end.

Lemma first_last_leaf : forall l items, nn_first_last Z (NLeaf l items) = lo_hi items.
Proof. intros. reflexivity. Qed.
Lemma lo_hi_none : forall m, lo_hi m = None -> m = [].
Proof. intros [|[k v] m] H; [reflexivity|discriminate]. Qed.
Lemma lo_hi_some : forall m, m <> [] -> lo_hi m <> None.
Proof. intros [|[k v] m] H; [congruence|discriminate]. Qed.
Lemma lo_hi_in : forall m lo hi, lo_hi m = Some (lo, hi) ->
  (exists v m', m = (lo, v) :: m') /\ (exists v, In (hi, v) m).
Proof.
  intros [|[k v] m] lo hi H; [discriminate|]. simpl in H. injection H as <- <-. split.
  - exists v, m. reflexivity.
  - exists (snd (last ((k, v) :: m) (k, 0))). rewrite <- surjective_pairing. apply c18_last_in. discriminate.
Qed.

(* a node carries exactly the limits resetLimits computes for it *)
Definition lc (n : node) : Prop := nn_lim Z n = nn_first_last Z n /\ nn_first_last Z n <> None.

Inductive sub_ok : node -> Prop :=
| sok_leaf : forall l items, lc (NLeaf l items) -> sub_ok (NLeaf l items)
| sok_inner : forall l kids, lc (NInner l kids) -> Forall sub_ok kids -> sub_ok (NInner l kids).

Definition kids_ok (n : node) : Prop :=
  match n with NLeaf _ _ => True | NInner _ kids => Forall sub_ok kids end.

Lemma sub_ok_lc : forall n, sub_ok n -> lc n.
Proof. intros n H. inversion H; assumption. Qed.
Lemma sub_ok_kids : forall n, sub_ok n -> kids_ok n.
Proof. intros n H. inversion H; simpl; [exact I|assumption]. Qed.
Lemma sub_ok_intro : forall n, lc n -> kids_ok n -> sub_ok n.
Proof. intros [l items|l kids] H1 H2; constructor; assumption. Qed.

Lemma first_last_set_lim : forall l n, nn_first_last Z (nn_set_lim Z l n) = nn_first_last Z n.
Proof. intros l [? ?|? ?]; reflexivity. Qed.
Lemma lim_set_lim : forall l n, nn_lim Z (nn_set_lim Z l n) = l.
Proof. intros l [? ?|? ?]; reflexivity. Qed.
Lemma kids_ok_set_lim : forall l n, kids_ok (nn_set_lim Z l n) <-> kids_ok n.
Proof. intros l [? ?|? ?]; simpl; tauto. Qed.
Lemma set_lim_same : forall n, nn_set_lim Z (nn_lim Z n) n = n.
Proof. intros [? ?|? ?]; reflexivity. Qed.

(* the limits of a valid subtree are the least and greatest key beneath; it is not empty *)
Lemma first_last_inner_ok : forall l kids, Forall sub_ok kids ->
  Forall (fun k => zabs k <> [] /\ nn_lim Z k = lo_hi (zabs k)) kids -> kids <> [] ->
  nn_first_last Z (NInner l kids) = lo_hi (flat_map zabs kids) /\ flat_map zabs kids <> [].
Proof.
  intros l kids Hok Hall Hne. destruct kids as [|k0 rest]; [congruence|].
  cbn [nn_first_last].
  assert (H0 : zabs k0 <> [] /\ nn_lim Z k0 = lo_hi (zabs k0)) by (inversion Hall; assumption).
  assert (Hl : zabs (last (k0 :: rest) k0) <> [] /\
               nn_lim Z (last (k0 :: rest) k0) = lo_hi (zabs (last (k0 :: rest) k0))).
  { rewrite Forall_forall in Hall. apply Hall. apply c18_last_in. discriminate. }
  destruct H0 as [H0ne H0l]. destruct Hl as [Hlne Hll].
  destruct (zabs k0) as [|[f v] m0] eqn:E0; [congruence|].
  destruct (zabs (last (k0 :: rest) k0)) as [|[f' v'] ml] eqn:El; [congruence|].
  assert (Hflat : flat_map zabs (k0 :: rest) = (f, v) :: (m0 ++ flat_map zabs rest)).
  { cbn [flat_map]. rewrite E0. reflexivity. }
  assert (Hlast : last (flat_map zabs (k0 :: rest)) (f, 0) = last ((f', v') :: ml) (f', 0)).
  { rewrite (c18_last_flat_map zabs (k0 :: rest) k0 (f, 0)); [|discriminate|rewrite El; discriminate].
    rewrite El. apply c18_last_indep. discriminate. }
  rewrite H0l, Hll. cbn [lo_hi]. rewrite <- Hlast. rewrite Hflat. split; [reflexivity|discriminate].
Qed.

Lemma sub_ok_abs : forall n, sub_ok n -> zabs n <> [] /\ nn_lim Z n = lo_hi (zabs n).
Proof.
  induction n as [l items|l kids IH] using (nnode_ind' Z); intros H.
  - inversion H as [? ? [Hl Hne]|]; subst. cbn [nn_lim nn_abs] in *. rewrite first_last_leaf in *.
    split; [|exact Hl]. intros ->. apply Hne. reflexivity.
  - inversion H as [|? ? [Hl Hne] Hk]; subst. cbn [nn_lim nn_abs] in *.
    assert (Hall : Forall (fun k => zabs k <> [] /\ nn_lim Z k = lo_hi (zabs k)) kids).
    { rewrite Forall_forall in *. intros k Hin. apply IH; [exact Hin|]. apply Hk. exact Hin. }
    assert (Hkne : kids <> []). { intros ->. apply Hne. reflexivity. }
    destruct (first_last_inner_ok l kids Hk Hall Hkne) as [Hfl Hfne].
    split; [exact Hfne|]. rewrite Hl. exact Hfl.
Qed.
Lemma first_last_inner : forall l kids, Forall sub_ok kids -> kids <> [] ->
  nn_first_last Z (NInner l kids) = lo_hi (flat_map zabs kids) /\ flat_map zabs kids <> [].
Proof.
  intros l kids Hk Hne. apply first_last_inner_ok; [exact Hk| |exact Hne].
  rewrite Forall_forall in *. intros k Hin. apply sub_ok_abs. apply Hk. exact Hin.
Qed.
(* first_last of any node with valid kids, in terms of its entries *)
Lemma first_last_abs : forall n, kids_ok n -> nn_first_last Z n <> None ->
  nn_first_last Z n = lo_hi (zabs n) /\ zabs n <> [].
Proof.
  intros [l items|l kids] Hk Hne.
  - rewrite first_last_leaf in *. split; [reflexivity|]. intros E. cbn [nn_abs] in E. rewrite E in Hne. apply Hne. reflexivity.
  - cbn [nn_abs]. apply first_last_inner; [exact Hk|]. intros ->. apply Hne. reflexivity.
Qed.

(* ------------------------------------------------------------------ sortedness *)
Definition zsorted (m : zmap) : Prop := StronglySorted Z.lt (map fst m).

Lemma sm_sorted_iff : forall m, sm_sorted Z nn_zcmp m = true <-> zsorted m.
Proof.
  unfold zsorted. induction m as [|[a va] m IH]; simpl.
  - split; [constructor|reflexivity].
  - destruct m as [|[b vb] m'].
    + split; [intros _; constructor; constructor|reflexivity].
    + rewrite andb_true_iff, IH. unfold k_lt, nn_zcmp. split.
      * intros [H1 H2]. assert (Hab : a < b) by (destruct (Z.compare_spec a b); try discriminate; assumption).
        constructor; [exact H2|]. simpl. constructor; [exact Hab|].
        inversion H2 as [|? ? _ Hall]; subst. eapply Forall_impl; [|exact Hall]. simpl. intros; lia.
      * intros H. inversion H as [|? ? H2 Hall]; subst. split; [|exact H2].
        simpl in Hall. inversion Hall as [|? ? Hab _]; subst.
        apply Z.compare_lt_iff in Hab. rewrite Hab. reflexivity.
Qed.

Lemma zsorted_app : forall m1 m2, zsorted (m1 ++ m2) <->
  zsorted m1 /\ zsorted m2 /\ (forall a b, In a m1 -> In b m2 -> fst a < fst b).
Proof.
  unfold zsorted. induction m1 as [|x m1 IH]; intros m2; simpl.
  - split; [intros H; repeat split; [constructor|exact H|intros ? ? []]|tauto].
  - split.
    + intros H. inversion H as [|? ? Hs Hall]; subst. apply IH in Hs. destruct Hs as (H1 & H2 & H3).
      rewrite map_app, Forall_app in Hall. destruct Hall as [Ha1 Ha2].
      repeat split; [constructor; assumption|exact H2|].
      intros a b [<-|Ha] Hb; [|apply H3; assumption].
      rewrite Forall_forall in Ha2. apply Ha2. apply in_map. exact Hb.
    + intros (H1 & H2 & H3). inversion H1 as [|? ? Hs Hall]; subst. constructor.
      * apply IH. repeat split; [exact Hs|exact H2|]. intros a b Ha Hb. apply H3; [right; exact Ha|exact Hb].
      * rewrite map_app, Forall_app. split; [exact Hall|].
        rewrite Forall_forall. intros k Hk. apply in_map_iff in Hk. destruct Hk as (b & <- & Hb).
        apply H3; [left; reflexivity|exact Hb].
Qed.
Lemma zsorted_cons : forall e m, zsorted (e :: m) <-> zsorted m /\ (forall b, In b m -> fst e < fst b).
Proof.
  intros e m. change (e :: m) with ([e] ++ m). rewrite zsorted_app. split.
  - intros (_ & H2 & H3). split; [exact H2|]. intros b Hb. apply H3; [left; reflexivity|exact Hb].
  - intros (H2 & H3). repeat split; [constructor; constructor|exact H2|].
    intros a b [<-|[]] Hb. apply H3. exact Hb.
Qed.

(* ------------------------------------------------------------------ the tree invariant *)
Record tree_inv (t : Z) (root : node) : Prop := {
  ti_nolim : nn_lim Z root = None;
  ti_kids : kids_ok root;
  ti_ne : match root with NInner _ [] => False | _ => True end;
  ti_sorted : zsorted (zabs root);
  ti_size : size_ok Z t root = true }.

Lemma lim_ok_iff : forall lim m, lim_ok Z nn_zcmp lim m = true <-> m <> [] /\ lim = lo_hi m.
Proof.
  intros lim m. unfold lim_ok, sm_first, sm_last. rewrite rev'_rev.
  destruct m as [|[k v] m].
  - simpl. split; [|intros [H _]; congruence]. destruct lim as [[? ?]|]; discriminate.
  - rewrite (c18_hd_rev_last ((k, v) :: m) (k, 0)) by discriminate. cbn [hd_error lo_hi].
    destruct (last ((k, v) :: m) (k, 0)) as [b vb] eqn:El. cbn [fst].
    destruct lim as [[lo hi]|].
    + unfold k_eq, nn_zcmp. split.
      * intros H. apply andb_true_iff in H. destruct H as [H1 H2]. split; [discriminate|].
        destruct (Z.compare_spec lo k); try discriminate. destruct (Z.compare_spec hi b); try discriminate.
        subst. reflexivity.
      * intros [_ H]. injection H as -> ->. rewrite !Z.compare_refl. reflexivity.
    + split; [discriminate|intros [_ H]; discriminate].
Qed.

Lemma wf_sub_iff : forall n, wf_sub Z nn_zcmp n = true <-> sub_ok n.
Proof.
  induction n as [l items|l kids IH] using (nnode_ind' Z).
  - cbn [wf_sub]. rewrite andb_true_iff, lim_ok_iff. split.
    + intros [_ [Hne Hl]]. constructor. split; cbn [nn_lim]; rewrite first_last_leaf; [exact Hl|].
      apply lo_hi_some. exact Hne.
    + intros H. pose proof (sub_ok_abs _ H) as [Hne Hl]. cbn [nn_abs nn_lim] in *.
      split; [|split; assumption]. destruct items; [congruence|reflexivity].
  - cbn [wf_sub]. rewrite !andb_true_iff, lim_ok_iff, forallb_forall. split.
    + intros [[Hne Hk] [Hfne Hl]].
      assert (Hk' : Forall sub_ok kids).
      { rewrite Forall_forall in *. intros k Hin. apply IH; [exact Hin|]. apply Hk. exact Hin. }
      assert (Hkne : kids <> []) by (destruct kids; [discriminate|discriminate]).
      destruct (first_last_inner l kids Hk' Hkne) as [Hfl _].
      constructor; [|exact Hk']. split; cbn [nn_lim]; rewrite Hfl; [exact Hl|]. apply lo_hi_some. exact Hfne.
    + intros H. pose proof (sub_ok_abs _ H) as [Hne Hl]. cbn [nn_abs nn_lim] in *.
      pose proof (sub_ok_lc _ H) as [_ Hfl]. pose proof (sub_ok_kids _ H) as Hk. simpl in Hk.
      split; [split|split; assumption].
      * destruct kids; [|reflexivity]. exfalso. apply Hfl. reflexivity.
      * intros k Hin. rewrite Forall_forall in *. apply IH; [exact Hin|]. apply Hk. exact Hin.
Qed.

Lemma forallb_wf_sub_iff : forall kids, forallb (wf_sub Z nn_zcmp) kids = true <-> Forall sub_ok kids.
Proof.
  intros kids. rewrite forallb_forall, Forall_forall. split; intros H k Hin; apply wf_sub_iff; apply H; exact Hin.
Qed.

Lemma wf_code_iff : forall t root, wf_code Z nn_zcmp t root = 0 <-> tree_inv t root.
Proof.
  intros t root. unfold wf_code. split.
  - intros H.
    destruct (no_lim Z root) eqn:E1; [|discriminate]. simpl in H.
    destruct (sm_sorted Z nn_zcmp (zabs root)) eqn:E2; [|discriminate]. simpl in H.
    destruct (wf_tree Z nn_zcmp root) eqn:E3; [|discriminate]. simpl in H.
    destruct (size_ok Z t root) eqn:E4; [|discriminate].
    unfold wf_tree in E3. rewrite E1, E2 in E3. simpl in E3.
    constructor.
    + unfold no_lim in E1. destruct (nn_lim Z root); [discriminate|reflexivity].
    + destruct root as [l items|l kids]; [exact I|]. apply andb_true_iff in E3. destruct E3 as [_ E3].
      apply forallb_wf_sub_iff. exact E3.
    + destruct root as [l items|l [|k kids]]; [exact I|discriminate|exact I].
    + apply sm_sorted_iff. exact E2.
    + exact E4.
  - intros [H1 H2 H3 H4 H5].
    assert (E1 : no_lim Z root = true) by (unfold no_lim; rewrite H1; reflexivity).
    apply sm_sorted_iff in H4. rewrite E1, H4, H5. simpl.
    assert (E3 : wf_tree Z nn_zcmp root = true).
    { unfold wf_tree. rewrite E1, H4. simpl. destruct root as [l items|l kids]; [reflexivity|].
      apply andb_true_iff. split; [destruct kids; [contradiction|reflexivity]|].
      apply forallb_wf_sub_iff. exact H2. }
    rewrite E3. reflexivity.
Qed.

(* ------------------------------------------------------------------ limits along a zipper *)
Lemma c18_last_cons {A} (R : list A) : forall (a d : A), last (a :: R) d = last R a.
Proof.
  induction R as [|r R IH]; intros a d; [reflexivity|].
  change (last (a :: r :: R) d) with (last (r :: R) d). rewrite !IH. reflexivity.
Qed.

Definition fst_kid (fr : frame) (a : node) : node := match fr_L fr with [] => a | x :: _ => x end.
Definition lst_kid (fr : frame) (a : node) : node := last (fr_R fr) a.
Definition lim_pair (a b : option (Z * Z)) : option (Z * Z) :=
  match a, b with Some (f, _), Some (_, l) => Some (f, l) | _, _ => None end.

Lemma first_last_fill : forall fr a,
  nn_first_last Z (fill fr a) = lim_pair (nn_lim Z (fst_kid fr a)) (nn_lim Z (lst_kid fr a)).
Proof.
  intros [l L R] a. unfold fill, fst_kid, lst_kid, lim_pair. cbn [fr_lim fr_L fr_R nn_first_last].
  destruct L as [|x L]; cbn [app].
  - rewrite c18_last_cons. reflexivity.
  - change (x :: L ++ a :: R) with ((x :: L) ++ a :: R). rewrite c18_last_app by discriminate.
    rewrite c18_last_cons. reflexivity.
Qed.
Lemma first_last_fill_lim : forall fr a a', nn_lim Z a = nn_lim Z a' ->
  nn_first_last Z (fill fr a) = nn_first_last Z (fill fr a').
Proof.
  intros fr a a' H. rewrite !first_last_fill. f_equal.
  - unfold fst_kid. destruct (fr_L fr); [exact H|reflexivity].
  - unfold lst_kid. destruct (fr_R fr) as [|r R]; [exact H|]. f_equal. apply c18_last_indep. discriminate.
Qed.

Definition sibs_ok (fs : list frame) : Prop :=
  Forall (fun fr => Forall sub_ok (fr_L fr) /\ Forall sub_ok (fr_R fr)) fs.

(* every frame node is consistent with the CURRENT limits of its kids; the top frame is the root *)
Fixpoint chain_ok (a : node) (fs : list frame) : Prop :=
  match fs with
  | [] => True
  | fr :: fs' => match fs' with [] => fr_lim fr = None | _ :: _ => lc (fill fr a) end /\ chain_ok (fill fr a) fs'
  end.

Lemma lc_fill_lim : forall fr a a', nn_lim Z a = nn_lim Z a' -> lc (fill fr a) -> lc (fill fr a').
Proof.
  intros fr a a' H [H1 H2]. unfold lc. rewrite <- (first_last_fill_lim fr a a' H). split; assumption.
Qed.
Lemma chain_ok_lim : forall fs a a', nn_lim Z a = nn_lim Z a' -> chain_ok a fs -> chain_ok a' fs.
Proof.
  induction fs as [|fr fs IH]; intros a a' H Hc; [exact I|].
  cbn [chain_ok] in *. destruct Hc as [H1 H2]. split.
  - destruct fs; [exact H1|]. apply (lc_fill_lim fr a a' H H1).
  - apply (IH (fill fr a) (fill fr a')); [reflexivity|exact H2].
Qed.

Lemma sibs_ok_same : forall fs fs', same_sibs fs fs' -> sibs_ok fs -> sibs_ok fs'.
Proof.
  induction fs as [|fr fs IH]; intros gs H Hs.
  - destruct H as [H _]. destruct gs; [constructor|discriminate].
  - destruct (same_sibs_inv _ _ _ H) as (l' & gs' & -> & H'). inversion Hs as [|? ? Hfr Hrest]; subst.
    constructor; [exact Hfr|]. apply IH; assumption.
Qed.

Definition root_ok (n : node) : Prop := nn_lim Z n = None /\ kids_ok n.

Lemma sub_ok_fill : forall fr a, sub_ok (fill fr a) <->
  lc (fill fr a) /\ sub_ok a /\ Forall sub_ok (fr_L fr) /\ Forall sub_ok (fr_R fr).
Proof.
  intros fr a. split.
  - intros H. pose proof (sub_ok_lc _ H) as Hl. pose proof (sub_ok_kids _ H) as Hk.
    unfold fill in Hk. simpl in Hk. rewrite Forall_app in Hk. destruct Hk as [HL HR].
    inversion HR; subst. tauto.
  - intros (Hl & Ha & HL & HR). unfold fill in *. constructor; [exact Hl|].
    rewrite Forall_app. split; [exact HL|constructor; assumption].
Qed.

Lemma plug_ok_iff : forall fs a, fs <> [] ->
  (root_ok (plug a fs) <-> sub_ok a /\ sibs_ok fs /\ chain_ok a fs).
Proof.
  induction fs as [|fr fs IH]; intros a Hne; [congruence|].
  destruct fs as [|fr2 fs].
  - cbn [plug chain_ok]. unfold root_ok, sibs_ok. unfold fill at 1 2. cbn [nn_lim kids_ok].
    rewrite Forall_app. split.
    + intros (H1 & HL & HR). inversion HR; subst. split; [assumption|]. split; [|split; [assumption|exact I]].
      constructor; [split; assumption|constructor].
    + intros (Ha & Hs & H1 & _). inversion Hs as [|? ? [HL HR] _]; subst.
      split; [assumption|]. split; [assumption|]. constructor; assumption.
  - change (plug a (fr :: fr2 :: fs)) with (plug (fill fr a) (fr2 :: fs)).
    rewrite (IH (fill fr a)) by discriminate. rewrite sub_ok_fill.
    change (chain_ok a (fr :: fr2 :: fs)) with (lc (fill fr a) /\ chain_ok (fill fr a) (fr2 :: fs)).
    unfold sibs_ok. split.
    + intros ((Hl & Ha & HL & HR) & Hs & Hc). split; [exact Ha|]. split; [|split; assumption].
      constructor; [split; assumption|exact Hs].
    + intros (Ha & Hs & Hl & Hc). inversion Hs as [|? ? [HL HR] Hs']; subst. tauto.
Qed.

(* ------------------------------------------------------------------ sizes *)
Definition arity (n : node) : Z := match n with NLeaf _ items => nn_zlen items | NInner _ kids => nn_zlen kids end.
Definition kids_size_ok (t : Z) (n : node) : bool :=
  match n with NLeaf _ _ => true | NInner _ kids => forallb (size_ok Z t) kids end.
Lemma size_ok_split : forall t n, size_ok Z t n = (arity n <=? t) && kids_size_ok t n.
Proof. intros t [l items|l kids]; cbn [size_ok arity kids_size_ok]; [rewrite andb_true_r|]; reflexivity. Qed.

Definition frame_size_ok (t : Z) (fr : frame) : Prop :=
  nn_zlen (fr_L fr) + 1 + nn_zlen (fr_R fr) <= t /\
  forallb (size_ok Z t) (fr_L fr) = true /\ forallb (size_ok Z t) (fr_R fr) = true.
Definition fsize_ok (t : Z) (fs : list frame) : Prop := Forall (frame_size_ok t) fs.

Lemma size_ok_fill : forall t fr a, size_ok Z t (fill fr a) = true <-> size_ok Z t a = true /\ frame_size_ok t fr.
Proof.
  intros t fr a. unfold fill, frame_size_ok. cbn [size_ok].
  rewrite andb_true_iff, forallb_app, andb_true_iff. cbn [forallb]. rewrite andb_true_iff.
  rewrite Z.leb_le, c18_zlen_app, c18_zlen_cons. intuition lia.
Qed.
Lemma size_ok_plug : forall t fs a, size_ok Z t (plug a fs) = true <-> size_ok Z t a = true /\ fsize_ok t fs.
Proof.
  intros t. induction fs as [|fr fs IH]; intros a; cbn [plug].
  - unfold fsize_ok. split; [intros H; split; [exact H|constructor]|tauto].
  - rewrite IH, size_ok_fill. unfold fsize_ok. split.
    + intros ((Ha & Hfr) & Hfs). split; [exact Ha|constructor; assumption].
    + intros (Ha & Hfs). inversion Hfs; subst. tauto.
Qed.
Lemma fsize_ok_same : forall t fs fs', same_sibs fs fs' -> fsize_ok t fs -> fsize_ok t fs'.
Proof.
  intros t. induction fs as [|fr fs IH]; intros gs H Hs.
  - destruct H as [H _]. destruct gs; [constructor|discriminate].
  - destruct (same_sibs_inv _ _ _ H) as (l' & gs' & -> & H'). inversion Hs as [|? ? Hfr Hrest]; subst.
    constructor; [exact Hfr|]. apply IH; assumption.
Qed.

(* ------------------------------------------------------------------ iterator positions *)
(* the iterator (path, item) stands on entry e, with the entries A before it and B after it *)
Definition at_pos (root : node) (path : list Z) (item : Z) (A : zmap) (e : Z * Z) (B : zmap) : Prop :=
  exists fs l items, root = plug (NLeaf l items) fs /\ path = zpath fs /\ 0 <= item /\
    nth_error items (Z.to_nat item) = Some e /\
    A = zpre fs ++ firstn (Z.to_nat item) items /\
    B = skipn (S (Z.to_nat item)) items ++ zpost fs.

Lemma c18_nth_split {A} (l : list A) (i : nat) (e : A) : nth_error l i = Some e ->
  l = firstn i l ++ e :: skipn (S i) l.
Proof.
  revert i. induction l as [|x l IH]; intros [|i] H; simpl in *; try discriminate.
  - injection H as ->. reflexivity.
  - f_equal. apply IH. exact H.
Qed.

Lemma at_pos_abs : forall root path item A e B, at_pos root path item A e B -> zabs root = A ++ e :: B.
Proof.
  intros root path item A e B (fs & l & items & -> & -> & Hi & Hn & -> & ->).
  rewrite abs_plug. cbn [nn_abs]. rewrite <- !app_assoc. f_equal.
  rewrite (c18_nth_split _ _ _ Hn) at 1. rewrite <- app_assoc. reflexivity.
Qed.
Lemma at_pos_leaf_items : forall (s : zst) A e B, at_pos (st_root Z s) (st_path Z s) (st_item Z s) A e B ->
  exists items, nn_leaf_items Z s = Some items /\ nth_error items (Z.to_nat (st_item Z s)) = Some e /\ 0 <= st_item Z s.
Proof.
  intros s A e B (fs & l & items & Hr & Hp & Hi & Hn & _ & _).
  exists items. unfold nn_leaf_items. rewrite Hr, Hp, get_plug. repeat split; assumption.
Qed.
Lemma at_pos_cur : forall (s : zst) A e B, at_pos (st_root Z s) (st_path Z s) (st_item Z s) A e B ->
  nn_cur Z s = Some e.
Proof.
  intros s A e B H. destruct (at_pos_leaf_items s A e B H) as (items & Hl & Hn & Hi).
  unfold nn_cur. destruct (st_item Z s <? 0) eqn:E; [apply Z.ltb_lt in E; lia|].
  rewrite Hl. rewrite c18_znth_pos by exact Hi. exact Hn.
Qed.
Lemma at_pos_item : forall root path item A e B, at_pos root path item A e B -> 0 <= item.
Proof. intros root path item A e B (fs & l & items & _ & _ & Hi & _). exact Hi. Qed.

(* a position inside a subtree, seen from the root *)
Lemma at_pos_plug : forall a q item A e B fs, at_pos a q item A e B ->
  at_pos (plug a fs) (zpath fs ++ q) item (zpre fs ++ A) e (B ++ zpost fs).
Proof.
  intros a q item A e B fs (gs & l & items & -> & -> & Hi & Hn & -> & ->).
  exists (gs ++ fs), l, items. rewrite plug_app, zpath_app, zpre_app, zpost_app.
  repeat split; try assumption; rewrite <- ?app_assoc; reflexivity.
Qed.

Lemma at_pos_eq : forall root path item A e B A' B', at_pos root path item A e B -> A = A' -> B = B' ->
  at_pos root path item A' e B'.
Proof. intros; subst; assumption. Qed.

Lemma c18_last_or_nil {A} (l : list A) : l = [] \/ exists l' a, l = l' ++ [a].
Proof.
  destruct l as [|x l]; [left; reflexivity|right]. assert (H : x :: l <> []) by discriminate.
  destruct (exists_last H) as (l' & a & ->). exists l', a. reflexivity.
Qed.
