#!/usr/bin/env python3
# Regenerates the machine-derived tables of DESIGN.md §10 (between the BEGIN/END markers) from
# known_findings.json, seeded/*/meta.json, tools/manifest/*.json and coq/Props/Properties_*.v
import json, os, re, glob
V = os.path.dirname(os.path.dirname(os.path.abspath(__file__)))

def esc(s):
    return str(s).replace("|", "\\|").replace("\n", " ")

out = []
out.append("#### Checks (from tools/manifest/*.json and coq/Props)\n")
out.append("| id | theorems in Props/Properties_<id>.v | technique |")
out.append("|---|---|---|")
for f in sorted(glob.glob(os.path.join(V, "tools", "manifest", "*.json"))):
    pid = os.path.basename(f)[:-5]
    m = json.load(open(f))
    props = os.path.join(V, "coq", "Props", "Properties_%s.v" % pid)
    names = re.findall(r"^Theorem\s+([A-Za-z0-9_']+)", open(props).read(), re.M) if os.path.exists(props) else []
    out.append("| %s | %d: %s | %s |" % (pid, len(names), esc(", ".join(names)), esc(m.get("technique", ""))))
out.append("")
out.append("#### Findings (from known_findings.json)\n")
out.append("| id | property | status | what fails |")
out.append("|---|---|---|---|")
k = json.load(open(os.path.join(V, "known_findings.json")))
for f in k["findings"]:
    st = f["status"] + ((" " + f.get("commit", "")) if f["status"] == "fixed" else "")
    out.append("| %s | %s | %s | %s |" % (esc(f["id"]), f["property"], st, esc(f.get("what", ""))[:420]))
out.append("")
out.append("#### Seeded changes (from seeded/*/meta.json)\n")
out.append("| seeded | summary | needs to manifest | caught by |")
out.append("|---|---|---|---|")
for d in sorted(os.listdir(os.path.join(V, "seeded"))):
    p = os.path.join(V, "seeded", d, "meta.json")
    if not os.path.exists(p):
        continue
    m = json.load(open(p))
    out.append("| %s | %s | %s | %s |" % (d, esc(m.get("summary", ""))[:260], esc(m.get("needs_to_manifest", m.get("needs", "")))[:220], esc(m.get("caught_by", "?"))))
txt = "\n".join(out) + "\n"
p = os.path.join(V, "DESIGN.md")
s = open(p).read()
b, e = "<!-- BEGIN GENERATED TABLES -->", "<!-- END GENERATED TABLES -->"
if b in s:
    s = s[:s.index(b) + len(b)] + "\n" + txt + s[s.index(e):]
else:
    s = s.rstrip() + "\n\n### 10.5 Machine-derived tables (tools/gen_design_tables.py)\n\n" + b + "\n" + txt + e + "\n"
open(p, "w").write(s)
print("DESIGN.md tables regenerated")
