(* Reference codecs, written from the specifications (PDF 32000-1 7.4, PNG (ISO 15948) 9,
   TIFF 6.0 section 14, RFC 4648), independent of qpdf's implementations in Filters.v. *)
From QV Require Import Base.Bytes Filters.Filters.
Local Open Scope N_scope.

(* ---------- ASCIIHex: two hex digits per byte, any case, white space anywhere, then '>' ---------- *)
Definition hex_digit (lower : bool) (v : N) : N :=
  if v <? 10 then 48 + v else (if lower then 97 else 65) + (v - 10).
(* [style]: for each byte, (lower-case?, white space to put before each of its two digits) *)
Fixpoint ref_ahx_encode (d : list N) (style : list (bool * list N * list N)) : list N :=
  match d with
  | [] => [62]
  | b :: t =>
      let '(lower, ws1, ws2, style') := match style with
                                        | (l, w1, w2) :: s' => (l, w1, w2, s')
                                        | [] => (false, [], [], [])
                                        end in
      ws1 ++ [hex_digit lower (b / 16)] ++ ws2 ++ [hex_digit lower (b mod 16)] ++ ref_ahx_encode t style'
  end.
Definition ws_only (l : list N) : Prop := Forall (fun c => ahx_is_ws c = true) l.
Definition style_ok (style : list (bool * list N * list N)) : Prop :=
  Forall (fun x => ws_only (snd (fst x)) /\ ws_only (snd x)) style.

(* ---------- ASCII85 (Adobe): 4 bytes -> 5 digits base 85, zero group -> 'z', tail of n bytes ->
   n+1 digits, then "~>" ---------- *)
Definition a85_digits (v : N) : list N :=
  [ 33 + (v / 52200625) mod 85; 33 + (v / 614125) mod 85; 33 + (v / 7225) mod 85; 33 + (v / 85) mod 85; 33 + v mod 85 ].
Definition be32 (a b c d : N) : N := a * 16777216 + b * 65536 + c * 256 + d.
Fixpoint ref_a85_encode (d : list N) : list N :=
  match d with
  | a :: b :: c :: e :: t =>
      (if be32 a b c e =? 0 then [122] else a85_digits (be32 a b c e)) ++ ref_a85_encode t
  | [] => [126; 62]
  | [a] => firstn 2 (a85_digits (be32 a 0 0 0)) ++ [126; 62]
  | [a; b] => firstn 3 (a85_digits (be32 a b 0 0)) ++ [126; 62]
  | [a; b; c] => firstn 4 (a85_digits (be32 a b c 0)) ++ [126; 62]
  end.

(* ---------- RunLength (7.4.5) ---------- *)
(* reference decoder: length byte L: 0..127 copy next L+1 bytes, 129..255 repeat next byte 257-L
   times, 128 = EOD. On fuel = input length. *)
Fixpoint ref_rl_decode_fuel (fuel : nat) (d : list N) : list N :=
  match fuel with
  | O => []
  | S f =>
      match d with
      | [] => []
      | l :: t =>
          if l =? 128 then []
          else if l <? 128 then firstn (N.to_nat l + 1) t ++ ref_rl_decode_fuel f (skipn (N.to_nat l + 1) t)
          else match t with
               | [] => []
               | x :: t' => repeat x (N.to_nat (257 - l)) ++ ref_rl_decode_fuel f t'
               end
      end
  end.
Definition ref_rl_decode (d : list N) : list N := ref_rl_decode_fuel (S (length d)) d.

(* reference encoder: literal blocks of at most 128 bytes (no compression), then EOD *)
Fixpoint ref_rl_encode_fuel (fuel : nat) (d : list N) : list N :=
  match fuel with
  | O => [128]
  | S f => match d with
           | [] => [128]
           | _ => let blk := firstn 128 d in
                  (N.of_nat (length blk) - 1) :: blk ++ ref_rl_encode_fuel f (skipn 128 d)
           end
  end.
Definition ref_rl_encode (d : list N) : list N := ref_rl_encode_fuel (S (length d)) d.
(* a second reference encoder that uses runs: each element (x, n) with 2 <= n <= 128 is a run *)
Fixpoint ref_rl_encode_runs (runs : list (N * N)) : list N :=
  match runs with
  | [] => [128]
  | (x, n) :: t => (257 - n) :: x :: ref_rl_encode_runs t
  end.
Definition runs_expand (runs : list (N * N)) : list N :=
  concat (map (fun xn => repeat (fst xn) (N.to_nat (snd xn))) runs).

(* ---------- PNG filters (ISO 15948 clause 9): Filt(x) = Orig(x) - predictor ---------- *)
Definition png_predict (ft : N) (a b c : N) : N :=
  if ft =? 1 then a else if ft =? 2 then b else if ft =? 3 then (a + b) / 2
  else if ft =? 4 then paeth a b c else 0.

(* encode one row of original bytes, given the previous original row *)
Definition ref_png_filter_row (ft : N) (bpp : nat) (row prev : list N) : list N :=
  map (fun i =>
         let x := nth i row 0 in
         let a := if Nat.ltb i bpp then 0 else nth (i - bpp) row 0 in
         let b := nth i prev 0 in
         let c := if Nat.ltb i bpp then 0 else nth (i - bpp) prev 0 in
         sub8 x (png_predict ft a b c))
      (seq 0 (length row)).

Fixpoint ref_png_encode_rows (bpp : nat) (rows : list (N * list N)) (prev : list N) : list N :=
  match rows with
  | [] => []
  | (ft, row) :: t => ft :: ref_png_filter_row ft bpp row prev ++ ref_png_encode_rows bpp t row
  end.
Definition ref_png_encode (p : png_params) (rows : list (N * list N)) : list N :=
  ref_png_encode_rows (png_bpp p) rows (zeros (png_bpr p)).

(* reference decoder for filter type Up only (what qpdf's encoder emits) *)
Fixpoint ref_png_decode_up (bpr : nat) (fuel : nat) (d : list N) (prev : list N) : list N :=
  match fuel with
  | O => []
  | S f => match d with
           | [] => []
           | _ :: t => let row := map2 add8 (firstn bpr t) prev in
                       row ++ ref_png_decode_up bpr f (skipn bpr t) row
           end
  end.

(* ---------- TIFF predictor 2, 8 bits per sample: horizontal differencing per component ---------- *)
Definition ref_tiff8_encode_row (spp : nat) (row : list N) : list N :=
  map (fun i => sub8 (nth i row 0) (if Nat.ltb i spp then 0 else nth (i - spp) row 0)) (seq 0 (length row)).

(* ---------- Base64 (RFC 4648) reference decoder for well-formed padded text ---------- *)
Definition ref_b64_val (ch : N) : N :=
  if (65 <=? ch) && (ch <=? 90) then ch - 65
  else if (97 <=? ch) && (ch <=? 122) then ch - 71
  else if (48 <=? ch) && (ch <=? 57) then ch + 4
  else if ch =? 43 then 62 else 63.
Fixpoint ref_b64_decode (t : list N) : list N :=
  match t with
  | a :: b :: c :: d :: r =>
      let v := ref_b64_val a * 262144 + ref_b64_val b * 4096
               + (if c =? 61 then 0 else ref_b64_val c) * 64 + (if d =? 61 then 0 else ref_b64_val d) in
      (if c =? 61 then [v / 65536]
       else if d =? 61 then [v / 65536; (v / 256) mod 256]
       else [v / 65536; (v / 256) mod 256; v mod 256]) ++ ref_b64_decode r
  | _ => []
  end.

(* ---------- bit strings, MSB first: the semantics BitStream/BitWriter must implement ---------- *)
Fixpoint bits_of_byte_fuel (n : nat) (b : N) : list bool :=
  match n with
  | O => []
  | S n' => N.testbit b (N.of_nat n') :: bits_of_byte_fuel n' b
  end.
Definition bits_of_bytes (l : list N) : list bool := concat (map (bits_of_byte_fuel 8) l).
Definition val_of_bits (bs : list bool) : N := fold_left (fun (acc : N) (b : bool) => 2 * acc + (if b then 1 else 0)) bs 0.
