// C07 driver: the real BitWriter / BitStream of libqpdf.a (bits_functions.hh), which carry every
// field of the linearization hint tables.
#include "drv.hh"
#include <qpdf/BitStream.hh>
#include <qpdf/BitWriter.hh>
#include <qpdf/Pipeline.hh>
#include <stdexcept>

namespace {
    class LSink: public Pipeline
    {
      public:
        LSink() : Pipeline("lsink", nullptr) {}
        void write(unsigned char const* d, size_t n) override { out.append(reinterpret_cast<char const*>(d), n); }
        void finish() override {}
        std::string out;
    };
}

// bitw <v:b,v:b,f,...|->   : writeBits(v, b) / flush() ; bytes the pipeline received, or exc
static Reg r_bitw("bitw", [](std::vector<std::string> const& a) -> std::string {
    LSink sink;
    BitWriter w(&sink);
    std::string ops = a.at(0);
    if (ops == "-") return "-";
    std::stringstream ss(ops); std::string item;
    try {
        while (std::getline(ss, item, ',')) {
            if (item == "f") { w.flush(); continue; }
            auto c = item.find(':');
            unsigned long long v = std::stoull(item.substr(0, c));
            size_t b = std::stoul(item.substr(c + 1));
            w.writeBits(v, b);
        }
    } catch (std::out_of_range const&) { return "exc"; }
    return hex(sink.out);
});

// bitr <hex> <w1,w2,...> : getBits(w) (w >= 0) or getBitsSigned(-w); values until the first exception
static Reg r_bitr("bitr", [](std::vector<std::string> const& a) -> std::string {
    std::string data = unhex(a.at(0));
    BitStream s(reinterpret_cast<unsigned char const*>(data.data()), data.size());
    std::string out;
    for (long long w: ints_of(a.at(1))) {
        if (!out.empty()) out += ",";
        try {
            if (w >= 0) out += std::to_string(s.getBits(static_cast<size_t>(w)));
            else out += std::to_string(s.getBitsSigned(static_cast<size_t>(-w)));
        } catch (std::exception const&) { out += "exc"; break; }
    }
    return out;
});

// ---- public API histories that end in a linearized write (QPDF.hh / QPDFWriter.hh only) ----
#include <qpdf/QPDF.hh>
#include <qpdf/QPDFWriter.hh>

// linapi <in> <out> <ops|-> <d|g|p> : ops (comma separated) are run on ONE QPDF object before the final write:
//   check = checkLinearization() (when isLinearized())   islin = isLinearized()   pages = getAllPages()   push = pushInheritedAttributesToPage()
//   wplain = plain write to memory   wlind / wling = linearized write to memory with object streams disabled / generated
// then a linearized write (static id, object streams disable / generate / preserve) to <out>.  "ok" or "exc:<what>".
static Reg r_linapi("linapi", [](std::vector<std::string> const& a) -> std::string {
    try {
        QPDF q;
        q.setSuppressWarnings(true);
        q.processFile(a.at(0).c_str());
        auto mode = [](std::string const& m) { return m == "g" ? qpdf_o_generate : m == "p" ? qpdf_o_preserve : qpdf_o_disable; };
        std::stringstream ss(a.at(2));
        std::string op;
        while (a.at(2) != "-" && std::getline(ss, op, ',')) {
            if (op == "check") { if (q.isLinearized()) { (void)q.checkLinearization(); } }
            else if (op == "islin") { (void)q.isLinearized(); }
            else if (op == "pages") { (void)q.getAllPages(); }
            else if (op == "push") { q.pushInheritedAttributesToPage(); }
            else if (op == "wplain" || op == "wlind" || op == "wling") {
                QPDFWriter w(q);
                w.setOutputMemory();
                w.setStaticID(true);
                if (op != "wplain") {
                    w.setLinearization(true);
                    w.setObjectStreamMode(op == "wling" ? qpdf_o_generate : qpdf_o_disable);
                }
                w.write();
            } else { return "?op"; }
        }
        QPDFWriter w(q, a.at(1).c_str());
        w.setStaticID(true);
        w.setLinearization(true);
        w.setObjectStreamMode(mode(a.at(3)));
        w.write();
        return "ok";
    } catch (std::exception const& e) {
        std::string s = e.what();
        for (auto& c: s) { if (c == '\n' || c == ' ') c = '_'; }
        return "exc:" + s;
    }
});
