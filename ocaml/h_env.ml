(* handlers: Sys/EnvModel (C09) *)
open Qvmodel
open Runner

let () =
  register "envmodel" (fun args -> match args with
    | ["static_id"] -> hexbytes static_id
    | ["static_iv"] -> hexbytes (initial_vector EIvStatic { e_time = N0; e_outname = []; e_rand = (fun _ -> N0) } O)
    | ["zero_iv"] -> hexbytes (initial_vector EIvZero { e_time = N0; e_outname = []; e_rand = (fun _ -> N0) } O)
    | _ -> "?args")
