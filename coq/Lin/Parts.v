(* Classification of an object into a linearization part by the set of its users
   (libqpdf/QPDF_linearization.cc, Lin::calculateLinearizationData, the loop over
   object_to_obj_users_ and the placement that follows). Written from the C++.
   After filterCompressedObjects the users of an object stream are the union of the users of its
   members, and the stream is classified as one object. *)
From QV Require Import Base.Bytes.
Local Open Scope N_scope.

Inductive ouser :=
| OuPage (pageno : N) | OuThumb (pageno : N) | OuTrailerKey (key : list N) | OuRootKey (key : list N) | OuRoot.

Inductive lcat :=
| LcRoot | LcOutlines | LcOpenDocument | LcFirstPagePrivate | LcFirstPageShared
| LcOtherPagePrivate | LcOtherPageShared | LcThumbPrivate | LcThumbShared | LcOther.

Definition pk_Encrypt : list N := [69; 110; 99; 114; 121; 112; 116].
Definition pk_Outlines : list N := [79; 117; 116; 108; 105; 110; 101; 115].
Definition pk_ViewerPreferences : list N := [86; 105; 101; 119; 101; 114; 80; 114; 101; 102; 101; 114; 101; 110; 99; 101; 115].
Definition pk_PageMode : list N := [80; 97; 103; 101; 77; 111; 100; 101].
Definition pk_Threads : list N := [84; 104; 114; 101; 97; 100; 115].
Definition pk_OpenAction : list N := [79; 112; 101; 110; 65; 99; 116; 105; 111; 110].
Definition pk_AcroForm : list N := [65; 99; 114; 111; 70; 111; 114; 109].

Definition pk_eq (a b : list N) : bool := list_eqb N.eqb a b.
Definition open_document_key (k : list N) : bool :=
  pk_eq k pk_ViewerPreferences || pk_eq k pk_PageMode || pk_eq k pk_Threads || pk_eq k pk_OpenAction || pk_eq k pk_AcroForm.

(* the flags and counters of the loop body *)
Record lc_acc := { la_open : bool; la_first : bool; la_other_pages : N; la_thumbs : N; la_others : N; la_outlines : bool; la_root : bool }.
Definition lc_acc0 := {| la_open := false; la_first := false; la_other_pages := 0; la_thumbs := 0; la_others := 0; la_outlines := false; la_root := false |}.

Definition lc_step (a : lc_acc) (u : ouser) : lc_acc :=
  match u with
  | OuTrailerKey k =>
      if pk_eq k pk_Encrypt then {| la_open := true; la_first := la_first a; la_other_pages := la_other_pages a; la_thumbs := la_thumbs a;
                                    la_others := la_others a; la_outlines := la_outlines a; la_root := la_root a |}
      else {| la_open := la_open a; la_first := la_first a; la_other_pages := la_other_pages a; la_thumbs := la_thumbs a;
              la_others := la_others a + 1; la_outlines := la_outlines a; la_root := la_root a |}
  | OuThumb _ => {| la_open := la_open a; la_first := la_first a; la_other_pages := la_other_pages a; la_thumbs := la_thumbs a + 1;
                    la_others := la_others a; la_outlines := la_outlines a; la_root := la_root a |}
  | OuRootKey k =>
      if open_document_key k then {| la_open := true; la_first := la_first a; la_other_pages := la_other_pages a; la_thumbs := la_thumbs a;
                                     la_others := la_others a; la_outlines := la_outlines a; la_root := la_root a |}
      else if pk_eq k pk_Outlines then {| la_open := la_open a; la_first := la_first a; la_other_pages := la_other_pages a; la_thumbs := la_thumbs a;
                                          la_others := la_others a; la_outlines := true; la_root := la_root a |}
      else {| la_open := la_open a; la_first := la_first a; la_other_pages := la_other_pages a; la_thumbs := la_thumbs a;
              la_others := la_others a + 1; la_outlines := la_outlines a; la_root := la_root a |}
  | OuPage n =>
      if n =? 0 then {| la_open := la_open a; la_first := true; la_other_pages := la_other_pages a; la_thumbs := la_thumbs a;
                        la_others := la_others a; la_outlines := la_outlines a; la_root := la_root a |}
      else {| la_open := la_open a; la_first := la_first a; la_other_pages := la_other_pages a + 1; la_thumbs := la_thumbs a;
              la_others := la_others a; la_outlines := la_outlines a; la_root := la_root a |}
  | OuRoot => {| la_open := la_open a; la_first := la_first a; la_other_pages := la_other_pages a; la_thumbs := la_thumbs a;
                 la_others := la_others a; la_outlines := la_outlines a; la_root := true |}
  end.

(* the if / else-if chain *)
Definition lc_decide (a : lc_acc) : lcat :=
  if la_root a then LcRoot
  else if la_outlines a then LcOutlines
  else if la_open a then LcOpenDocument
  else if la_first a && (la_others a =? 0) && (la_other_pages a =? 0) && (la_thumbs a =? 0) then LcFirstPagePrivate
  else if la_first a then LcFirstPageShared
  else if (la_other_pages a =? 1) && (la_others a =? 0) && (la_thumbs a =? 0) then LcOtherPagePrivate
  else if 1 <? la_other_pages a then LcOtherPageShared
  else if (la_thumbs a =? 1) && (la_others a =? 0) then LcThumbPrivate
  else if 1 <? la_thumbs a then LcThumbShared
  else LcOther.

Definition lc_classify (users : list ouser) : lcat := lc_decide (fold_left lc_step users lc_acc0).

(* the part each category is emitted in; outlines go to part 6 iff /PageMode /UseOutlines with /Outlines present *)
Definition lc_part (outlines_in_first_page : bool) (c : lcat) : N :=
  match c with
  | LcRoot | LcOpenDocument => 4
  | LcFirstPagePrivate | LcFirstPageShared => 6
  | LcOutlines => if outlines_in_first_page then 6 else 9
  | LcOtherPagePrivate => 7
  | LcOtherPageShared => 8
  | LcThumbPrivate | LcThumbShared | LcOther => 9
  end.

(* does the shared object hint table have an entry for it (parts 6 and 8) *)
Definition lc_in_shared_table (outlines_in_first_page : bool) (c : lcat) : bool :=
  let p := lc_part outlines_in_first_page c in (p =? 6) || (p =? 8).
