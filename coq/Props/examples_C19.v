(* non-vacuity: a job that meets wf_job, with an acceptable and a rejected value, a repeatable option, both positional files, a --global
   table and a 256-bit --encrypt table *)
Example C19_wf_job_example :
  exists e1 e2 e3 e4 e5, In e1 argv_table /\ In e2 argv_table /\ In e3 argv_table /\ In e4 argv_table /\ In e5 argv_table /\
  wf_job argv_table [IOpt e1 B"generate"; IIn B"A.pdf"; IArr e3 [B"+90"; B"180:2"]; IOut B"out.pdf";
                     IEncrypt B"u" B"o" B"256" [(e4, B"low")]; IGlobal [(e5, [])]; IOpt e2 B"x"] /\
  denote_job [IOpt e1 B"generate"; IIn B"A.pdf"; IArr e3 [B"+90"; B"180:2"]; IOut B"out.pdf";
              IEncrypt B"u" B"o" B"256" [(e4, B"low")]; IGlobal [(e5, [])]] =
    ([CCall B"c_main" B"objectStreams" [B"generate"]; CCall B"c_main" B"inputFile" [B"A.pdf"];
      CCall B"c_main" B"rotate" [B"+90"]; CCall B"c_main" B"rotate" [B"180:2"]; CCall B"c_main" B"outputFile" [B"out.pdf"];
      CCall B"c_main" B"encrypt" [B"256"; B"u"; B"o"]; CCall B"c_enc" B"print" [B"low"]; CCall B"c_enc" B"endEncrypt" [];
      CCall B"c_main" B"global" []; CCall B"c_global" B"noDefaultLimits" []; CCall B"c_global" B"endGlobal" [];
      CCall B"c_main" B"checkConfiguration" []], true) /\
  snd (denote_items [IOpt e2 B"x"]) = false.
Proof.
  exists (mk_aentry B"main" B"object-streams" KChoices [B"disable"; B"preserve"; B"generate"] (TConfig B"c_main" B"objectStreams")).
  exists (mk_aentry B"main" B"qdf" KBare [] (TConfig B"c_main" B"qdf")).
  exists (mk_aentry B"main" B"rotate" KParam [] (TConfig B"c_main" B"rotate")).
  exists (mk_aentry B"256-bit-encryption" B"print" KChoices [B"full"; B"low"; B"none"] (TConfig B"c_enc" B"print")).
  exists (mk_aentry B"global" B"no-default-limits" KBare [] (TConfig B"c_global" B"noDefaultLimits")).
  assert (H1 : In (mk_aentry B"main" B"object-streams" KChoices [B"disable"; B"preserve"; B"generate"] (TConfig B"c_main" B"objectStreams")) argv_table)
    by (apply in_by_compute; vm_compute; reflexivity).
  assert (H2 : In (mk_aentry B"main" B"qdf" KBare [] (TConfig B"c_main" B"qdf")) argv_table) by (apply in_by_compute; vm_compute; reflexivity).
  assert (H3 : In (mk_aentry B"main" B"rotate" KParam [] (TConfig B"c_main" B"rotate")) argv_table) by (apply in_by_compute; vm_compute; reflexivity).
  assert (H4 : In (mk_aentry B"256-bit-encryption" B"print" KChoices [B"full"; B"low"; B"none"] (TConfig B"c_enc" B"print")) argv_table)
    by (apply in_by_compute; vm_compute; reflexivity).
  assert (H5 : In (mk_aentry B"global" B"no-default-limits" KBare [] (TConfig B"c_global" B"noDefaultLimits")) argv_table)
    by (apply in_by_compute; vm_compute; reflexivity).
  split; [exact H1|]. split; [exact H2|]. split; [exact H3|]. split; [exact H4|]. split; [exact H5|].
  split.
  - split; [|vm_compute; reflexivity].
    constructor; [split; [assumption|vm_compute; reflexivity]|].
    constructor; [exact I|].
    constructor; [split; [assumption|vm_compute; reflexivity]|].
    constructor; [exact I|].
    constructor.
    { cbn [wf_item]. split; [vm_compute; reflexivity|]. split; [vm_compute; reflexivity|]. split; [vm_compute; reflexivity|].
      constructor; [|constructor]. split; [assumption|]. split; vm_compute; reflexivity. }
    constructor.
    { cbn [wf_item]. constructor; [|constructor]. split; [assumption|vm_compute; reflexivity]. }
    constructor; [split; [assumption|vm_compute; reflexivity]|]. constructor.
  - vm_compute. split; reflexivity.
Qed.
