# Differential check of the source -> Gallina translator harness/translate_leaf.py (part "leaf-translation" of C02).
#
# Implementation side: the very source text of every translated function (cut out of /repo by the offsets clang
# reports, recorded in _build/gen/leaf_meta.json by the translator) is pasted into one small C++ file, inside the
# namespaces / class stubs its qualified name needs, compiled with g++ and run on the generated arguments.
# Model side: `Eval vm_compute` of the generated definitions of coq/Gen/Leaf.v on the same arguments (coqc; Gen/Leaf.v is
# deliberately not part of the extraction, so that a leaf that leaves the translated subset cannot break the
# extracted models of the other checks).
# A difference means that the translator's reading of the C++ subset (Base/LeafSem.v) is not what the compiler does:
# the tie theorems would then be about the wrong function.  It is reported as a broken correspondence.
import json, os, re, subprocess
import common

INT_RANGE = {(True, 8): (-128, 127), (False, 8): (0, 255), (True, 16): (-2 ** 15, 2 ** 15 - 1), (False, 16): (0, 2 ** 16 - 1),
             (True, 32): (-2 ** 31, 2 ** 31 - 1), (False, 32): (0, 2 ** 32 - 1), (True, 64): (-2 ** 63, 2 ** 63 - 1), (False, 64): (0, 2 ** 64 - 1)}
FUEL = 80


def ty_range(ty):
    if ty == "bool":
        return (0, 1)
    return INT_RANGE[(bool(ty[0]), int(ty[1]))]


def proto(meta):
    """(return type, [parameter types]) as C++ text from clang's function type"""
    m = re.match(r"^(.*?)\s*\((.*)\)(\s*const)?$", meta["ctype"])
    ret, ps = m.group(1).strip(), m.group(2).strip()
    return ret, ([p.strip() for p in ps.split(",")] if ps and ps != "void" else [])


def cxx_source(metas, allmeta):
    """one translation unit with the source text of every translated function (and of the constants they read)"""
    order, seen, consts = [], set(), []

    def put(n):
        if n in seen:
            return
        if n not in metas:
            if n in allmeta and allmeta[n].get("src") and n not in consts:
                consts.append(n)
            return
        seen.add(n)
        for c in metas[n]["callees"]:
            put(c)
        order.append(n)
    for n in metas:
        put(n)
    out = ["#include <cstdint>", "#include <cstdio>", "#include <cstdlib>", "#include <cstring>", "#include <string>",
           "#include <qpdf/Types.h>      // qpdf_offset_t"]
    if any("QIntC::" in metas[n]["src"] for n in order):
        out.append("#include <qpdf/QIntC.hh>      // the checked conversions the leaves call")
    out.append("")
    for n in consts:
        out.append(allmeta[n]["src"] + ";")
    nss = []
    classes = {}     # (namespaces, class) -> member declarations
    # class stubs and namespace-level prototypes first, so that out-of-line definitions find their declaration
    for n in order:
        m = metas[n]
        scope, name = m["scope"][:-1], m["scope"][-1]
        ret, ps = proto(m)
        decl = "%s %s(%s);" % (ret, name, ", ".join(ps))
        if m["method"]:
            ns, cls = scope[:-1], scope[-1]
            classes.setdefault((tuple(ns), cls), []).append(decl)
        elif scope:
            ns = scope
            written_qualified = re.search(r"::\s*%s\s*\(" % re.escape(name), m["src"].split("{", 1)[0]) is not None
            if written_qualified:
                out.append("".join("namespace %s { " % x for x in ns) + decl + " }" * len(ns))
        else:
            ns = []
        for i in range(1, len(ns) + 1):
            if ns[:i] not in nss:
                nss.append(ns[:i])
    for (ns, cls), decls in classes.items():
        out.append("".join("namespace %s { " % x for x in ns) + "struct %s { %s };" % (cls, " ".join(decls)) + " }" * len(ns))
    for ns in nss:
        out.append("".join("namespace %s { " % x for x in ns) + "}" * len(ns))
    # the sources of qpdf say `using namespace qpdf;`: a top-level namespace that has nested namespaces or classes is opened
    for ns in nss:
        if len(ns) == 1 and (any(len(x) > 1 and x[0] == ns[0] for x in nss) or any(k[0][:1] == tuple(ns) for k in classes)):
            out.append("using namespace %s;" % ns[0])
    out.append("")
    for n in order:
        m = metas[n]
        scope, name = m["scope"][:-1], m["scope"][-1]
        head = m["src"].split("{", 1)[0]
        written_qualified = re.search(r"::\s*%s\s*\(" % re.escape(name), head) is not None
        if m["method"] or written_qualified or not scope:
            out.append(m["src"])
        else:
            out.append("".join("namespace %s { " % x for x in scope))
            out.append(m["src"])
            out.append("}" * len(scope))
        out.append("")
    # dispatcher
    out.append("int main() {")
    out.append("  char nm[128]; long long a[8];")
    out.append("  while (scanf(\"%127s\", nm) == 1) {")
    for n in order:
        m = metas[n]
        scope, name = m["scope"][:-1], m["scope"][-1]
        ret, ps = proto(m)
        k = len(ps)
        args = ", ".join("static_cast<%s>(a[%d])" % (p, i) for i, p in enumerate(ps))
        # unsigned 64-bit arguments are read as signed and converted: the bit pattern is what counts
        if m["method"]:
            call = "%s().%s(%s)" % ("::".join(scope), name, args)
        else:
            call = "%s(%s)" % ("::".join([""] + scope + [name]) if scope else "::" + name, args)
        out.append("    if (!strcmp(nm, \"%s\")) { for (int i = 0; i < %d; ++i) if (scanf(\"%%lld\", &a[i]) != 1) return 2;" % (n, k))
        if ret == "unsigned long long" or ret == "unsigned long":
            out.append("      printf(\"%%llu\\n\", static_cast<unsigned long long>(%s)); continue; }" % call)
        else:
            out.append("      printf(\"%%lld\\n\", static_cast<long long>(%s)); continue; }" % call)
    out.append("    return 3;")
    out.append("  }")
    out.append("  return 0;")
    out.append("}")
    return "\n".join(out) + "\n"


def gen_args(rng, m, quick):
    """argument tuples aimed at the case splits of integer code: type and domain boundaries, every power of two and its
    neighbours, all 256 values for char parameters, the values used as constants in the function, random fill"""
    doms = []
    for i, (pname, ty) in enumerate(m["params"]):
        lo, hi = ty_range(ty)
        if m.get("dom"):
            dlo, dhi = m["dom"][i]
            lo, hi = max(lo, dlo), min(hi, dhi)
        doms.append((lo, hi))
    consts = sorted(set(int(x) for x in re.findall(r"(?<![\w.])(\d+)(?![\w.])", m["src"])))
    for ch in re.findall(r"'(\\?.)'", m["src"]):
        consts.append(ord(ch[-1]) if not ch.startswith("\\") else {"n": 10, "r": 13, "t": 9, "f": 12, "v": 11, "0": 0}.get(ch[1], 0))

    def interesting(lo, hi):
        vs = {lo, hi, 0, 1, -1, 2, lo + 1, hi - 1}
        for k in range(0, 65):
            for d in (-1, 0, 1):
                vs.add((1 << k) + d)
                vs.add(-(1 << k) + d)
        for c in consts:
            for d in (-1, 0, 1):
                vs.add(c + d)
                vs.add(-c + d)
        return sorted(v for v in vs if lo <= v <= hi)
    per = []
    for (lo, hi) in doms:
        if hi - lo <= 255:
            per.append(list(range(lo, hi + 1)))
        else:
            per.append(interesting(lo, hi))
    cases = []
    if len(doms) == 1:
        cases = [(v,) for v in per[0]]
        if doms[0][1] - doms[0][0] > 255:
            cases += [(rng.randint(*doms[0]),) for _ in range(150 if quick else 1500)]
            cases += [(rng.randint(0, min(doms[0][1], 1 << rng.randint(1, 63))),) for _ in range(150 if quick else 1500)]
    else:
        # pairs / triples of interesting values (sampled), small values exhaustively if a small box is given
        n = 300 if quick else 4000
        for _ in range(n):
            cases.append(tuple(rng.choice(p) for p in per))
        for _ in range(n):
            cases.append(tuple(rng.randint(lo, hi) for lo, hi in doms))
        if m.get("small"):
            for _ in range(4 * n):
                cases.append(tuple(rng.randint(lo, hi) for lo, hi in m["small"]))
            box = [sorted(set([lo, lo + 1, hi - 1, hi, (lo + hi) // 2, (lo + hi) // 2 + 1])) for lo, hi in m["small"]]
            import itertools
            cases += list(itertools.product(*box))
    out, seen = [], set()
    for c in cases:
        if c not in seen:
            seen.add(c)
            out.append(c)
    return out


def zl(v):
    return str(v) if v >= 0 else "(%d)" % v


def broken_tie_theorems(chk):
    """tie theorems (of any owning property) that no longer check, by name: the lemma of coq/*/C<nn>TieProofs.v that
    contains the line of coqc's error in this run's build log"""
    out = []
    log = os.path.join(common.BUILD, "coq_make.log")
    if not os.path.exists(log):
        return out
    for f, ln in re.findall(r'File "\./([A-Za-z]+/C\d\dTieProofs\.v)", line (\d+)', open(log, errors="replace").read()):
        name, src = None, os.path.join(common.COQ, f)
        if os.path.exists(src):
            for i, line in enumerate(open(src), 1):
                m = re.match(r"\s*(?:Lemma|Theorem)\s+([A-Za-z0-9_']+?)(_lemma)?\s*:", line)
                if m and i <= int(ln):
                    name = m.group(1)
        item = {"file": f, "line": int(ln), "theorem": name}
        if item not in out:
            out.append(item)
    return out


def negative_selftest(chk):
    """the translator must refuse every function of harness/leaf_selftest_neg.cc (one construct outside the subset each)"""
    import translate_leaf as tl
    neg = os.path.join(tl.HERE, "leaf_selftest_neg.cc")
    names = re.findall(r"^int (neg_\w+)\(.*\{", open(neg).read(), re.M)
    saved = list(tl.TARGETS)
    refused, accepted = {}, []
    try:
        targets = [tl.T(neg, "neg_", "func", nm, nm, "selftest-neg") for nm in names]
        tl.TARGETS.extend(targets)
        tr = tl.Translator()
        try:
            tr.load()
        except tl.Unsupported as e:
            raise common.InfraError("leaf-translation: clang could not read the translator's targets", str(e)[-1500:])
        for t in targets:
            try:
                tr.translate_target(t)
                accepted.append({"function": t["sym"], "emitted": tr.emitted.get(t["out"])})
            except tl.Unsupported as e:
                refused[t["sym"]] = str(e).split("): ", 1)[-1][:160]
    finally:
        tl.TARGETS[:] = saved
    if accepted or len(refused) < 15:
        chk.violation({"kind": "correspondence-broken", "correspondence": "corr:C02:leaf-translation",
                       "why": "the translator accepted a construct outside its subset instead of refusing it (or the negative self-test lost its functions)",
                       "accepted": accepted, "refused": len(refused)}, no_input=True)
    return refused


def run_part(chk):
    quick = chk.tier == "quick"
    broken = broken_tie_theorems(chk)
    chk.cov["parts"].setdefault("leaf-translation", {"evaluations": 0, "distinct_nontrivial": 0})["undischarged_tie_theorems"] = broken
    mp = os.path.join(common.BUILD, "gen", "leaf_meta.json")
    leaf_vo = os.path.join(common.COQ, "Gen", "Leaf.vo")
    if not os.path.exists(mp):
        raise common.InfraError("leaf-translation: %s missing (harness/translate_leaf.py did not run)" % mp)
    meta = json.load(open(mp))
    metas = {k: v for k, v in meta.items() if v["kind"] == "func"}
    if any(v.get("src") is None for v in metas.values()):
        raise common.InfraError("leaf-translation: no source text for " + ", ".join(k for k, v in metas.items() if v.get("src") is None))
    if not os.path.exists(leaf_vo) or os.path.getmtime(leaf_vo) < os.path.getmtime(os.path.join(common.COQ, "Gen", "Leaf.v")):
        chk.violation({"kind": "correspondence-broken", "correspondence": "corr:C02:leaf-translation",
                       "why": "coq/Gen/Leaf.v (generated from the C++) does not compile"}, no_input=True)
        return
    wd = common.workdir("C02leaf")
    src = os.path.join(wd, "leaf_impl.cc")
    exe = os.path.join(wd, "leaf_impl")
    with open(src, "w") as f:
        f.write(cxx_source(metas, meta))
    rc, out = common.sh(["g++", "-std=c++20", "-O1", "-w", "-I" + os.path.join(common.REPO, "include"), "-o", exe, src], timeout=300)
    if rc != 0:
        raise common.InfraError("leaf-translation: the source text of the translated functions does not compile on its own",
                                out.decode("utf-8", "replace")[-2500:])
    allcases = []
    for n, m in metas.items():
        for c in gen_args(chk.rng, m, quick):
            allcases.append((n, c))
    inp = "".join("%s %s\n" % (n, " ".join(str(v if v < 2 ** 63 else v - 2 ** 64) for v in c)) for n, c in allcases)
    p = subprocess.run([exe], input=inp.encode(), stdout=subprocess.PIPE, stderr=subprocess.PIPE, timeout=120)
    if p.returncode != 0:
        raise common.InfraError("leaf-translation: driver exit %d" % p.returncode, p.stderr.decode("utf-8", "replace")[-500:])
    impl = [int(x) for x in p.stdout.split()]
    if len(impl) != len(allcases):
        raise common.InfraError("leaf-translation: driver printed %d results for %d cases" % (len(impl), len(allcases)))
    # model side
    terms = []
    for n, c in allcases:
        m = metas[n]
        args = []
        for v, (pn, ty) in zip(c, m["params"]):
            args.append(("true" if v else "false") if ty == "bool" else zl(v))
        t = "%s %s%s" % (n, ("%d%%nat " % FUEL) if m["fuel"] else "", " ".join(args))
        terms.append("(lf_b2z (%s))" % t if m["ret"] == "bool" else "(%s)" % t)
    # evaluated in four coqc processes, in definitions of 250 terms each (one long list literal is slow to type-check)
    def evaluate(k):
        part = terms[k::4]
        vfile = os.path.join(wd, "LeafEval%d.v" % k)
        with open(vfile, "w") as f:
            f.write("From Coq Require Import ZArith List.\nFrom QV Require Import Base.LeafSem Gen.Leaf.\nImport ListNotations.\nLocal Open Scope Z_scope.\n")
            f.write("Set Printing Depth 10000000.\nSet Printing Width 100000.\n")
            for j in range(0, len(part), 250):
                f.write("Definition leaf_results_%d : list Z :=\n [%s].\nEval vm_compute in leaf_results_%d.\n" % (j, ";\n  ".join(part[j:j + 250]), j))
        rc, out = common.sh(["timeout", "300", "coqc", "-Q", common.COQ, "QV", vfile], cwd=wd)
        txt = out.decode("utf-8", "replace")
        if rc != 0:
            raise common.InfraError("leaf-translation: evaluation of the generated definitions failed", txt[-2000:])
        vals = []
        for mm in re.finditer(r"=\s*\[(.*?)\]\s*:\s*list Z", txt, re.S):
            vals += [int(x.strip().strip("()")) for x in mm.group(1).split(";") if x.strip()]
        if len(vals) != len(part):
            raise common.InfraError("leaf-translation: coqc printed %d results for %d cases" % (len(vals), len(part)), txt[-500:])
        return vals
    parts = common.par_map(evaluate, range(4), workers=4)
    model = [None] * len(terms)
    for k in range(4):
        model[k::4] = parts[k]
    if len(model) != len(allcases):
        raise common.InfraError("leaf-translation: coqc printed %d results for %d cases" % (len(model), len(allcases)))
    diffs = []
    per = {}
    for (n, c), a, b in zip(allcases, impl, model):
        per[n] = per.get(n, 0) + 1
        if a != b:
            diffs.append({"function": n, "cxx": metas[n]["sym"], "arguments": list(c), "compiled_cxx": a, "generated_gallina": b})
    if diffs:
        chk.violation({"kind": "correspondence-broken", "correspondence": "corr:C02:leaf-translation",
                       "why": "the Gallina generated from the clang AST computes something else than the compiled source text of the same function",
                       "differing_cases": len(diffs), "first_cases": diffs[:5]}, no_input=True)
    keys = set()
    for (n, c), a in zip(allcases, impl):
        keys.add((n, a, tuple((v > 0) - (v < 0) for v in c), tuple(min(int(abs(v)).bit_length(), 64) for v in c)))
    chk.count("leaf-translation", len(allcases), keys,
              samples=[{"function": n, "arguments": list(c), "result": a} for (n, c), a in list(zip(allcases, impl))[:2]])
    chk.cov["parts"]["leaf-translation"]["functions"] = per
    chk.cov["parts"]["leaf-translation"]["refused_constructs"] = negative_selftest(chk)
    chk.cov["parts"]["leaf-translation"]["tables_and_constants"] = sorted(k for k, v in meta.items() if v["kind"] != "func")
    chk.cov["parts"]["leaf-translation"]["rule"] = (
        "every function translated by harness/translate_leaf.py: its source text compiled by g++ against Eval vm_compute of the generated "
        "Gallina, on all 256 values of char parameters, and for wider parameters on the type/domain limits, every power of two +-1, the "
        "literals of the function +-1 and random values inside the domain of the tie theorem; non-trivial = distinct (function, result, "
        "signs and bit lengths of the arguments)")
