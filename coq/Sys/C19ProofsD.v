(* C19 - proofs. Part 4: the page-selection table.  The command-line front end (positional and named spelling) and the job-JSON
   front end both refine the denotation of Sys/JobPagesSpec.v, for every content of the working directory: the only place where the
   directory is consulted is a word after a file name that is NOT a page range (ArgParser::argPagesPositional). *)
From Coq Require Import String.
From Coq Require Import List NArith ZArith Bool Lia.
From QV Require Import Base.Bytes Sys.JobTypes Sys.JobTableSpec Gen.JobTables Sys.JobFront Sys.JobSpec Sys.JobPagesSpec.
From QV Require Import Struct.NumRange Struct.RangeSpec.
Require QV.Struct.C12Proofs.
Require Import QV.Sys.C19ProofsB.
Import ListNotations.
Open Scope N_scope.

(* ------------------------------------------------------------------ table facts (computed on the generated tables) *)
Definition PG : bstr := B"pages".
Definition E_PAGES := mk_aentry MAIN B"pages" KBare [] (TManual B"argPages").
Definition E_PG_POS := mk_aentry PG [] KPositional [] (TManual B"argPagesPositional").
Definition E_PG_END := mk_aentry PG B"--" KEnd [] (TManual B"argEndPages").
Definition E_PG_FILE := mk_aentry PG B"file" KParam [] (TConfig C_PAGES B"file").
Definition E_PG_PW := mk_aentry PG B"password" KParam [] (TConfig C_PAGES B"password").
Definition E_PG_RANGE := mk_aentry PG B"range" KParam [] (TConfig C_PAGES B"range").

Lemma pg_lookup_facts :
  a_lookup MAIN B"pages" = Some E_PAGES /\ a_lookup B"help" B"pages" = None /\
  a_lookup_pos PG = Some E_PG_POS /\ a_lookup PG B"--" = Some E_PG_END /\
  cfg_opt E_PG_FILE = true /\ argv_entry_ok E_PG_FILE = true /\
  cfg_opt E_PG_PW = true /\ argv_entry_ok E_PG_PW = true /\
  cfg_opt E_PG_RANGE = true /\ argv_entry_ok E_PG_RANGE = true.
Proof. vm_compute. repeat split; reflexivity. Qed.

(* the model's syntax test is the page-range grammar of the specification (C12: numrange_spec) *)
Lemma pg_numrange_ok_spec : forall w, numrange_ok w = is_page_range w.
Proof.
  intros w. unfold numrange_ok, is_page_range. rewrite <- QV.Struct.C12Proofs.numrange_spec_lemma.
  destruct (parse_numrange w 0%Z); reflexivity.
Qed.

(* ------------------------------------------------------------------ argv: single words inside --pages ... -- *)
Lemma pg_step_open : forall files sole s, a_table s = MAIN ->
  a_step files sole B"--pages" s = inl (AOk (a_set_table PG (a_set_acc [] (a_emit (CCall C_MAIN B"pages" []) s)))).
Proof.
  intros files sole s Ht. destruct pg_lookup_facts as [H1 [H2 _]].
  change (B"--pages") with (45 :: 45 :: 112 :: [97; 103; 101; 115]).
  rewrite (a_step_option files sole s 112 [97; 103; 101; 115] B"pages" false [] E_PAGES); auto. rewrite Ht. exact H1.
Qed.

Lemma pg_step_close : forall files sole s, a_table s = PG ->
  a_step files sole B"--" s = inl (AOk (a_set_table MAIN (a_emit (CCall C_PAGES B"endPages" []) s))).
Proof.
  intros files sole s Ht. destruct pg_lookup_facts as [_ [_ [_ [H4 _]]]].
  unfold a_step. change (bstr_eqb B"--" B"--") with true. cbv beta iota. rewrite Ht.
  change (bstr_eqb PG MAIN) with false. cbv beta iota. rewrite H4. reflexivity.
Qed.

Lemma pg_step_positional : forall files sole w s, positional_word w = true -> a_table s = PG ->
  a_step files sole w s = inl (a_manual files B"argPagesPositional" w s).
Proof.
  intros files sole w s Hp Ht. destruct (positional_word_facts w Hp) as [H1 H2]. destruct pg_lookup_facts as [_ [_ [H3 _]]].
  unfold a_step. rewrite H1, H2, Ht, H3. reflexivity.
Qed.

Lemma pg_manual_positional : forall files w s,
  a_manual files B"argPagesPositional" w s =
  if negb (a_pages_file s) then AOk (a_set_pages true (a_pages_range s) (a_emit (CCall C_PAGES B"file" [w]) s))
  else if a_pages_range s then AOk (a_set_pages true false (a_emit (CCall C_PAGES B"file" [w]) s))
  else if numrange_ok w && negb (a_range_set s) then AOk (a_set_pages true true (a_emit (CCall C_PAGES B"range" [w]) s))
  else if bstr_eqb w B"." || bmem w files then AOk (a_set_pages true false (a_emit (CCall C_PAGES B"file" [w]) s))
  else if numrange_ok w then AErr (a_emit (CCall C_PAGES B"range" [w]) s) 9
  else AErr s 8.
Proof. intros. reflexivity. Qed.

(* the three option words of the table *)
Lemma pg_step_named : forall files sole e v s obj meth,
  cfg_opt e = true -> argv_entry_ok e = true -> ae_table e = PG -> ae_kind e = KParam -> ae_target e = TConfig obj meth ->
  a_table s = PG ->
  a_step files sole (word_of e v) s = inl (AOk (a_emit (CCall obj meth [v]) s)).
Proof.
  intros files sole e v s obj meth Hc Hok Htb Hk Htg Ht.
  pose proof (a_step_word e v s files sole Hc Hok (eq_trans Ht (eq_sym Htb))) as H.
  unfold opt_denote in H. rewrite Hk, Htg in H. exact H.
Qed.

(* ------------------------------------------------------------------ argv: one page specification *)
Definition pg_emit_opt (meth : bstr) (v : option bstr) (s : astate) : astate :=
  match v with Some x => a_emit (CCall C_PAGES meth [x]) s | None => s end.

(* state after the positional words of one specification *)
Definition pg_after_positional (p : pgspec) (s : astate) : astate :=
  let s1 := a_set_pages true false (a_emit (CCall C_PAGES B"file" [pgs_file p]) s) in
  let s2 := pg_emit_opt B"password" (pgs_password p) s1 in
  match pgs_range p with Some r => a_set_pages true true (a_emit (CCall C_PAGES B"range" [r]) s2) | None => s2 end.

Definition pg_after_named (p : pgspec) (s : astate) : astate :=
  pg_emit_opt B"range" (pgs_range p) (pg_emit_opt B"password" (pgs_password p) (a_emit (CCall C_PAGES B"file" [pgs_file p]) s)).

(* between two specifications of the positional spelling: in the table, and the two flags of the handler say where we are *)
Definition pg_inv (first prev_range : bool) (s : astate) : Prop :=
  a_table s = PG /\
  (if first then a_pages_file s = false /\ a_pages_range s = false else a_pages_file s = true /\ a_pages_range s = prev_range).

Lemma pg_after_positional_fields : forall p s,
  a_table (pg_after_positional p s) = a_table s /\ a_gave_input (pg_after_positional p s) = a_gave_input s /\
  a_gave_output (pg_after_positional p s) = a_gave_output s /\ a_used_enc_pw (pg_after_positional p s) = a_used_enc_pw s /\
  a_calls (pg_after_positional p s) = rev (pgs_calls p) ++ a_calls s /\
  a_pages_file (pg_after_positional p s) = true /\ a_pages_range (pg_after_positional p s) = pgs_has_range p.
Proof.
  intros [f [w|] [r|]] s; destruct s; cbn; repeat split; reflexivity.
Qed.

Lemma pg_after_named_fields : forall p s,
  a_table (pg_after_named p s) = a_table s /\ a_gave_input (pg_after_named p s) = a_gave_input s /\
  a_gave_output (pg_after_named p s) = a_gave_output s /\ a_used_enc_pw (pg_after_named p s) = a_used_enc_pw s /\
  a_calls (pg_after_named p s) = rev (pgs_calls p) ++ a_calls s.
Proof.
  intros [f [w|] [r|]] s; destruct s; cbn; repeat split; reflexivity.
Qed.

Lemma pg_password_word : forall files sole w rest s, a_table s = PG ->
  a_loop files sole (pgs_opt_word B"password" w ++ rest) s = a_loop files sole rest (pg_emit_opt B"password" w s).
Proof.
  intros files sole [x|] rest s Ht; [|reflexivity].
  destruct pg_lookup_facts as [_ [_ [_ [_ [_ [_ [C [O _]]]]]]]].
  change (pgs_opt_word B"password" (Some x)) with [word_of E_PG_PW x]. cbn [app a_loop pg_emit_opt].
  rewrite (pg_step_named files sole E_PG_PW x s C_PAGES B"password" C O eq_refl eq_refl eq_refl Ht). reflexivity.
Qed.

Lemma pg_range_word_named : forall files sole w rest s, a_table s = PG ->
  a_loop files sole (pgs_opt_word B"range" w ++ rest) s = a_loop files sole rest (pg_emit_opt B"range" w s).
Proof.
  intros files sole [x|] rest s Ht; [|reflexivity].
  destruct pg_lookup_facts as [_ [_ [_ [_ [_ [_ [_ [_ [C O]]]]]]]]].
  change (pgs_opt_word B"range" (Some x)) with [word_of E_PG_RANGE x]. cbn [app a_loop pg_emit_opt].
  rewrite (pg_step_named files sole E_PG_RANGE x s C_PAGES B"range" C O eq_refl eq_refl eq_refl Ht). reflexivity.
Qed.

Lemma pg_emit_opt_fields : forall meth v s,
  a_table (pg_emit_opt meth v s) = a_table s /\ a_pages_file (pg_emit_opt meth v s) = a_pages_file s /\
  a_pages_range (pg_emit_opt meth v s) = a_pages_range s.
Proof. intros meth [x|] s; destruct s; cbn; auto. Qed.

(* the positional words of one specification are read back as that specification *)
Lemma pg_spec_positional : forall files sole p rest s first prev,
  pg_inv first prev s ->
  positional_word (pgs_file p) = true ->
  (first || prev || (negb (is_page_range (pgs_file p)) && (bstr_eqb (pgs_file p) B"." || bmem (pgs_file p) files))) = true ->
  match pgs_range p with Some x => positional_word x && is_page_range x | None => true end = true ->
  a_loop files sole (pgs_words_positional p ++ rest) s = a_loop files sole rest (pg_after_positional p s) /\
  pg_inv false (pgs_has_range p) (pg_after_positional p s).
Proof.
  intros files sole [f w r] rest s first prev [Ht Hfl] Hpf Hcase Hr. cbn [pgs_file pgs_password pgs_range] in *.
  split.
  2: { destruct (pg_after_positional_fields (mk_pgspec f w r) s) as [F1 [_ [_ [_ [_ [F6 F7]]]]]].
       unfold pg_inv. rewrite F1, F6, F7. auto. }
  unfold pgs_words_positional, pg_after_positional. cbn [pgs_file pgs_password pgs_range].
  cbn [app a_loop]. rewrite (pg_step_positional files sole f s Hpf Ht). rewrite pg_manual_positional.
  (* the file word *)
  assert (Hfile : (if negb (a_pages_file s) then AOk (a_set_pages true (a_pages_range s) (a_emit (CCall C_PAGES B"file" [f]) s))
                   else if a_pages_range s then AOk (a_set_pages true false (a_emit (CCall C_PAGES B"file" [f]) s))
                   else if numrange_ok f && negb (a_range_set s) then AOk (a_set_pages true true (a_emit (CCall C_PAGES B"range" [f]) s))
                   else if bstr_eqb f B"." || bmem f files then AOk (a_set_pages true false (a_emit (CCall C_PAGES B"file" [f]) s))
                   else if numrange_ok f then AErr (a_emit (CCall C_PAGES B"range" [f]) s) 9
                   else AErr s 8) = AOk (a_set_pages true false (a_emit (CCall C_PAGES B"file" [f]) s))).
  { destruct first.
    - destruct Hfl as [H1 H2]. rewrite H1, H2. reflexivity.
    - destruct Hfl as [H1 H2]. rewrite H1, H2. cbn [negb]. destruct prev; [reflexivity|].
      cbn [orb] in Hcase. apply andb_true_iff in Hcase. destruct Hcase as [Hnr Hex]. apply negb_true_iff in Hnr.
      rewrite pg_numrange_ok_spec, Hnr, Hex. reflexivity. }
  rewrite Hfile.
  set (s1 := a_set_pages true false (a_emit (CCall C_PAGES B"file" [f]) s)).
  assert (Ht1 : a_table s1 = PG) by (unfold s1; destruct s; exact Ht).
  rewrite <- app_assoc. rewrite (pg_password_word files sole w _ s1 Ht1).
  set (s2 := pg_emit_opt B"password" w s1).
  destruct r as [x|]; [|reflexivity].
  apply andb_true_iff in Hr. destruct Hr as [Hpx Hrx].
  destruct (pg_emit_opt_fields B"password" w s1) as [G1 [G2 G3]]. fold s2 in G1, G2, G3.
  assert (Ht2 : a_table s2 = PG) by (rewrite G1; exact Ht1).
  assert (Hrs : a_range_set s2 = false) by (unfold s2, s1; destruct w; destruct s; reflexivity).
  cbn [app a_loop]. rewrite (pg_step_positional files sole x s2 Hpx Ht2). rewrite pg_manual_positional.
  rewrite G2, G3. unfold s1 at 1 2. replace (a_pages_file (a_set_pages true false (a_emit (CCall C_PAGES B"file" [f]) s))) with true by (destruct s; reflexivity).
  replace (a_pages_range (a_set_pages true false (a_emit (CCall C_PAGES B"file" [f]) s))) with false by (destruct s; reflexivity).
  cbn [negb]. rewrite pg_numrange_ok_spec, Hrx, Hrs. reflexivity.
Qed.

(* a whole list of specifications, positional spelling *)
Fixpoint pg_after_all (named : bool) (l : list pgspec) (s : astate) : astate :=
  match l with [] => s | p :: r => pg_after_all named r ((if named then pg_after_named else pg_after_positional) p s) end.

Lemma pg_specs_positional : forall files sole l rest s first prev,
  pg_inv first prev s -> pgs_positional_ok files first prev l = true ->
  a_loop files sole (flat_map pgs_words_positional l ++ rest) s = a_loop files sole rest (pg_after_all false l s) /\
  a_table (pg_after_all false l s) = PG.
Proof.
  intros files sole. induction l as [|p l IH]; intros rest s first prev Hinv Hok.
  - split; [reflexivity|exact (proj1 Hinv)].
  - cbn [pgs_positional_ok] in Hok.
    apply andb_true_iff in Hok. destruct Hok as [Hok Hl]. apply andb_true_iff in Hok. destruct Hok as [Hok Hr].
    apply andb_true_iff in Hok. destruct Hok as [Hpf Hcase].
    cbn [flat_map pg_after_all]. rewrite <- app_assoc.
    destruct (pg_spec_positional files sole p (flat_map pgs_words_positional l ++ rest) s first prev Hinv Hpf Hcase Hr) as [E1 Hinv'].
    rewrite E1. exact (IH rest _ false (pgs_has_range p) Hinv' Hl).
Qed.

Lemma pg_spec_named : forall files sole p rest s, a_table s = PG ->
  a_loop files sole (pgs_words_named p ++ rest) s = a_loop files sole rest (pg_after_named p s).
Proof.
  intros files sole [f w r] rest s Ht. unfold pgs_words_named, pg_after_named. cbn [pgs_file pgs_password pgs_range].
  destruct pg_lookup_facts as [_ [_ [_ [_ [C [O _]]]]]].
  change (B"--file=" ++ f) with (word_of E_PG_FILE f). cbn [app a_loop].
  rewrite (pg_step_named files sole E_PG_FILE f s C_PAGES B"file" C O eq_refl eq_refl eq_refl Ht).
  set (s1 := a_emit (CCall C_PAGES B"file" [f]) s).
  assert (Ht1 : a_table s1 = PG) by (unfold s1; destruct s; exact Ht).
  rewrite <- app_assoc. rewrite (pg_password_word files sole w _ s1 Ht1).
  assert (Ht2 : a_table (pg_emit_opt B"password" w s1) = PG) by (rewrite (proj1 (pg_emit_opt_fields _ _ _)); exact Ht1).
  rewrite (pg_range_word_named files sole r rest _ Ht2). reflexivity.
Qed.

Lemma pg_specs_named : forall files sole l rest s, a_table s = PG ->
  a_loop files sole (flat_map pgs_words_named l ++ rest) s = a_loop files sole rest (pg_after_all true l s) /\
  a_table (pg_after_all true l s) = PG.
Proof.
  intros files sole. induction l as [|p l IH]; intros rest s Ht.
  - split; [reflexivity|exact Ht].
  - cbn [flat_map pg_after_all]. rewrite <- app_assoc. rewrite (pg_spec_named files sole p _ s Ht).
    apply IH. rewrite (proj1 (pg_after_named_fields p s)). exact Ht.
Qed.

Lemma pg_after_all_fields : forall named l s,
  a_gave_input (pg_after_all named l s) = a_gave_input s /\ a_gave_output (pg_after_all named l s) = a_gave_output s /\
  a_used_enc_pw (pg_after_all named l s) = a_used_enc_pw s /\
  a_calls (pg_after_all named l s) = rev (flat_map pgs_calls l) ++ a_calls s.
Proof.
  intros named. induction l as [|p l IH]; intros s.
  - cbn. auto.
  - cbn [pg_after_all flat_map]. destruct (IH ((if named then pg_after_named else pg_after_positional) p s)) as [I1 [I2 [I3 I4]]].
    rewrite I1, I2, I3, I4. rewrite rev_app_distr, <- app_assoc.
    destruct named.
    + destruct (pg_after_named_fields p s) as [_ [F2 [F3 [F4 F5]]]]. rewrite F2, F3, F4, F5. auto.
    + destruct (pg_after_positional_fields p s) as [_ [F2 [F3 [F4 [F5 _]]]]]. rewrite F2, F3, F4, F5. auto.
Qed.

(* ------------------------------------------------------------------ argv: the whole block --pages ... -- *)
(* when the words of the block are read back as the selection: always in the named spelling; in the positional spelling when
   Sys/JobPagesSpec.pgs_positional_ok holds for the names that exist in the working directory *)
Definition pages_readable (files : list bstr) (named : bool) (l : list pgspec) : bool :=
  named || pgs_positional_ok files true false l.

Lemma pg_block : forall files sole named l rest s gi go,
  a_inv s gi go -> a_pages_file s = false -> a_pages_range s = false -> pages_readable files named l = true ->
  exists s', a_inv s' gi go /\ a_calls s' = rev (pages_denote l) ++ a_calls s /\
             a_loop files sole (pages_argv named l ++ rest) s = a_loop files sole rest s'.
Proof.
  intros files sole named l rest s gi go [Ht [Hgi [Hgo Hused]]] Hpf Hpr Hok.
  set (s0 := a_set_table PG (a_set_acc [] (a_emit (CCall C_MAIN B"pages" []) s))).
  assert (Ht0 : a_table s0 = PG) by (unfold s0; destruct s; reflexivity).
  assert (Hloop : exists sb, a_table sb = PG /\ sb = pg_after_all named l s0 /\
            a_loop files sole (flat_map (if named then pgs_words_named else pgs_words_positional) l ++ B"--" :: rest) s0 =
            a_loop files sole (B"--" :: rest) sb).
  { exists (pg_after_all named l s0). destruct named.
    - destruct (pg_specs_named files sole l (B"--" :: rest) s0 Ht0) as [E T]. auto.
    - cbn [pages_readable orb] in Hok.
      assert (Hinv0 : pg_inv true false s0).
      { unfold pg_inv. split; [exact Ht0|]. unfold s0. destruct s; cbn in *. auto. }
      destruct (pg_specs_positional files sole l (B"--" :: rest) s0 true false Hinv0 Hok) as [E T]. auto. }
  destruct Hloop as [sb [Htb [Hsb Hloop]]].
  exists (a_set_table MAIN (a_emit (CCall C_PAGES B"endPages" []) sb)).
  destruct (pg_after_all_fields named l s0) as [F1 [F2 [F3 F4]]]. rewrite <- Hsb in F1, F2, F3, F4.
  split.
  { unfold a_inv. destruct (close_table_fields MAIN (CCall C_PAGES B"endPages" []) sb) as [G1 [G2 [G3 [_ G5]]]].
    rewrite G1, G2, G3, G5, F1, F2, F3. unfold s0. destruct s; cbn in *. auto. }
  split.
  { destruct (close_table_fields MAIN (CCall C_PAGES B"endPages" []) sb) as [_ [_ [_ [G4 _]]]]. rewrite G4, F4.
    assert (Hc0 : a_calls s0 = CCall C_MAIN B"pages" [] :: a_calls s) by (unfold s0; destruct s; reflexivity).
    rewrite Hc0. unfold pages_denote. cbn [rev]. rewrite rev_app_distr. cbn [rev app].
    rewrite <- !app_assoc. reflexivity. }
  unfold pages_argv. cbn [app a_loop]. rewrite (pg_step_open files sole s Ht). fold s0.
  rewrite <- app_assoc. cbn [app]. etransitivity; [exact Hloop|]. cbn [a_loop]. rewrite (pg_step_close files sole sb Htb). reflexivity.
Qed.

(* a job whose page selection comes first on the command line (the order of the other items is free; job JSON has no order), followed
   by any job of Sys/JobSpec.v: main options with any values, positional files, --empty / --replace-input, --global, --encrypt *)
Lemma pages_argv_refines_spec_lemma : forall files named l j,
  pages_readable files named l = true -> wf_job argv_table j ->
  res_is (front_argv files (pages_argv named l ++ render_argv j)) [] (pages_denote l ++ argv_calls j) (snd (denote_items j)).
Proof.
  intros files named l j Hok [Hwf Hpos]. unfold front_argv.
  generalize (match pages_argv named l ++ render_argv j with [_] => true | _ => false end). intros sole.
  assert (Hinv : a_inv a_init false false) by (unfold a_inv; cbn; auto).
  destruct (pg_block files sole named l (render_argv j) a_init false false Hinv eq_refl eq_refl Hok) as [s' [Hinv' [Hcalls Heq]]].
  rewrite Heq. pose proof (a_loop_job files sole j s' false false Hwf Hpos Hinv') as H.
  rewrite Hcalls in H. cbn [a_calls a_init] in H. rewrite app_nil_r, rev_involutive in H.
  unfold res_is in *. destruct (snd (denote_items j)).
  - rewrite H. cbn [app]. rewrite <- app_assoc. reflexivity.
  - destruct H as [k H]. exists k. rewrite H. reflexivity.
Qed.

(* ================================================================== job JSON: "pages": [ {...}, ... ] *)
Definition PGI : list bstr := [PG; ARRK].

Lemma pg_json_facts :
  schema_has_child [] PG = true /\ schema_node [PG] = Some SArray /\ schema_node PGI = Some SDict /\
  schema_has_child PGI B"file" = true /\ schema_has_child PGI B"password" = true /\ schema_has_child PGI B"range" = true /\
  schema_node (PGI ++ [B"file"]) = Some SString /\ schema_node (PGI ++ [B"password"]) = Some SString /\
  schema_node (PGI ++ [B"range"]) = Some SString /\
  is_nil (j_entries [PG]) = false /\ find is_jmanual (j_entries [PG]) = None /\
  find is_jarray (j_entries [PG]) = Some (mk_jentry [PG] JArray [] (TManual B"beginPagesArray")) /\
  find is_jmanual (j_entries PGI) = None /\
  find is_jdict (j_entries PGI) = Some (mk_jentry PGI JDict [] (TManual B"beginPages")) /\
  find is_jmanual (j_entries (PGI ++ [B"file"])) = Some (mk_jentry (PGI ++ [B"file"]) JManual [] (TManual B"setupPagesFile")) /\
  find is_jmanual (j_entries (PGI ++ [B"password"])) = Some (mk_jentry (PGI ++ [B"password"]) JManual [] (TManual B"setupPagesPassword")) /\
  find is_jmanual (j_entries (PGI ++ [B"range"])) = None /\
  find is_jscalar (j_entries (PGI ++ [B"range"])) = Some (mk_jentry (PGI ++ [B"range"]) (JScalar KParam) [] (TConfig C_PAGES B"range")) /\
  is_nil (j_entries (PGI ++ [B"file"])) = false /\ is_nil (j_entries (PGI ++ [B"password"])) = false /\
  is_nil (j_entries (PGI ++ [B"range"])) = false.
Proof. vm_compute. repeat split; reflexivity. Qed.

(* ---- schema *)
Lemma check_schema_str_node : forall p x, p <> [] -> schema_node p = Some SString -> check_schema p (JJStr x) = true.
Proof. intros p x Hne H. rewrite check_schema_str. destruct p; [congruence|]. rewrite H. reflexivity. Qed.

Lemma pg_schema_spec : forall p, check_schema PGI (pgs_json p) = true.
Proof.
  intros [f w r]. destruct pg_json_facts as [_ [_ [S3 [C1 [C2 [C3 [N1 [N2 [N3 _]]]]]]]]].
  unfold pgs_json. cbn [pgs_file pgs_password pgs_range].
  rewrite (check_schema_obj PG [ARRK] _ S3). change (PG :: [ARRK]) with PGI.
  assert (HF : forall x, check_schema (PGI ++ [B"file"]) (JJStr x) = true) by (intros; apply check_schema_str_node; [discriminate|exact N1]).
  assert (HP : forall x, check_schema (PGI ++ [B"password"]) (JJStr x) = true) by (intros; apply check_schema_str_node; [discriminate|exact N2]).
  assert (HR : forall x, check_schema (PGI ++ [B"range"]) (JJStr x) = true) by (intros; apply check_schema_str_node; [discriminate|exact N3]).
  destruct w as [x|]; destruct r as [y|]; cbn [pgs_opt_member app sub_members_ok]; rewrite ?C1, ?C2, ?C3, ?HF, ?HP, ?HR; reflexivity.
Qed.

Lemma pg_schema_member : forall l,
  (if schema_has_child [] (fst (pages_json l)) then check_schema [fst (pages_json l)] (snd (pages_json l)) else false) = true.
Proof.
  intros l. destruct pg_json_facts as [S1 [S2 _]]. cbn [pages_json fst snd]. change B"pages" with PG. rewrite S1.
  rewrite (check_schema_arr PG _ S2).
  induction l as [|p l IH]; [reflexivity|]. cbn [map all_items_ok]. change ([PG] ++ [ARRK]) with PGI. rewrite pg_schema_spec. exact IH.
Qed.

(* ---- handlers *)
Lemma arr_go_obj : forall p m rest s,
  arr_go p (JJObj m :: rest) s = match j_handle p (JJObj m) s with JOk s' => arr_go p rest s' | JErr s' en => JErr s' en end.
Proof. reflexivity. Qed.

Lemma dict_go_cons_ne : forall dp k x rest s, is_nil (j_entries (dp ++ [k])) = false ->
  dict_go dp ((k, x) :: rest) s = match j_handle (dp ++ [k]) x s with JOk s' => dict_go dp rest s' | JErr s' e => JErr s' e end.
Proof. intros dp k x rest s H. rewrite dict_go_cons. destruct (j_entries (dp ++ [k])); [discriminate|reflexivity]. Qed.

Definition pg_jemit_opt (meth : bstr) (v : option bstr) (s : jstate) : jstate :=
  match v with Some x => j_emit (CCall C_PAGES meth [x]) s | None => s end.

Lemma pg_j_spec : forall p s, j_pages_open s = true ->
  j_handle PGI (pgs_json p) s = JOk (j_emits (pgs_calls p) s).
Proof.
  intros [f w r] s Hopen.
  destruct pg_json_facts as [_ [_ [_ [_ [_ [_ [_ [_ [_ [_ [_ [_ [M0 [D0 [MF [MP [MR [SR [NF [NP NR]]]]]]]]]]]]]]]]]]]].
  unfold pgs_json. cbn [pgs_file pgs_password pgs_range].
  rewrite j_handle_obj_eq. rewrite M0, D0. cbn [handler_name je_target]. unfold dict_walk.
  set (members := (B"file", JJStr f) :: pgs_opt_member B"password" w ++ pgs_opt_member B"range" r).
  assert (Hbegin : j_begin_dict B"beginPages" members s = JOk (j_emit (CCall C_PAGES B"file" [f]) s)).
  { unfold members. unfold j_begin_dict. cbn [jlookup]. change (bstr_eqb B"file" B"file") with true. cbv beta iota.
    change (bstr_eqb B"beginPages" B"beginEncrypt") with false. change (bstr_eqb B"beginPages" B"beginAddAttachment") with false.
    change (bstr_eqb B"beginPages" B"beginCopyAttachmentsFrom") with false. change (bstr_eqb B"beginPages" B"beginPages") with true.
    cbv beta iota. rewrite Hopen. reflexivity. }
  rewrite Hbegin.
  set (s1 := j_emit (CCall C_PAGES B"file" [f]) s).
  (* the members *)
  assert (Hfile : forall rest st, dict_go PGI ((B"file", JJStr f) :: rest) st = dict_go PGI rest st).
  { intros rest st. etransitivity; [exact (dict_go_cons_ne PGI B"file" (JJStr f) rest st NF)|].
    first [reflexivity | rewrite (j_handle_ignore _ f st _ MF eq_refl); reflexivity]. }
  assert (Hpw : forall x rest st, dict_go PGI ((B"password", JJStr x) :: rest) st =
                                  dict_go PGI rest (j_emit (CCall C_PAGES B"password" [x]) st)).
  { intros x rest st. etransitivity; [exact (dict_go_cons_ne PGI B"password" (JJStr x) rest st NP)|].
    first [reflexivity | rewrite (j_handle_manual _ x st _ MP eq_refl); reflexivity]. }
  assert (Hrg : forall x rest st, dict_go PGI ((B"range", JJStr x) :: rest) st =
                                  dict_go PGI rest (j_emit (CCall C_PAGES B"range" [x]) st)).
  { intros x rest st. etransitivity; [exact (dict_go_cons_ne PGI B"range" (JJStr x) rest st NR)|].
    first [reflexivity | rewrite (j_handle_str_scalar _ x st _ MR SR); reflexivity]. }
  unfold members. rewrite Hfile.
  unfold pgs_calls. cbn [pgs_file pgs_password pgs_range].
  destruct w as [x|]; destruct r as [y|]; cbn [pgs_opt_member app pgs_opt_call];
    repeat (first [rewrite Hpw | rewrite Hrg]); rewrite dict_go_nil; reflexivity.
Qed.

Lemma pg_j_specs : forall l s, j_pages_open s = true ->
  arr_go PGI (map pgs_json l) s = JOk (j_emits (flat_map pgs_calls l) s).
Proof.
  induction l as [|p l IH]; intros s Hopen; [reflexivity|].
  cbn [map flat_map]. unfold pgs_json at 1. rewrite arr_go_obj. fold (pgs_json p). rewrite (pg_j_spec p s Hopen).
  rewrite IH.
  - rewrite j_emits_app. reflexivity.
  - clear IH. generalize (pgs_calls p). intros cs. revert s Hopen. induction cs as [|c cs IHc]; intros s Hopen; [exact Hopen|].
    cbn [j_emits]. apply IHc. destruct s; exact Hopen.
Qed.

Lemma j_emits_open : forall cs s, j_pages_open (j_emits cs s) = j_pages_open s /\ j_acc (j_emits cs s) = j_acc s.
Proof. induction cs as [|c cs IH]; intros s; [auto|]. cbn [j_emits]. destruct (IH (j_emit c s)) as [H1 H2]. rewrite H1, H2. destruct s; auto. Qed.

Lemma j_emits_closed : forall cs s, j_emits cs s = mk_jstate (j_acc s) (j_pages_open s) (rev cs ++ j_calls s).
Proof.
  induction cs as [|c cs IH]; intros [a o cl]; cbn [j_emits rev app j_acc j_pages_open j_calls]; [reflexivity|].
  rewrite IH. cbn [j_emit j_acc j_pages_open j_calls]. rewrite <- app_assoc. reflexivity.
Qed.

(* the member "pages": exactly the calls of the denotation *)
Lemma pg_j_member : forall l s, j_pages_open s = false ->
  j_entries [fst (pages_json l)] <> [] /\
  j_handle [fst (pages_json l)] (snd (pages_json l)) s = JOk (j_emits (pages_denote l) s).
Proof.
  intros l s Hclosed.
  destruct pg_json_facts as [_ [_ [_ [_ [_ [_ [_ [_ [_ [N0 [M0 [A0 _]]]]]]]]]]]].
  cbn [pages_json fst snd]. change B"pages" with PG. split.
  { intro H. rewrite H in N0. discriminate. }
  rewrite j_handle_arr_eq. rewrite M0, A0. cbn [handler_name je_target].
  change (j_begin_array B"beginPagesArray" s) with (JOk (mk_jstate (j_acc s) true (CCall C_MAIN B"pages" [] :: j_calls s))).
  change ([PG] ++ [ARRK]) with PGI.
  cbv beta iota. rewrite pg_j_specs by reflexivity.
  rewrite !j_emits_closed. cbn [j_acc j_pages_open j_calls].
  unfold j_end_array. change (bstr_eqb B"beginPagesArray" B"beginPagesArray") with true. cbv beta iota. cbn [j_acc j_pages_open j_calls].
  unfold pages_denote. cbn [rev]. rewrite rev_app_distr. cbn [rev app]. rewrite <- !app_assoc. cbn [app].
  rewrite Hclosed. reflexivity.
Qed.

(* job JSON whose member "pages" is followed by the members of any job of Sys/JobSpec.v *)
Lemma pages_json_refines_spec_lemma : forall l j, Forall (wf_item argv_table) j ->
  res_is (front_json false (JJObj (pages_json l :: map json_of_item j))) [] (pages_denote l ++ fst (denote_items j)) (snd (denote_items j)).
Proof.
  intros l j Hwf. unfold front_json. rewrite check_schema_top. cbn [members_ok].
  destruct (pages_json l) as [k v] eqn:Hk.
  pose proof (pg_schema_member l) as Hs. rewrite Hk in Hs. cbn [fst snd] in Hs. rewrite Hs.
  rewrite (members_ok_job j Hwf). cbn [andb negb].
  cbn [j_top_members].
  destruct (pg_j_member l (mk_jstate [] false []) eq_refl) as [Hne Hh]. rewrite Hk in Hne, Hh. cbn [fst snd] in Hne, Hh.
  destruct (j_entries [k]) as [|je0 es0] eqn:Hes; [congruence|]. rewrite Hh.
  destruct (j_top_job j (j_emits (pages_denote l) (mk_jstate [] false [])) Hwf) as [kk Hj]. rewrite Hj.
  unfold res_is. destruct (denote_items j) as [cs ok]. cbn [fst snd]. destruct ok.
  - rewrite rev'_rev. cbn [rev]. rewrite !j_emits_calls. cbn [j_calls]. rewrite app_nil_r.
    rewrite rev_app_distr, !rev_involutive. cbn [app]. rewrite <- !app_assoc. reflexivity.
  - exists kk. rewrite rev'_rev, !j_emits_calls. cbn [j_calls]. rewrite app_nil_r, rev_app_distr, !rev_involutive. reflexivity.
Qed.

(* ================================================================== consequences *)
Lemma pg_filter_id : forall (A : Type) (f : A -> bool) l, forallb f l = true -> filter f l = l.
Proof.
  induction l as [|x l IH]; intros H; [reflexivity|]. cbn [forallb] in H. apply andb_true_iff in H. destruct H as [H1 H2].
  cbn [filter]. rewrite H1, (IH H2). reflexivity.
Qed.

Lemma pg_strip_denote : forall l, strip_enc0 (pages_denote l) = pages_denote l.
Proof.
  intros l. unfold strip_enc0. apply pg_filter_id. unfold pages_denote.
  cbn [forallb]. change (negb (is_enc0 (CCall B"c_main" B"pages" []))) with true. cbn [andb].
  rewrite forallb_app. cbn [forallb]. change (negb (is_enc0 (CCall B"c_pages" B"endPages" []))) with true. rewrite andb_true_r.
  induction l as [|[f w r] l IH]; [reflexivity|]. cbn [flat_map]. rewrite forallb_app. rewrite IH, andb_true_r.
  destruct w; destruct r; reflexivity.
Qed.

(* nested_equivalent for the page-selection table: whatever lies in the working directory (files), the command line - in the named
   spelling always, in the positional spelling whenever its words denote the selection (pgs_positional_ok, which looks at the
   directory only for a word that follows a file name and is not a page range) - and the job JSON make the same Config calls, namely
   those of the denotation, and one is rejected iff the other is *)
Lemma pages_nested_equivalent_lemma : forall files named l j,
  pages_readable files named l = true -> wf_job argv_table j ->
  let argv := front_argv files (pages_argv named l ++ render_argv j) in
  let json := front_json false (JJObj (pages_json l :: map json_of_item j)) in
  strip_enc0 (r_calls argv) = r_calls json /\
  ((r_end argv = EFin /\ r_end json = EFin) \/ (exists k1 k2, r_end argv = EFront k1 /\ r_end json = EFront k2)).
Proof.
  intros files named l j Hok Hwf. cbv zeta.
  pose proof (pages_argv_refines_spec_lemma files named l j Hok Hwf) as HA.
  destruct Hwf as [Hwf _]. pose proof (pages_json_refines_spec_lemma l j Hwf) as HJ.
  pose proof (strip_argv_calls j Hwf) as HS.
  unfold res_is in *. destruct (snd (denote_items j)).
  - rewrite HA, HJ. cbn [r_calls r_end app]. split; [|left; split; reflexivity].
    rewrite !strip_app, HS, pg_strip_denote. reflexivity.
  - destruct HA as [k1 HA]. destruct HJ as [k2 HJ]. rewrite HA, HJ. cbn [r_calls r_end app]. split.
    + rewrite strip_app, HS, pg_strip_denote. reflexivity.
    + right. exists k1, k2. split; reflexivity.
Qed.

Lemma pgs_positional_ok_mono : forall files l first prev, pgs_positional_ok [] first prev l = true -> pgs_positional_ok files first prev l = true.
Proof.
  intros files. induction l as [|p l IH]; intros first prev H; [reflexivity|].
  cbn [pgs_positional_ok] in *.
  apply andb_true_iff in H. destruct H as [H Hl]. apply andb_true_iff in H. destruct H as [H Hr].
  apply andb_true_iff in H. destruct H as [Hpf Hcase].
  rewrite Hpf, Hr, (IH _ _ Hl), !andb_true_r. cbn [andb].
  destruct first; [reflexivity|]. destruct prev; [reflexivity|]. cbn [orb] in *.
  apply andb_true_iff in Hcase. destruct Hcase as [H1 H2]. rewrite H1. cbn [andb].
  cbn [bmem] in H2. rewrite orb_false_r in H2. rewrite H2. reflexivity.
Qed.

(* a command line whose page selection does not rely on an omitted range being followed by a file name (every word after a file
   name is a page range, the next file name after a given range, or the terminator) is read the same way in EVERY working
   directory: a file or directory that happens to be named like one of its page ranges changes nothing *)
Lemma pages_any_directory_lemma : forall files named l j,
  (named || pgs_directory_independent l) = true -> wf_job argv_table j ->
  let here := front_argv files (pages_argv named l ++ render_argv j) in
  let empty_dir := front_argv [] (pages_argv named l ++ render_argv j) in
  r_calls here = r_calls empty_dir /\
  ((r_end here = EFin /\ r_end empty_dir = EFin) \/ (exists k1 k2, r_end here = EFront k1 /\ r_end empty_dir = EFront k2)).
Proof.
  intros files named l j Hok Hwf. cbv zeta.
  assert (H0 : pages_readable [] named l = true) by exact Hok.
  assert (H1 : pages_readable files named l = true).
  { unfold pages_readable in *. destruct named; [reflexivity|]. cbn [orb] in *. apply pgs_positional_ok_mono. exact H0. }
  pose proof (pages_argv_refines_spec_lemma files named l j H1 Hwf) as HA.
  pose proof (pages_argv_refines_spec_lemma [] named l j H0 Hwf) as HB.
  unfold res_is in *. destruct (snd (denote_items j)).
  - rewrite HA, HB. cbn [r_calls r_end]. split; [reflexivity|]. left. split; reflexivity.
  - destruct HA as [k1 HA]. destruct HB as [k2 HB]. rewrite HA, HB. cbn [r_calls r_end]. split; [reflexivity|].
    right. exists k1, k2. split; reflexivity.
Qed.

(* ------------------------------------------------------------------ what the positional spelling cannot say; what the handler does
   with a second range (witnesses evaluated on the model) *)
(* FULL STATEMENT one might expect: the positional words of ANY page selection denote it.  False, by the grammar itself: a file
   whose name is a page range cannot follow an omitted range - the word is read as the preceding file's range, in every directory
   (also when a file of that name exists).  Such a selection needs the named spelling, which pages_nested_equivalent covers. *)
Lemma pages_positional_rangelike_file_refuted_lemma :
  exists files l,
    Forall (fun p => positional_word (pgs_file p) = true /\ bmem (pgs_file p) files = true) l /\
    front_argv files (pages_argv false l) =
      mk_fe_res (pages_denote [mk_pgspec B"A.pdf" None (Some B"2")] ++ [CHECK]) EFin /\
    front_argv files (pages_argv true l) = mk_fe_res (pages_denote l ++ [CHECK]) EFin /\
    pages_denote l <> pages_denote [mk_pgspec B"A.pdf" None (Some B"2")].
Proof.
  exists [B"A.pdf"; B"2"], [mk_pgspec B"A.pdf" None None; mk_pgspec B"2" None None].
  split; [repeat constructor|]. split; [vm_compute; reflexivity|]. split; [vm_compute; reflexivity|]. vm_compute. discriminate.
Qed.

(* the one place where the directory changes the reading of a word that IS a page range (unchanged qpdf; not expressible as a job
   in either notation, hence outside the equivalence): after --range=..., a positional page range makes PagesConfig::range raise
   "--range already specified for this file" INSIDE the try block of ArgParser::argPagesPositional, whose handler then re-reads the
   word as a file name - accepted when a file of that name exists, the usage error otherwise *)
Lemma pages_second_range_reread_as_file_lemma :
  let w := [B"A.pdf"; B"out.pdf"; B"--pages"; B"B.pdf"; B"--range=1"; B"1-3"; B"--"] in
  r_end (front_argv [] w) = EFront 9 /\
  front_argv [B"1-3"] w =
    mk_fe_res [CCall C_MAIN B"inputFile" [B"A.pdf"]; CCall C_MAIN B"outputFile" [B"out.pdf"]; CCall C_MAIN B"pages" [];
               CCall C_PAGES B"file" [B"B.pdf"]; CCall C_PAGES B"range" [B"1"]; CCall C_PAGES B"file" [B"1-3"];
               CCall C_PAGES B"endPages" []; CHECK] EFin.
Proof. cbv zeta. split; vm_compute; reflexivity. Qed.
