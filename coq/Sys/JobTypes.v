(* C19 - types shared by the generated option tables (Gen/JobTables.v), the front-end model (Sys/JobFront.v) and the
   specification (Sys/JobSpec.v).  Strings are byte lists (DESIGN §3). No proofs here. *)
From Coq Require Import List NArith Bool String Ascii.
Import ListNotations.
Open Scope N_scope.

(* byte-string literals: B"text" elaborates to the literal list of byte values (no Coq string survives, so nothing of the
   string type reaches extraction) *)
Definition b_of_string (s : string) : list N := map N_of_ascii (list_ascii_of_string s).
Notation "'B' s" := ltac:(let v := eval cbv in (b_of_string s%string) in exact v) (at level 0, s at level 0, only parsing).

Definition bstr := list N.

Fixpoint bstr_eqb (a b : bstr) : bool :=
  match a, b with
  | [], [] => true
  | x :: a', y :: b' => (x =? y) && bstr_eqb a' b'
  | _, _ => false
  end.

Fixpoint blist_eqb (a b : list bstr) : bool :=
  match a, b with
  | [], [] => true
  | x :: a', y :: b' => bstr_eqb x y && blist_eqb a' b'
  | _, _ => false
  end.

Fixpoint bmem (x : bstr) (l : list bstr) : bool :=
  match l with [] => false | y :: l' => bstr_eqb x y || bmem x l' end.

(* how an option takes its value.  argv: addBare / addRequiredParameter / addOptionalParameter / addChoices(required) /
   addChoices(optional) / addPositional / the "--" end handler of a sub-table.  JSON: addBare / addParameter / addChoices. *)
Inductive okind := KBare | KParam | KOptParam | KChoices | KOptChoices | KPositional | KEnd.

Definition okind_eqb (a b : okind) : bool :=
  match a, b with
  | KBare, KBare | KParam, KParam | KOptParam, KOptParam | KChoices, KChoices | KOptChoices, KOptChoices
  | KPositional, KPositional | KEnd, KEnd => true
  | _, _ => false
  end.

(* what a table entry is bound to: a method of one of the Config objects (c_main, c_pages, c_enc, c_uo, c_att, c_copy_att,
   c_global) or a hand-written handler (ArgParser::arg..., Handlers::setup.../begin...) *)
Inductive otarget := TConfig (obj meth : bstr) | TManual (handler : bstr).

Definition otarget_eqb (a b : otarget) : bool :=
  match a, b with
  | TConfig o1 m1, TConfig o2 m2 => bstr_eqb o1 o2 && bstr_eqb m1 m2
  | TManual h1, TManual h2 => bstr_eqb h1 h2
  | _, _ => false
  end.

Record aentry := mk_aentry { ae_table : bstr; ae_flag : bstr; ae_kind : okind; ae_choices : list bstr; ae_target : otarget }.

(* JSON handler tree, flattened: the path is the list of dictionary keys from the top, with the pseudo key "[]" for an array level *)
Inductive jkind := JScalar (k : okind) | JManual | JDict | JArray | JNone.
Record jentry := mk_jentry { je_path : list bstr; je_kind : jkind; je_choices : list bstr; je_target : otarget }.

Inductive snode := SString | SDict | SArray | SNull.

(* ---- a call on the Config layer.  obj: c_main c_pages c_enc c_uo c_att c_copy_att c_global *)
Inductive cfg_call := CCall (obj meth : bstr) (args : list bstr).

(* ---- a parsed job JSON value: strings, other scalars (numbers, booleans, null), arrays, objects (members in the order the
   parser delivers them: std::map order, i.e. byte order of the keys) *)
Inductive jjv := JJStr (s : bstr) | JJOther | JJArr (l : list jjv) | JJObj (l : list (bstr * jjv)).
