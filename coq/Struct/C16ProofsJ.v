(* C16 extension (ci_): only page content is normalised.  Model Struct/ContentWriter.v (initializeSpecialStreams,
   will_filter_stream, pipeStreamData), specification Struct/ContentWriterSpec.v (ISO 32000-1 Table 30). *)
From QV Require Import Base.Bytes Lex.TokModel Struct.ContentNorm Struct.ContentObj Struct.ContentList Struct.ContentWriter Struct.ContentWriterSpec.
Local Open Scope N_scope.

Lemma ci_mem_in n l : ci_mem n l = true <-> In n l.
Proof.
  induction l as [|k r IH]; cbn [ci_mem In]; [split; [discriminate|intros []]|].
  rewrite orb_true_iff, IH, N.eqb_eq. tauto.
Qed.

(* what initializeSpecialStreams registers, read against Table 30: every registered object number other than 0 (the id of
   a direct object) is named by a page's /Contents as that entry itself - then it is a stream - or as an element of the
   array that entry is *)
Lemma ci_registered_is_page_content_lemma : forall st pages n,
  n <> 0 -> In n (ci_special_streams st pages) -> ci_is_page_content st pages n.
Proof.
  intros st pages n Hn0 H. unfold ci_special_streams in H. apply in_flat_map in H. destruct H as (v & Hv & Hin).
  unfold ci_page_special, c16_kind_of in Hin.
  assert (Hitems : forall items, In n (map ci_objgen items) -> In (CvRef n) items).
  { intros items X. apply in_map_iff in X. destruct X as (it & Hit & Hi). destruct it; cbn in Hit; try (exfalso; apply Hn0; auto; fail).
    subst. exact Hi. }
  destruct v as [k|items| |].
  - destruct (c16_lookup st k) as [[d|items| |]|] eqn:El; try (destruct Hin; fail).
    + destruct Hin as [<-|[]]. eapply ci_pc_single; [exact Hv|exact El].
    + eapply ci_pc_indirect_array; [exact Hv|exact El|apply Hitems, Hin].
  - eapply ci_pc_direct_array; [exact Hv|apply Hitems, Hin].
  - destruct Hin.
  - destruct Hin.
Qed.

(* ... and conversely every content stream of Table 30 is registered *)
Lemma ci_page_content_is_registered_lemma : forall st pages n,
  ci_is_page_content st pages n -> In n (ci_special_streams st pages).
Proof.
  intros st pages n H. unfold ci_special_streams. apply in_flat_map.
  assert (Hitems : forall items, In (CvRef n) items -> In n (map ci_objgen items)).
  { intros items X. apply in_map_iff. exists (CvRef n). split; [reflexivity|exact X]. }
  destruct H as [d Hp Hl|items Hp Hi|k items Hp Hl Hi].
  - exists (CvRef n). split; [exact Hp|]. unfold ci_page_special, c16_kind_of. rewrite Hl. left. reflexivity.
  - exists (CvArr items). split; [exact Hp|]. unfold ci_page_special, c16_kind_of. apply Hitems, Hi.
  - exists (CvRef k). split; [exact Hp|]. unfold ci_page_special, c16_kind_of. rewrite Hl. apply Hitems, Hi.
Qed.

(* the normaliser runs only when will_filter_stream found the stream registered and content normalisation on *)
Lemma ci_normaliser_needs_registration : forall cfg special n a,
  snd (fst (ci_write_stream cfg special n a)) = true -> ci_normalize cfg = true /\ ci_mem n special = true.
Proof.
  intros cfg special n a. unfold ci_write_stream, ci_will_filter.
  destruct (ci_filter_on_write a); destruct (ci_length0 a);
    destruct (ci_root_metadata a && (negb (ci_encrypted cfg) || negb (ci_encrypt_metadata cfg)));
    destruct (ci_normalize cfg); destruct (ci_mem n special); cbn [andb];
    repeat match goal with
           | |- context [if ?c then _ else _] => destruct c
           | |- context [match ?o with Some _ => _ | None => _ end] => destruct o
           end; cbn; intros H; try discriminate; auto.
Qed.

(* ci_only_page_content_normalised.  For every configuration, every object table, every list of pages and every stream
   object n (object numbers start at 1) with any attributes: if n is not the /Contents of a page nor an element of the
   /Contents array of a page, the ContentNormalizer is not run on it, no normalisation warning is raised for it, and what
   is written for it is its stored data or its decoded data - never a re-spelling. *)
Lemma ci_only_page_content_normalised_lemma : forall cfg st pages n a,
  n <> 0 -> ~ ci_is_page_content st pages n ->
  let '(data, normalised, warns) := ci_write_stream cfg (ci_special_streams st pages) n a in
  normalised = false /\ warns = [] /\
  (data = ci_raw a \/ exists l, ci_decoded a l = Some data).
Proof.
  intros cfg st pages n a Hn0 Hnot.
  assert (Hmem : ci_mem n (ci_special_streams st pages) = false).
  { destruct (ci_mem n (ci_special_streams st pages)) eqn:E; [|reflexivity]. exfalso. apply Hnot.
    apply ci_registered_is_page_content_lemma; [exact Hn0|apply ci_mem_in, E]. }
  unfold ci_write_stream, ci_will_filter. rewrite Hmem, andb_false_r.
  destruct (ci_filter_on_write a); destruct (ci_length0 a);
    destruct (ci_root_metadata a && (negb (ci_encrypted cfg) || negb (ci_encrypt_metadata cfg))); cbn [andb orb];
    repeat match goal with
           | |- context [if ?c then _ else _] => destruct c
           end; cbn [andb orb negb];
    repeat match goal with
           | |- context [match ?o with Some _ => _ | None => _ end] => destruct o eqn:?
           end; repeat split; auto; right; eexists; eassumption.
Qed.

(* the rule is not vacuous: a registered, decodable stream that is not the clear-text root metadata and not empty IS
   normalised when content normalisation is on *)
Lemma ci_page_content_normalised_lemma : forall cfg st pages n a d,
  ci_is_page_content st pages n -> ci_normalize cfg = true -> ci_filter_on_write a = true -> ci_length0 a = false ->
  ci_root_metadata a = false -> ci_decoded a (ci_decode_level cfg) = Some d ->
  ci_write_stream cfg (ci_special_streams st pages) n a = (c16_normalize d, true, c16_warnings d).
Proof.
  intros cfg st pages n a d Hpc Hn Hf Hl Hr Hd.
  pose proof (proj2 (ci_mem_in _ _) (ci_page_content_is_registered_lemma _ _ _ Hpc)) as Hmem.
  unfold ci_write_stream, ci_will_filter. rewrite Hf, Hl, Hr, Hn, Hmem. cbn [andb orb]. rewrite Hd. reflexivity.
Qed.

(* a stream that is page content AND the catalog's clear-text /Metadata is not normalised: the metadata rule comes first *)
Lemma ci_root_metadata_wins_lemma : forall cfg special n a,
  ci_filter_on_write a = true -> ci_root_metadata a = true -> ci_encrypted cfg = false ->
  snd (fst (ci_write_stream cfg special n a)) = false.
Proof.
  intros cfg special n a Hf Hr He. unfold ci_write_stream, ci_will_filter. rewrite Hf, Hr, He. cbn [andb orb negb].
  destruct (ci_length0 a); cbn [andb orb negb ci_level_is_none]; destruct (ci_decoded a CiAll); reflexivity.
Qed.

(* --qdf normalises unless --normalize-content=n was given; without --qdf only --normalize-content=y does *)
Lemma ci_effective_normalize_cases_lemma :
  ci_effective_normalize true None = true /\ ci_effective_normalize false None = false /\
  forall q v, ci_effective_normalize q (Some v) = v.
Proof. repeat split. Qed.

(* the whole writer pass: every entry of the result for a stream object outside page content is un-normalised *)
Lemma ci_write_all_only_page_content_lemma : forall cfg st pages streams n r,
  In (n, r) (ci_write_all cfg st pages streams) -> n <> 0 -> ~ ci_is_page_content st pages n ->
  snd (fst r) = false /\ snd r = [].
Proof.
  intros cfg st pages streams n r Hin Hn0 Hnot. unfold ci_write_all in Hin. apply in_map_iff in Hin.
  destruct Hin as ((k & a) & Heq & _). cbn [fst snd] in Heq. injection Heq as <- <-.
  pose proof (ci_only_page_content_normalised_lemma cfg st pages k a Hn0 Hnot) as H.
  destruct (ci_write_stream cfg (ci_special_streams st pages) k a) as [[data nrm] ws]. cbn [fst snd]. tauto.
Qed.

(* with content normalisation off nothing is normalised at all *)
Lemma ci_normalize_off_lemma : forall cfg special n a,
  ci_normalize cfg = false -> snd (fst (ci_write_stream cfg special n a)) = false.
Proof.
  intros cfg special n a Hoff. destruct (snd (fst (ci_write_stream cfg special n a))) eqn:E; [|reflexivity].
  destruct (ci_normaliser_needs_registration _ _ _ _ E) as [X _]. congruence.
Qed.
