#!/usr/bin/env python3
# Regenerates /verif/MANIFEST.json from the table below and validates it against the schema.
import json, os, sys
V = os.path.dirname(os.path.dirname(os.path.abspath(__file__)))
props = [json.loads(l) for l in open(os.path.join(V, "properties.jsonl"))]
ids = [p["id"] for p in props]

CLAIMED = {
 "C12": dict(
   text="Machine-checked proof (Coq) that the model of QUtil::parse_numrange equals the declarative denotation of the manual's range grammar for every string and every max, that the collation loop equals the round-robin specification and is a permutation of the selected pages, that split chunks concatenate to the input with sizes 1..n, and that rotation is correct modulo 360; the model is tied to /repo by running QUtil::parse_numrange in-process against the extracted model and the extracted specification (exhaustive short bodies + grammar-derived ranges), and the CLI (--pages, --collate, --split-pages, --rotate) against the extracted specifications on marker documents.",
   note="Trusted: Coq kernel; hand-written model of parse_numrange/collation/split/rotate tied by differential runs; std::regex semantics of the one group expression; qpdf's own reader is used to read page lists of outputs. AcroForm fix-up, label remapping and resource pruning are not modelled.",
   technique="Coq proof (refinement of a loop model to a declarative spec) + extracted-model/implementation correspondence",
   design="§5 C12"),
 "C15": dict(
   text="Machine-checked proofs (Coq, 22 theorems, closed under the global context) about models of qpdf's pipelines written from Pl_*.cc: any chunking of the input into write() calls gives the same output (ASCIIHex, ASCII85, RunLength both ways, LZW, PNG, TIFF); the ASCIIHex, ASCII85, RunLength, PNG (all five filter types, any bytes-per-pixel) and TIFF-8-bit decoders exactly invert independent reference encoders written from the PDF/PNG/TIFF specifications; qpdf's RunLength, PNG-up, TIFF and Base64 encoders are inverted by reference decoders; BitStream reads MSB-first; RC4 is an involution; the LZW code table and code width stay within 4096 entries / 9..12 bits. Every model is tied to /repo by running the real Pl_* classes from libqpdf.a on the same (parameters, data, chunking) triples as the extracted models, and the extracted reference codecs decide the property on the implementation's side.",
   note="Trusted: Coq kernel; hand-written models tied by differential runs (exhaustive 1-2 byte inputs, predictor parameter sweep, all chunkings of short inputs); Flate/DCT not modelled; LZW decoder-inverts-encoder and TIFF bit-path inversion are tested against the extracted reference encoder / round trip, not yet proved; provider equality (native/openssl/gnutls) is observed.",
   technique="Coq proof (codec inversion, chunking independence) + extracted-model/implementation correspondence",
   design="§5 C15"),
}
NOT_YET = "not claimed yet: the Coq model and correspondence for this property have not been built/validated in /verif at this commit (see DESIGN.md §5 for the plan)"

checks = []
for pid in ids:
    if pid in CLAIMED:
        c = CLAIMED[pid]
        checks.append({
            "property_id": pid,
            "quick_cmd": "./check %s --tier quick" % pid,
            "thorough_cmd": "./check %s --tier thorough" % pid,
            "evidence_file": "/verif/evidence/%s.json" % pid,
            "replay_cmd_template": "./check %s --replay {path}" % pid,
            "engine": "coq+correspondence",
            "level_claimed": {"category": "proof", "text": c["text"], "design_ref": c["design"]},
            "level_note": c["note"],
            "technique": c["technique"],
        })
m = {
 "version": 1,
 "setup_cmd": "./setup.sh",
 "hooks": {
   "guard": "QPDF_VERIF",
   "enable": "checks build /repo into /verif/_build/repo with -DQPDF_VERIF (cmake -DCMAKE_CXX_FLAGS); no guarded source hook exists at this commit, all drivers use the public API, private headers and the static library",
   "baseline_off_cmd": "cmake --build /repo/_build -j16 && ctest --test-dir /repo/_build -j8 --timeout 900",
   "source_commits": [],
   "add_only": True,
 },
 "engines": [{"name": "coq+correspondence", "path": "/verif/check", "serves_properties": sorted(CLAIMED),
              "kind_free_text": "Coq 8.16 development under /verif/coq (models, specifications, theorems), extracted to OCaml and run against the implementation built from /repo by C++ drivers and the qpdf CLI"}],
 "checks": checks,
 "not_applicable": [{"property_id": pid, "reason": NOT_YET} for pid in ids if pid not in CLAIMED],
 "notes": "Every check: builds /repo's working tree, rebuilds the Coq development (make -k) and re-checks Props/Properties_<id>.v, extracts, runs model + specification + implementation on the same cases. See DESIGN.md.",
}
json.dump(m, open(os.path.join(V, "MANIFEST.json"), "w"), indent=1)
try:
    import jsonschema
    jsonschema.validate(m, json.load(open("/root/.vp/MANIFEST.schema.json")))
    print("MANIFEST.json valid;", len(checks), "checks")
except ImportError:
    print("jsonschema not available; written without validation")
