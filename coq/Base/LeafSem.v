(* Semantics of the C++ subset that harness/translate_leaf.py translates into coq/Gen/Leaf.v.
   Every C++ integer value is a Z inside the range of its type; `bool` is Coq's bool.
   Platform: x86-64 Linux (LP64): char is signed 8 bit, short 16, int 32, long = long long 64.

   lf_wrap_u k x : conversion to / arithmetic in an unsigned type of k bits (ISO C++ [conv.integral],
                   [basic.fundamental]: modulo 2^k).
   lf_wrap_s k x : conversion to a signed type of k bits (C++20: the unique value congruent modulo 2^k,
                   i.e. two's complement).  The translator also puts it around signed + - * and unary -,
                   where an out-of-range result is undefined behaviour in C++: the tie theorems are stated on
                   argument ranges in which no signed operation leaves its type, so the choice made here for
                   the undefined case is not relied on (gcc and clang produce exactly this wrap at -O0/-fwrapv).
   Shifts: a << n is lf_wrap_* k (Z.shiftl a n) (C++20 [expr.shift]: congruent to a * 2^n modulo 2^k),
           a >> n is Z.shiftr a n (arithmetic shift for negative a, C++20); a count outside 0 .. k-1 is
           undefined in C++ and left to Z.shiftl / Z.shiftr here.
   Division and remainder truncate toward zero: Z.quot, Z.rem.  & | ^ ~ are Z.land Z.lor Z.lxor Z.lnot
   (two's complement on Z agrees with the machine on in-range values).
   No proofs in this file. *)
From Coq Require Import ZArith List Bool.
Import ListNotations.
Local Open Scope Z_scope.

Definition lf_wrap_u (bits x : Z) : Z := x mod 2 ^ bits.
Definition lf_wrap_s (bits x : Z) : Z := (x + 2 ^ (bits - 1)) mod 2 ^ bits - 2 ^ (bits - 1).
Definition lf_b2z (b : bool) : Z := if b then 1 else 0.
Definition lf_z2b (x : Z) : bool := negb (x =? 0).
(* QIntC::to_T(x) (include/qpdf/QIntC.hh, IntConverter): x when lo <= x <= hi (the range of T); otherwise the C++ throws
   std::range_error - the definition then yields hi + 1, a value no T holds, so that a tie theorem cannot hold there by accident *)
Definition lf_checked (lo hi x : Z) : Z := if (lo <=? x) && (x <=? hi) then x else hi + 1.
(* table[i]; an index outside the table is undefined in C++ and reads 0 here *)
Definition lf_nth (l : list Z) (i : Z) : Z := if i <? 0 then 0 else nth (Z.to_nat i) l 0.
