(* Model of the plain layout engine of QPDFWriter (writeStandard with object streams disabled,
   not linearized, not QDF, stream data preserved): header, objects in queue order with their new
   numbers, classic cross-reference table, trailer, startxref. Written from QPDFWriter.cc
   (writeStandard, writeObject, unparseObject, writeXRefTable, writeTrailer).
   The printers of strings and names are section variables (their models live in the Lex layer). *)
From QV Require Import Base.Bytes Obj.Queue File.WriterArith.
Local Open Scope N_scope.

Inductive obj :=
| ONull | OBool (b : bool) | OInt (z : Z) | OReal (spelling : list N)
| OStr (s : list N) | OName (n : list N)
| OArr (l : list obj) | ODict (d : list (list N * obj)) | ORef (id : N).

Record indirect := { i_val : obj; i_stream : option (list N) }.

Record doc := {
  d_objects : list (N * indirect);          (* object id -> value (generation 0) *)
  d_trailer : list (list N * obj);          (* trimmed trailer, keys sorted, /Size included *)
  d_version : list N;
  d_id1 : list N; d_id2 : list N }.

Fixpoint find_obj (l : list (N * indirect)) (x : N) : option indirect :=
  match l with
  | [] => None
  | (k, v) :: t => if k =? x then Some v else find_obj t x
  end.

(* a reference to a null or absent object counts as null (QPDFObjectHandle::null() resolves) *)
Definition is_null_val (objs : list (N * indirect)) (o : obj) : bool :=
  match o with
  | ONull => true
  | ORef id => match find_obj objs id with
               | None => true
               | Some i => match i_val i, i_stream i with ONull, None => true | _, _ => false end
               end
  | _ => false
  end.

(* indirect references in print order: Writer::enqueue on a direct object *)
Fixpoint refs_of (objs : list (N * indirect)) (o : obj) : list N :=
  match o with
  | ORef id => [id]
  | OArr l => flat_map (refs_of objs) l
  | ODict d => flat_map (fun kv => if is_null_val objs (snd kv) then [] else refs_of objs (snd kv)) d
  | _ => []
  end.

Definition k_Length : list N := [76; 101; 110; 103; 116; 104].
Definition k_Size : list N := [83; 105; 122; 101].
Definition k_Root : list N := [82; 111; 111; 116].
Definition beqb (a b : list N) : bool := list_eqb N.eqb a b.

Definition drop_length (o : obj) : obj :=
  match o with
  | ODict d => ODict (filter (fun kv => negb (beqb (fst kv) k_Length)) d)
  | _ => o
  end.

Definition graph_of (d : doc) : graph :=
  map (fun kv => (fst kv, refs_of (d_objects d)
                              (match i_stream (snd kv) with Some _ => drop_length (i_val (snd kv)) | None => i_val (snd kv) end)))
      (d_objects d).

(* writeStandard: enqueue /Root first, then the other trailer values in key order *)
Definition roots_of (d : doc) : list N :=
  (match find (fun kv => beqb (fst kv) k_Root) (d_trailer d) with
   | Some (_, v) => refs_of (d_objects d) v
   | None => []
   end)
  ++ flat_map (fun kv => if beqb (fst kv) k_Root || is_null_val (d_objects d) (snd kv) then [] else refs_of (d_objects d) (snd kv))
              (d_trailer d).

Section Printers.
  Variable unparse_str : list N -> list N.       (* QPDF_String::unparse *)
  Variable unparse_name : list N -> list N.      (* Name::normalize, with the leading slash *)

  Definition sp : list N := [32].
  Definition hexstr (s : list N) : list N :=
    60 :: flat_map (fun b => let h v := if v <? 10 then 48 + v else 87 + v in [h (b / 16); h (b mod 16)]) s ++ [62].

  Section WithRenumber.
    Variable objs : list (N * indirect).
    Variable ren : N -> N.

    Fixpoint unparse (o : obj) : list N :=
      match o with
      | ONull => [110; 117; 108; 108]
      | OBool true => [116; 114; 117; 101]
      | OBool false => [102; 97; 108; 115; 101]
      | OInt z => dec_of_Z z
      | OReal s => s
      | OStr s => unparse_str s
      | OName n => unparse_name n
      | ORef id => dec_of_N (ren id) ++ [32; 48; 32; 82]
      | OArr l => [91] ++ flat_map (fun x => sp ++ unparse x) l ++ [32; 93]
      | ODict d =>
          [60; 60]
          ++ flat_map (fun kv => if is_null_val objs (snd kv) then [] else sp ++ unparse_name (fst kv) ++ sp ++ unparse (snd kv)) d
          ++ [32; 62; 62]
      end.

    (* stream dictionary: entries (without /Length), then /Length n *)
    Definition unparse_stream_dict (o : obj) (len : N) : list N :=
      match drop_length o with
      | ODict d =>
          [60; 60]
          ++ flat_map (fun kv => if is_null_val objs (snd kv) then [] else sp ++ unparse_name (fst kv) ++ sp ++ unparse (snd kv)) d
          ++ sp ++ unparse_name k_Length ++ sp ++ dec_of_N len ++ [32; 62; 62]
      | _ => []
      end.

    Definition obj_header (k : N) : list N := dec_of_N k ++ [32; 48; 32; 111; 98; 106; 10].     (* "k 0 obj\n" *)
    Definition s_endobj : list N := [10; 101; 110; 100; 111; 98; 106; 10].                      (* "\nendobj\n" *)

    Definition emit_object (k : N) (i : indirect) : list N :=
      obj_header k ++
      match i_stream i with
      | None => unparse (i_val i) ++ s_endobj
      | Some data =>
          unparse_stream_dict (i_val i) (N.of_nat (length data))
          ++ [10; 115; 116; 114; 101; 97; 109; 10] ++ data                  (* "\nstream\n" data *)
          ++ [101; 110; 100; 115; 116; 114; 101; 97; 109] ++ s_endobj       (* "endstream" "\nendobj\n" *)
      end.
  End WithRenumber.

  Definition null_indirect := {| i_val := ONull; i_stream := None |}.

  (* bodies in queue order; returns (chunks reversed, offsets (new number, offset) reversed, position) *)
  Fixpoint emit_bodies (objs : list (N * indirect)) (ren : N -> N) (ids : list N) (pos : N)
           (chunks_rev : list (list N)) (offs_rev : list (N * N)) : list (list N) * list (N * N) * N :=
    match ids with
    | [] => (chunks_rev, offs_rev, pos)
    | id :: rest =>
        let i := match find_obj objs id with Some i => i | None => null_indirect end in
        let c := emit_object objs ren (ren id) i in
        emit_bodies objs ren rest (pos + N.of_nat (length c)) (c :: chunks_rev) ((ren id, pos) :: offs_rev)
    end.

  Definition header (ver : list N) : list N :=
    [37; 80; 68; 70; 45] ++ ver ++ [10; 37; 191; 247; 162; 254; 10].

  Definition write_doc (d : doc) : list N :=
    let g := graph_of d in
    let roots := roots_of d in
    let ids := written g roots in
    let ren := fun x => match renumber g roots x with Some n => n | None => 0 end in
    let hdr := header (d_version d) in
    let '(chunks_rev, offs_rev, pos) := emit_bodies (d_objects d) ren ids (N.of_nat (length hdr)) [] [] in
    let n := N.of_nat (length ids) in
    let xref :=
        [120; 114; 101; 102; 10; 48; 32] ++ dec_of_N (n + 1) ++ [10]                          (* "xref\n0 N\n" *)
        ++ [48;48;48;48;48;48;48;48;48;48; 32; 54;53;53;51;53; 32; 102; 32; 10]                (* free entry 0 *)
        ++ flat_map (fun ko => xref_line (snd ko)) (rev' offs_rev) in
    let trailer :=
        [116; 114; 97; 105; 108; 101; 114; 32; 60; 60]                                         (* "trailer <<" *)
        ++ flat_map (fun kv =>
                       if is_null_val (d_objects d) (snd kv) then [] else
                       sp ++ unparse_name (fst kv) ++ sp ++
                       (if beqb (fst kv) k_Size then dec_of_N (n + 1) else unparse (d_objects d) ren (snd kv)))
                    (d_trailer d)
        ++ [32; 47; 73; 68; 32; 91] ++ hexstr (d_id1 d) ++ hexstr (d_id2 d) ++ [93]            (* " /ID [<..><..>]" *)
        ++ [32; 62; 62; 10] in
    hdr ++ concat (rev' chunks_rev) ++ xref ++ trailer
    ++ [115; 116; 97; 114; 116; 120; 114; 101; 102; 10] ++ dec_of_N pos ++ [10; 37; 37; 69; 79; 70; 10].

  (* the recorded offsets, for the theorems *)
  Definition body_offsets (d : doc) : list (N * N) :=
    let g := graph_of d in
    let roots := roots_of d in
    let ren := fun x => match renumber g roots x with Some n => n | None => 0 end in
    let '(_, offs_rev, _) := emit_bodies (d_objects d) ren (written g roots)
                                         (N.of_nat (length (header (d_version d)))) [] [] in
    rev' offs_rev.
End Printers.
