(* Models of QPDF_String::unparse (with useHexString) and Name::normalize used to instantiate the
   writer model; written from libqpdf/QPDF_String.cc and QPDFObjectHandle.cc. `char` is signed on
   this platform: bytes >= 128 are negative in the comparisons of the C++. *)
From QV Require Import Base.Bytes.
Local Open Scope N_scope.

Definition wm_hexd (v : N) : N := if v <? 10 then 48 + v else 87 + v.

(* useHexString *)
Fixpoint wm_scan (s : list N) (non_ascii : N) : option N :=
  match s with
  | [] => Some non_ascii
  | ch :: t =>
      if ch =? 127 then wm_scan t (non_ascii + 1)                    (* ch > 126 (signed) *)
      else if (32 <=? ch) && (ch <? 127) then wm_scan t non_ascii
      else if (128 <=? ch) || (24 <=? ch) then wm_scan t (non_ascii + 1)   (* ch < 0 || ch >= 24 *)
      else if (ch =? 10) || (ch =? 13) || (ch =? 9) || (ch =? 8) || (ch =? 12) then wm_scan t non_ascii
      else None                                                       (* other control character: hex *)
  end.
Definition wm_use_hex (s : list N) : bool :=
  match wm_scan s 0 with
  | None => true
  | Some na => N.of_nat (length s) <? 5 * na
  end.

Definition wm_oct3 (c : N) : list N := [48 + c / 64; 48 + (c / 8) mod 8; 48 + c mod 8].

Definition wm_lit_char (ch : N) : list N :=
  if ch =? 10 then [92; 110] else if ch =? 13 then [92; 114] else if ch =? 9 then [92; 116]
  else if ch =? 8 then [92; 98] else if ch =? 12 then [92; 102]
  else if ch =? 40 then [92; 40] else if ch =? 41 then [92; 41] else if ch =? 92 then [92; 92]
  else if ((32 <=? ch) && (ch <=? 126)) || (160 <=? ch) then [ch]
  else 92 :: wm_oct3 ch.

Definition wm_unparse_string (s : list N) : list N :=
  if wm_use_hex s then 60 :: flat_map (fun b => [wm_hexd (b / 16); wm_hexd (b mod 16)]) s ++ [62]
  else 40 :: flat_map wm_lit_char s ++ [41].

Definition wm_name_char (ch : N) : list N :=
  if ch =? 0 then [35]
  else if (ch <? 33) || (128 <=? ch) || (126 <? ch)
          || (ch =? 35) || (ch =? 47) || (ch =? 40) || (ch =? 41) || (ch =? 123) || (ch =? 125)
          || (ch =? 60) || (ch =? 62) || (ch =? 91) || (ch =? 93) || (ch =? 37)
       then [35; wm_hexd (ch / 16); wm_hexd (ch mod 16)]
  else [ch].
(* the name is given without its leading slash *)
Definition wm_unparse_name (n : list N) : list N := 47 :: flat_map wm_name_char n.
