(* C13 extension - executable test for "the document is a well-formed nested page tree" (the hypothesis pgn_wf of
   first_flatten_nested_lemma in Struct/C13ProofsN.v).  Definitions only (extracted as an oracle); soundness is
   nested_check_sound_lemma in Struct/C13ProofsK.v.  The harness evaluates pgn_wf_chk on the documents it generates, so
   the share of them that lies inside the theorem's hypothesis is measured, not assumed. *)
From QV Require Import Base.Bytes Struct.PgModel Struct.PgxOracle.
Local Open Scope N_scope.

(* a direct leaf dictionary: no /Kids, /Type a direct value other than /Pages and /Catalog (the two conditions of
   PgxOracle.pgx_leafy_chk) *)
Definition pgn_leafy_d_chk (dk : pg_dict) : bool :=
  (match pg_dget dk pgk_Kids with PvNull => true | _ => false end) &&
  (match pg_dget dk pgk_Type with
   | PvRef _ => false
   | PvName n => negb (pg_key_eqb n pgk_Pages) && negb (pg_key_eqb n pgk_Catalog)
   | _ => true
   end).

(* node ids in preorder and leaf handles in document order; None when n is not a well-formed node of height <= fuel:
   a node is a dictionary with a direct /Kids array whose elements are indirect leaves, direct leaf dictionaries, or
   references to nodes of height <= fuel - 1 *)
Fixpoint pgn_walk_chk (fuel : nat) (s : pg_store) (n : N) : option (list N * list pg_val) :=
  match fuel with
  | O => None
  | S f =>
    match pg_lookup s n with
    | Some (PcObj (PvDict dd)) =>
        match pg_dget dd pgk_Kids with
        | PvArr kids =>
            match fold_right (fun (h : pg_val) (acc : option (list N * list pg_val)) =>
                    match acc with
                    | None => None
                    | Some (ns, ls) =>
                        match h with
                        | PvRef k =>
                            if pgx_leafy_chk s k then Some (ns, h :: ls)
                            else match pgn_walk_chk f s k with
                                 | Some (ns1, ls1) => Some (ns1 ++ ns, ls1 ++ ls)
                                 | None => None
                                 end
                        | PvDict dk => if pgn_leafy_d_chk dk then Some (ns, h :: ls) else None
                        | _ => None
                        end
                    end) (Some ([], [])) kids with
            | Some (ns, ls) => Some (n :: ns, ls)
            | None => None
            end
        | _ => None
        end
    | _ => None
    end
  end.

Definition pgn_is_ref_to_chk (r : N) (h : pg_val) : bool := match h with PvRef k => k =? r | _ => false end.

(* fuel 42: height <= 42, the bound under which PgxOracle.pgx_doc_leaves (fuel 42) sees the whole tree *)
Definition pgn_wf_chk (p : pg_doc) : bool :=
  match pg_root_pages p with
  | PvRef pn =>
      match pgn_walk_chk 42 (pd_store p) pn with
      | Some (nodes, leaves) =>
          pgx_nodup_chk nodes && negb (pg_memN (pd_root p) nodes) &&
          negb (existsb (pgn_is_ref_to_chk (pd_root p)) leaves) &&
          (match pg_lookup (pd_store p) pn with
           | Some (PcObj (PvDict d)) =>
               (match pg_dget d pgk_Parent with PvNull => true | _ => false end) &&
               (match pg_dget d pgk_Count with PvInt z => (z =? pg_len leaves)%Z | _ => false end)
           | _ => false
           end) &&
          (match pd_all p with [] => true | _ => false end) &&
          (match pd_pos p with [] => true | _ => false end) &&
          negb (pd_invalid p)
      | None => false
      end
  | _ => false
  end.
