(* Model of libqpdf/QPDF_encryption.cc (class QPDF::Doc::Encryption and QPDF::compute_data_key),
   written function by function from the C++: what qpdf computes when it WRITES an encrypted file
   (compute_parameters: /O /U, /OE /UE /Perms, file key, per-object keys) and what it computes when
   it checks passwords. Random bytes (file key, salts, the 4 random bytes of /Perms) are an input.
   /P is kept as the unsigned 32-bit value of the bitset. *)
From QV Require Import Base.Bytes Crypto.Nib Filters.Filters Crypto.MD5 Crypto.SHA2Fast Crypto.AES Crypto.AesPdf.
Local Open Scope N_scope.

Record enc_data := {
  ed_V : N; ed_R : N; ed_len : N;      (* Length_bytes *)
  ed_P : N;
  ed_O : list N; ed_U : list N; ed_OE : list N; ed_UE : list N; ed_Perms : list N;
  ed_id1 : list N;
  ed_encmeta : bool
}.

Definition kd_padding_string : list N :=
  [40;191;78;94;78;117;138;65;100;0;78;86;255;250;1;8;
   46;46;0;182;208;104;62;128;47;12;169;254;100;83;105;122].

Definition kd_key_bytes : nat := 32.

(* pad_or_truncate_password_V4 *)
Definition kd_pad_password (pw : list N) : list N :=
  firstn kd_key_bytes (if Nat.ltb (length pw) kd_key_bytes then pw ++ kd_padding_string else pw).

(* iterate_md5_digest(md5, iterations, key_len), digest = the digest of what was fed so far *)
Fixpoint kd_md5_iter (n : nat) (len : nat) (digest : list N) : list N :=
  match n with
  | O => digest
  | S n' => kd_md5_iter n' len (md5 (firstn len digest))
  end.
Definition kd_iterate_md5_digest (fed : list N) (iterations : nat) (key_len : N) : list N :=
  let len := Nat.min (N.to_nat key_len) 16 in
  firstn len (kd_md5_iter iterations len (md5 fed)).

(* iterate_rc4(data, okey, iterations, reverse) *)
Fixpoint kd_iterate_rc4_loop (n : nat) (i : N) (iterations : N) (reverse : bool) (okey data : list N) : list N :=
  match n with
  | O => data
  | S n' =>
      let xv := if reverse then iterations - 1 - i else i in
      kd_iterate_rc4_loop n' (i + 1) iterations reverse okey (rc4 (map (fun b => N.lxor b xv) okey) data)
  end.
Definition kd_iterate_rc4 (data okey : list N) (iterations : N) (reverse : bool) : list N :=
  kd_iterate_rc4_loop (N.to_nat iterations) 0 iterations reverse okey data.

(* pad_short_parameter *)
Definition kd_pad_short (s : list N) (n : nat) : list N := s ++ repeat 0 (n - length s)%nat.

(* process_with_aes(key, encrypt, data, outlength = 0, repetitions, iv): padding disabled, zero IV
   unless one is given *)
Definition kd_process_with_aes (key : list N) (encrypt : bool) (data : list N) (repetitions : nat)
           (iv : option (list N)) : list N :=
  let ivm := match iv with Some v => IvGiven v | None => IvZero end in
  let input := concat (repeat data repetitions) in
  opt_bytes (if encrypt then pl_aes_encrypt key true ivm false input
             else pl_aes_decrypt key true ivm false input).

Definition kd_sum_bytes (l : list N) : N := fold_left N.add l 0.

(* the loop of Algorithm 2.B as hash_V5 runs it; it stops at round 287 at the latest (last byte <= 255) *)
Fixpoint kd_hash_loop (fuel : nat) (round_number : N) (pw K udata : list N) : list N :=
  match fuel with
  | O => K
  | S f =>
      let rn := round_number + 1 in
      let K1 := pw ++ K ++ udata in
      let E := kd_process_with_aes (firstn 16 K) true K1 64 (Some (firstn 16 (skipn 16 K))) in
      let e_mod_3 := (kd_sum_bytes (firstn 16 E)) mod 3 in
      let K' := if e_mod_3 =? 0 then sha256f E else if e_mod_3 =? 1 then sha384f E else sha512f E in
      if (64 <=? rn) && (last E 0 <=? rn - 32) then K' else kd_hash_loop f rn pw K' udata
  end.

(* Encryption::hash_V5 *)
Definition kd_hash_V5 (R : N) (pw salt udata : list N) : list N :=
  let K := sha256f (pw ++ salt ++ udata) in
  if R <? 6 then K else firstn 32 (kd_hash_loop 300 0 pw K udata).

(* QPDF::compute_data_key *)
Definition kd_compute_data_key (key : list N) (objid gen : N) (use_aes : bool) (V : N) : list N :=
  if 5 <=? V then key else
  let r := key ++ [N.land objid 255; N.land (N.shiftr objid 8) 255; N.land (N.shiftr objid 16) 255;
                   N.land gen 255; N.land (N.shiftr gen 8) 255]
               ++ (if use_aes then [115; 65; 108; 84] else []) in
  firstn (length r) (md5 r).

(* compute_encryption_key_from_password *)
Definition kd_key_from_password (ed : enc_data) (pw : list N) : list N :=
  kd_iterate_md5_digest
    (kd_pad_password pw ++ ed_O ed ++ bytes_le32 (ed_P ed) ++ ed_id1 ed
       ++ (if (4 <=? ed_R ed) && negb (ed_encmeta ed) then [255; 255; 255; 255] else []))
    (if 3 <=? ed_R ed then 50 else 0) (ed_len ed).

(* compute_O_rc4_key *)
Definition kd_O_rc4_key (ed : enc_data) (user_pw owner_pw : list N) : list N :=
  let password := match owner_pw with [] => user_pw | _ => owner_pw end in
  kd_iterate_md5_digest (kd_pad_password password) (if 3 <=? ed_R ed then 50 else 0) (ed_len ed).

(* compute_O_value *)
Definition kd_O_value (ed : enc_data) (user_pw owner_pw : list N) : list N :=
  let upass := kd_pad_password user_pw in
  let okey := kd_pad_short (kd_O_rc4_key ed user_pw owner_pw) (N.to_nat (ed_len ed)) in
  kd_iterate_rc4 upass okey (if 3 <=? ed_R ed then 20 else 1) false.

Definition kd_U_tail : list N := [0;33;68;105;144;185;228;17;64;113;164;217;16;73;132;193].

(* compute_U_value_R2 / _R3 / compute_U_value (V < 5: compute_encryption_key = key from password) *)
Definition kd_U_value (ed : enc_data) (user_pw : list N) : list N :=
  let k1 := kd_pad_short (kd_key_from_password ed user_pw) (N.to_nat (ed_len ed)) in
  if 3 <=? ed_R ed then
    kd_iterate_rc4 (md5 (kd_padding_string ++ ed_id1 ed)) k1 20 false ++ kd_U_tail
  else
    kd_iterate_rc4 kd_padding_string k1 1 false.

Definition kd_with_OU (ed : enc_data) (O U : list N) : enc_data :=
  {| ed_V := ed_V ed; ed_R := ed_R ed; ed_len := ed_len ed; ed_P := ed_P ed; ed_O := O; ed_U := U;
     ed_OE := ed_OE ed; ed_UE := ed_UE ed; ed_Perms := ed_Perms ed; ed_id1 := ed_id1 ed;
     ed_encmeta := ed_encmeta ed |}.

(* compute_encryption_O_U: O first, then U with O in place *)
Definition kd_compute_O_U (ed : enc_data) (user_pw owner_pw : list N) : enc_data :=
  let O := kd_O_value ed user_pw owner_pw in
  let ed1 := kd_with_OU ed O (ed_U ed) in
  kd_with_OU ed1 O (kd_U_value ed1 user_pw).

(* check_user_password_V4 *)
Definition kd_check_user_V4 (ed : enc_data) (pw : list N) : bool :=
  let n := if 3 <=? ed_R ed then 16%nat else kd_key_bytes in
  list_eqb N.eqb (firstn n (ed_U ed)) (firstn n (kd_U_value ed pw)).

(* check_owner_password_V4: returns the recovered (padded) user password when it checks *)
Definition kd_check_owner_V4 (ed : enc_data) (owner_pw : list N) : option (list N) :=
  let key := kd_pad_short (kd_O_rc4_key ed [] owner_pw) (N.to_nat (ed_len ed)) in
  let new_user := kd_iterate_rc4 (firstn kd_key_bytes (ed_O ed)) key (if 3 <=? ed_R ed then 20 else 1) true in
  if kd_check_user_V4 ed new_user then Some new_user else None.

(* check_user_password_V5 / check_owner_password_V5 *)
Definition kd_check_user_V5 (ed : enc_data) (pw : list N) : bool :=
  list_eqb N.eqb (kd_hash_V5 (ed_R ed) (firstn 127 pw) (firstn 8 (skipn 32 (ed_U ed))) [])
           (firstn 32 (ed_U ed)).
Definition kd_check_owner_V5 (ed : enc_data) (pw : list N) : bool :=
  list_eqb N.eqb (kd_hash_V5 (ed_R ed) (firstn 127 pw) (firstn 8 (skipn 32 (ed_O ed))) (firstn 48 (ed_U ed)))
           (firstn 32 (ed_O ed)).

(* compute_Perms_value_V5_clear, with the 4 random bytes given *)
Definition kd_perms_clear (ed : enc_data) (rnd4 : list N) : list N :=
  bytes_le32 (ed_P ed) ++ [255; 255; 255; 255] ++ [if ed_encmeta ed then 84 else 70] ++ [97; 100; 98]
  ++ firstn 4 (rnd4 ++ [0;0;0;0]).

(* recover_encryption_key_with_password: (file key, perms_valid) *)
Definition kd_recover_key_V5 (ed : enc_data) (password : list N) : list N * bool :=
  let key_password := firstn 127 password in
  let '(key_salt, user_data, encrypted_file_key) :=
    if kd_check_owner_V5 ed key_password then
      (firstn 8 (skipn 40 (ed_O ed)), firstn 48 (ed_U ed), firstn 32 (ed_OE ed))
    else if kd_check_user_V5 ed key_password then
      (firstn 8 (skipn 40 (ed_U ed)), [], firstn 32 (ed_UE ed))
    else ([], [], []) in
  let intermediate_key := kd_hash_V5 (ed_R ed) key_password key_salt user_data in
  let file_key := kd_process_with_aes intermediate_key false encrypted_file_key 1 None in
  let perms_check := firstn 12 (kd_process_with_aes file_key false (ed_Perms ed) 1 None) in
  (file_key, list_eqb N.eqb (firstn 12 (kd_perms_clear ed [])) perms_check).

(* Encryption::compute_encryption_key *)
Definition kd_compute_encryption_key (ed : enc_data) (pw : list N) : list N :=
  if 5 <=? ed_V ed then fst (kd_recover_key_V5 ed pw) else kd_key_from_password ed pw.

Record v5_params := {
  v5_key : list N; v5_O : list N; v5_U : list N; v5_OE : list N; v5_UE : list N; v5_Perms : list N
}.

(* compute_encryption_parameters_V5; rnd = the bytes the random data provider returns, in call
   order: file key 32, user validation salt 8, user key salt 8, owner validation salt 8, owner key
   salt 8, /Perms filler 4. The passwords are truncated to 127 bytes first, as the checking side does
   (fix 032abc49; before it the whole password was hashed and files with longer passwords could not be opened). *)
Definition kd_compute_parameters_V5 (ed : enc_data) (user_pw_p owner_pw_p rnd : list N) : v5_params :=
  let user_pw := firstn 127 user_pw_p in
  let owner_pw := firstn 127 owner_pw_p in
  let R := ed_R ed in
  let key := firstn 32 rnd in
  let uvs := firstn 8 (skipn 32 rnd) in
  let uks := firstn 8 (skipn 40 rnd) in
  let ovs := firstn 8 (skipn 48 rnd) in
  let oks := firstn 8 (skipn 56 rnd) in
  let r4 := firstn 4 (skipn 64 rnd) in
  let U := kd_hash_V5 R user_pw uvs [] ++ uvs ++ uks in
  let UE := kd_process_with_aes (kd_hash_V5 R user_pw uks []) true key 1 None in
  let O := kd_hash_V5 R owner_pw ovs U ++ ovs ++ oks in
  let OE := kd_process_with_aes (kd_hash_V5 R owner_pw oks U) true key 1 None in
  let Perms := kd_process_with_aes key true (kd_perms_clear ed r4) 1 None in
  {| v5_key := key; v5_O := O; v5_U := U; v5_OE := OE; v5_UE := UE; v5_Perms := Perms |}.

Definition kd_with_V5 (ed : enc_data) (p : v5_params) : enc_data :=
  {| ed_V := ed_V ed; ed_R := ed_R ed; ed_len := ed_len ed; ed_P := ed_P ed; ed_O := v5_O p; ed_U := v5_U p;
     ed_OE := v5_OE p; ed_UE := v5_UE p; ed_Perms := v5_Perms p; ed_id1 := ed_id1 ed;
     ed_encmeta := ed_encmeta ed |}.

(* Encryption::compute_parameters: the encryption dictionary values and the file key the writer uses *)
Definition kd_compute_parameters (ed : enc_data) (user_pw owner_pw rnd : list N) : enc_data * list N :=
  if ed_V ed <? 5 then
    let ed' := kd_compute_O_U ed user_pw owner_pw in
    (ed', kd_key_from_password ed' user_pw)
  else
    let p := kd_compute_parameters_V5 ed user_pw owner_pw rnd in
    (kd_with_V5 ed p, v5_key p).

(* what the writer does with one string / stream of object (objid, gen): write_encrypted /
   the ot_string branch of unparseObject. iv = the 16 bytes Pl_AES_PDF::initializeVector produced. *)
Definition kd_encrypt_data (file_key : list N) (V : N) (use_aes : bool) (objid gen : N) (iv data : list N)
  : option (list N) :=
  let k := kd_compute_data_key file_key objid gen use_aes V in
  if use_aes then pl_aes_encrypt k true (IvWritten iv) true data else Some (rc4 k data).

(* decryptString / decryptStream of qpdf's own reader *)
Definition kd_decrypt_data (file_key : list N) (V : N) (use_aes : bool) (objid gen : N) (data : list N)
  : option (list N) :=
  let k := kd_compute_data_key file_key objid gen use_aes V in
  if use_aes then pl_aes_decrypt k true (IvWritten []) true data else Some (rc4 k data).
