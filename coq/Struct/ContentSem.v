(* C16.  What a content stream MEANS, as far as property C16 is concerned: the sequence of operands and
   operators "up to token spelling".  Written from ISO 32000-1:2008 (7.8.2 content streams, 7.2-7.3 lexical
   conventions through the independent specification lexer Lex/LexSpec.v, 8.9.7 inline images); nothing
   here refers to qpdf's code, to Lex/TokModel.v or to Struct/ContentNorm.v.

   - white space and comments carry no meaning and are dropped;
   - a number means its value: 1, 1.0, +1., 01 are the same operand (mantissa / 10^scale in lowest terms of 10);
   - a string means its bytes, a name its bytes (after #xx decoding), a keyword (operator) its spelling;
   - 8.9.7: the operator ID is followed by ONE white-space byte, then the image data, then the operator EI;
     the data extend to the first "EI" that is preceded by a white-space byte and followed by a white-space
     byte, a delimiter or the end of the stream (the wording of the property).  The white-space byte that
     precedes EI belongs to the data unless it is the byte that follows ID (empty data).  The image dictionary
     between BI and ID consists of ordinary tokens and is kept as such.
   A stream the standard gives no reading to (LexSpec: LexInvalid; ID not followed by a white-space byte; no EI)
   has no meaning: None. *)
From QV Require Import Base.Bytes Lex.LexSpec.
Local Open Scope N_scope.

Inductive c16_sem_token :=
| CsNum (mant : Z) (scale : N)
| CsStr (s : list N)
| CsName (n : list N)
| CsBool (b : bool)
| CsNull
| CsOp (w : list N)
| CsArrOpen | CsArrClose | CsDictOpen | CsDictClose | CsBraceOpen | CsBraceClose
| CsImage (data : list N).

(* mant / 10^scale with trailing zeros of the fraction removed *)
Fixpoint c16_num_canon (fuel : nat) (m : Z) (k : N) : Z * N :=
  match fuel with
  | O => (m, k)
  | S f => if (k =? 0) then (m, k)
           else if (Z.rem m 10 =? 0)%Z then c16_num_canon f (Z.quot m 10) (k - 1) else (m, k)
  end.

Definition c16_sem_of (t : ptoken) : c16_sem_token :=
  match t with
  | PInt z => CsNum z 0
  | PReal m k => let '(m', k') := c16_num_canon (N.to_nat k) m k in CsNum m' k'
  | PStr s => CsStr s
  | PName n => CsName n
  | PBool b => CsBool b
  | PNull => CsNull
  | PKeyword w => CsOp w
  | PArrOpen => CsArrOpen | PArrClose => CsArrClose
  | PDictOpen => CsDictOpen | PDictClose => CsDictClose
  | PBraceOpen => CsBraceOpen | PBraceClose => CsBraceClose
  end.

Definition c16_kw_ID : list N := [73; 68].

(* end of a token: end of stream, white space or a delimiter follows *)
Definition c16_ends_token (s : list N) : bool :=
  match s with [] => true | x :: _ => negb (iso_regular x) end.

(* s = the bytes after the single white-space byte that follows ID; prev_white = the byte just before s is
   white space.  Some (data, rest): rest = what follows EI. *)
Fixpoint c16_image_data (prev_white : bool) (s : list N) : option (list N * list N) :=
  match s with
  | [] => None
  | b :: r =>
      let here := match r with
                  | c :: r2 => prev_white && (b =? 69) && (c =? 73) && c16_ends_token r2
                  | [] => false
                  end in
      if here then Some ([], tl r)
      else match c16_image_data (iso_white b) r with
           | Some (d, rest) => Some (b :: d, rest)
           | None => None
           end
  end.

(* what follows the keyword ID: Some (data, rest after EI) *)
Definition c16_after_ID (rest : list N) : option (list N * list N) :=
  match rest with
  | ws :: d => if iso_white ws then c16_image_data true d else None
  | [] => None
  end.

Fixpoint c16_sem_fuel (fuel : nat) (inp : list N) (acc : list c16_sem_token) : option (list c16_sem_token) :=
  match fuel with
  | O => None
  | S f =>
      match spec_next inp with
      | LexEnd => Some (rev' acc)
      | LexInvalid => None
      | LexTok t rest =>
          match t with
          | PKeyword w =>
              if list_eqb N.eqb w c16_kw_ID then
                match c16_after_ID rest with
                | Some (data, rest') => c16_sem_fuel f rest' (CsImage data :: CsOp w :: acc)
                | None => None
                end
              else c16_sem_fuel f rest (CsOp w :: acc)
          | _ => c16_sem_fuel f rest (c16_sem_of t :: acc)
          end
      end
  end.

Definition c16_sem (inp : list N) : option (list c16_sem_token) := c16_sem_fuel (S (length inp)) inp [].

(* one step of the reading, as a function of its own (used to state hypotheses about a stream step by step) *)
Inductive c16_step_res :=
| CsEnd | CsInvalid | CsStep (toks : list c16_sem_token) (rest : list N).

Definition c16_step (inp : list N) : c16_step_res :=
  match spec_next inp with
  | LexEnd => CsEnd
  | LexInvalid => CsInvalid
  | LexTok t rest =>
      match t with
      | PKeyword w =>
          if list_eqb N.eqb w c16_kw_ID then
            match c16_after_ID rest with
            | Some (data, rest') => CsStep [CsOp w; CsImage data] rest'
            | None => CsInvalid
            end
          else CsStep [CsOp w] rest
      | _ => CsStep [c16_sem_of t] rest
      end
  end.

(* the images of a stream, in order (used for the externalisation clause) *)
Definition c16_sem_images (ts : list c16_sem_token) : list (list N) :=
  flat_map (fun t => match t with CsImage d => [d] | _ => [] end) ts.
